"""X05 "ErrorPaths" - how a transfer ends with an error: what each side tells the other and shows
the user.  Spec: spec/ErrorPaths.tla, the error-termination sub-protocol that Transfer.tla
abstracts into the single step `Fail` (clientError / serverError / serverExit / resetTerm /
cleanInput / deleteCreatedFiles / recvCheck's handling of fail, FAIL, EXIT / trzszError).
Properties (TLC, exhaustively over: which side fails first x error class {plain i/o error,
simple error, protocol violation, panic, time-out, user stop keep / delete, the peer's fail /
FAIL / EXIT line} x direction x both sides failing at once (crossing lines) x created-files sets
x dead / muted connections x forged lines x background path):
  ToldAtMostOnce, ToldUnlessPeerKnows, KindMatchesTraceback, ShownIsSent, OnlyCreated,
  TermResetOnce, DrainBounded (+ Termination).
 1. design: two exhaustive configurations (thorough: larger), every action must fire; seven
    mutant designs and the as-coded createdFiles variant must each violate their invariant.
 2. impl -> spec: real executions recorded by harness/x05_errorpaths.go --
    x05_paths (real handleTrzsz/uploadFiles/downloadFiles/clientError against the real
    recvFiles/sendFiles role bodies + serverError over the tapped wire; errors provoked at
    chosen protocol positions: stop keep/delete on either side, write errors, silence, panics in
    the role's own goroutine, forged fail/FAIL/EXIT/garbage/undecodable lines, several at once),
    x05_term (resetTerm/serverExit/serverError/background path on a real trzszTransfer in all
    orders and concurrently), validated by spec/ErrorPathsTrace.tla which re-uses the design's
    actions; every design invariant is evaluated at every step; what the server printed, what
    the client's caller got, which files are left and the time to return must be explained.
 3. x05_drain: cleanInput against a peer that keeps sending (measurement; see OBSERVATIONS).
Findings that exist on the unchanged tree and are outside C01..C20 are listed in OBSERVATIONS
(stable keys) and reported in the coverage dict instead of as violations; anything else that a
recorded execution shows is a violation."""
import os, json, re, glob, time
from concurrent.futures import ThreadPoolExecutor
import vlib
from checks import e2ecommon as E

ASSUMPTIONS = [
    "texts are compared as (header, number of stack traces, listed paths): the content of a stack trace is not compared",
    "the error value handed to clientError/serverError is taken from the role body's return value / the one-time-upload result (steering); where none is observable (download client, recovered panic) it is derived from the line the client wrote",
    "the server role body is wrapped like TrzMain/TszMain wrap it: serverError on error and a deferred recover -> serverError(panic) (in the binaries the recover sits on the main goroutine)",
    "the background path is resetTerm(\"Switch to transfer in background.\", true) called directly (switchToBackground would close the harness's stdin/stderr)",
    "a created entry is a top-level destination entry the receiving role acknowledged, that appeared/changed, or that a deleted-files list names",
    "in time = read time-out + 1.5 s drains + 8 s slack, measured from the later of (first provocation, last input delivered to the role)",
    "forged lines are inserted at message boundaries of base64-mode transfers",
]

# Findings present on the unchanged tree, outside the project's twenty properties (and not at the
# same time a violation of C10 / C11).  key regex -> description.
OBSERVATIONS = {
    r"^delete-preexisting-overwritten$":
        "createdFiles records every path doCreateFile opens, also a destination file that existed before and is "
        "opened for overwriting / resuming (-y): stop-and-delete then removes that file and lists it as deleted "
        "(ErrorPaths OnlyCreated holds for the required design, fails for AsCoded = TRUE; the recorded runs are "
        "behaviours of the as-coded variant only).  C10's oracle counts an entry the transfer was asked to "
        "overwrite as the transfer's own, so C10 as built holds.",
    r"^drain-waits-for-silence$":
        "cleanInput has no deadline of its own: it returns only after the peer has been silent for the clean "
        "time-out, so a peer that keeps sending at shorter intervals keeps clientError/serverError (and the fail "
        "line) waiting for as long as it sends.  Real trzsz peers stop after their window of unacknowledged data, "
        "so C10/C11 hold (they are checked with real peers).",
}

MUTANTS = {"answer": "ToldAtMostOnce", "allFAIL": "KindMatchesTraceback", "listall": "ShownIsSent", "nocas": "TermResetOnce",
           "notell": "ToldUnlessPeerKnows", "trace": "KindMatchesTraceback", "flood": "DrainBounded"}
ACTIONS = ["Create", "Local", "NoticeStop", "Remote", "CleanDrain", "CleanDone", "TellC", "TellV", "VExitOk", "CExit",
           "ResetTerm", "BgReset", "DropDone", "UserStop", "PeerNoise", "Inject", "Break"]


class Collector:
    """Stands in for the Verdict while judging: keeps (key, text, payload)."""
    def __init__(self):
        self.items = []

    def violation(self, key, text, payload):
        self.items.append((key, text, payload))


def label_of(run):
    r0 = run[0] if run else {}
    lab = str(r0.get("label", "?"))
    return lab.split("@")[0], ("term" if r0.get("mode") == "term" else ("up" if r0.get("upload") else "down"))


def explain(kind, run):
    """Name the property a rejected observation belongs to."""
    m = re.match(r"reject-(\w+)-(.*)", kind)
    if not m:
        return kind
    ev, arg = m.group(1), m.group(2)
    if ev == "shown":
        bad = [e for e in run if e.get("e") == "shown" and e.get("role") == arg]
        if arg == "V" and bad and (bad[-1].get("resets") != 1 or bad[-1].get("prints") != 1):
            return "TermResetOnce"
        return "ShownIsSent-" + arg
    if ev == "fs":
        return "DeleteExact"
    if ev == "time":
        return "DrainBounded"
    if ev == "tell":
        return "Told-" + arg          # a line the design does not write here (or writes differently)
    if ev == "err":
        return "ErrorValue"
    return kind


def keyfn(kind, run, det):
    plan, dirn = label_of(run)
    return "%s:%s:%s" % (explain(kind, run), plan, dirn)


def design(quick, cov):
    cfgs = ["ErrorPaths_quick.cfg", "ErrorPaths_quick2.cfg", "ErrorPaths_quick3.cfg"]
    if not quick:
        cfgs = ["ErrorPaths_thorough.cfg", "ErrorPaths_thorough2.cfg"] + cfgs
    muts = ["answer", "allFAIL", "listall", "nocas"] if quick else list(MUTANTS)
    jobs = [("design", c) for c in cfgs] + [("mutant", m) for m in muts] + [("ascoded", None)]

    def one(j):
        kind, a = j
        if kind == "design":
            return j, vlib.tlc("ErrorPaths", a, workers=6 if quick else 8, timeout=1500, heap="3g" if quick else "12g", coverage=a in ("ErrorPaths_quick2.cfg", "ErrorPaths_quick3.cfg"))
        if kind == "mutant":
            return j, vlib.tlc("ErrorPaths", "ErrorPaths_mut_%s.cfg" % a, workers=2, timeout=600, heap="1g")
        return j, vlib.tlc("ErrorPaths", "ErrorPaths_ascoded.cfg", workers=2, timeout=600, heap="1g")

    with ThreadPoolExecutor(max_workers=6 if quick else 4) as ex:
        res = list(ex.map(one, jobs))
    cov["states"], cov["transitions"], cov["design_configs"] = 0, 0, {}
    fired = {}
    for (kind, a), r in res:
        if kind == "design":
            if not r["ok"]:
                raise vlib.Infra("ErrorPaths (%s) violates %s on the design level:\n%s" % (a, r["violated"], r["out"][-3000:]))
            cov["states"] += r["distinct"]
            cov["transitions"] += r["states"]
            cov["design_configs"][a] = {"distinct": r["distinct"], "generated": r["states"], "wall_s": r["wall_s"], "depth": r.get("depth")}
            for act, (d, g) in vlib.action_counts(r["out"]).items():
                fired[act] = fired.get(act, 0) + g
            # actions under a quantifier inside RoleStep are reported by position: "<RoleStep ... (l c l c)>: d:g"
            src = open(os.path.join(vlib.VERIF, "spec", "ErrorPaths.tla")).read().splitlines()
            for m in re.finditer(r"^<RoleStep line .*\((\d+) (\d+) (\d+) (\d+)\)>: (\d+):(\d+)$", r["out"], re.M):
                text = src[int(m.group(1)) - 1][int(m.group(2)) - 1:int(m.group(4))]
                for act in ("Remote", "VExitOk"):
                    if act + "(" in text:
                        fired[act] = fired.get(act, 0) + int(m.group(6))
        elif kind == "mutant":
            if r["violated"] != MUTANTS[a]:
                raise vlib.Infra("non-vacuity: mutant design %s should violate %s, got %s" % (a, MUTANTS[a], r["violated"]))
        else:
            if r["violated"] != "OnlyCreated":
                raise vlib.Infra("the as-coded createdFiles variant should violate OnlyCreated, got %s" % r["violated"])
    cov["mutant_designs_violate"] = {m: MUTANTS[m] for m in muts}
    cov["ascoded_design_violates"] = "OnlyCreated"
    cov["actions_fired"] = {a: fired.get(a, 0) for a in ACTIONS}
    dead = [a for a in ACTIONS if not fired.get(a)]
    if dead:
        raise vlib.Infra("actions that never fire in the exhaustive configurations: %s" % dead)
    cov["exhaustive"] = True


def split_ascoded(files, outdir):
    """Runs in which a deleted-files list names an entry that existed before the transfer (the
    as-coded createdFiles behaviour, see OBSERVATIONS) are judged against the as-coded variant of
    the trace spec; a few of them are shown to be rejected by the required one."""
    plain, cand = [], []
    for f in files:
        ev = vlib.read_ndjson(f)
        keep, runs, cur = [], [], []
        for e in ev + [{"e": "reset", "end": True}]:
            if e["e"] == "reset":
                if cur:
                    pre = set(cur[0].get("pre") or [])
                    hit = pre and any(set(x.get("fl") or []) & pre for x in cur if x["e"] in ("tell", "shown"))
                    (runs if hit else keep).append(cur)
                cur = []
            if not e.get("end"):
                cur.append(e)
        p = f.replace(".ndjson", ".plain.ndjson")
        with open(p, "w") as fh:
            for r in keep:
                for e in r:
                    fh.write(json.dumps(e) + "\n")
        if keep:
            plain.append(p)
        cand += runs
    cfiles = []
    if cand:
        k = min(1 if len(cand) < 40 else 4, len(cand))
        for i in range(k):
            p = os.path.join(outdir, "ascoded-%02d.ndjson" % i)
            with open(p, "w") as fh:
                for r in cand[i::k]:
                    for e in r:
                        fh.write(json.dumps(e) + "\n")
            cfiles.append(p)
    return plain, cfiles, cand


def judge(files, details, v, cov, outdir, confirm=3, selftest=False, quick=False):
    col = Collector()
    plain, cfiles, cand = split_ascoded(files, outdir)
    ps = []
    for i, r in enumerate(cand[:confirm]):
        p = os.path.join(outdir, "ascoded-confirm-%02d.ndjson" % i)
        with open(p, "w") as fh:
            for e in r:
                fh.write(json.dumps(e) + "\n")
        ps.append(p)
    with ThreadPoolExecutor(max_workers=4) as ex:
        fa = ex.submit(E.judge, plain, "ErrorPathsTrace", "ErrorPathsTrace.cfg", col, details, "x05", keyfn, True, 1500)
        fb = ex.submit(E.judge, cfiles, "ErrorPathsTrace", "ErrorPathsTrace_ascoded.cfg", col, details, "x05", keyfn, True, 1500) if cfiles else None
        # the required design rejects the as-coded runs (that is the finding): confirm on a few
        fc = ex.submit(vlib.validate_traces, "ErrorPathsTrace", "ErrorPathsTrace.cfg", ps, timeout=900) if ps else None
        fs = ex.submit(selftests, plain + cfiles, cov, quick) if selftest else None
        bad, _, st = fa.result()
        if fb:
            b2, _, s2 = fb.result()
            bad, st = bad + b2, st + s2
        res = fc.result() if fc else []
        if fs:
            fs.result()
    obs = cov.setdefault("observations", {})
    for key, text, payload in col.items:
        hit = next((d for rx, d in OBSERVATIONS.items() if re.search(rx, key)), None)
        if hit:
            o = obs.setdefault(key, {"what": hit, "count": 0, "example": text[:1500], "case": payload.get("case")})
            o["count"] += 1
        else:
            v.violation(key, text, payload)
    if cand:
        nrej = sum(1 for r in res if not r["accepted"])
        key = "delete-preexisting-overwritten"
        info = {"runs": len(cand), "checked_against_required_design": len(ps), "rejected_by_required_design": nrej,
                "accepted_by_ascoded_variant": True, "example_events": cand[0][:14], "case": (details.get(cand[0][0].get("run")) or {}).get("case")}
        hit = next((d for rx, d in OBSERVATIONS.items() if re.search(rx, key)), None)
        if nrej and hit:
            info["what"] = hit
            obs[key] = info
        elif nrej:
            v.violation(key, "stop-and-delete removed and listed an entry that existed before the transfer", {"case": info["case"], "events": cand[0]})
    cov["runs_judged_by_ascoded_variant"] = len(cand)
    return bad, st, plain + cfiles


def selftests(files, cov, quick=False):
    """Binding demonstration: corrupted recordings must be rejected."""
    def first(ev, pred):
        return next((i for i, e in enumerate(ev) if pred(e)), None)

    def flip_kind(ev):
        ev = [dict(e) for e in ev]
        i = first(ev, lambda e: e.get("e") == "tell" and e.get("t") == "fail" and not e.get("fl"))
        ev[i]["t"] = "FAIL"
        return ev

    def answer(ev):      # the receiving side answers a fail line with its own
        ev = [dict(e) for e in ev]
        i = first(ev, lambda e: e.get("e") == "err" and e.get("cls") == "remote" and e.get("role") == "V")
        e = ev[i]
        ev.insert(i + 1, {"e": "tell", "run": e["run"], "role": "V", "t": "fail", "x": e["x"], "tb": e["tb"], "fl": [], "lost": False})
        return ev

    def two_resets(ev):
        ev = [dict(e) for e in ev]
        i = first(ev, lambda e: e.get("e") == "shown" and e.get("role") == "V")
        ev[i]["resets"] = 2
        return ev

    def other_text(ev):
        ev = [dict(e) for e in ev]
        i = first(ev, lambda e: e.get("e") == "shown" and e.get("role") == "V" and not e.get("ok"))
        ev[i]["x"] = ev[i]["x"] + 50
        return ev

    def extra_trace(ev):
        ev = [dict(e) for e in ev]
        i = first(ev, lambda e: e.get("e") == "shown" and e.get("role") == "V" and not e.get("ok"))
        ev[i]["tb"] = ev[i]["tb"] + 1
        return ev

    def drop_line(ev):
        i = first(ev, lambda e: e.get("e") == "tell" and e.get("t") in ("fail", "FAIL"))
        return ev[:i] + ev[i + 1:]

    def left_behind(ev):
        ev = [dict(e) for e in ev]
        i = first(ev, lambda e: e.get("e") == "tell" and e.get("fl"))
        j = first(ev[i:], lambda e: e.get("e") == "fs") + i
        ev[j]["left"] = sorted(set(ev[j]["left"]) | set(ev[i]["fl"]))
        return ev

    def slow(ev):
        ev = [dict(e) for e in ev]
        i = first(ev, lambda e: e.get("e") == "time")
        ev[i]["ms"] = ev[i]["bound"] + 1
        return ev

    tests = {"kind_flipped": flip_kind, "remote_answered": answer, "two_resets": two_resets, "other_text_shown": other_text,
             "extra_trace_shown": extra_trace, "line_dropped": drop_line, "deleted_left_behind": left_behind, "too_slow": slow}
    if quick:
        tests = {k: tests[k] for k in ("kind_flipped", "remote_answered", "two_resets", "other_text_shown", "line_dropped")}
    need = {"kind_flipped": '"t":"fail"', "remote_answered": '"cls":"remote"', "deleted_left_behind": '"fl":[1'}

    def pick(name):
        pat = need.get(name)
        for f in files:
            txt = open(f).read()
            if pat is None or pat in txt.replace(" ", ""):
                if name != "deleted_left_behind" or re.search(r'"e":"tell","fl":\[\d', txt.replace(" ", "")):
                    return f
        return None

    def one(name):
        f = pick(name)
        if f is None:
            return name, None
        try:
            return name, vlib.selftest_reject("ErrorPathsTrace", "ErrorPathsTrace.cfg", f, tests[name], timeout=900)
        except (TypeError, IndexError):
            return name, None
    with ThreadPoolExecutor(max_workers=8) as ex:
        res = dict(ex.map(one, tests))
    cov["selftests_rejected"] = res
    if any(r is False for r in res.values()) or sum(1 for r in res.values() if r) < min(6, len(tests)):
        raise vlib.Infra("binding self-test failed: %s" % res)


def run(tier, v):
    quick = tier == "quick"
    cov = {"samples": [], "observations": {}}
    t0 = time.time()
    with ThreadPoolExecutor(max_workers=4) as ex:
        fd = ex.submit(design, quick, cov)
        h = vlib.build_harness(["e2e", "x05"])
        out = os.path.join(vlib.scratch(), "x05")
        out2 = os.path.join(vlib.scratch(), "x05term")
        out3 = os.path.join(vlib.scratch(), "x05drain")
        f1 = ex.submit(vlib.run_driver, h, "x05_paths", out, {"shards": 64, "thorough": not quick, "limit": 240 if quick else 0, "timeout": 1 if quick else 2}, 1500)
        f2 = ex.submit(vlib.run_driver, h, "x05_term", out2, {"shards": 16, "thorough": not quick}, 900)
        f3 = ex.submit(vlib.run_driver, h, "x05_drain", out3, {}, 300)
        s, s2, s3 = f1.result(), f2.result(), f3.result()
        cov["driver_wall_s"] = round(time.time() - t0, 1)
        files, details = E.gather(out, 3 if quick else 12)
        fl2, d2 = E.gather(out2, 1 if quick else 4)
        details.update(d2)
        if quick:                             # few JVMs: the term runs ride along in the first file
            with open(files[0], "a") as fh:
                fh.write(open(fl2[0]).read())
        else:
            files += fl2
        t1 = time.time()
        bad, st, files = judge(files, details, v, cov, out, confirm=1 if quick else 12, selftest=True, quick=quick)
        t2 = time.time()
        fd.result()
        cov["phase_wall_s"] = {"build+drivers": cov["driver_wall_s"], "judge+selftests": round(t2 - t1, 1), "design_wait": round(time.time() - t2, 1)}
        vlib.log("phases: %s" % cov["phase_wall_s"])
    cov["traces_validated_against_impl"] = s["runs"] + s2["runs"]
    cov["e2e_runs"], cov["term_runs"] = s["runs"], s2["runs"]
    cov["runs_skipped"] = {k: s[k] for k in s if k.startswith("skipped_")}
    cov["plans"] = {k[5:]: s[k] for k in s if k.startswith("plan_")}
    cov["tv_states"] = st
    cov["trace_files_rejected_rounds"] = bad
    # what the real code did, by outcome
    table, classes, crossing, maxms = {}, {}, 0, 0
    nev = 0
    for f in files:
        cur = None
        for e in vlib.read_ndjson(f):
            nev += 1
            if e["e"] == "reset":
                cur = {"errs": [], "lines": []}
            elif cur is None:
                continue
            elif e["e"] == "err":
                cur["errs"].append(e["role"] + ":" + e["cls"] + ("/" + e["remote"] if e["cls"] == "remote" else ""))
                classes[e["role"] + ":" + e["cls"]] = classes.get(e["role"] + ":" + e["cls"], 0) + 1
            elif e["e"] == "tell":
                cur["lines"].append(e["role"] + ":" + e["t"] + ("+list" if e["fl"] else ""))
            elif e["e"] == "time":
                maxms = max(maxms, e["ms"])
            elif e["e"] == "fs":
                k = "%s | %s" % (" ".join(sorted(cur["errs"])) or "ok", " ".join(cur["lines"]) or "-")
                table[k] = table.get(k, 0) + 1
                if len([l for l in cur["lines"] if not l.endswith(":EXIT")]) == 2:
                    crossing += 1
    cov["trace_events"] = nev
    cov["outcomes"] = dict(sorted(table.items(), key=lambda kv: -kv[1])[:60])
    cov["distinct_outcomes"] = len(table)
    cov["error_classes_seen"] = classes
    cov["runs_with_crossing_fail_lines"] = crossing
    cov["max_ms_to_return"] = maxms
    ev0 = vlib.read_ndjson(files[0])
    cov["samples"].append({"recorded_run": vlib.run_of(ev0, 0)[:14]})
    some = next((d for d in details.values() if "stopCdel" in json.dumps(d.get("case", {}))), None)
    if some:
        cov["samples"].append({"case": some["case"], "texts": some.get("texts"), "files": some.get("files")})
    # cleanInput against a peer that keeps sending
    rows = json.load(open(os.path.join(out3, "drain.json")))
    cov["drain_probes"] = rows
    ctl = min([r["ms"] - r["clean_ms"] for r in rows if r["peer_sends_ms"] == 0] or [0])   # scheduling delay of this machine right now
    late = [r for r in rows if r["gap_ms"] < r["clean_ms"] and r["peer_sends_ms"] >= r["clean_ms"] + 1000
            and (not r["returned"] or r["ms"] >= max(ctl, 0) + 3 * r["clean_ms"] + 500)]
    if late:
        key = "drain-waits-for-silence"
        hit = next((d for rx, d in OBSERVATIONS.items() if re.search(rx, key)), None)
        if hit:
            cov["observations"][key] = {"what": hit, "count": len(late), "example": late[0]}
        else:
            v.violation(key, "cleanInput did not return while the peer kept sending: %s" % late[0], {"probe": late[0]})
    return cov


def replay(path, v):
    rec = json.load(open(path))
    rp = rec["replay"]
    case = rp.get("case")
    if not case:
        print("nothing to re-run in this replay file (probe: %s)" % rp.get("probe"), flush=True)
        return {}
    h = vlib.build_harness(["e2e", "x05"])
    out = os.path.join(vlib.scratch(), "x05replay")
    os.makedirs(out, exist_ok=True)
    p = os.path.join(out, "cases.json")
    json.dump([case], open(p, "w"))
    if "exit" in case:
        vlib.run_driver(h, "x05_term", out, {"cases": p, "shards": 1})
    else:
        vlib.run_driver(h, "x05_replay", out, {"cases": p})
    files, details = E.gather(out, 1)
    for e in vlib.read_ndjson(files[0]):
        print(json.dumps(e), flush=True)
    cov = {}
    judge(files, details, v, cov, out)
    for k, o in cov.get("observations", {}).items():
        print("OBSERVATION %s: %s" % (k, o.get("what")), flush=True)
    return {}
