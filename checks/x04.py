"""X04 "RelaySched" (extension hosted by C13) - model-directed schedule replay with gates.
C13 perturbs the real relay with seeded random delays at the vhook points; X04 lets the model choose
the interleaving.  spec/RelayGen.tla reuses Relay's actions (through RelayMC) and records, in a history
variable, the steps a replayer can force: the chunk arrivals and the releases of the relay's three
goroutines (wrapInput, wrapOutput, handshake worker) from the vhook points of relay.go.  TLC exports
every maximal behaviour of small chunk patterns (breadth-first) and samples of larger ones (-simulate):
one transfer, a refused one, an undecodable CFG, two transfers through one relay with both ends
writing an end marker (the stale reset CAS), many parked chunks (a flush that has more to push than the
channel to the writer holds).  harness/x04_relaysched.go replays each behaviour on a real TrzszRelay with
verifHook installed as a gate (a goroutine waits at every vhook point until the scheduler releases it;
the scheduler feeds the chunks itself; a reader that loaded `handshaking` while the worker holds the lock
is released early so that it waits inside Lock(); selected behaviours run with a slowly draining peer or
on one P).  If the goroutine the model wants next does not show up, all gates open and the run counts as
`diverged` (never a verdict); a watchdog ends a run that hangs (noise).
Judged, on recorded real executions only:
  * RelayTrace / RelayTrace.cfg (unchanged, C13's trace module) accepts the recording;
  * observable oracle: what each side received is what the other side fed, in order, nothing twice,
    nothing missing except what may be eaten in front of a consumed ACT / CFG line (JunkBeforeLine) and the
    undecodable lines; for runs that followed the model to the end the streams equal the model's sin / cout.
Binding self-tests: a recording with one corrupted event must be rejected.
Coverage: behaviours exported / replayed / followed / diverged, interleaving classes reached."""
import os, json, glob, re, time, random
from concurrent.futures import ThreadPoolExecutor
import vlib

ASSUMPTIONS = [
    "a goroutine standing at a vhook point has done everything in front of that point; the steps the code takes by itself between two points (status load after Read, CAS after a forward, Store(handshaking) after the detector, the worker's line reads, the worker's Lock) are eager in RelayGen and not separable by the replayer",
    "hook events are recorded when the scheduler releases the goroutine (it still stands at the point): for lock-protected points this is inside the critical section, for the others RelayTrace treats the operation as a silent step anyway",
    "quiescence (no goroutine of the relay running or runnable, read from runtime.Stack) is what the scheduler waits for between two steps; where it is not reached within the grace time the run goes on (possibly diverging), nothing is concluded",
    "divergence, watchdog, slow-drain hold-ups are counted, never judged; only a recording rejected by RelayTrace or failing the observable oracle is reported",
    "environment of RelayGen beyond Relay's: a second trigger arrives after the client wrote its end marker for the first transfer; in the `drain` pattern the CFG arrives after 13 client chunks",
]

JOPTS = {"JAVA_TOOL_OPTIONS": "-XX:ParallelGCThreads=2 -XX:CICompilerCount=2"}
LINES = {-1: "ACT", -2: "CFG", -3: "TRIG", -4: "END", -5: "FAIL", -6: "BADACT", -7: "BADCFG"}


def K(t):
    return t + 10 if t <= -11 else t


# ---------------------------------------------------------------- interleaving classes of a behaviour

def classes(steps):
    """Named interleaving features of a model behaviour (a list of feed / hook steps)."""
    cl = set()
    n = len(steps)
    side_of = {"In": "c", "Out": "s"}
    # positions of the worker's critical sections
    holds = []      # (lock, store, done) index triples
    cur = {}
    for i, s in enumerate(steps):
        if s["p"] == "Wk":
            if s["pt"] == "relay.flush.lock":
                cur = {"lock": i}
            elif s["pt"] == "relay.flush.store":
                cur["store"] = i
            elif s["pt"] == "relay.flush.done":
                cur["done"] = i
                holds.append(cur)
                cur = {}
    for i, s in enumerate(steps):
        if s["k"] == "feed":
            for h in holds:
                if h["lock"] < i < h.get("store", -1):
                    cl.add("arrival-while-worker-holds-lock-before-store(%s)" % s["p"])
                if h.get("store", n) < i < h.get("done", -1):
                    cl.add("arrival-between-status-store-and-unlock(%s)" % s["p"])
            if i > 0 and steps[i - 1]["pt"] == "relay.out.trigger" and s["p"] == "c" and any(K(t) in (-1, -6) for t in s["u"]):
                cl.add("answer-right-behind-trigger(before the worker ran)")
            if i > 0 and steps[i - 1]["pt"] == "relay.reset" and any(t == -13 for t in s["u"]):
                cl.add("second-trigger-right-behind-reset")
            if any(t == -13 for t in s["u"]):
                # somebody still holds a chunk of the first transfer with `transferring` loaded
                for p, fw in (("In", "relay.in.fwd"), ("Out", "relay.out.fwd")):
                    nxt = next((x for x in steps[i + 1:] if x["p"] == p and x["k"] == "hook"), None)
                    if nxt and nxt["pt"] == fw and nxt["a"] == 2:
                        cl.add("second-trigger-while-%s-holds-transferring-chunk(stale reset)" % p)
        if s["k"] == "hook" and s["p"] in side_of and s["pt"].endswith(".load") and s["a"] == 1:
            # the Lock of a reader that loaded `handshaking`: what happened since its chunk arrived
            j = max((x for x in range(i) if steps[x]["k"] == "feed" and steps[x]["p"] == side_of[s["p"]]), default=0)
            between = steps[j + 1:i]
            if any(x["k"] == "feed" for x in between):
                cl.add("arrival-between-load-and-lock(%s)" % s["p"])
            if any(x["p"] == "Wk" and x["pt"] == "relay.flush.lock" for x in between):
                cl.add("flush-between-load-and-lock(%s)" % s["p"])
            if any(x["pt"] == "relay.reset" for x in between):
                cl.add("reset-between-load-and-lock(%s)" % s["p"])
            if any(x["p"] in side_of and x["p"] != s["p"] and x["pt"].startswith("relay.park") for x in between):
                cl.add("other-reader-parks-between-load-and-lock(%s)" % s["p"])
        if s["k"] == "hook" and s["pt"] == "relay.park.skip":
            cl.add("park-refused-under-lock(status %d)" % s["a"])
        if s["k"] == "hook" and s["pt"] in ("relay.in.fwd", "relay.out.fwd") and s["a"] == 0:
            # a chunk forwarded on a `standby` loaded before the trigger's Store, delivered after it
            if any(x["pt"] == "relay.out.trigger" for x in steps[:i]) and not any(x["pt"] == "relay.reset" for x in steps[:i]):
                cl.add("standby-forward-overtaken-by-trigger(%s)" % s["p"])
        if s["k"] == "hook" and s["pt"] == "relay.hs.act" and any(x["k"] == "feed" and x["p"] == "c" for x in steps[i + 1:i + 2]):
            cl.add("client-chunk-right-behind-act-release")
    # order of the two resets of a transfer that both ends end
    rs = [s["p"] for s in steps if s["pt"] == "relay.reset" and s["a"] == 2]
    if rs:
        cl.add("reset-by-" + rs[0])
    return cl


def schedule_sig(steps):
    return "|".join("%s:%s:%s" % (s["p"], s["pt"].replace("relay.", ""), s["a"]) for s in steps)


# ---------------------------------------------------------------- export

PATTERNS_BFS = {"quick": ["small", "refuse", "badcfg"], "thorough": ["small", "refuse", "badcfg", "one"]}
PATTERNS_SIM = {"quick": [("one", 150, 120), ("two", 500, 200), ("drain", 300, 260)],
                "thorough": [("two", 6000, 200), ("drain", 1500, 260)]}


WANTED = {"drain": ("arrival-between-status-store-and-unlock(c)", "arrival-while-worker-holds-lock-before-store(c)"),
          "two": ("second-trigger-while-", "second-trigger-right-behind-reset")}


def export(tier, cov):
    quick = tier == "quick"
    jobs = [("bfs", p, 0, 0) for p in PATTERNS_BFS[tier]] + [("sim", p, n, d) for p, n, d in PATTERNS_SIM[tier]]

    def one(j):
        kind, p, n, d = j
        if kind == "bfs":
            return j, vlib.tlc("RelayGen", "RelayGen_%s.cfg" % p, workers=4, timeout=900, heap="4g", extra_env=JOPTS)
        return j, vlib.tlc("RelayGen", "RelayGen_%s.cfg" % p, workers=1, timeout=900, heap="2g", simulate="num=%d" % n, depth=d,
                           extra_args=["-seed", str(vlib.seed())], extra_env=JOPTS)
    with ThreadPoolExecutor(max_workers=6) as ex:
        results = list(ex.map(one, jobs))
    behs, per = [], {}
    for (kind, p, n, d), r in results:
        if not r["ok"]:
            raise vlib.Infra("RelayGen %s violates %s (a counterexample of the model alone is not a verdict)\n%s" % (p, r["violated"], r["out"][-3000:]))
        lines = vlib.mbt_lines(r["out"])
        seen = set()
        k = 0
        for b in lines:
            sig = schedule_sig(b["steps"])
            if sig in seen:
                continue
            seen.add(sig)
            b["pattern"], b["how"] = p, kind
            behs.append(b)
            k += 1
        per["%s/%s" % (p, kind)] = {"exported": len(lines), "distinct": k, "tlc_states": r["distinct"], "wall_s": r["wall_s"]}
        if kind == "bfs":
            cov["states"] += r["distinct"]
            cov["transitions"] += r["states"]
    cov["export"] = per
    return behs


def select(behs, tier, cov):
    """Which behaviours are replayed: all of the exhaustive exports; of the simulated ones the distinct schedules,
    those with rare classes first; plus variants (slow drain, one P) of the behaviours they are meant for."""
    quick = tier == "quick"
    rnd = random.Random(vlib.seed())
    for b in behs:
        b["classes"] = sorted(classes(b["steps"]))
    chosen = [b for b in behs if b["how"] == "bfs"]
    sim = [b for b in behs if b["how"] == "sim"]
    cap = {"one": 100 if quick else 0, "two": 260 if quick else 4000, "drain": 40 if quick else 300}
    for p in sorted(set(b["pattern"] for b in sim)):
        cand = [b for b in sim if b["pattern"] == p]
        rnd.shuffle(cand)
        # rare classes first
        freq = {}
        for b in cand:
            for c in b["classes"]:
                freq[c] = freq.get(c, 0) + 1
        cand.sort(key=lambda b: min([freq[c] for c in b["classes"]] or [10 ** 9]))
        # the classes a pattern is meant for come first (stable sort): half of the quota at most
        want = WANTED.get(p, ())
        first = [b for b in cand if any(c.startswith(w) for c in b["classes"] for w in want)][:max(1, cap.get(p, 100) // 2)]
        cand = first + [b for b in cand if not any(b is x for x in first)]
        chosen += cand[:cap.get(p, 100)]
    plans = []
    for b in chosen:
        v = {"confirm": b["confirm"], "steps": b["steps"], "slow": False, "p1": False, "pattern": b["pattern"], "classes": b["classes"],
             "sin": b["sin"], "cout": b["cout"]}
        if b["pattern"] == "drain":
            v["slow"] = True
        plans.append(v)
    # one-P variants: the client's answer right behind the trigger (the freshly started worker has not run yet)
    extra = [dict(v, p1=True) for v in plans if any(c.startswith("answer-right-behind-trigger") for c in v["classes"])]
    rnd.shuffle(extra)
    plans += extra[:60 if quick else 600]
    for i, v in enumerate(plans):
        v["id"] = i
    cov["behaviours_exported"] = len(behs)
    cov["behaviours_selected"] = len(plans)
    return plans


# ---------------------------------------------------------------- observable oracle

def oracle(run, info, plan):
    """run: the events of one recorded run (with a quiet event).  Returns None or a description."""
    fed = {"c": [], "s": []}
    got = {"s": [], "c": []}
    for e in run:
        if e["e"] == "feed":
            fed[e["side"]] += e["u"]
        elif e["e"] == "deliver":
            got[e["to"]] += e["u"]
    for src, dst, hs in (("c", "s", (-1, -6)), ("s", "c", (-2, -7))):
        f, g = fed[src], [t for t in got[dst] if t != -5]
        pos = {t: i for i, t in enumerate(f)}
        if len(pos) != len(f):
            return None        # the plan fed a token twice: not a case of this oracle
        last = -1
        seen = set()
        for t in g:
            if t not in pos:
                return "side %s received %s which side %s never wrote (fed %s, received %s)" % (dst, LINES.get(K(t), t), src, f, g)
            if t in seen:
                return "side %s received %s twice (fed %s, received %s)" % (dst, t, f, g)
            if pos[t] < last:
                return "side %s received %s out of order (fed %s, received %s)" % (dst, t, f, g)
            seen.add(t)
            last = pos[t]
        for i, t in enumerate(f):
            if t in seen or K(t) in (-6, -7):
                continue
            # may be eaten in front of the consumed handshake line of its direction
            nxt = next((x for x in f[i + 1:] if x < 0), None)
            if nxt is not None and K(nxt) in hs and t >= 0:
                continue
            return "side %s never received %s written by side %s (fed %s, received %s)" % (dst, LINES.get(K(t), t), src, f, g)
    if info.get("followed") and not info.get("argdiff") and plan is not None:
        m = lambda ts: [t + 127 if t > 0 else t for t in ts]
        if got["s"] != m(plan["sin"]) or got["c"] != m(plan["cout"]):
            return "the run followed the model's schedule to the end but the streams differ: server got %s (model %s), client got %s (model %s)" % (
                got["s"], m(plan["sin"]), got["c"], m(plan["cout"]))
    return None


def split_runs(events):
    runs, cur = [], None
    for e in events:
        if e.get("e") == "reset":
            cur = [e]
            runs.append(cur)
        elif cur is not None:
            cur.append(e)
    return runs


# ---------------------------------------------------------------- replay + judgement

def drive(h, plans, name, shards, cov_key=None):
    out = os.path.join(vlib.scratch(), "x04-" + name)
    os.makedirs(out, exist_ok=True)
    pf = os.path.join(out, "plans.json")
    json.dump([{k: p[k] for k in ("id", "confirm", "steps", "slow", "p1")} for p in plans], open(pf, "w"))
    s = vlib.run_driver(h, "x04_sched", out, {"plans": pf, "shards": shards, "grace_ms": 400, "watchdog_s": 30}, timeout=1500)
    infos = {}
    for f in glob.glob(os.path.join(out, "shard-*", "infos.json")):
        for x in json.load(open(f)) or []:
            infos[x["id"]] = x
    files = [f for f in sorted(glob.glob(os.path.join(out, "shard-*", "trace.ndjson"))) if os.path.getsize(f) > 0]
    return out, s, infos, files


def merge(files, out, k):
    groups = [files[i::k] for i in range(k)]
    res = []
    for i, g in enumerate(x for x in groups if x):
        p = os.path.join(out, "merged-%02d.ndjson" % i)
        with open(p, "w") as fh:
            for f in g:
                fh.write(open(f).read())
        res.append(p)
    return res


def judge(files, res, infos, plans, v, cov):
    byid = {p["id"]: p for p in plans}
    nrej = 0
    for f, r in zip(files, res):
        ev = vlib.read_ndjson(f)
        if not r["accepted"]:
            nrej += 1
            if r["violated"] not in (None, "postcondition"):
                ls = re.findall(r"/\\ l = (\d+)", r["out"])
                i = (int(ls[-1]) - 2) if ls else 0
                kind = "invariant-" + str(r["violated"])
                what = "invariant %s is false on a recorded relay execution" % r["violated"]
            else:
                i = (r["hw"] or 1) - 1
                e = ev[max(0, min(i, len(ev) - 1))]
                kind = "reject-%s-%s" % (e.get("e"), e.get("p", e.get("to", e.get("side", ""))))
                what = "recorded relay execution is not a behaviour of Relay: " + vlib.explain_rejection(f, r["hw"], context=8)
            i = max(0, min(i, len(ev) - 1))
            run_ev = vlib.run_of(ev, i)
            rid = run_ev[0].get("run") if run_ev else None
            p = byid.get(rid) or {}
            inf = infos.get(rid) or {}
            v.violation(kind, "replay %s (pattern %s, %s%s%s): %s" % (rid, p.get("pattern"), "followed" if inf.get("followed") else "diverged at step %s (wanted %s)" % (inf.get("div_at"), inf.get("div_want")),
                                                                        ", slow drain" if p.get("slow") else "", ", one P" if p.get("p1") else "", what),
                        {"plan": {k: p.get(k) for k in ("confirm", "steps", "slow", "p1", "sin", "cout", "pattern")}, "events": run_ev[:300]})
        # the observable oracle on every run of the file that came to rest (also of a file TLC rejected elsewhere)
        for run in split_runs(ev):
            rid = run[0].get("run")
            inf = infos.get(rid) or {}
            if not any(e.get("e") == "quiet" for e in run) or not inf.get("clean"):
                continue
            cov["oracle_runs"] = cov.get("oracle_runs", 0) + 1
            bad = oracle(run, inf, byid.get(rid))
            if bad:
                p = byid.get(rid) or {}
                cov["oracle_failures"] = cov.get("oracle_failures", 0) + 1
                v.violation(
                            "observable-" + ("order" if "out of order" in bad else "twice" if "twice" in bad else "lost" if "never received" in bad else "foreign" if "never wrote" in bad else "model-streams"),
                            "replay %s (pattern %s%s%s): %s" % (rid, p.get("pattern"), ", slow drain" if p.get("slow") else "", ", one P" if p.get("p1") else "", bad),
                            {"plan": {k: p.get(k) for k in ("confirm", "steps", "slow", "p1", "sin", "cout", "pattern")}, "events": run[:300]})
    return nrej


def run(tier, v):
    quick = tier == "quick"
    t0 = time.time()
    cov = {"samples": [], "states": 0, "transitions": 0}
    h = vlib.build_harness(["x04"])
    behs = export(tier, cov)
    plans = select(behs, tier, cov)
    cov["export_wall_s"] = round(time.time() - t0, 1)
    t1 = time.time()
    out, s, infos, files = drive(h, plans, "main", 8 if quick else 16)
    cov["replay_wall_s"] = round(time.time() - t1, 1)
    t2 = time.time()
    files = merge(files, out, 8 if quick else 16)
    res = vlib.validate_traces("RelayTrace", "RelayTrace.cfg", files, timeout=3000, heap="1500m", extra_env=JOPTS, par=8)
    cov["tv_wall_s"] = round(time.time() - t2, 1)
    nrej = judge(files, res, infos, plans, v, cov)

    # ---- coverage numbers
    byid = {p["id"]: p for p in plans}
    followed = [i for i, x in infos.items() if x["followed"]]
    cov["traces_validated_against_impl"] = len(infos)
    cov["replayed"] = len(infos)
    cov["not_replayed(shard restarted / ended early)"] = len(plans) - len(infos)
    cov["followed_to_the_end"] = len(followed)
    cov["diverged"] = len([1 for x in infos.values() if not x["followed"]])
    cov["watchdog_runs(noise)"] = len([1 for x in infos.values() if x["watchdog"]])
    cov["unclean_runs(noise)"] = len([1 for x in infos.values() if not x["clean"]])
    cov["early_lock_releases"] = sum(x["early"] for x in infos.values())
    cov["slow_drain_runs"] = len([1 for x in infos.values() if x["slow"]])
    cov["slow_drain_held_something_up"] = len([1 for x in infos.values() if x["slow_hit"]])
    cov["one_P_runs"] = len([1 for x in infos.values() if x["p1"]])
    cov["hook_argument_differences"] = sum(x["argdiff"] for x in infos.values())
    divs = {}
    for x in infos.values():
        if not x["followed"]:
            k = "%s (standing at %s)" % (x.get("div_want"), x.get("div_have") or "-")
            divs[k] = divs.get(k, 0) + 1
    cov["diverged_where"] = dict(sorted(divs.items(), key=lambda kv: -kv[1])[:12])
    cls_all, cls_followed, combos = {}, {}, set()
    for p in plans:
        for c in p["classes"]:
            cls_all[c] = cls_all.get(c, 0) + 1
    for i in followed:
        for c in byid[i]["classes"]:
            cls_followed[c] = cls_followed.get(c, 0) + 1
        combos.add((byid[i]["pattern"], tuple(byid[i]["classes"])))
    cov["interleaving_classes_exported"] = cls_all
    cov["interleaving_classes_reached_on_the_real_relay"] = cls_followed
    cov["distinct_class_combinations_reached"] = len(combos)
    cov["distinct_schedules_followed"] = len(set(schedule_sig(byid[i]["steps"]) + str(byid[i]["slow"]) + str(byid[i]["p1"]) for i in followed))
    cov["events_validated"] = sum(r["n"] for r in res)
    cov["tv_states"] = sum(r["distinct"] for r in res)
    cov["trace_files_rejected"] = nrej
    if plans:
        p0 = plans[0]
        cov["samples"].append({"behaviour": {k: p0[k] for k in ("pattern", "confirm", "steps", "sin", "cout", "classes")},
                               "result": infos.get(p0["id"]), "events_head": vlib.read_ndjson(files[0])[:40] if files else []})

    # ---- binding self-tests: one corrupted event => rejected
    def first_run(ev):
        return [dict(e) for e in split_runs(ev)[0]]
    def drop_tok(ev):
        ev = first_run(ev)
        k = next(i for i, e in enumerate(ev) if e.get("e") == "deliver" and len(e["u"]) >= 1 and e["u"][0] >= 128)
        ev[k]["u"] = ev[k]["u"][1:]
        if not ev[k]["u"]:
            del ev[k]
        return ev
    def wrong_status(ev):
        ev = first_run(ev)
        k = next(i for i, e in enumerate(ev) if e.get("e") == "hook" and e["p"] in ("relay.in.load", "relay.out.load") and e["a"][0] == 1)
        ev[k]["a"] = [0]
        return ev
    def park_after_flush(ev):      # a park.done moved behind the worker's unlock
        ev = first_run(ev)
        k = max(i for i, e in enumerate(ev) if e.get("e") == "hook" and e["p"] == "relay.park.done")
        d = next(i for i, e in enumerate(ev) if e.get("e") == "hook" and e["p"] == "relay.flush.done")
        e = ev.pop(k)
        ev.insert(d, e)
        return ev
    base = None
    for f in files:
        try:
            ev = vlib.read_ndjson(f)
            for m in (drop_tok, wrong_status, park_after_flush):
                m(ev)
            if any(e.get("e") == "quiet" for e in first_run(ev)):
                base = f
                break
        except (StopIteration, ValueError, IndexError):
            continue
    if base is None:
        if not v.violations:
            raise vlib.Infra("no complete recording to corrupt: binding self-test impossible")
        cov["selftests_rejected"] = "skipped: no complete recording (see the violations)"
    else:
        def intact(ev):
            return first_run(ev)
        tests = [("intact_run_rejected(must be false)", intact), ("drop_token", drop_tok), ("wrong_status_in_load_hook", wrong_status), ("park_moved_behind_unlock", park_after_flush)]
        with ThreadPoolExecutor(max_workers=4) as ex:
            sts = list(ex.map(lambda t: vlib.selftest_reject("RelayTrace", "RelayTrace.cfg", base, t[1], heap="1g", extra_env=JOPTS), tests))
        cov["selftests_rejected"] = dict(zip([t[0] for t in tests], sts))
        if sts[0] and not v.violations:
            raise vlib.Infra("self-test: the uncorrupted first run of %s is rejected" % base)
        if not all(sts[1:]):
            raise vlib.Infra("binding self-test failed: %s" % cov["selftests_rejected"])
    # the oracle's own self-test: a reordered delivery must fail it
    sample = next((r for f in files for r in split_runs(vlib.read_ndjson(f)) if any(e.get("e") == "quiet" for e in r)
                   and len([t for e in r if e["e"] == "deliver" and e["to"] == "s" for t in e["u"] if t >= 128]) >= 2), None)
    if sample:
        bad = [dict(e) for e in sample]
        toks = [(i, j) for i, e in enumerate(bad) if e["e"] == "deliver" and e["to"] == "s" for j, t in enumerate(e["u"]) if t >= 128]
        (i1, j1), (i2, j2) = toks[0], toks[-1]
        bad[i1]["u"], bad[i2]["u"] = list(bad[i1]["u"]), list(bad[i2]["u"])
        bad[i1]["u"][j1], bad[i2]["u"][j2] = bad[i2]["u"][j2], bad[i1]["u"][j1]
        cov["oracle_selftest_swap_detected"] = oracle(bad, {}, None) is not None and oracle(sample, {}, None) is None
        if not cov["oracle_selftest_swap_detected"] and not v.violations:
            raise vlib.Infra("observable oracle self-test failed")

    # ---- noise is reported, never judged
    if not infos:
        raise vlib.Infra("no behaviour was replayed")
    if not v.violations:
        if len(followed) == 0:
            raise vlib.Infra("no replay followed its behaviour to the end (%s)" % cov["diverged_where"])
        if cov["watchdog_runs(noise)"] * 10 > len(infos):
            raise vlib.Infra("%d of %d replays needed the watchdog" % (cov["watchdog_runs(noise)"], len(infos)))
    cov["wall_s"] = round(time.time() - t0, 1)
    return cov


def replay(path, v):
    """Re-run the saved behaviour (model schedule + variant) on the real relay and judge it again."""
    payload = json.load(open(path))["replay"]
    plan = payload.get("plan")
    if not plan or not plan.get("steps"):
        raise vlib.Infra("replay file carries no plan")
    plan = dict(plan, id=0, classes=sorted(classes(plan["steps"])))
    h = vlib.build_harness(["x04"])
    cov = {}
    out, s, infos, files = drive(h, [plan], "replay", 1)
    res = vlib.validate_traces("RelayTrace", "RelayTrace.cfg", files, timeout=600, heap="1g")
    judge(files, res, infos, [plan], v, cov)
    return {"replayed": True, "result": infos.get(0), "accepted": [r["accepted"] for r in res], "violated": [r["violated"] for r in res]}
