"""C14 - a relay only narrows what the ends negotiate, and recovers after every transfer.
Specs: RelayCfg.tla (the relay's ACT/CFG rewrites composed with the servers' own binary/protocol
rule; TLC enumerates all client capability sets x server options x relay situations:
NoBinaryWithoutTunnel, ProtocolClamped, OnlyAdds, ActOnlyNarrows) and RelayObs.tla (observable
level, on top of TransferObs).  Binding: (1) TLC-exported cases are pushed through the real relay
handshake() with a real server role composing the CFG, and the recorded rewrites must equal what
the spec computes (RelayCfgTrace); (2) sequences of four real transfers (success, server-side
fault, stop on either side, success) through one chain of 1 or 2 real relays: the action and the
configuration as sent and as received at the far ends, the relays' status afterwards and
pass-through probes in both directions are judged by RelayObs; a successful transfer through
relays must reproduce the files exactly."""
import os, json, json, glob
import vlib
from checks import e2ecommon as E

ASSUMPTIONS = [
    "tmux situation of the relay is set through its fields (tmuxMode, tmuxPaneWidth) in the matrix runs; the recovery runs are outside tmux",
    "tunnel = true cases of the matrix use a net.Pipe as the server's tunnel connection; no tunnel in the recovery runs",
    "endings exercised: EXIT, FAIL/fail from either side after a fault, stop on either side; Ctrl-C byte and refused transfers only in the model and the matrix (confirm = false)",
]


def run(tier, v):
    quick = tier == "quick"
    cov = {"samples": []}
    r = vlib.tlc("RelayCfg", "RelayCfg.cfg", timeout=1800, heap="16g")
    if not r["ok"]:
        raise vlib.Infra("RelayCfg violates %s\n%s" % (r["violated"], r["out"][-2000:]))
    cov["states"], cov["transitions"] = r["distinct"], r["states"]
    cov["exhaustive"] = True
    g = vlib.tlc("RelayCfg", "RelayCfgGen.cfg", workers=1, timeout=900, heap="4g",
                 simulate="num=%d" % (600 if quick else 20000), depth=2, extra_args=["-seed", str(vlib.seed())])
    cases = vlib.mbt_lines(g["out"])
    if len(cases) < 100:
        raise vlib.Infra("RelayCfg export produced only %d cases" % len(cases))
    h = vlib.build_harness(["e2e", "c14"])
    mdir = os.path.join(vlib.scratch(), "c14m")
    os.makedirs(mdir, exist_ok=True)
    with open(os.path.join(mdir, "cases.ndjson"), "w") as fh:
        for c in cases:
            fh.write(json.dumps(c) + "\n")
    m = vlib.run_driver(h, "c14_matrix", mdir, {}, timeout=1500)
    tf = os.path.join(mdir, "trace.ndjson")
    res = vlib.validate_trace("RelayCfgTrace", "RelayCfgTrace.cfg", tf, timeout=1500)
    rounds = 0
    while not res["accepted"] and rounds < 10:
        rounds += 1
        ev = vlib.read_ndjson(tf)
        if res["violated"] not in (None, "postcondition"):
            import re
            ls = re.findall(r"/\\ l = (\d+)", res["out"])
            i = (int(ls[-1]) - 2) if ls else 0
            kind = "matrix-" + str(res["violated"])
        else:
            i = (res["hw"] or 1) - 1
            kind = "matrix-rewrite-differs"
        i = max(0, min(i, len(ev) - 1))
        e = ev[i]
        if not e.get("ok"):
            kind = "matrix-handshake-failed"
        a = e.get("act", {})
        key = "%s:tunnel=%s,binary=%s,proto=%s" % (kind, a.get("tunnel"), a.get("binary"), a.get("proto"))
        v.violation(key, "relay handshake case %s: %s %s" % (e.get("id"), kind, e.get("err", "")), {"event": e})
        rest = ev[:i] + ev[i + 1:]
        tf = os.path.join(mdir, "trace.rest%d.ndjson" % rounds)
        with open(tf, "w") as fh:
            for x in rest:
                fh.write(json.dumps(x) + "\n")
        if not rest:
            break
        res = vlib.validate_trace("RelayCfgTrace", "RelayCfgTrace.cfg", tf, timeout=1500)
    cov["matrix_cases_replayed"] = m["cases"]
    cov["matrix_errors"] = m["errors"]
    cov["samples"].append({"matrix_case": cases[0]})
    out = os.path.join(vlib.scratch(), "c14r")
    s = vlib.run_driver(h, "c14_recover", out, {"sequences": 24 if quick else 720, "shards": 24 if quick else 48}, timeout=3000)
    files, details = E.gather(out)
    def keyfn(kind, run, det):
        x = next((e for e in run if e.get("e") == "xfer"), {})
        return "relay-%s-%s-hops%s" % (kind, x.get("how", "?"), x.get("hops", "?"))
    bad, _, st = E.judge(files, "RelayObs", "RelayObs.cfg", v, details, "obs", keyfn=keyfn, timeout=3000)
    cov["traces_validated_against_impl"] = s["runs"] + m["cases"]
    cov["recovery_transfers"] = s["runs"]
    # sequences that mix transfers through the tunnel with in-band ones through ONE relay instance (the scripted ends of
    # the RelayTunnel extension): whatever came before, an action that reaches the server the in-band way has passed the
    # relay's handshake -- no binary mode without a tunnel, protocol not above the relay's own
    import glob
    hx = vlib.build_harness(["x03"], name="x03.test")
    outx = os.path.join(vlib.scratch(), "c14mix")
    sx = vlib.run_driver(hx, "x03_relaytunnel", outx, {"runs": 96 if quick else 600, "shards": 16, "mode": "mix"}, timeout=1500)
    cov["mixed_tunnel_inband_sessions"] = sx["runs"]
    cov["mixed_tunnel_inband_rounds"] = sx.get("rounds", 0)
    cov["mixed_sessions_stuck_not_judged"] = sx.get("stuck", 0)
    nbad = 0
    for fn in sorted(glob.glob(os.path.join(outx, "shard-*", "infos.json"))):
        for info in json.load(open(fn)) or []:
            notes = [n for n in (info.get("notes") or []) if n.startswith("c14:")]
            if notes:
                nbad += 1
                kinds = [r.get("kind") for r in info["plan"]["rounds"]]
                v.violation("mixed-%s" % notes[0].split(":")[1],
                            "session %s (rounds %s): %s -- an action reached the server's terminal input without the relay's narrowing" % (info.get("id"), kinds, notes),
                            {"plan": info["plan"], "notes": notes})
    cov["mixed_sessions_not_narrowed"] = nbad
    cov["traces_validated_against_impl"] += sx["runs"]
    cov["tv_states"] = st
    ev = vlib.read_ndjson(files[0])
    cov["samples"].append({"xfer_event": next(e for e in ev if e.get("e") == "xfer")})
    def corrupt(ev):
        ev = [dict(e) for e in ev]
        for e in ev:
            if e.get("e") == "xfer":
                e["statuses"] = [2] * len(e["statuses"])
                break
        return ev
    def corrupt2(ev):
        ev = [dict(e) for e in ev]
        for e in ev:
            if e.get("e") == "hs" and e.get("confirm"):
                co = dict(e["cfgOut"]); co["binary"] = not co["binary"]; e["cfgOut"] = co
                break
        return ev
    cov["selftest_status_rejected"] = vlib.selftest_reject("RelayObs", "RelayObs.cfg", files[0], corrupt)
    cov["selftest_rewrite_rejected"] = vlib.selftest_reject("RelayCfgTrace", "RelayCfgTrace.cfg", os.path.join(mdir, "trace.ndjson"), corrupt2)
    if not (cov["selftest_status_rejected"] and cov["selftest_rewrite_rejected"]):
        raise vlib.Infra("binding self-test failed")
    return cov


def replay(path, v):
    raise vlib.Infra("re-run ./check C14 with the same VERIF_SEED; the replay file holds the recorded case / events")
