"""C08 - with -y the destination ends up identical to the source whatever was there.
Spec: Resume.tla (trzsz/append.go + the create/truncate part of transfer.go, one action per step:
SendName RecvName/RecvTarget [SendPreSize] HashTest/HashSend/HashOver RecvHashCompare/-Ignore/
RecvOver AckRecv SenderStop SenderSeek SendSize SendData RecvData).  Contents are sequences of
units, three per comparison block = {first byte, middle, last byte} of a real 10 MiB block.
 1. TLC exhaustive on Resume over every relation between source and old destination (absent,
    empty, every proper prefix, identical, longer, diverging at every unit with every old length,
    re-joining or not; thorough: every same/different pattern, 3 blocks) x protocols 2, 3, 4 x all
    interleavings of the pipelined hash exchange: FinalEqualsSrc, MatchIsProven,
    SkippedNeverExceedsProven, TailCut, KeptOnlyProven, OthersUntouched, NoFailure, NoStuck
    (thorough also Termination).  The variant AsCoded = TRUE (pipelineRecvHashAck before the fix
    /repo cb319ea, found by this check) is checked too: it sits still in exactly one relation,
    "empty source over a non-empty file, protocol >= 3".
 2. spec -> impl: ResumeGen exports every relation with what the design demands (agreed offset,
    units sent again, final content); harness/c08_resume.go materialises each selected case with
    the REAL block size (files of 0 .. 30 MiB; first differing byte at k*10 MiB-1 / k*10 MiB /
    k*10 MiB+1 / inside a block) and runs it through the real client path and the real trz/tsz
    role bodies: both directions, base64/binary, protocols 2-4, one or two files per transfer.
 3. impl -> spec: the wire tap of every run is projected onto Resume's actions (name target
    presize hash ack over size payload) and validated by ResumeTrace; the final state of the
    destination directory is the observed one (bytes of the destination file vs the source,
    other entries' bytes and mtimes, the source itself) and Resume's invariants are evaluated
    on it.  Verdict: an invariant false on a recorded run, or a recorded run that is not a
    behaviour of Resume (wrong ack, offset not proven, SIZE/payload different from
    |src| - agreed offset, transfer not completed).
A time-out is never a verdict by itself: the run is repeated (twice); if it still times out it is
left out (inconclusive) -- unless the recorded lines end in exactly the state in which the
pre-fix model sits still (validated against ResumeTrace_ascoded.cfg): then the old defect is back
(key nosuccess-emptysrc-p<protocol>)."""
import os, json, glob, random, re
import vlib

ASSUMPTIONS = [
    "MD5 of two different prefixes differs (the model's hash of a prefix is the prefix)",
    "a unit marked different differs in one byte at a seeded offset inside the unit; the driver measures the real common prefix of the two files and ResumeTrace cross-checks it against the case",
    "the data phase is abstracted to one DATA of `rest` units (its pipeline is C01/C02's subject); payload = what the receiver's last acknowledgement says is on disk, and SIZE as announced",
    "a run that times out is repeated twice; still timing out it is not judged, except when it stops in the one state where the pre-fix model (AsCoded) stops too",
    "old-client protocols 2 and 3 are produced by rewriting the ACT line in flight (harness/e2e_wire.go)",
]

INVS = "ObsFinalEqualsSrc ObsTailCut ObsOthersUntouched MatchIsProven SkippedNeverExceedsProven KeptOnlyProven NoFailure".split()


# ---------------------------------------------------------------- case selection

def _key(c):
    return (c["proto"], tuple(c["src"]), tuple(c["old"]), bool(c["ex"]))


def dedupe(cases):
    seen = {}
    for c in sorted(cases, key=lambda c: (_key(c)[0], len(c["src"]), len(c["old"]), c["kind"], c["src"], c["old"])):
        seen.setdefault(_key(c), c)
    return list(seen.values())


def stratum(c):
    n, m = len(c["src"]), len(c["old"])
    return (c["proto"], c["kind"], c["cpl"], (m > n) - (m < n))


def select(cases, tier, rng):
    """quick: one representative of a seeded choice of strata, protocol 4 favoured; thorough:
    every relation under protocols 4 and 3, one per stratum under 2."""
    stuck = [c for c in cases if c["stuck"]]
    live = [c for c in cases if not c["stuck"]]
    by = {}
    for c in live:
        by.setdefault(stratum(c), []).append(c)
    strata = sorted(by)
    rng.shuffle(strata)
    chosen = []
    if tier == "quick":
        want = {4: 26, 3: 14, 2: 6}
        # never leave these out (protocol 4): tail must be cut, nothing to send, divergence in block 2
        must = [c for c in live if c["proto"] == 4 and (
            (c["kind"] == "longer" and len(c["src"]) in (3, 6)) or
            (c["kind"] == "identical" and len(c["src"]) == 6) or
            (c["kind"] == "diverge" and c["cpl"] in (3, 4, 5) and len(c["old"]) == len(c["src"]) + 1 and len(c["src"]) == 6) or
            (c["kind"] == "prefix" and len(c["old"]) in (3, 4) and len(c["src"]) == 6))]
        rng.shuffle(must)
        seen_must = set()
        for c in must:
            k = (c["kind"], c["cpl"])
            if k not in seen_must and len(seen_must) < 8:
                seen_must.add(k)
                chosen.append(c)
        have = {_key(c) for c in chosen}
        cnt = {p: sum(1 for c in chosen if c["proto"] == p) for p in (2, 3, 4)}
        for s in strata:
            p = s[0]
            if cnt[p] >= want[p]:
                continue
            c = rng.choice(by[s])
            if _key(c) in have:
                continue
            have.add(_key(c))
            chosen.append(c)
            cnt[p] += 1
        for p in (3, 4):
            ss = [c for c in stuck if c["proto"] == p]
            if ss:
                chosen.append(rng.choice(ss))
    else:
        for c in live:
            if c["proto"] == 4:
                chosen.append(c)
        for s in strata:
            if s[0] == 3:
                chosen.extend(by[s])
            elif s[0] == 2:
                chosen.append(rng.choice(by[s]))
        for p in (3, 4):
            ss = [c for c in stuck if c["proto"] == p]
            chosen.extend(rng.sample(ss, min(3, len(ss))))
    return chosen


def make_jobs(chosen, tier, rng, seed):
    """Direction and encoding rotate over the (shuffled) cases; thorough also pairs some cases of
    the same protocol into two-file transfers and varies the length of a partial middle unit."""
    rng.shuffle(chosen)
    jobs = []
    pend = {}
    B = 10 * 1024 * 1024
    for i, c in enumerate(chosen):
        f = {k: c[k] for k in ("proto", "src", "old", "ex", "kind", "stuck", "match", "rest")}
        f["mid"] = 0
        if tier != "quick" or rng.random() < 0.3:
            f["mid"] = rng.choice([0, 0, B // 2, 1, 4097])
        pair = tier != "quick" and not c["stuck"] and rng.random() < 0.25 and len(c["src"]) <= 6
        if pair:
            if c["proto"] in pend:
                j = pend.pop(c["proto"])
                j["files"].append(f)
                continue
        j = {"id": len(jobs) + 1, "upload": i % 2 == 0, "binary": (i // 2) % 2 == 0, "proto": c["proto"],
             "seed": seed * 100003 + i, "timeout": 10 if c["stuck"] else 30, "files": [f],
             # half of the runs in directory mode (-r / -d): the names travel as JSON documents and the receiver goes
             # through the directory-capable create path (for protocol 2 too)
             "dirmode": (i // 4) % 2 == 0}
        jobs.append(j)
        if pair:
            pend[c["proto"]] = j
    return jobs


# ---------------------------------------------------------------- judging

def runs_of(files):
    """run id -> list of events, from the trace files"""
    res = {}
    for f in files:
        for e in vlib.read_ndjson(f):
            res.setdefault(e["run"], []).append(e)
    return res


def describe(run, job):
    rs = run[0]
    return ("protocol %s %s %s: source %s units (%s bytes), old destination %s (%s bytes), kind %s, real common prefix %s bytes"
            % (rs.get("proto"), "upload" if rs.get("upload") else "download", "binary" if rs.get("binary") else "base64",
               rs.get("src"), rs.get("srcbytes"), rs.get("old") if rs.get("ex") else "absent", rs.get("oldbytes"),
               rs.get("kind"), rs.get("cplbytes")))


def judge(files, cfg, v, jobs, report=True, timeout=1800, max_rounds=12):
    """Validate; report the first offending run of each rejected file, cut it out, validate the rest
    again.  Returns (list of (run id, key, what), TLC states, run ids left unjudged)."""
    jobmap = {j["id"]: j for j in jobs}
    found = []
    inconclusive = []
    states = 0
    todo = list(files)
    for rnd in range(max_rounds):
        if not todo:
            break
        res = vlib.validate_traces("ResumeTrace", cfg, todo, timeout=timeout)
        nxt = []
        for f, r in zip(todo, res):
            if rnd == 0:
                states += r["distinct"]
            if r["accepted"]:
                continue
            ev = vlib.read_ndjson(f)
            if r["violated"] not in (None, "postcondition"):
                ls = re.findall(r"/\\ l = (\d+)", r["out"])
                i = (int(ls[-1]) - 2) if ls else 0
            else:
                i = (r["hw"] or 1) - 1
            i = max(0, min(i, len(ev) - 1))
            run = vlib.run_of(ev, i)
            rs = run[0] if run and run[0].get("e") == "reset" else {}
            rid = rs.get("run")
            kind, proto = rs.get("kind"), rs.get("proto")
            bad = ev[i]
            if r["violated"] not in (None, "postcondition"):
                key = "%s-%s-p%s" % (r["violated"], kind, proto)
                what = "invariant %s is false on the recorded run" % r["violated"]
            elif bad.get("e") == "done" and (bad.get("cres") != "ok" or bad.get("sres") != "ok"):
                key = ("nosuccess-emptysrc-p%s" % proto) if rs.get("stuck") else "nosuccess-%s-p%s" % (kind, proto)
                what = "the transfer did not complete (client: %s / server: %s); %s" % (
                    bad.get("cerr") or bad.get("cres"), bad.get("serr") or bad.get("sres"), vlib.explain_rejection(f, r["hw"]))
                if bad.get("timeout"):
                    # three attempts timed out.  Only the stop the pre-fix model predicts is a finding.
                    one = os.path.join(vlib.scratch(), "timedout-%s.ndjson" % rid)
                    with open(one, "w") as out:
                        for e in run:
                            out.write(json.dumps(e) + "\n")
                    explained = bool(rs.get("stuck")) and vlib.validate_trace("ResumeTrace", "ResumeTrace_ascoded.cfg", one)["accepted"]
                    if not explained:
                        key = None
                        inconclusive.append(rid)
                    else:
                        what += " -- this is the state in which the code before fix cb319ea waited for ever (Resume, AsCoded = TRUE)"
            else:
                key = "reject-%s-%s-p%s" % (bad.get("e"), kind, proto)
                what = "not a behaviour of Resume: " + vlib.explain_rejection(f, r["hw"])
            text = "%s -- %s" % (describe(run, None) if rs else "?", what)
            if key is not None:
                found.append((rid, key, text))
            if report and key is not None:
                job = jobmap.get((rid or 0) // 10)
                v.violation(key, text, {"job": job, "file_index": (rid or 0) % 10, "events": run[:60],
                                        "tlc": r["out"][-1500:] if r["violated"] not in (None, "postcondition") else ""})
            rest = [e for e in ev if e.get("run") != rid]
            if rest and len(rest) < len(ev):
                p2 = f if f.endswith(".rest.ndjson") else f.replace(".ndjson", ".rest.ndjson")
                with open(p2, "w") as out:
                    for e in rest:
                        out.write(json.dumps(e) + "\n")
                nxt.append(p2)
        todo = nxt
    return found, states, inconclusive


def gather(outdir, nfiles=4):
    """Per-shard traces -> nfiles trace files of the ordinary runs plus one file per run that the
    as-coded model predicts not to finish (each of those is a finding of its own; TLC stops at the
    first one in a file)."""
    shards = sorted(glob.glob(os.path.join(outdir, "shard-*", "obs.ndjson")))
    runs, order = {}, []
    for s in shards:
        for e in vlib.read_ndjson(s):
            if e["run"] not in runs:
                order.append(e["run"])
            runs.setdefault(e["run"], []).append(e)
    if not runs:
        raise vlib.Infra("no traces under " + outdir)
    plain = [r for r in order if not runs[r][0].get("stuck")]
    special = [r for r in order if runs[r][0].get("stuck")]
    groups = [plain[i::nfiles] for i in range(nfiles)] + [[r] for r in special]
    files = []
    for i, grp in enumerate(g for g in groups if g):
        p = os.path.join(outdir, "all-%02d.ndjson" % i)
        with open(p, "w") as out:
            for r in grp:
                for e in runs[r]:
                    out.write(json.dumps(e) + "\n")
        files.append(p)
    details = []
    for dj in glob.glob(os.path.join(outdir, "shard-*", "details.json")):
        details.extend(json.load(open(dj)) or [])
    return files, details


def resources():
    """shards and scratch directory from the memory that is available right now: one case needs up
    to ~400 MB in its process plus ~65 MB of files"""
    avail = 4096
    try:
        for line in open("/proc/meminfo"):
            if line.startswith("MemAvailable:"):
                avail = int(line.split()[1]) // 1024
    except OSError:
        pass
    shards = max(2, min(8, avail // 700))
    scratch = "/dev/shm" if avail > 16000 and os.access("/dev/shm", os.W_OK) else "/tmp"
    return shards, scratch, avail


def real_runs(h, jobs, name, v):
    out = os.path.join(vlib.scratch(), name)
    os.makedirs(out, exist_ok=True)
    p = os.path.join(out, "cases.ndjson")
    with open(p, "w") as fh:
        for j in jobs:
            fh.write(json.dumps(j) + "\n")
    shards, scratch, avail = resources()
    s = vlib.run_driver(h, "c08_resume", out, {"cases": p, "shards": shards, "scratch": scratch, "retries": 2}, timeout=3400,
                        extra_env={"GOGC": "50"})
    s["shards_used"], s["mem_available_mb"], s["scratch"] = shards, avail, scratch
    files, details = gather(out)
    return s, files, details


def mbt_compare(runs, flagged, v, jobs):
    """spec -> impl: what ResumeGen demands for the case vs what the real run did."""
    jobmap = {j["id"]: j for j in jobs}
    n = mism = 0
    for rid, ev in sorted(runs.items()):
        job = jobmap.get(rid // 10)
        if not job or rid % 10 >= len(job["files"]):
            continue
        f = job["files"][rid % 10]
        done = next((e for e in ev if e["e"] == "done"), None)
        if not done or done["cres"] != "ok" or done["sres"] != "ok":
            continue
        n += 1
        size = next((e for e in ev if e["e"] == "size"), None)
        pay = next((e for e in ev if e["e"] == "payload"), None)
        probs = []
        if not done["same"]:
            probs.append(("final-differs", "the destination differs from the source after a successful transfer (%s bytes vs %s)" % (done.get("dstbytes"), ev[0].get("srcbytes"))))
        for name, e in (("SIZE", size), ("payload", pay)):
            if e is not None and e["skip"] > f["match"]:
                probs.append(("skipped-unproven", "%s says %s bytes were sent, i.e. %s units were skipped, but only %s units are proven equal" % (name, e.get("bytes"), e["skip"], f["match"])))
        if done["touched"] or done["extra"]:
            probs.append(("others-touched", "entries outside the transferred names changed"))
        if probs:
            mism += 1
            if rid not in flagged:
                for k, t in probs[:1]:
                    v.violation("mbt-%s-%s-p%s" % (k, f["kind"], job["proto"]), describe(ev, job) + " -- " + t,
                                {"job": job, "file_index": rid % 10, "events": ev[:60]})
    return n, mism


def check_runs(h, jobs, v, cov, name="c08"):
    s, files, details = real_runs(h, jobs, name, v)
    found, st, unjudged = judge(files, "ResumeTrace.cfg", v, jobs)
    runs = runs_of([f for f in files])
    flagged = {rid for rid, _, _ in found}
    n, mism = mbt_compare(runs, flagged, v, jobs)
    cov["traces_validated_against_impl"] = s.get("files", 0)
    cov["real_transfers"] = s.get("runs", 0)
    cov["inconclusive_timeouts"] = s.get("inconclusive", 0) + len(unjudged)
    cov["retried_timeouts"] = s.get("retried_timeouts", 0)
    cov["shards_used"], cov["mem_available_mb"], cov["scratch"] = s["shards_used"], s["mem_available_mb"], s["scratch"]
    cov["driver_wall_s"] = s["wall_s"]
    cov["tv_states"] = st
    cov["runs_rejected"] = len(found)
    cov["mbt_cases_replayed"] = n
    cov["mbt_mismatches"] = mism
    if s.get("job_crashes"):
        raise vlib.Infra("driver process died during %d job(s): %s" % (s["job_crashes"], open(os.path.join(os.path.dirname(files[0]), "crashes.json")).read()[:2000]))
    if s.get("inconclusive", 0) * 5 > len(jobs):
        raise vlib.Infra("%d of %d transfers timed out twice on this machine: nothing can be concluded" % (s["inconclusive"], len(jobs)))
    return s, files, details, runs, found


# ---------------------------------------------------------------- run / replay

def run(tier, v):
    quick = tier == "quick"
    cov = {"samples": []}
    rng = random.Random(vlib.seed() * 7919 + (0 if quick else 1))
    # 1. design (the three TLC runs and the harness build do not depend on each other)
    cfg = "Resume_quick.cfg" if quick else "Resume_thorough.cfg"
    from concurrent.futures import ThreadPoolExecutor
    vlib._specdir()
    with ThreadPoolExecutor(max_workers=4) as ex:
        fr = ex.submit(vlib.tlc, "Resume", cfg, timeout=3000, heap="8g", coverage=quick)
        fa = ex.submit(vlib.tlc, "Resume", "Resume_ascoded.cfg", timeout=1200, heap="4g", workers=4)
        fg = ex.submit(vlib.tlc, "ResumeGen", "ResumeGen_quick.cfg" if quick else "ResumeGen_thorough.cfg",
                       timeout=1800, heap="4g", workers=4)
        fh = ex.submit(vlib.build_harness, ["e2e", "c08"])
        r, ra, g, h = fr.result(), fa.result(), fg.result(), fh.result()
    if not r["ok"]:
        raise vlib.Infra("Resume violates %s on the design level:\n%s" % (r["violated"], r["out"][-3000:]))
    cov["states"], cov["transitions"] = r["distinct"], r["states"]
    cov["exhaustive"] = True
    cov["tlc_wall_s"] = r["wall_s"]
    cov["model_constants"] = open(os.path.join(vlib.VERIF, "spec", cfg)).read()
    if quick:
        ac = vlib.action_counts(r["out"])
        never = [a for a, c in ac.items() if c[1] == 0]
        cov["actions"] = {a: c[1] for a, c in ac.items()}
        if never or len(ac) < 20:
            raise vlib.Infra("actions of Resume that never fire: %s (%d actions seen)" % (never, len(ac)))
    if not ra["ok"]:
        raise vlib.Infra("Resume (as coded) violates %s:\n%s" % (ra["violated"], ra["out"][-3000:]))
    cov["ascoded_states"] = ra["distinct"]
    # 2. spec -> impl: the relations
    if not g["ok"]:
        raise vlib.Infra("ResumeGen: %s\n%s" % (g["violated"], g["out"][-2000:]))
    cases = dedupe(vlib.mbt_lines(g["out"]))
    if len(cases) < 300:
        raise vlib.Infra("ResumeGen exported only %d relations" % len(cases))
    cov["relations_exported"] = len(cases)
    cov["relations_stuck_before_fix_cb319ea"] = sorted({"p%d src=%s old=%s" % (c["proto"], c["src"], "nonempty") for c in cases if c["stuck"]})
    chosen = select(cases, tier, rng)
    jobs = make_jobs(chosen, tier, rng, vlib.seed())
    cov["relations_run_on_real_code"] = sum(len(j["files"]) for j in jobs)
    hist = {}
    for j in jobs:
        for f in j["files"]:
            k = "p%d %s %s %s" % (j["proto"], "up" if j["upload"] else "down", "bin" if j["binary"] else "b64", f["kind"])
            hist[k] = hist.get(k, 0) + 1
    cov["real_case_histogram"] = hist
    # 3. real runs, impl -> spec
    s, files, details, runs, found = check_runs(h, jobs, v, cov)
    # what was seen
    tab = {}
    bytes_sent = bytes_src = 0
    for rid, ev in runs.items():
        d = next((e for e in ev if e["e"] == "done"), {})
        sz = next((e for e in ev if e["e"] == "size"), None)
        k = "%s C=%s V=%s same=%s nhash=%d nack=%d" % (ev[0].get("kind"), d.get("cres"), d.get("sres"), d.get("same"),
                                                     sum(1 for e in ev if e["e"] == "hash"), sum(1 for e in ev if e["e"] == "ack"))
        tab[k] = tab.get(k, 0) + 1
        if sz:
            bytes_sent += sz.get("bytes", 0)
            bytes_src += ev[0].get("srcbytes", 0)
    cov["outcomes"] = tab
    cov["payload_bytes_announced"] = bytes_sent
    cov["source_bytes_total"] = bytes_src
    for rid in sorted(runs)[:2]:
        cov["samples"].append({"recorded_run": [{k: x for k, x in e.items() if k not in ("run",)} for e in runs[rid]]})
    cov["samples"].append({"mbt_case": cases[len(cases) // 2]})
    # the relation in which the pre-fix code sat still: what the real code does with it now
    stuck_runs = [rid for rid, ev in runs.items() if ev[0].get("stuck")]
    cov["emptysrc_runs"] = len(stuck_runs)
    cov["emptysrc_runs_completed"] = sum(1 for rid in stuck_runs if any(e["e"] == "done" and e["cres"] == "ok" and e["sres"] == "ok" and e["same"] for e in runs[rid]))
    # binding demonstration on a recorded run with a mismatch ack and on one with a tail to cut
    good = [f for f in files if os.path.getsize(f) > 0]
    clean = os.path.join(vlib.scratch(), "selftest-base.ndjson")
    bad_ids = {rid for rid, _, _ in found}
    pick = [rid for rid, ev in sorted(runs.items()) if rid not in bad_ids and not ev[0].get("stuck")
            and any(e["e"] == "ack" and e["b"] == 0 for e in ev)]
    pick2 = [rid for rid, ev in sorted(runs.items()) if rid not in bad_ids and not ev[0].get("stuck")
             and any(e["e"] == "ack" for e in ev) and len(ev[0]["old"]) > len(ev[0]["src"])]
    if not pick or not pick2:
        if found or v.violations or v.known_hit:
            # every candidate run is itself a finding: the verdict stands, nothing to demonstrate the binding on
            cov["selftest"] = {"skipped": "no accepted run with a mismatch ack / a longer old file (%d runs rejected)" % len(found)}
            return cov
        raise vlib.Infra("no recorded run with a mismatch ack / a longer old file to demonstrate the binding on")
    with open(clean, "w") as fh:
        for rid in (pick[0], pick2[0]):
            for e in runs[rid]:
                fh.write(json.dumps(e) + "\n")

    def mut(pred, change):
        def m(ev):
            ev = [dict(e) for e in ev]
            for i, e in enumerate(ev):
                if pred(e):
                    r2 = change(e)
                    if r2 is None:
                        return ev[:i] + ev[i + 1:]
                    ev[i] = r2
                    break
            return ev
        return m
    tests = {
        "ack_match_flipped": mut(lambda e: e["e"] == "ack" and e["b"] == 0, lambda e: dict(e, b=1)),
        "hash_dropped": mut(lambda e: e["e"] == "hash", lambda e: None),
        "size_skips_one_more": mut(lambda e: e["e"] == "size", lambda e: dict(e, skip=e["skip"] + 1)),
        "payload_short": mut(lambda e: e["e"] == "payload", lambda e: dict(e, skip=e["skip"] + 1)),
        "final_differs": mut(lambda e: e["e"] == "done", lambda e: dict(e, same=False)),
        "tail_not_cut": mut(lambda e: e["e"] == "done" and e["run"] == pick2[0], lambda e: dict(e, same=False, dstlen=e["dstlen"] + 1)),
        "other_touched": mut(lambda e: e["e"] == "done", lambda e: dict(e, touched=1)),
        "real_prefix_disagrees": mut(lambda e: e["e"] == "reset" and e["ex"], lambda e: dict(e, cpl=e["cpl"] + 1)),
    }
    st = {}
    names, paths = ["base"], [clean]
    base_ev = vlib.read_ndjson(clean)
    for name, m in tests.items():
        p = os.path.join(vlib.scratch(), "selftest-%s.ndjson" % name)
        with open(p, "w") as fh:
            for e in m(base_ev):
                fh.write(json.dumps(e) + "\n")
        names.append(name)
        paths.append(p)
    for name, rr in zip(names, vlib.validate_traces("ResumeTrace", "ResumeTrace.cfg", paths)):
        if name == "base":
            st["base_accepted"] = rr["accepted"]
        else:
            st[name + "_rejected"] = not rr["accepted"]
    cov["selftest"] = st
    if not all(st.values()):
        raise vlib.Infra("binding self-test failed: %s" % st)
    return cov


def replay(path, v):
    rec = json.load(open(path))
    job = rec["replay"].get("job")
    if not job:
        raise vlib.Infra("replay file has no job")
    h = vlib.build_harness(["e2e", "c08"])
    cov = {}
    s, files, details, runs, found = check_runs(h, [job], v, cov, name="c08replay")
    for rid, ev in sorted(runs.items()):
        print("run %s:" % rid, flush=True)
        for e in ev:
            print("   " + json.dumps(e)[:300], flush=True)
    return cov
