"""C07 - without -y nothing that already exists at the destination is touched.  Spec: Dest.tla.
 1. TLC exhaustive on Dest (design, Validate = "required", fresh-name bound MaxSuffix = 1): every
    pre-state of the destination over a small name universe (absent / file / directory / directory
    with content, name.N series with gaps, file where a directory is needed and vice versa) x
    incoming sets (single file, two paths with the same base name, directory with nested entries,
    directory named like a file series, two directories of the same name ...) x protocols 1..4 x
    directory mode x two rounds of the same transfer: Untouched, FreshTopLevel, OneNamePerPath,
    ReportedAreUsed, WholeUnderOne, NoFreshNameFails (and Confined).
 2. spec -> impl: every (pre, incoming, protocol) case exported by TLC from DestGen (sampled in
    the quick tier) plus cases with the code's real constants (1001 taken names, 1000 taken names,
    gaps far beyond the model bound, names at the 255-byte limit, names that need quoting) is
    materialised on disk and received by the real code (server receiving an upload / client
    downloading; older clients = protocols 1..3; protocol 4 directory mode = archive stream),
    twice into the same destination.
 3. impl -> spec: each receive is recorded (snapshot of names, types, sizes, SHA-256, mtimes in
    ns before and after; NAME messages and the local names replied, tapped on the wire; names
    shown to the user; result) and validated by DestTrace: Dest's invariants are evaluated by TLC
    on the state rebuilt from the observation.  A violated invariant is the verdict.
    Agreement of the chosen names with the names TLC predicted is recorded (mbt_agree/mbt_drift)
    but is not a verdict: the property does not demand the first free suffix."""
import os, json, glob, random
import vlib
from checks import e2ecommon as E

ASSUMPTIONS = [
    "the code cannot be hooked at doCreateFile from outside: touches are observed through snapshots; an open-for-write that neither changes bytes, type, mode nor mtime (ns) of a pre-existing entry is invisible",
    "a pre-existing directory inside the destination whose mtime changes counts as touched (something was created or removed in it)",
    "symbolic links inside the destination are out of scope (os.Stat follows them; a dangling link counts as a free name in the code)",
    "the model's fresh-name bound is 1 (name, name.0, name.1); the real bound 999 is exercised by the 1001/1000-names cases only",
    "no SHA-256 collision between different file contents",
]

INVS = "TypeOK Untouched FreshTopLevel OneNamePerPath ReportedAreUsed WholeUnderOne NoFreshNameFails Confined".split()


def gather(outdir, nfiles=16):
    shards = sorted(glob.glob(os.path.join(outdir, "shard-*", "dest.ndjson"))) or sorted(glob.glob(os.path.join(outdir, "dest.ndjson")))
    shards = [s for s in shards if os.path.getsize(s) > 0]
    if not shards:
        raise vlib.Infra("no traces under " + outdir)
    files = []
    k = min(nfiles, len(shards))
    for i in range(k):
        p = os.path.join(outdir, "all-%02d.ndjson" % i)
        with open(p, "w") as out:
            for s in shards[i::k]:
                out.write(open(s).read())
        files.append(p)
    details = {}
    for rj in glob.glob(os.path.join(outdir, "shard-*", "runs.json")) + glob.glob(os.path.join(outdir, "runs.json")):
        for r in json.load(open(rj)) or []:
            c = dict(r["case"])
            if c.get("special"):        # rebuilt by the driver itself: keep the replay file small
                c["pre"] = []
            details[r["run"]] = {"case": c, "round": r["round"], "res": r["res"], "names": r["names"], "shown": r["shown"],
                                 "deltas": r["deltas"], "client_err": r["errs"][0], "server_err": r["errs"][1],
                                 "drift": r.get("drift"), "skipped": r.get("skipped")}
    return files, details


def keyfn(kind, run, det):
    c = det.get("case") or {}
    cfg = c.get("cfg") or {}
    return "%s:p%s:%s:%s%s" % (kind, cfg.get("proto"), "dir" if cfg.get("directory") else "files", c.get("role"),
                              (":" + c["special"]) if c.get("special") else "")


def selftests(files, cov):
    f = files[0]

    def touch(ev):      # a pre-existing path reported as rewritten with identical bytes (mtime only)
        ev = [dict(e) for e in ev]
        for i, e in enumerate(ev):
            if e["e"] == "pre" and e["paths"]:
                p = e["paths"][0]
                ev.insert(i + 1, {"e": "changed", "run": e["run"], "up": p["up"], "p": p["p"], "t": p["t"], "c": p["c"], "what": "mtime"})
                return ev
        return ev[:-1]

    def dropmade(ev):   # a created entry disappears from the observation of a successful receive
        ok = {e["run"] for e in ev if e["e"] == "ret" and e["res"] == "ok"}
        k = next(i for i, e in enumerate(ev) if e["e"] == "made" and e["run"] in ok)
        return ev[:k] + ev[k + 1:]

    def reuse(ev):      # the receiver replies with a name that existed before
        ev = [dict(e) for e in ev]
        pre = None
        for e in ev:
            if e["e"] == "pre":
                pre = e
            if e["e"] == "name" and e["ok"] and pre and pre["run"] == e["run"] and any(len(p["p"]) == 1 for p in pre["paths"]):
                e["chosen"] = next(p["p"] for p in pre["paths"] if len(p["p"]) == 1)
                return ev
        return ev[:-1]

    def reported(ev):   # the user is shown a name that was not used
        ev = [dict(e) for e in ev]
        for e in ev:
            if e["e"] == "reported" and e["names"]:
                e["names"] = [["not-the-name"]] + e["names"][1:]
                return ev
        return ev[:-1]

    # a short prefix of the file is enough (whole runs)
    ev = vlib.read_ndjson(f)
    starts = [i for i, e in enumerate(ev) if e["e"] == "reset"]
    small = os.path.join(os.path.dirname(f), "selftest-src.ndjson")
    with open(small, "w") as fh:
        for e in ev[:(starts[30] if len(starts) > 30 else len(ev))]:
            fh.write(json.dumps(e) + "\n")
    from concurrent.futures import ThreadPoolExecutor
    tests = (("touch", touch), ("dropmade", dropmade), ("reuse", reuse), ("reported", reported))
    with ThreadPoolExecutor(max_workers=4) as ex:
        def one(it):
            import time
            time.sleep(0.05 * it[0])       # vlib names the corrupted copy after the clock
            return vlib.selftest_reject("DestTrace", "DestTrace_c07.cfg", small, it[1][1], timeout=3000)
        res = list(ex.map(one, enumerate(tests)))
    for (name, _), ok in zip(tests, res):
        cov["selftest_%s_rejected" % name] = ok
        if not ok:
            raise vlib.Infra("binding self-test '%s' failed: corrupted trace accepted" % name)


def run(tier, v):
    quick = tier == "quick"
    cov = {"samples": []}
    # 1. design + 2. cases exported by TLC.  DestGen_c07_quick.cfg checks every invariant of Dest on
    # the quick universe and exports its cases in the same run; the thorough tier adds the large universe.
    g = vlib.tlc("DestGen", "DestGen_c07_quick.cfg", timeout=5400, heap="6g", coverage=True)
    if not g["ok"]:
        raise vlib.Infra("Dest violates %s on the design level:\n%s" % (g["violated"], g["out"][-3000:]))
    cov["states"], cov["transitions"], cov["depth"] = g["distinct"], g["states"], g.get("depth")
    cov["exhaustive"] = True
    cov["model_config"] = "DestGen_c07_quick.cfg (Dest + case export)"
    cov["model_wall_s"] = g["wall_s"]
    ac = vlib.action_counts(g["out"])
    cov["action_counts"] = ac
    need = ["Populate", "RecvPlainName", "RecvJsonName", "ArchiveEntry", "GetNewName", "Mkdir", "OpenCreate", "Write", "Finish", "NextRound"]
    dead = [a for a in need if a not in ac or ac[a][1] == 0]
    if dead:
        raise vlib.Infra("actions never taken in DestGen_c07_quick.cfg: %s" % dead)
    if not quick:
        r = vlib.tlc("Dest", "Dest_c07_thorough.cfg", timeout=5400, heap="8g")
        if not r["ok"]:
            raise vlib.Infra("Dest violates %s on the design level:\n%s" % (r["violated"], r["out"][-3000:]))
        cov["states_quick_universe"], cov["transitions_quick_universe"] = cov["states"], cov["transitions"]
        cov["states"], cov["transitions"], cov["depth"] = r["distinct"], r["states"], r.get("depth")
        cov["model_config"] = "Dest_c07_thorough.cfg; cases exported from DestGen_c07_quick.cfg"
        cov["model_wall_s"] = r["wall_s"]
    cases = vlib.mbt_lines(g["out"])
    if len(cases) < 1000:
        raise vlib.Infra("MBT export produced only %d cases" % len(cases))
    cov["mbt_cases_exported"] = len(cases)
    rng = random.Random(vlib.seed())
    rng.shuffle(cases)
    hard = [c for c in cases if c["want"]["phase"] == "failed"]
    rest = [c for c in cases if c["want"]["phase"] != "failed"]
    if quick:
        sel = hard[:120] + rest[:360]
    else:
        sel = cases
    for i, c in enumerate(sel):
        c["id"] = i + 1
    h = vlib.build_harness(["e2e", "c07"])
    out = os.path.join(vlib.scratch(), "c07")
    os.makedirs(out, exist_ok=True)
    cp = os.path.join(out, "cases.ndjson")
    with open(cp, "w") as fh:
        for c in sel:
            fh.write(json.dumps(c) + "\n")
    s = vlib.run_driver(h, "c07_dest", out, {"cases": cp, "shards": 64 if quick else 96, "roles": "alt" if quick else "both",
                                              "specials": True}, timeout=5400)
    files, details = gather(out)
    # 3. judge
    bad, _, st = E.judge(files, "DestTrace", "DestTrace_c07.cfg", v, details, "dest", keyfn=keyfn, timeout=5400, max_rounds=4)
    cov["traces_validated_against_impl"] = s.get("runs", 0)
    cov["receives_ok"] = s.get("runs_ok", 0)
    cov["receives_refused"] = s.get("runs_failed", 0)
    cov["runs_hung_skipped"] = s.get("hung", 0)
    cov["mbt_cases_run"] = len(sel)
    cov["mbt_agree"], cov["mbt_drift"] = s.get("mbt_agree", 0), s.get("mbt_drift", 0)
    cov["mbt_cases_beyond_model_bound"] = s.get("model_bound_cases", 0)
    cov["tv_states"] = st
    cov["trace_runs_rejected"] = bad
    cov["invariants"] = INVS
    if s.get("runs", 0) < len(sel):
        raise vlib.Infra("only %d receives recorded for %d cases" % (s.get("runs", 0), len(sel)))
    if s.get("runs_ok", 0) < s.get("runs", 0) // 3:
        raise vlib.Infra("too few successful receives (%d of %d): the harness is not exercising the property" % (s.get("runs_ok", 0), s.get("runs", 0)))
    per = {}
    for d in details.values():
        c = d["case"]
        k = "p%d %s %s" % (c["cfg"]["proto"], "dir" if c["cfg"]["directory"] else "files", c["role"])
        per[k] = per.get(k, 0) + 1
    cov["runs_per_configuration"] = per
    drift = [d for d in details.values() if d.get("drift")]
    cov["drift_samples"] = [{"drift": d["drift"], "special": d["case"].get("special")} for d in drift[:3]]
    some = next((d for d in details.values() if d["res"] == "ok" and d["round"] == 2 and not d["case"].get("special")), None)
    if some:
        cov["samples"].append({"case": {k: some["case"][k] for k in ("cfg", "role", "entries", "want")},
                               "pre": [p for p in some["case"]["pre"] if p["up"] == 0 and p["p"]],
                               "round": 2, "names": some["names"], "shown": some["shown"], "deltas": some["deltas"]})
    sp = next((d for d in details.values() if d["case"].get("special") == "taken1001-file"), None)
    if sp:
        cov["samples"].append({"special": "taken1001-file", "res": sp["res"], "server_err": sp["server_err"], "deltas": sp["deltas"]})
    selftests(files, cov)
    return cov


def replay(path, v):
    rec = json.load(open(path))
    case = rec["replay"].get("case")
    if not case:
        raise vlib.Infra("replay file has no case")
    h = vlib.build_harness(["e2e", "c07"])
    out = os.path.join(vlib.scratch(), "c07replay")
    os.makedirs(out, exist_ok=True)
    params = {"inproc": True, "specials": False}
    if case.get("special"):
        # cases with the real constants are rebuilt by the driver; only that one is kept
        params["specials"] = True
        params["only_special"] = case["special"]
    else:
        cp = os.path.join(out, "cases.ndjson")
        with open(cp, "w") as fh:
            fh.write(json.dumps(case) + "\n")
        params["cases"] = cp
    vlib.run_driver(h, "c07_dest", out, params, timeout=3000)
    files, details = gather(out, 1)
    for r in sorted(details):
        d = details[r]
        print("run %s round %s: %s names=%s shown=%s deltas=%s" % (r, d["round"], d["res"],
              [("/".join("/".join(e) for e in n["rel"]), "/".join(n["chosen"])) for n in d["names"]], d["shown"], d["deltas"]), flush=True)
    E.judge(files, "DestTrace", "DestTrace_c07.cfg", v, details, "dest", keyfn=keyfn, timeout=3000)
    return {}
