"""C01 - end-to-end fidelity.  Spec: Transfer.tla (message-level protocol model, both
directions, protocols 1..4), checked exhaustively by TLC (Fidelity, NoSilentCorruption,
NoFalseSuccess, CleanRunSucceeds, Termination under fairness).  Binding: fault-free real
transfers (real client path handleTrzsz <-> real trz/tsz role bodies over a re-chunking wire)
across the configuration matrix are validated (a) against TransferObs: Transfer's own property
formulas evaluated on the observed outcome (returned results, names shown, destination tree vs
source tree), (b) against TransferTrace: every protocol line written must be the send of the
action the spec allows in that state, with the logged value."""
import os, json
import vlib
from checks import e2ecommon as E

ASSUMPTIONS = [
    "file equality is judged by size + SHA-256 (no collision)",
    "older peers are emulated by rewriting the protocol field of ACT in flight (1..3) or by a 1.1.3 trigger version",
    "in-process client and server share one address space; the wire re-chunks but does not reorder",
]


def keyfn(kind, run, det):
    case = det.get("case") or {}
    if case.get("id", 0) >= 920000:
        o = case.get("opts", {})
        return "process-%s%s%s" % ("up" if o.get("upload") else "down", "-bin" if o.get("binary") else "", "-dir" if o.get("directory") else "")
    if case.get("id", 0) >= 910000:
        pre = (case.get("pre") or [{}])[0].get("size")
        src = (case.get("nodes") or [{}])[0].get("size")
        return "overwrite-existing-src%s-old%s-p%s" % (src, pre, case["opts"]["protocol"])
    if case.get("id", 0) >= 900000:
        return "nofile-" + ("upload" if case["opts"]["upload"] else "download") + ("-dir" if case["opts"]["directory"] else "") + ("" if case["opts"].get("overwrite") else "-archive-empty-entries")
    return "obs-" + kind


def run(tier, v):
    quick = tier == "quick"
    cov = {"samples": []}
    r = vlib.tlc("TransferMC", "Transfer_clean.cfg", timeout=1800)
    if not r["ok"]:
        raise vlib.Infra("Transfer (clean) violates %s on the design level\n%s" % (r["violated"], r["out"][-3000:]))
    cov["states"], cov["transitions"] = r["distinct"], r["states"]
    cov["model"] = "Transfer_clean.cfg: 3+3 file sets x protocols 1..4 x upload/download x confirm/refuse, window 2, liveness Termination"
    h = vlib.build_harness(["e2e", "c01"])
    out = os.path.join(vlib.scratch(), "c01")
    s = vlib.run_driver(h, "c01_e2e", out, {"runs": 288 if quick else 6000, "shards": 48 if quick else 64, "big": not quick},
                        timeout=3000)
    files, details = E.gather(out)
    out2 = os.path.join(vlib.scratch(), "c01nofile")
    s2 = vlib.run_driver(h, "c01_nofile", out2, {})
    f2, d2 = E.gather(out2, 1)
    details.update(d2)
    out3 = os.path.join(vlib.scratch(), "c01resume")
    s3 = vlib.run_driver(h, "c01_resume", out3, {}, timeout=1500)
    f3, d3 = E.gather(out3, 1)
    details.update(d3)
    bins = vlib.build_cmds(("trz", "tsz"))
    out4 = os.path.join(vlib.scratch(), "c01proc")
    s4 = vlib.run_driver(h, "c01_process", out4, {"bindir": os.path.dirname(bins["trz"]), "runs": 48 if quick else 480, "shards": 16}, timeout=1500)
    f4, d4 = E.gather(out4, 2)
    details.update(d4)
    obs = E.strip_lines(files + f2 + f3 + f4, out)
    bad, _, st1 = E.judge(obs, "TransferObs", "TransferObs_c01.cfg", v, details, "obs", keyfn=keyfn)
    bad2, drift, st2 = E.judge(files, "TransferTrace", "TransferTrace.cfg", v, details, "msg", violation=False)
    # a message-level invariant failure (predicted destination differs from the observed one) is a violation
    cov["traces_validated_against_impl"] = s["runs"] + s2["runs"] + s3["runs"]
    cov["overwrite_existing_runs"] = s3["runs"]
    cov["process_level_runs"] = s4["runs"]
    cov["traces_validated_against_impl"] += s4["runs"]
    cov["obs_files_rejected"] = bad
    cov["msg_level_drift"] = drift[:10]
    cov["msg_level_rejected_files"] = bad2
    cov["tv_states"] = st1 + st2
    ev = vlib.read_ndjson(files[0])
    cov["samples"].append({"recorded_run": [e for e in vlib.run_of(ev, 0)][:25]})
    # binding demonstration
    def flip(ev):
        ev = [dict(e) for e in ev]
        for e in ev:
            if e.get("e") == "fs" and e.get("allsame"):
                e["allsame"] = False
                e["claimsame"] = False
                e["nsame"] = 0
                break
        return ev
    def dropack(ev):
        k = next(i for i, e in enumerate(ev) if e.get("e") == "line" and e.get("t") == "SUCC" and e["v"]["k"] == "int")
        return ev[:k] + ev[k + 1:]
    cov["selftest_flip_rejected"] = vlib.selftest_reject("TransferObs", "TransferObs_c01.cfg", obs[0], flip)
    cov["selftest_dropack_rejected"] = vlib.selftest_reject("TransferTrace", "TransferTrace.cfg", files[0], dropack)
    if not (cov["selftest_flip_rejected"] and cov["selftest_dropack_rejected"]):
        raise vlib.Infra("binding self-test failed")
    return cov


def replay(path, v):
    rec = json.load(open(path))
    case = rec["replay"].get("case")
    if not case:
        raise vlib.Infra("replay file has no case")
    h = vlib.build_harness(["e2e", "c01"])
    out = E.replay_cases(h, [case])
    files, details = E.gather(out, 1)
    obs = E.strip_lines(files, out)
    E.judge(obs, "TransferObs", "TransferObs_c01.cfg", v, details, "obs", keyfn=keyfn)
    return {}
