"""C12 - no input from the other side can crash the process.  Spec: Transfer.tla (the honest
role's specified reaction to every unexpected message is Fail or continue, TypeOK on all
reachable states with damaged messages) checked by TLC with message damage; binding: real
transfers in which the payload of one protocol message is replaced in flight by a boundary value
(negative, zero, off-by-one, 2^31, 2^62, 2^63-1, non-numeric, empty, oversized, wrong JSON type,
missing JSON field, truncated JSON / base64 / zlib, forged FAIL, unknown type) at every protocol
stage, both roles, with and without a progress display, prefix-hash and archive modes, run in
child processes with a limited address space; a child that dies is attributed to the case it had
marked.  Judged by TransferObs: ObsNoCrash, ObsBoundedMemory, ObsReturnInTime."""
import os, json, re
import vlib
from checks import e2ecommon as E

ASSUMPTIONS = [
    "the adversary is modelled as one replaced message in an otherwise honest transcript (single mutation per run)",
    "memory: the peak virtual size of the process may grow by at most 1 GiB during one transfer of a few KiB (RLIMIT_AS 6 GiB turns larger single allocations into a crash)",
    "terminal-output scanners (trigger/zmodem/OSC52/drag) are exercised under C05/C06/C19, not here",
    "results (ok/fail) are not judged here: a peer that renames or drops entries is not distinguishable from a different honest transfer",
]


def crash_site(head):
    for line in head.splitlines():
        m = re.search(r"trzsz\.\(\*?(\w+)\)\.(\w+)|trzsz\.(\w+)\(", line)
        if m and "e2e" not in line and "TestVerif" not in line and "c12" not in line:
            return ".".join(x for x in m.groups() if x)
    m = re.search(r"(fatal error: [^\n]+|panic: [^\n]+)", head)
    return (m.group(1) if m else "unknown")[:60].replace(" ", "_")


def keyfn_factory(crash_keys):
    def keyfn(kind, run, det):
        rid = run[0].get("run") if run else None
        if kind == "ObsNoCrash" and rid in crash_keys:
            return crash_keys[rid]
        mu = ((det.get("case") or {}).get("plan") or {}).get("mutate") or {}
        return "%s:%s" % (kind, mu.get("label", "?"))
    return keyfn


def run(tier, v):
    quick = tier == "quick"
    cov = {"samples": []}
    r = vlib.tlc("TransferMC", "Transfer_fault1.cfg", timeout=3000, heap="16g")
    if not r["ok"]:
        raise vlib.Infra("Transfer (damage) violates %s on the design level\n%s" % (r["violated"], r["out"][-3000:]))
    cov["states"], cov["transitions"] = r["distinct"], r["states"]
    cov["model"] = "Transfer_fault1.cfg: every message damaged (field +1, payload not ok, unknown type), deleted, duplicated or cut; reaction Fail or continue; TypeOK"
    h = vlib.build_harness(["e2e", "c12"])
    out = os.path.join(vlib.scratch(), "c12")
    s = vlib.run_driver(h, "c12_adversary", out, {"shards": 96, "thorough": not quick, "stride": 1}, timeout=3400)
    files, details = E.gather(out)
    # crashed cases: synthesize reset + crash events
    crash_keys = {}
    cfile = os.path.join(out, "crashes.json")
    ncrash = 0
    if os.path.exists(cfile):
        cr = json.load(open(cfile))
        p = os.path.join(out, "all-crash.ndjson")
        with open(p, "w") as fh:
            for x in cr:
                case = x["current"]["case"]
                o = case["opts"]
                rid = case["id"]
                fh.write(json.dumps({"e": "reset", "run": rid, "upload": o["upload"], "proto": o["protocol"], "binary": o["binary"],
                                     "overwrite": o["overwrite"], "directory": o["directory"], "windows": False, "nfaults": 0,
                                     "stop": "none", "stopdel": False, "pause": False, "silence": True, "timeout": o["timeout"],
                                     "fkind": "mutate", "prehs": False, "files": []}) + "\n")
                fh.write(json.dumps({"e": "crash", "run": rid, "how": x["error"]}) + "\n")
                details[rid] = {"case": case, "crash_output": x["output_head"]}
                crash_keys[rid] = "crash@" + crash_site(x["output_head"])
                ncrash += 1
        if ncrash:
            files.append(p)
    bad, _, st = E.judge(files, "TransferObs", "TransferObs_c12.cfg", v, details, "obs", keyfn=keyfn_factory(crash_keys),
                         timeout=3000, max_rounds=40)
    cov["traces_validated_against_impl"] = s["runs"] + ncrash
    cov["child_crashes"] = ncrash
    # byte streams against the line readers themselves (crash-only oracle; what is returned is C03's / C16's subject)
    out2 = os.path.join(vlib.scratch(), "c12streams")
    s2 = vlib.run_driver(h, "c12_streams", out2, {"streams": 40000 if quick else 800000, "shards": 32}, timeout=3000)
    cov["reader_streams"] = s2.get("streams", 0)
    cov["reader_stream_panics"] = s2.get("panics", 0)
    # the scanners of the wrapper (trigger detection, zmodem headers, OSC 52 with its state across reads, dragged paths)
    out3 = os.path.join(vlib.scratch(), "c12scanners")
    s3 = vlib.run_driver(h, "c12_scanners", out3, {"streams": 400000 if quick else 6000000, "shards": 16}, timeout=3000)
    cov["scanner_streams"] = s3.get("streams", 0)
    cov["scanner_stream_panics"] = s3.get("panics", 0)
    import glob as _glob
    for hf in sorted(_glob.glob(os.path.join(out3, "shard-*", "hits.json"))):
        for hit in (json.load(open(hf)) or []):
            site = re.sub(r"[^A-Za-z0-9 ]+", " ", hit.get("panic") or "")[:50].strip().replace(" ", "-")
            v.violation("scanner-panic:%s:%s" % (hit["scanner"], site),
                        "the %s scanner panicked on terminal bytes: %s -- stream %s reads %s" % (hit["scanner"], hit.get("panic"), hit["stream"][:300], hit["chunks"][:40]),
                        {"scanner_hit": hit})
    for hf in sorted(_glob.glob(os.path.join(out2, "shard-*", "hits.json"))):
        for hit in (json.load(open(hf)) or []):
            what = "slow" if hit.get("slow") and not hit.get("panic") else "panic"
            site = re.sub(r"[^A-Za-z0-9 ]+", " ", hit.get("panic") or "no return in time")[:50].strip().replace(" ", "-")
            v.violation("reader-%s:%s:%s:%s" % (what, hit["mode"], hit["call"], site),
                        "the real %s reader (%s framing) %s on a byte stream: %s -- stream %s chunks %s" % (
                            hit["call"], hit["mode"], "did not return in time" if what == "slow" else "panicked", hit.get("panic"), hit["stream"][:300], hit["chunks"][:40]),
                        {"stream_hit": hit})
    cov["tv_states"] = st
    labels = {}
    for d in details.values():
        mu = ((d.get("case") or {}).get("plan") or {}).get("mutate") or {}
        t = mu.get("label", "?").split(":")[0]
        labels[t] = labels.get(t, 0) + 1
    cov["mutations_per_message_type"] = labels
    table, unapplied, vmmax = {}, 0, 0
    for f in files:
        cur = {}
        for e in vlib.read_ndjson(f):
            if e["e"] == "reset":
                cur = {}
            elif e["e"] == "ret":
                cur[e["role"]] = e["res"]
            elif e["e"] == "fs":
                k = "C=%s V=%s" % (cur.get("C"), cur.get("V"))
                table[k] = table.get(k, 0) + 1
                unapplied += 0 if e.get("mutapplied") else 1
                vmmax = max(vmmax, e.get("vmgrow", 0))
    cov["outcomes"] = table
    cov["mutations_not_applied"] = unapplied
    cov["max_vm_growth_mb"] = vmmax
    some = next(d for d in details.values() if (d.get("case") or {}).get("plan", {}).get("mutate"))
    cov["samples"].append({"mutation": some["case"]["plan"]["mutate"], "opts": some["case"]["opts"]})
    def corrupt(ev):
        ev = [dict(e) for e in ev]
        for e in ev:
            if e.get("e") == "fs":
                e["vmgrow"] = 5000
                break
        return ev
    cov["selftest_rejected"] = vlib.selftest_reject("TransferObs", "TransferObs_c12.cfg", files[0], corrupt)
    if not cov["selftest_rejected"]:
        raise vlib.Infra("binding self-test failed")
    # (extension X01, the sender's adaptive buffer size and the receiver's acceptance bound, runs inside C04's check)
    return cov


def replay(path, v):
    rec = json.load(open(path))
    case = rec["replay"].get("case")
    h = vlib.build_harness(["e2e", "c12"])
    try:
        out = E.replay_cases(h, [case])
    except vlib.Infra as e:
        v.violation("crash@replay", "the replayed case kills the process: " + str(e)[-800:], {"case": case})
        return {}
    files, details = E.gather(out, 1)
    E.judge(files, "TransferObs", "TransferObs_c12.cfg", v, details, "obs", keyfn=keyfn_factory({}))
    return {}
