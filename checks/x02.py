"""X02 "DragPrompt" - extension hosted by C05 (observation-only for the host): the two input-side
sub-machines of the wrapper that Filter.tla abstracts (a chunk "is / is not a drag"; the stop
prompt as one PromptEnd step), modelled explicitly and bound to the real code.

Part A  spec/DragScan.tla: trzsz/drag.go as per-byte machines (one action per loop turn / branch
        of detectDragFiles, nextLinuxPath, detectDragFilesOnMacOS, nextWinPath, nextMsysPath,
        nextCygPath, detectFilePath; bytes.IndexByte as its own loop), the file system a function
        path -> file | dir | other.  Properties (TLC, all inputs of a few symbols over per-platform
        alphabets): AllOrNothing against a declarative reference tokenisation (RefOf),
        NoDragLeavesInputUntouched, CursorMonotone / CursorStep / Termination, HasDirIff,
        DragHasFiles, NoDragNoFiles, IgnoreMeansMarksOnly, IsWinMeansWinHead, AbsoluteOnly,
        RefUnique, DeadBranches (two defensive branches of the code are unreachable).
        Named deviations of the code from the reference (Quirks): MinLen, MacRel, MacTail - the
        design holds with them, is violated without them, and each is shown on the real code.
Part B  spec/Prompt.tla: transformPromptInput as a transducer (incl. the tmux control-mode forms,
        the regular expression spelt out) and the prompt life-cycle (sendInput's branches,
        confirmStopTransfer, promptui's cursor, handleTrzsz's dismissal).  Properties:
        NothingTypedReachesServerWhilePromptOpen, OnlyPromptKeysReachPrompt, EveryChoiceHasItsEffect,
        PromptAlwaysClosed, PromptClosedWithoutTransfer, PausedOnlyWhilePrompt, ChunkingIndependent
        (holds for key-aligned chunkings only: quirk WholeChunk).
Binding: DragScanGen / PromptGen export cases (BFS, and -simulate for long inputs); harness/
x02_dragprompt.go runs them and random ones on the real detectDragFiles (all five scanners: the
platform is switched through the package's own variables, Windows names are files of that name
in the working directory) / transformPromptInput / sendInput / confirmStopTransfer; every recorded
call is validated by DragScanTrace / PromptTrace (the recorded result must be the model's result),
the exported expectations are compared as well; a corrupted recording must be rejected.
A result of the real code that the model does not produce is a violation of X02 (for the host C05
a note); behaviours of the unchanged tree that deviate from the reference are OBSERVATIONS."""
import os, json, re, random, time
from concurrent.futures import ThreadPoolExecutor
import vlib

ASSUMPTIONS = [
    "bytes are abstracted to the classes the scanners distinguish; '.', NUL and multi-byte characters are not in the alphabets",
    "the root directory macro is 12 bytes in the binding and 3 bytes in the exhaustive runs (the scanners do not look inside it)",
    "macOS scanner: the Warp-terminal branch is not modelled and not executable here (isWarpTerminal() is a constant of the build)",
    "Windows / msys / cygwin scanners are executed on Linux: C:\\a is a file of that name in the working directory; what Windows' own path resolution adds (case folding, '/' as separator, 8.3 names) is not covered",
    "tmux frames: the pane id is %1, payload bytes are taken from the configured alphabet; hex fields of at most 7 digits",
    "the filter-level drag scenarios and the real confirmStopTransfer are samples (timing: only lower bounds from the code's own sleeps are judged)",
    "the dismissal of an open prompt when the transfer ends is handleTrzsz's deferred code; the driver performs the same three statements itself (it cannot make handleTrzsz return without a peer)",
    "TLC fingerprint collisions negligible",
]

OBSERVATIONS = {
    r"^drag-MinLen$": "nextXxxPath gives up when fewer than 3 (Linux) / 4 (Windows, msys) / 13 (cygwin) bytes remain: a last token that is "
                      "exactly a root (`/ `, `C:\\`, `/c/`, `/cygdrive/c/`) makes the whole chunk 'not a drag' although every token exists",
    r"^drag-MacRel$": "detectDragFilesOnMacOS demands a leading '/' only for the first token: a later token that is a relative name existing in the "
                      "wrapper's working directory is accepted and queued for upload (the chunk is swallowed instead of being forwarded)",
    r"^drag-MacTail$": "detectDragFilesOnMacOS rejects every chunk whose last-but-one byte is a backslash, also when that backslash is itself "
                       "escaped (a file whose name ends in a backslash, dragged as `name\\\\ `, is never detected)",
    r"^drag-dead-branches$": "two defensive branches can never be taken: nextLinuxPath's `idx < 0` after IndexByte(buf, ' ') (the caller checked "
                             "that the chunk ends in a space) and detectDragFilesOnMacOS's final `pathBuf.Len() != 0`",
    r"^prompt-chunking-dependent$": "transformPromptInput looks at a chunk as a whole: two keys in one read (`jj`, `\\r\\n`, Ctrl-C twice) are all dropped, an arrow "
                                    "sequence split over two reads is dropped, and the tail of a split tmux frame can act as a key of its own "
                                    "(`send -t %1 0x6a` | `\\r` confirms the highlighted choice instead of moving down)",
    r"^filter-late-chunk-joins-old-list$": "a path list that arrives after the upload command was sent but before the 3 s reset is appended to the old "
                                           "list and swallowed without a new upload command",
}

DRAG_ACTIONS = ["PasteNone", "PasteStrip", "PasteOnly", "Dispatch", "OtherOS", "LinuxGuardFail", "LinuxGuardOk", "LoopTurn", "LoopEnd",
                "NextShort", "NextQuoted", "NextPlain", "NextOther", "ScanMiss", "ScanHit", "ScanEnd", "QuotedNoClose", "QuotedBadFollow",
                "QuotedOk", "PlainWhole", "PlainOk", "StatOk", "StatFail", "MacGuardFail", "MacGuardOk", "MacSpaceOk", "MacSpaceFail",
                "MacEscape", "MacByte", "MacEndClean", "WinShort", "WinLostQuoteHit", "WinStyle", "WinNoStyle"]
DRAG_DEAD = ["PlainNoSpaceFail", "MacEndDirty"]
PROMPT_ACTIONS = ["SendInputPrompt", "ConfirmStop", "SendInputTransfer", "SendInputIdle", "PromptMove", "Choose", "TransferEnds"]


_TH = ["s", "e", "n", "d", "SP", "-", "t", "SP", "%", "1", "SP"]
# chunkings shown first among the examples of the chunking observation
PREFERRED = [[["j", "j"]], [["CR", "LF"]], [["ETX", "ETX"]], [["ESC"], ["[", "B"]], [["ESC", "["], ["A"]],
             [_TH + ["0", "x", "6", "a"], ["CR"]], [_TH + ["0", "x", "6", "a", "CR"], ["j"]]]


def _counts(out):
    res = {}
    for line in out.splitlines():
        m = re.match(r"^<(\w+) line [^>]*>: (\d+):(\d+)$", line.strip())
        if m:
            res[m.group(1)] = res.get(m.group(1), 0) + int(m.group(3))
    return res


def design(quick, cov):
    jobs = [("DragScan", "DragScan_quick.cfg", True, None), ("DragScan", "DragScan_quick_win.cfg", True, None),
            ("DragScan", "DragScan_live.cfg", False, None), ("DragScan", "DragScan_intended.cfg", False, {"AllOrNothing", "AbsoluteOnly"}),
            ("Prompt", "Prompt_quick.cfg", True, None), ("Prompt", "Prompt_quick_tmux.cfg", False, None),
            ("Prompt", "Prompt_intended.cfg", False, {"ChunkingIndependent"})]
    if not quick:
        jobs += [("DragScan", "DragScan_thorough.cfg", False, None), ("DragScan", "DragScan_thorough_win.cfg", False, None),
                 ("Prompt", "Prompt_thorough.cfg", False, None), ("Prompt", "Prompt_thorough_tmux.cfg", False, None)]

    def one(j):
        mod, cfg, covr, _ = j
        return j, vlib.tlc(mod, cfg, workers=3 if quick else 6, timeout=840, heap="2g" if quick else "6g", coverage=covr)
    with ThreadPoolExecutor(max_workers=4 if quick else 6) as ex:
        res = list(ex.map(one, jobs))
    cov["states"], cov["transitions"], cov["design_configs"] = 0, 0, {}
    fired = {}
    for (mod, cfg, covr, expect), r in res:
        if expect:
            if r["violated"] not in expect:
                raise vlib.Infra("%s without the named quirks should violate one of %s, got %s" % (cfg, sorted(expect), r["violated"]))
            cov.setdefault("reference_without_quirks_violates", {})[cfg] = r["violated"]
            continue
        if not r["ok"]:
            raise vlib.Infra("%s/%s violates %s on the design level:\n%s" % (mod, cfg, r["violated"], r["out"][-3000:]))
        cov["states"] += r["distinct"]
        cov["transitions"] += r["states"]
        cov["design_configs"][cfg] = {"distinct": r["distinct"], "generated": r["states"], "depth": r.get("depth"), "wall_s": r["wall_s"]}
        if covr:
            for a, g in _counts(r["out"]).items():
                fired[a] = fired.get(a, 0) + g
    acts = DRAG_ACTIONS + PROMPT_ACTIONS
    cov["actions_fired"] = {a: fired.get(a, 0) for a in acts}
    dead = [a for a in acts if not fired.get(a)]
    if dead:
        raise vlib.Infra("actions that never fire in the exhaustive configurations: %s" % dead)
    alive = [a for a in DRAG_DEAD if fired.get(a)]
    if alive:
        raise vlib.Infra("branches stated to be unreachable fire: %s" % alive)
    cov["unreachable_branches"] = DRAG_DEAD
    cov["exhaustive"] = True


def gen(quick):
    sd = vlib.seed()
    jobs = {"scan_bfs": ("DragScanGen", "DragScanGen_quick.cfg" if quick else "DragScanGen_thorough.cfg", None),
            "scan_sim": ("DragScanGen", "DragScanGen_sim.cfg", "num=%d" % (1500 if quick else 12000)),
            "keys": ("PromptGen", "PromptGen_quick.cfg" if quick else "PromptGen_thorough.cfg", None)}

    def one(k):
        mod, cfg, sim = jobs[k]
        r = vlib.tlc(mod, cfg, workers=1 if sim else 4, timeout=800, simulate=sim, depth=400 if sim else None, heap="3g",
                     extra_args=["-seed", str(sd)] if sim else None)
        if not r.get("ok"):
            raise vlib.Infra("generator %s failed: %s\n%s" % (cfg, r["violated"], r["out"][-2000:]))
        return k, vlib.mbt_lines(r["out"])
    with ThreadPoolExecutor(max_workers=3) as ex:
        return dict(ex.map(one, jobs))


def _write(path, events):
    with open(path, "w") as fh:
        for e in events:
            fh.write(json.dumps(e) + "\n")
    return path


def _shard(events, out, name, k):
    k = max(1, min(k, len(events)))
    return [_write(os.path.join(out, "%s-%02d.ndjson" % (name, i)), events[i::k]) for i in range(k)]


def scan_key(c):
    return (c["os"], c["fs"], tuple(c["input"]))


def show(names):
    tab = {"SP": " ", "BS": "\\", "SQ": "'", "DQ": '"', "SL": "/", "CO": ":", "CR": "\\r", "LF": "\\n", "ESC": "\\e", "LB": "[", "TI": "~", "OT": "#",
           "ETX": "^C", "TAB": "\\t", "DLE": "^P", "SO": "^N", "VT": "^K", "DC1": "^Q"}
    s = "".join(tab.get(n, n) for n in names)
    return s.replace("/" + "z" * 11, "<root>")


def judge_scan(v, cov, cases, events, out, quick):
    exp = {scan_key(c): c for c in cases}
    n_cmp, obs = 0, cov["observations"]
    for e in events:
        c = exp.get(scan_key(e))
        if c is None:
            continue
        n_cmp += 1
        same = all(e[f] == c[f] for f in ("drag", "files", "hasDir", "ignore", "isWin")) and e["after"] == e["input"]
        if not same:
            v.violation("scan-differs-from-model:%s" % e["os"], "detectDragFiles(%r) on %s/%s returned %s, the model %s" % (
                show(e["input"]), e["os"], e["fs"], {f: e[f] for f in ("drag", "files", "hasDir", "ignore", "isWin")},
                {f: c[f] for f in ("drag", "files", "hasDir", "ignore", "isWin")}), {"kind": "scan", "case": {k: c[k] for k in ("os", "fs", "input")}})
        elif c["drag"] != c["refDrag"] or (c["drag"] and c["files"] != c["refFiles"]):
            b = c["input"]
            q = "MacRel" if (c["os"] == "macos" and c["drag"]) else ("MacTail" if c["os"] == "macos" and len(b) > 2 and b[-2] == "BS" and b[:-2].count("BS") % 2 == 1 or (c["os"] == "macos" and len(b) >= 3 and b[-3:-1] == ["BS", "BS"]) else "MinLen")
            o = obs.setdefault("drag-" + q, {"what": OBSERVATIONS.get("^drag-%s$" % q), "count": 0, "examples": []})
            o["count"] += 1
            if len(o["examples"]) < 4 and show(b) not in [x["input"] for x in o["examples"]]:
                o["examples"].append({"os": c["os"], "fs": c["fs"], "input": show(b), "real_and_model_drag": c["drag"], "reference_drag": c["refDrag"],
                                      "files": [show(f) for f in e["files"]]})
    cov["scan_cases_compared_with_export"] = n_cmp
    files = _shard(events, out, "scan", 4 if quick else 12)
    res = vlib.validate_traces("DragScanTrace", "DragScanTrace.cfg", files, timeout=800, heap="2g")
    st = 0
    for f, r in zip(files, res):
        st += r["distinct"]
        if not r["accepted"]:
            ev = vlib.read_ndjson(f)
            bad = ev[(r["hw"] or 1) - 1] if r["hw"] else ev[0]
            if r["violated"] not in (None, "postcondition"):
                key = "scan-invariant-%s:%s" % (r["violated"], bad["os"])
            else:
                key = "scan-trace-rejected:%s" % bad["os"]
            v.violation(key, "the recorded call detectDragFiles(%r) on %s/%s -> %s is not a behaviour of DragScan (%s)\n%s" % (
                show(bad["input"]), bad["os"], bad["fs"], {k: bad[k] for k in ("drag", "files", "hasDir", "ignore", "isWin")}, r["violated"],
                vlib.explain_rejection(f, r["hw"])), {"kind": "scan", "case": {k: bad[k] for k in ("os", "fs", "input")}})
    cov["scan_tv_states"] = st
    return files


def judge_keys(v, cov, cases, events, out, quick):
    obs = cov["observations"]
    i, n_dep = 0, 0
    for c in cases:
        got_all = []
        for j, ch in enumerate(c["chunks"]):
            e = events[i]
            i += 1
            got_all += e["got"]
            if e["chunk"] != ch:
                raise vlib.Infra("keys recording out of step")
            if e["got"] != c["out"][j]:
                v.violation("keys-differ-from-model", "transformPromptInput(%r) wrote %s, the model %s" % (show(ch), e["got"], c["out"][j]),
                            {"kind": "keys", "chunks": c["chunks"]})
        if got_all != c["ref"] and got_all == [x for o in c["out"] for x in o]:
            n_dep += 1
            o = obs.setdefault("prompt-chunking-dependent", {"what": OBSERVATIONS[r"^prompt-chunking-dependent$"], "count": 0, "examples": []})
            o["count"] += 1
            pri = (any(s[-1:] == ["CR"] and len(s) == 1 for s in c["chunks"]) and any(len(s) > 6 for s in c["chunks"]) and "CR" in got_all and len(c["chunks"]) == 2)
            if c["chunks"] in PREFERRED or len(o["examples"]) < 3 or (pri and len(o["examples"]) < 5):
                o["examples"].insert(0 if c["chunks"] in PREFERRED else len(o["examples"]), {"chunks": [show(s) for s in c["chunks"]], "real_and_model": got_all, "chunking_independent_reading": c["ref"]})
    cov["key_streams_compared_with_export"] = len(cases)
    cov["key_streams_chunking_dependent"] = n_dep
    rest = events[i:]          # the real confirmStopTransfer runs (kept together, in order)
    files = _shard(events[:i], out, "keys", 3 if quick else 8)
    if rest:
        files.append(_write(os.path.join(out, "prompt-runs.ndjson"), rest))
    res = vlib.validate_traces("PromptTrace", "PromptTrace.cfg", files, timeout=800, heap="2g")
    for f, r in zip(files, res):
        if not r["accepted"]:
            ev = vlib.read_ndjson(f)
            bad = ev[(r["hw"] or 1) - 1] if r["hw"] else ev[0]
            v.violation("prompt-trace-rejected:%s" % bad.get("e"), "the recorded %s is not a behaviour of Prompt (%s)\n%s" % (bad, r["violated"], vlib.explain_rejection(f, r["hw"])),
                        {"kind": "keys", "chunks": [bad["chunk"]] if "chunk" in bad else []})
    return files


def judge_filter(cov, scen):
    """Sample: what the real sendInput does with drag chunks.  Notes only."""
    notes, rows = [], []
    for s in scen:
        writes = [(w["ms"], w["data"]) for w in s["writes"]]
        row = {"name": s["name"], "writes": [[ms, d] for ms, d in writes], "steps": [{k: st.get(k) for k in ("ms", "chunk", "drag", "writes_during", "queue", "dragging")} for st in s["steps"]]}
        rows.append(row)
        first_drag = None
        for st in s["steps"]:
            ch = st.get("chunk")
            if ch is None:
                continue
            if st["drag"]:
                first_drag = st["ms"] if first_drag is None else first_drag
                if st["writes_during"] != 0:
                    notes.append("%s: drag chunk %r was written to the server" % (s["name"], ch))
                if s["os"] == "linux" and not st["queue"]:
                    notes.append("%s: drag chunk %r not queued" % (s["name"], ch))
            elif s["os"] == "linux":
                if st["writes_during"] != 1 or ch not in [d for _, d in writes]:
                    notes.append("%s: chunk %r (not a drag) was not forwarded byte-identical" % (s["name"], ch))
        cmds = [(ms, d) for ms, d in writes if d == "\x03" or d.startswith("trz")]
        if first_drag is not None and cmds and cmds[0][0] < first_drag + 295:
            notes.append("%s: interrupt sent %d ms after the drag (< 300 ms)" % (s["name"], cmds[0][0] - first_drag))
    by = {r["name"]: r for r in rows}

    def has(name, data):
        return any(d == data for _, d in by[name]["writes"]) if name in by else None
    summary = {
        "plain_forwarded": has("plain", "ls -l\r") and has("plain", "/nonexistent "),
        "drag_sends_ctrlc_then_trz": has("drag", "\x03") and has("drag", "trz\r"),
        "dir_uses_trz_d": has("drag-dir", "trz -d\r"),
        "split_list_one_command_two_files": (sum(1 for _, d in by["split-list"]["writes"] if d.startswith("trz")) == 1 and any(len(st["queue"] or []) == 2 for st in by["split-list"]["steps"])) if "split-list" in by else None,
        "typed_byte_cancels_upload": (has("drag-then-typed", "x") and not has("drag-then-typed", "\x03")),
        "paste_marks_forwarded_drag_kept": has("paste-marks", "\x1b[200~") and has("paste-marks", "trz\r"),
        "queue_empty_after_3s_reset": all(not st["queue"] and not st["dragging"] for n in ("drag", "split-list") if n in by for st in by[n]["steps"][-1:]),
        "second_drag_new_command": (sum(1 for _, d in by["second-drag-after-reset"]["writes"] if d.startswith("trz")) == 2) if "second-drag-after-reset" in by else None,
        "win_partial_buffered_then_drag": (not has("win-partial", '"C:\\a') and not has("win-partial", '"C:\\a a"') and has("win-partial", "trz\r")) if "win-partial" in by else None,
        "win_partial_nodrag_forwarded_joined": has("win-partial-nodrag", "C:\\ee"),
    }
    late = by.get("late-chunk-after-command")
    if late and sum(1 for _, d in late["writes"] if d.startswith("trz")) == 1 and any(len(st["queue"] or []) == 2 for st in late["steps"]):
        cov["observations"]["filter-late-chunk-joins-old-list"] = {"what": OBSERVATIONS[r"^filter-late-chunk-joins-old-list$"], "example": late}
    cov["filter_drag_sample"] = {"summary": summary, "notes": notes, "scenarios": len(rows)}
    cov["samples"].append({"filter_scenario": by.get("split-list")})
    bad = [k for k, x in summary.items() if x is False]
    return bad, notes


def selftests(cov, scan_file, keys_file, prompt_file):
    def flip(field):
        def m(ev):
            ev = [dict(e) for e in ev]
            i = next(i for i, e in enumerate(ev) if e.get("e") == "scan" and e.get("drag"))
            ev[i][field] = not ev[i][field] if isinstance(ev[i][field], bool) else ev[i][field][:-1]
            return ev
        return m

    def wrong_key(ev):
        ev = [dict(e) for e in ev]
        i = next(i for i, e in enumerate(ev) if e.get("e") == "keys" and e.get("got") == ["SO"])
        ev[i]["got"] = ["DLE"]
        return ev

    def wrong_effect(ev):
        ev = [dict(e) for e in ev]
        i = next(i for i, e in enumerate(ev) if e.get("e") == "choice" and e.get("effect") == "stop")
        ev[i]["effect"] = "stopdel"
        return ev

    def leaked(ev):
        ev = [dict(e) for e in ev]
        i = next(i for i, e in enumerate(ev) if e.get("e") == "in" and e.get("chunk") == ["j"])
        ev[i]["fwd"] = ["j"]
        return ev
    tests = {"scan_drag_flipped": ("DragScanTrace", "DragScanTrace.cfg", scan_file, flip("drag")),
             "scan_hasdir_flipped": ("DragScanTrace", "DragScanTrace.cfg", scan_file, flip("hasDir")),
             "scan_file_truncated": ("DragScanTrace", "DragScanTrace.cfg", scan_file, flip("files")),
             "scan_input_modified": ("DragScanTrace", "DragScanTrace.cfg", scan_file, flip("after")),
             "keys_wrong_key": ("PromptTrace", "PromptTrace.cfg", keys_file, wrong_key)}
    if prompt_file:
        tests["prompt_wrong_effect"] = ("PromptTrace", "PromptTrace.cfg", prompt_file, wrong_effect)
        tests["prompt_key_leaked_to_server"] = ("PromptTrace", "PromptTrace.cfg", prompt_file, leaked)

    def one(k):
        mod, cfg, f, fn = tests[k]
        try:
            return k, vlib.selftest_reject(mod, cfg, f, fn, timeout=600)
        except StopIteration:
            return k, None
    with ThreadPoolExecutor(max_workers=len(tests)) as ex:
        res = dict(ex.map(one, tests))
    cov["selftests_rejected"] = res
    if any(r is not True for r in res.values()):
        raise vlib.Infra("binding self-test failed: %s" % res)


def run(tier, v):
    quick = tier == "quick"
    cov = {"samples": [], "observations": {}}
    t0 = time.time()
    rnd = random.Random(vlib.seed())
    with ThreadPoolExecutor(max_workers=3) as ex:
        fd = ex.submit(design, quick, cov)
        fg = ex.submit(gen, quick)
        h = vlib.build_harness(["x02"])
        g = fg.result()
        cov["phase_gen_s"] = round(time.time() - t0, 1)
        out = os.path.join(vlib.scratch(), "x02scan")
        out2 = os.path.join(vlib.scratch(), "x02keys")
        os.makedirs(out, exist_ok=True)
        os.makedirs(out2, exist_ok=True)
        scases = {}
        for c in g["scan_bfs"] + g["scan_sim"]:
            scases.setdefault(scan_key(c), c)
        scases = list(scases.values())
        kcases = g["keys"]
        if quick and len(kcases) > 9000:
            special = [c for c in kcases if not c["aligned"] and any(len(s) > 6 for s in c["chunks"])]
            kcases = [c for c in kcases if c["chunks"] in PREFERRED] + rnd.sample(kcases, 4000) + rnd.sample(special, min(600, len(special)))
        json.dump([{k: c[k] for k in ("os", "fs", "input")} for c in scases], open(os.path.join(out, "cases.json"), "w"))
        json.dump([c["chunks"] for c in kcases], open(os.path.join(out2, "cases.json"), "w"))
        f1 = ex.submit(vlib.run_driver, h, "x02_scan", out, {"cases": os.path.join(out, "cases.json"), "random": 2000 if quick else 30000, "filter": True, "long": not quick}, 600)
        f2 = ex.submit(vlib.run_driver, h, "x02_keys", out2, {"cases": os.path.join(out2, "cases.json"), "prompt": True}, 600)
        s1, s2 = f1.result(), f2.result()
        cov["phase_drivers_s"] = round(time.time() - t0, 1)
        sev = vlib.read_ndjson(os.path.join(out, "trace.ndjson"))
        kev = vlib.read_ndjson(os.path.join(out2, "trace.ndjson"))
        j1 = ex.submit(judge_scan, v, cov, scases, sev, out, quick)
        j2 = ex.submit(judge_keys, v, cov, kcases, kev, out2, quick)
        sfiles, kfiles = j1.result(), j2.result()
        bad, notes = judge_filter(cov, json.load(open(os.path.join(out, "filter.json"))))
        for k in bad:
            v.violation("filter-drag:%s" % k, "the real sendInput did not show the expected drag behaviour %s: %s" % (k, notes[:3]), {"kind": "filter", "which": k})
        pf = kfiles[-1] if kfiles[-1].endswith("prompt-runs.ndjson") else None
        if not v.violations:
            selftests(cov, sfiles[0], kfiles[0], pf)
        fd.result()
    cov["observations"]["drag-dead-branches"] = {"what": OBSERVATIONS[r"^drag-dead-branches$"], "actions_never_enabled": DRAG_DEAD}
    cov["scan_cases_exported"] = {"bfs": len(g["scan_bfs"]), "simulate": len(g["scan_sim"]), "distinct": len(scases)}
    cov["scan_calls_recorded"] = len(sev)
    cov["scan_random"] = {"calls": s1.get("random"), "drags": s1.get("random_drags")}
    cov["scan_drags_recorded"] = sum(1 for e in sev if e["drag"])
    cov["scan_by_os"] = {o: sum(1 for e in sev if e["os"] == o) for o in ("linux", "macos", "win")}
    cov["key_streams_exported"] = len(g["keys"])
    cov["key_chunks_replayed"] = s2.get("chunks")
    cov["prompt_runs_real_confirmStopTransfer"] = s2.get("prompt_runs")
    cov["traces_validated_against_impl"] = len(sev) + len(kev)
    dr = next((e for e in sev if e["drag"] and len(e["files"]) > 1), sev[0])
    cov["samples"].append({"scan_event": dr, "shown": show(dr["input"])})
    cov["samples"].append({"keys_case": kcases[0]})
    cov["samples"].append({"prompt_run": [e for e in kev if e["e"] != "keys"][:8]})
    cov["wall_s"] = round(time.time() - t0, 1)
    for k, o in cov["observations"].items():
        vlib.log("OBSERVATION %s: %s" % (k, (o.get("what") or "")[:160]))
    return cov


def replay(path, v):
    rec = json.load(open(path))
    rp = rec["replay"]
    h = vlib.build_harness(["x02"])
    out = os.path.join(vlib.scratch(), "x02replay")
    os.makedirs(out, exist_ok=True)
    cov = {"samples": [], "observations": {}}
    if rp.get("kind") == "scan":
        json.dump([rp["case"]], open(os.path.join(out, "cases.json"), "w"))
        vlib.run_driver(h, "x02_scan", out, {"cases": os.path.join(out, "cases.json")})
        ev = vlib.read_ndjson(os.path.join(out, "trace.ndjson"))
        for e in ev:
            print(json.dumps(e), flush=True)
        judge_scan(v, cov, [], ev, out, True)
    elif rp.get("kind") == "keys" and rp.get("chunks"):
        json.dump([rp["chunks"]], open(os.path.join(out, "cases.json"), "w"))
        vlib.run_driver(h, "x02_keys", out, {"cases": os.path.join(out, "cases.json")})
        ev = vlib.read_ndjson(os.path.join(out, "trace.ndjson"))
        for e in ev:
            print(json.dumps(e), flush=True)
        files = [_write(os.path.join(out, "keys.ndjson"), ev)]
        for r in vlib.validate_traces("PromptTrace", "PromptTrace.cfg", files):
            if not r["accepted"]:
                v.violation("prompt-trace-rejected:keys", vlib.explain_rejection(files[0], r["hw"]), rp)
    else:
        print("nothing to re-run for %s" % rp, flush=True)
    return {}
