"""C02 - no silent corruption.  Spec: Transfer.tla with the channel fault actions (delete,
duplicate, damage, truncate at message granularity), checked exhaustively by TLC: a role counts
a file as done / reports success only if the destination equals the source, for every single
(quick) and double (thorough) fault at every position of every phase.  Binding: real transfers
with byte-level faults (bit flip, deletion, duplication, insertion, tail truncation) at the
first / middle / last byte of every protocol message of both directions; Transfer's property
formulas NoSilentCorruption and Fidelity are evaluated on each observed outcome (TransferObs)."""
import os, json
import vlib
from checks import e2ecommon as E

ASSUMPTIONS = [
    "file equality is judged by size + SHA-256",
    "faults are injected by the harness wire at byte offsets of the sender's stream; message boundaries come from a clean probe run of the same case",
    "a role that fails or times out is never a C02 violation (termination under faults is C11)",
]


def keyfn(kind, run, det):
    case = det.get("case") or {}
    f = (case.get("plan", {}).get("faults") or [{}])[0]
    return "corrupt-%s-%s-%s" % (det.get("label", "?"), f.get("Kind", "?"), "up" if case.get("opts", {}).get("upload") else "down")


def run(tier, v):
    quick = tier == "quick"
    cov = {"samples": []}
    r = vlib.tlc("TransferMC", "Transfer_fault1.cfg" if quick else "Transfer_fault2.cfg", timeout=3000, heap="24g")
    if not r["ok"]:
        raise vlib.Infra("Transfer (faults) violates %s on the design level\n%s" % (r["violated"], r["out"][-3000:]))
    cov["states"], cov["transitions"] = r["distinct"], r["states"]
    cov["model"] = "Transfer_fault%d.cfg: every single%s message fault (del/dup/dmg/trunc) at every position, protocols 1,2,4, both directions" % (1 if quick else 2, "" if quick else " and double")
    # guard necessity (non-vacuity of the design check): with the receiver's digest compare switched off the
    # same model must violate NoSilentCorruption; the other local checks are reported as redundant or necessary
    table = {}
    for wk in (["md5_r"] if quick else ["md5_r", "md5_s", "ack_len", "final"]):
        g = vlib.tlc("TransferMC", "Transfer_weak_%s.cfg" % wk, timeout=1800, heap="16g")
        table[wk] = g["violated"] or "not necessary for a single fault"
    cov["guard_necessity"] = table
    if table["md5_r"] != "NoSilentCorruption":
        raise vlib.Infra("non-vacuity: without the receiver's digest compare the model should violate NoSilentCorruption, got %s" % table["md5_r"])
    # the resume hash exchange under a lossy / doubling ack direction (ResumeFault.tla): with the step check of
    # pipelineRecvHashAck a completed transfer ends with the source's bytes; without it (the code before
    # /repo c89a7df) the model must violate FinalEqualsSrc -- the counterexample the real runs below found
    rf = vlib.tlc("ResumeFault", "ResumeFault_check.cfg", timeout=1800, heap="8g")
    if not rf["ok"]:
        raise vlib.Infra("ResumeFault (step check on) violates %s on the design level\n%s" % (rf["violated"], rf["out"][-3000:]))
    rn = vlib.tlc("ResumeFault", "ResumeFault_nocheck.cfg", timeout=1800, heap="8g")
    cov["resume_under_ack_faults"] = {"with_step_check": {"states": rf["distinct"], "holds": True},
                                      "without_step_check_violates": rn["violated"]}
    if rn["violated"] != "FinalEqualsSrc":
        raise vlib.Infra("non-vacuity: without the step check ResumeFault should violate FinalEqualsSrc, got %s" % rn["violated"])
    h = vlib.build_harness(["e2e", "c02"])
    out = os.path.join(vlib.scratch(), "c02")
    params = {"shards": 192, "per_message": 3, "thorough": False} if quick else \
             {"shards": 192, "per_message": 10, "thorough": True, "random_double": 400}
    s = vlib.run_driver(h, "c02_faults", out, params, timeout=3400)
    files, details = E.gather(out)
    bad, _, st = E.judge(files, "TransferObs", "TransferObs_c02.cfg", v, details, "obs", keyfn=keyfn, timeout=3000)
    cov["traces_validated_against_impl"] = s["runs"]
    cov["fault_kinds"] = {k[5:]: s[k] for k in s if k.startswith("kind_")}
    cov["tv_states"] = st
    cov["obs_files_rejected"] = bad
    # outcome table: how often a fault was survived / detected
    table = {}
    for f in files:
        cur = {}
        for e in vlib.read_ndjson(f):
            if e["e"] == "reset":
                cur = {}
            elif e["e"] == "ret":
                cur[e["role"]] = e["res"]
            elif e["e"] == "fs":
                k = "C=%s V=%s same=%s" % (cur.get("C"), cur.get("V"), e["allsame"])
                table[k] = table.get(k, 0) + 1
    cov["outcomes"] = table
    some = next(iter(details.values()))
    cov["samples"].append({"faulted_case": some["case"]["plan"], "opts": some["case"]["opts"]})
    def flip(ev):
        ev = [dict(e) for e in ev]
        ok = False
        for e in ev:
            if e.get("e") == "reset":
                ok = False
            if e.get("e") == "ret" and e.get("res") == "ok":
                ok = True
            if e.get("e") == "fs" and e.get("allsame") and ok:
                e["allsame"] = False
                e["claimsame"] = False
                break
        return ev
    cov["selftest_flip_rejected"] = vlib.selftest_reject("TransferObs", "TransferObs_c02.cfg", files[0], flip)
    if not cov["selftest_flip_rejected"]:
        raise vlib.Infra("binding self-test failed")
    return cov


def replay(path, v):
    rec = json.load(open(path))
    case = rec["replay"].get("case")
    h = vlib.build_harness(["e2e", "c02"])
    out = E.replay_cases(h, [case])
    files, details = E.gather(out, 1)
    E.judge(files, "TransferObs", "TransferObs_c02.cfg", v, details, "obs", keyfn=keyfn)
    return {}
