"""C18 - pausing and resuming never corrupts a transfer or leaves it hanging.  Spec: Transfer.tla
with UserPause / UserResume on the client (protocol >= 3), the pause gates of checkStopAndPause
and recvCheckV2, keep-alive lines as real messages (skipped only by recvCheckV2 readers), a
discrete clock for the server's read timer while the client is paused (Tick, TimeoutQ); TLC
checks ShortPauseCompletes, NoDataWhilePaused (action property), NoFalseSuccess,
NoSilentCorruption and Termination for up to two pause cycles at every state.  Binding: the real
client is paused (pauseTransferringFiles) before / after every protocol message of real
transfers and continued after 0.2x, 0.5x, 1.3x or 2.5x the time-out (also three short cycles);
the observed outcome is judged by TransferObs."""
import os, json
import vlib
from checks import e2ecommon as E

ASSUMPTIONS = [
    "a pause counts as 'shorter than the time-out' when it is at most half of it (margin against scheduling delays on a loaded machine)",
    "no hang = every role returns within 3 x pause + 2 x time-out + 1.5 s + 8 s after the pause began",
    "pause/resume are invoked directly (the prompt UI that calls them is exercised under C05/C10 only)",
    "keep-alive lines are counted and reported but not required: the code emits them only while the paused side is at a data/ack send point",
]


def keyfn(kind, run, det):
    case = det.get("case") or {}
    pa = (case.get("plan") or {}).get("pause") or {}
    return "pause-%s-%s-%s" % (kind, "up" if case.get("opts", {}).get("upload") else "down", "short" if pa.get("resume_ms", 0) * 2 <= case.get("opts", {}).get("timeout", 0) * 1000 else "long")


def run(tier, v):
    quick = tier == "quick"
    cov = {"samples": []}
    r = vlib.tlc("TransferMC", "Transfer_pause.cfg", timeout=3000, heap="24g", coverage=not quick)
    if not r["ok"]:
        raise vlib.Infra("Transfer (pause) violates %s on the design level\n%s" % (r["violated"], r["out"][-3000:]))
    cov["states"], cov["transitions"] = r["distinct"], r["states"]
    cov["model"] = "Transfer_pause.cfg: <=2 pause cycles at every state, protocols 3 and 4, both directions, time-out 2 ticks, clock <= 3"
    if not quick:
        ac = vlib.action_counts(r["out"])
        cov["pause_action_counts"] = {k: ac.get(k) for k in ("UserPause", "UserResume", "KeepAlive", "SkipKeep", "Tick", "TimeoutQ")}
    h = vlib.build_harness(["e2e", "c18"])
    out = os.path.join(vlib.scratch(), "c18")
    s = vlib.run_driver(h, "c18_pause", out, {"shards": 96, "thorough": not quick}, timeout=3400)
    files, details = E.gather(out)
    bad, _, st = E.judge(files, "TransferObs", "TransferObs_c18.cfg", v, details, "obs", keyfn=keyfn, timeout=3000)
    cov["traces_validated_against_impl"] = s["runs"]
    # the pause begins while a pipeline goroutine is held at each of its blocking operations
    E.run_points(h, "pause", "TransferObs_c18.cfg", v, cov, tier, keyfn=keyfn)
    cov["tv_states"] = st
    cov["obs_files_rejected"] = bad
    table = {}
    for f in files:
        cur = {}
        for e in vlib.read_ndjson(f):
            if e["e"] == "reset":
                cur = {"up": e["upload"]}
            elif e["e"] == "ret":
                cur[e["role"]] = e["res"]
            elif e["e"] == "fs":
                k = "%s pause=%dms C=%s V=%s same=%s data_while_paused=%d keepalives=%s" % (
                    "up" if cur["up"] else "down", e["pausems"], cur.get("C"), cur.get("V"), e["allsame"], e["pdata"], e["pkeep"] > 0)
                table[k] = table.get(k, 0) + 1
    cov["outcomes"] = table
    some = next(iter(details.values()))
    cov["samples"].append({"plan": some["case"]["plan"], "opts": some["case"]["opts"]})
    def corrupt(ev):
        ev = [dict(e) for e in ev]
        for e in ev:
            if e.get("e") == "fs":
                e["pdata"] = 3
                break
        return ev
    cov["selftest_rejected"] = vlib.selftest_reject("TransferObs", "TransferObs_c18.cfg", files[0], corrupt)
    if not cov["selftest_rejected"]:
        raise vlib.Infra("binding self-test failed")
    return cov


def replay(path, v):
    rec = json.load(open(path))
    case = rec["replay"].get("case")
    h = vlib.build_harness(["e2e", "c18"])
    out = E.replay_cases(h, [case])
    files, details = E.gather(out, 1)
    E.judge(files, "TransferObs", "TransferObs_c18.cfg", v, details, "obs", keyfn=keyfn)
    return {}
