"""Shared orchestration for the end-to-end (Transfer) properties: gather the shard traces,
validate them against TransferObs (observable level, decides the verdict) and TransferTrace
(message level, refinement: rejections there are recorded as drift), map rejections back to the
recorded run and its replayable case."""
import os, json, glob
import vlib


def gather(outdir, nfiles=16, name="obs.ndjson"):
    """Concatenate per-shard traces into <= nfiles files; returns (files, details by run id)."""
    shards = sorted(glob.glob(os.path.join(outdir, "shard-*", name))) or sorted(glob.glob(os.path.join(outdir, name)))
    if not shards:
        raise vlib.Infra("no traces under " + outdir)
    files = []
    k = min(nfiles, len(shards))
    for i in range(k):
        p = os.path.join(outdir, "all-%02d.ndjson" % i)
        with open(p, "w") as out:
            for s in shards[i::k]:
                out.write(open(s).read())
        if os.path.getsize(p) > 0:
            files.append(p)
    details = {}
    for dj in glob.glob(os.path.join(outdir, "shard-*", "details.json")) + glob.glob(os.path.join(outdir, "details.json")):
        for d in json.load(open(dj)) or []:
            details[d["case"]["id"]] = d
    return files, details


def strip_lines(files, outdir, tag="obsonly"):
    """Observable-level traces: the same runs without the message-level `line` events."""
    res = []
    for f in files:
        p = f.replace(".ndjson", "." + tag + ".ndjson")
        with open(p, "w") as out:
            for line in open(f):
                if '"e":"line"' not in line:
                    out.write(line)
        res.append(p)
    return res


def judge(files, module, cfg, v, details, level, keyfn=None, violation=True, timeout=1800, max_rounds=12):
    """Validate; for each rejected/violating file report the run, cut that run out of the file and
    validate the rest again (TLC stops at the first violation), so that several findings in one
    file all surface.  Returns (n_bad_runs, drift list, states)."""
    import re
    bad = 0
    drift = []
    states = 0
    todo = list(files)
    for rnd in range(max_rounds):
        if not todo:
            break
        res = vlib.validate_traces(module, cfg, todo, timeout=timeout)
        nxt = []
        for f, r in zip(todo, res):
            if rnd == 0:
                states += r["distinct"]
            if r["accepted"]:
                continue
            bad += 1
            ev = vlib.read_ndjson(f)
            if r["violated"] not in (None, "postcondition"):
                ls = re.findall(r"/\\ l = (\d+)", r["out"])
                i = (int(ls[-1]) - 2) if ls else 0
                what = "invariant %s is false" % r["violated"]
                kind = str(r["violated"])
            else:
                i = (r["hw"] or 1) - 1
                what = "not a behaviour of %s: %s" % (module, vlib.explain_rejection(f, r["hw"]))
                e = ev[min(i, len(ev) - 1)]
                kind = "reject-%s-%s" % (e.get("e"), e.get("t", e.get("role", "")))
            i = max(0, min(i, len(ev) - 1))
            run = vlib.run_of(ev, i)
            rid = run[0].get("run") if run else None
            det = details.get(rid, {})
            key = keyfn(kind, run, det) if keyfn else "%s-%s" % (level, kind)
            payload = {"case": det.get("case"),
                       "detail": {k: det.get(k) for k in ("entries", "extra", "touched", "shown", "client_err", "server_err", "hung", "left_frames")},
                       "events": [e for e in run if e.get("e") != "line"][:40],
                       "tlc": r["out"][-1500:] if r["violated"] not in (None, "postcondition") else ""}
            if violation:
                v.violation(key, "run %s: %s" % (rid, what), payload)
            else:
                drift.append({"run": rid, "what": what[:600]})
            # cut the run out and look at the rest of the file again
            rest = [e for e in ev if e.get("run") != rid]
            if rest and len(rest) < len(ev):
                p2 = f if f.endswith(".rest.ndjson") else f.replace(".ndjson", ".rest.ndjson")
                with open(p2, "w") as out:
                    for e in rest:
                        out.write(json.dumps(e) + "\n")
                nxt.append(p2)
        todo = nxt
    return bad, drift, states


def replay_cases(h, cases, name="replay"):
    out = os.path.join(vlib.scratch(), name)
    os.makedirs(out, exist_ok=True)
    p = os.path.join(out, "cases.json")
    json.dump(cases, open(p, "w"))
    vlib.run_driver(h, "e2e_replay", out, {"cases": p})
    return out


def run_points(h, kinds, cfg, v, cov, tier, keyfn=None, prefix="point"):
    """Point plans (harness/e2e_point.go): a goroutine of the sending / receiving pipeline is held at one
    of its blocking operations -- the actions of spec/Pipeline.tla and spec/PipelineRecv.tla, marked by
    vhook points in pipeline.go -- while a fault, a stop or a pause of one of the given kinds happens, for
    every point x occurrence x kind; judged like every other run by the observable-level trace spec."""
    out = os.path.join(vlib.scratch(), prefix + "-" + kinds.replace(",", "-"))
    s = vlib.run_driver(h, "e2e_points", out, {"shards": 64, "kinds": kinds, "thorough": tier != "quick"}, timeout=3000)
    files, details = gather(out)
    kf = keyfn
    if keyfn is not None:
        def kf(kind, run, det):
            pt = ((det.get("case") or {}).get("plan") or {}).get("point") or {}
            return "%s@%s-%s" % (keyfn(kind, run, det), pt.get("name"), pt.get("kind"))
    bad, _, st = judge(files, "TransferObs", cfg, v, details, "obs", keyfn=kf, timeout=3000)
    passed = {k[7:]: s[k] for k in s if k.startswith("passed_")}
    cov["point_runs"] = cov.get("point_runs", 0) + s["runs"]
    cov["point_kinds"] = {k[5:]: s[k] for k in s if k.startswith("kind_")}
    cov["point_hooks_passed"] = passed
    cov["point_runs_rejected"] = bad
    cov["traces_validated_against_impl"] = cov.get("traces_validated_against_impl", 0) + s["runs"]
    want = {"pipeline.read", "pipe.rd.put", "pipe.md.got", "pipe.md.sum", "pipe.enc.got", "pipe.enc.deliver", "pipe.enc.wait",
            "pipe.snd.got", "pipe.snd.ack", "pipe.ack.got", "pipe.ack.final", "pipe.ack.succ", "pipe.main.select",
            "pipe.rcv.read", "pipe.rcv.ack", "pipe.rcv.put", "pipe.sack.got", "pipe.sack.final", "pipe.sack.succ",
            "pipe.dec.read", "pipe.dec.put", "pipe.sav.got", "pipe.sav.done", "pipe.rmain.select"}
    missing = sorted(want - set(passed))
    cov["point_hooks_never_passed"] = missing
    if missing:
        # the hook points are gone (or renamed): the plans did nothing; not a verdict on the property
        vlib.log("point plans: hook points never passed: %s" % missing)
    return s
