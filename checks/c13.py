"""C13 - a relay never loses, duplicates or reorders bytes, under any scheduling.  Spec: Relay.tla
(wrapInput, wrapOutput and the handshake worker with every shared-memory operation -- status
load, lock, re-check, park, worker line reads, flush lock/pop/store/unlock, end-marker CAS -- as
its own action), checked exhaustively by TLC for Order, NothingLost, ParkOnlyWhileHandshaking
and Progress over arrival patterns before / inside / straddling / after the ACT and CFG lines,
confirm and refuse; the two mutant designs (no re-check under the lock, status stored before the
flush) must and do violate it.  Binding: a real TrzszRelay on harness pipes is driven with
chunk streams of unique payload bytes around real trigger / ACT / CFG / EXIT lines while seeded
random delays at the vhook points of relay.go perturb the interleaving; feed, hook and deliver
events are validated against RelayTrace (Relay's own actions, all invariants at every step)."""
import os, json, glob
import vlib

ASSUMPTIONS = [
    "hook events are emitted at the vhook points of relay.go (build tag verif); atomic stores/CAS are treated as silent steps because their hooks are not lock-protected",
    "JunkBeforeLine (named deviation): bytes parked between the trigger and the consumed ACT/CFG line are eaten by the junk-tolerant line read; the property speaks of bytes after the consumed line",
    "a third of the confirmed scenarios run a second transfer through the same relay instance; undecodable ACT / CFG lines are exercised (the relay tells both sides and flushes)",
]


def run(tier, v):
    quick = tier == "quick"
    cov = {"samples": [], "states": 0, "transitions": 0}
    for cfg in ("Relay_real.cfg", "Relay_refuse.cfg", "Relay_real2.cfg", "Relay_badact.cfg", "Relay_badcfg.cfg", "Relay_tworounds.cfg"):
        r = vlib.tlc("RelayMC", cfg, timeout=1800, heap="8g")
        if not r["ok"]:
            raise vlib.Infra("Relay design violates %s in %s\n%s" % (r["violated"], cfg, r["out"][-3000:]))
        cov["states"] += r["distinct"]
        cov["transitions"] += r["states"]
    mut = {}
    for cfg in ("Relay_norecheck.cfg", "Relay_storefirst.cfg"):
        r = vlib.tlc("RelayMC", cfg, timeout=1800, heap="8g")
        mut[cfg] = r["violated"]
        if r["violated"] is None:
            raise vlib.Infra("non-vacuity: mutant design %s should violate Conservation" % cfg)
    cov["mutant_designs_violate"] = mut
    h = vlib.build_harness(["c13"])
    out = os.path.join(vlib.scratch(), "c13")
    s = vlib.run_driver(h, "c13_relay", out, {"runs": 480 if quick else 40000, "shards": 16}, timeout=3000)
    files = sorted(glob.glob(os.path.join(out, "shard-*", "trace.ndjson")))
    scen = {}
    for f in glob.glob(os.path.join(out, "shard-*", "scenarios.json")):
        for x in json.load(open(f)) or []:
            scen[x["id"]] = x
    res = vlib.validate_traces("RelayTrace", "RelayTrace.cfg", files, timeout=3000)
    nrej = 0
    for f, r in zip(files, res):
        if r["accepted"]:
            continue
        nrej += 1
        ev = vlib.read_ndjson(f)
        if r["violated"] not in (None, "postcondition"):
            import re
            ls = re.findall(r"/\\ l = (\d+)", r["out"])
            i = (int(ls[-1]) - 2) if ls else 0
            kind = "invariant-" + str(r["violated"])
            what = "invariant %s is false on a recorded relay execution" % r["violated"]
        else:
            i = (r["hw"] or 1) - 1
            e = ev[min(i, len(ev) - 1)]
            kind = "reject-%s-%s" % (e.get("e"), e.get("p", e.get("to", e.get("side", ""))))
            what = "recorded relay execution is not a behaviour of Relay: " + vlib.explain_rejection(f, r["hw"], context=8)
        i = max(0, min(i, len(ev) - 1))
        run_ev = vlib.run_of(ev, i)
        rid = run_ev[0].get("run") if run_ev else None
        v.violation(kind, "run %s: %s" % (rid, what), {"scenario": scen.get(rid), "events": run_ev[:200]})
    cov["traces_validated_against_impl"] = s["runs"]
    cov["stuck_runs"] = s.get("stuck", 0)
    if s.get("stuck", 0):
        v.violation("relay-stuck", "a fed chunk was never taken / delivered within 20 s", {"runs": [x for x in scen.values() if not x["ok"]][:3]})
    cov["trace_files_rejected"] = nrej
    cov["tv_states"] = sum(r["distinct"] for r in res)
    cov["samples"].append({"scenario": next(iter(scen.values()))})
    def dropdeliver(ev):
        k = next(i for i, e in enumerate(ev) if e.get("e") == "deliver" and len(e["u"]) > 1)
        ev = [dict(e) for e in ev]
        ev[k]["u"] = ev[k]["u"][1:]
        return ev
    def swap(ev):
        ev = [dict(e) for e in ev]
        k = next(i for i, e in enumerate(ev) if e.get("e") == "deliver" and len(e["u"]) > 1 and e["u"][0] > 0 and e["u"][1] > 0)
        u = list(ev[k]["u"]); u[0], u[1] = u[1], u[0]; ev[k]["u"] = u
        return ev
    cov["selftest_drop_rejected"] = vlib.selftest_reject("RelayTrace", "RelayTrace.cfg", files[0], dropdeliver)
    cov["selftest_swap_rejected"] = vlib.selftest_reject("RelayTrace", "RelayTrace.cfg", files[0], swap)
    if not (cov["selftest_drop_rejected"] and cov["selftest_swap_rejected"]):
        raise vlib.Infra("binding self-test failed")
    # extension beyond the listed properties (never a verdict on C13): the tunnel path through a
    # relay (spec/RelayTunnel.tla): its two findings on the unchanged tree are described in DESIGN.md 6.6
    vlib.run_extension("x03", tier, cov)
    # extension X04: model-directed schedule replay (spec/RelayGen.tla: TLC's behaviours of Relay steered onto the real
    # relay with the vhook points as gates); it judges this very property with the same trace module and the same
    # observable oracle, so a rejected recording / failed oracle is a C13 violation; divergence and watchdog are noise
    vlib.run_extension("x04", tier, cov, v=v, forward=lambda key: key.startswith(("reject-", "invariant-", "observable-")))
    return cov


def replay(path, v):
    raise vlib.Infra("C13 counterexamples depend on the goroutine schedule; re-run ./check C13 with the same VERIF_SEED (the replay file holds the recorded events and the scenario)")
