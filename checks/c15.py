"""C15 - a directory sent as one archive stream is reconstructed exactly.  Spec: Archive.tla.
 1. TLC exhaustive on Archive (design): every tree of <= 3 (thorough: 4) entries (directories, empty
    files, files of 1..3 bytes, nesting, header lengths 1..3) x every Read size at every call x
    every segmentation of the stream into writeAll segments (cuts inside a header, on the LF,
    at entry boundaries; short counts re-presented) x a source file shrinking at any moment.
    Invariants Reconstructed, AnnouncedIsProduced, ProducedIsCanonical, HeaderNeverInPayload,
    OneOpenFile, ShrinkIsError, WrittenIsPrefix.
 2. spec -> impl (MBT): every behaviour exported from ArchiveGen (exhaustive for 2 entries,
    simulated for 4 entries incl. pipelining / growing files) is materialised on disk and
    replayed call by call on the real checkPathsReadable -> archiveSourceFiles ->
    newArchiveReader.Read -> archiveFileWriter.Write under the real writeAll: per-call return
    counts, produced bytes, getSize(), descriptors per side, the tree the consumer has built.
 3. impl -> spec: recorded real runs (boundary-biased small trees, random large trees with
    unicode names and files of several 32 KiB buffers, 50/100/300-entry trees with the collector
    off, source files truncated / extended between scan and read and between two reads) are
    validated against ArchiveTrace with every invariant evaluated at every step.
 Descriptors: a side holding MORE entry files open than the spec's open set is reported under
 its own key (writer-entry-fd-leak / reader-entry-fd-leak) and does not mask the validation of
 the state machines."""
import os, json, re, glob, time
import vlib

ASSUMPTIONS = [
    "header bytes are opaque: the model's 1..3 header bytes stand for the real base64 header; MBT read sizes and "
    "segment ends are mapped onto the real header (entry start, first byte, middle, the LF, payload start are kept)",
    "MBT permutes the scan result into the model's pre-order (readdir order cannot be chosen); recorded runs use the scan's own order",
    "descriptors are attributed by the /proc/self/fd link target: regular files below the source / destination directory; "
    "directory handles left to the collector by checkPathReadable are not counted as entry files (reported separately)",
    "the many-entry runs switch the garbage collector off so that only explicit Close calls release descriptors "
    "(os.File finalizers would otherwise hide a missing Close at unpredictable moments)",
    "file content is compared by SHA-256 against the tree as it was when scanned",
    "TLC fingerprint collisions negligible (reported probability < 1e-6)",
]

WORKERS = min(8, vlib.NCPU)


def _fdx(out):
    m = re.findall(r'"FDX (-?\d+) (-?\d+) (-?\d+) (-?\d+) (-?\d+) (-?\d+)"', out)
    return tuple(int(x) for x in m[-1]) if m else None


def _structure_ok(r):
    """the recorded execution is a behaviour of the spec up to its last line"""
    return r["violated"] in (None, "postcondition") and r["hw"] is None and _fdx(r["out"]) is not None


def _write_ndjson(path, events):
    with open(path, "w") as fh:
        for e in events:
            fh.write(json.dumps(e) + "\n")


def _judge(files, res, v, cov, measured=None):
    """Turn the TLC results of validated trace files into violations.  Returns #files rejected."""
    nrej = 0
    leak = {"w": None, "r": None}
    for f, r in zip(files, res):
        if r["violated"] not in (None, "postcondition"):
            ev = vlib.read_ndjson(f)
            m = re.findall(r"l = (\d+)", r["out"])
            i = min(int(m[-1]) - 1, len(ev) - 1) if m else 0
            v.violation("tv-invariant-" + str(r["violated"]),
                        "invariant %s of Archive is false on a recorded execution" % r["violated"],
                        {"run": vlib.run_of(ev, i), "tlc_tail": r["out"][-2500:]})
            nrej += 1
            continue
        fx = _fdx(r["out"])
        if r["hw"] is not None or fx is None:
            ev = vlib.read_ndjson(f)
            if r["hw"] is None:
                raise vlib.Infra("trace validation gave no verdict:\n" + r["out"][-3000:])
            i = r["hw"] - 1
            bad = ev[i] if i < len(ev) else {}
            if -1 in (bad.get("rfds"), bad.get("wfds")) and bad.get("cls") != "emfile":
                raise vlib.Infra("the harness could not list /proc/self/fd: " + vlib.explain_rejection(f, r["hw"]))
            key = "tv-%s-%s" % (bad.get("e"), bad.get("cls") or bad.get("res", ""))
            run = vlib.run_of(ev, min(i, len(ev) - 1))
            limit = str(run[0].get("kind", "")).startswith("limit")
            # running out of descriptors is the visible end of a descriptor leak: same key as the leak
            if bad.get("cls") == "emfile" and bad.get("e") == "wr":
                key = "writer-entry-fd-leak"
            elif bad.get("cls") == "emfile" and bad.get("e") == "scan":
                key = "scan-dir-fd-leak"
            elif bad.get("cls") == "emfile" and bad.get("e") == "rd" and limit:
                key = "reader-entry-fd-leak"
            txt = "recorded archive execution is not a behaviour of Archive: "
            if limit:
                txt = "with RLIMIT_NOFILE=64 a tree of %s entries is not transferred (%s)" % (run[0].get("entries"), bad.get("msg") or bad.get("cls"))
                if measured and key == "writer-entry-fd-leak":
                    txt += "; descriptors held by archiveFileWriter with the collector off: " + ", ".join(
                        "%d files -> peak %d, %d after Close()" % (measured.get("many%d_files" % n, 0), measured.get("many%d_wfds_peak" % n, 0),
                                                                   measured.get("many%d_wfds_after_close" % n, 0))
                        for n in (50, 100, 300) if ("many%d_files" % n) in measured)
                txt += ": "
            v.violation(key, txt + vlib.explain_rejection(f, r["hw"]),
                        {"run": run, "rejected_event": bad, "nofile": 64 if limit else 0, "gcoff": limit})
            nrej += 1
        if fx:
            for side, idx, line in (("w", 0, 2), ("r", 1, 3)):
                if fx[idx] > 0:
                    ev = vlib.read_ndjson(f)
                    run = vlib.run_of(ev, fx[line] - 1)
                    cur = leak[side]
                    if cur is None or len(run) < len(cur["run"]):
                        leak[side] = {"run": run, "first_excess_event": ev[fx[line] - 1], "max_excess_in_file": fx[idx]}
                    leak[side]["max_excess"] = max(fx[idx], (cur or {}).get("max_excess", 0))
    cov["fd_excess_writer_max"] = max([(_fdx(r["out"]) or (0, 0))[0] for r in res] + [cov.get("fd_excess_writer_max", 0)])
    cov["fd_excess_reader_max"] = max([(_fdx(r["out"]) or (0, 0))[1] for r in res] + [cov.get("fd_excess_reader_max", 0)])
    scan = None
    for f, r in zip(files, res):
        fx = _fdx(r["out"])
        if fx and fx[4] > 0 and fx[5] > 0:
            ev = vlib.read_ndjson(f)
            run = vlib.run_of(ev, fx[5] - 1)
            if scan is None or fx[4] > scan["max"]:
                scan = {"max": fx[4], "run": run, "event": ev[fx[5] - 1]}
    cov["scan_dir_handles_left_open_max"] = max(scan["max"] if scan else 0, cov.get("scan_dir_handles_left_open_max", 0))
    if scan:
        ndirs = 1 + sum(1 for e in scan["run"] if e.get("e") == "entry" and e.get("dir"))
        v.violation("scan-dir-fd-leak", "checkPathsReadable leaves every directory it listed open (no Close after Readdir): %d directory "
                    "handles below the source are still open when it has returned from a tree with %d directories" % (scan["max"], ndirs),
                    {"run": scan["run"], "scan_event": scan["event"], "gcoff": True})
    if leak["w"]:
        txt = ("archiveFileWriter holds more than one entry file open: descriptors below the destination exceed the "
               "spec's open set by up to %d" % leak["w"]["max_excess"])
        if measured:
            txt += "; measured with the collector off: " + ", ".join(
                "%d files -> peak %d open, %d after Close()" % (measured.get("many%d_files" % n, 0), measured.get("many%d_wfds_peak" % n, 0),
                                                                 measured.get("many%d_wfds_after_close" % n, 0))
                for n in (50, 100, 300) if ("many%d_files" % n) in measured)
        v.violation("writer-entry-fd-leak", txt, {"run": leak["w"]["run"], "first_excess_event": leak["w"]["first_excess_event"],
                                                  "measured": measured or {}, "gcoff": True})
    if leak["r"]:
        v.violation("reader-entry-fd-leak", "archiveFileReader holds more than one entry file open (excess up to %d)" % leak["r"]["max_excess"],
                    {"run": leak["r"]["run"], "first_excess_event": leak["r"]["first_excess_event"], "gcoff": True})
    return nrej


def _selftests(files, res, cov):
    """Binding demonstration: corrupted / shortened traces must be rejected at the corrupted line,
    a descriptor excess must be flagged without stopping the validation.  Needs a recorded trace
    that is itself a behaviour of the spec; when the code under test diverges everywhere (the
    verdict is exit 1 then anyway) the demonstration is skipped and recorded as such."""
    good = [f for f, r in zip(files, res) if _structure_ok(r)]
    if not good:
        cov["selftests"] = "skipped: no recorded trace file was accepted"
        return
    ev = vlib.read_ndjson(good[0])
    # a slice of complete runs that contains reads, short writes and a treediff
    resets = [i for i, e in enumerate(ev) if e.get("e") == "reset"]
    hi = resets[6] if len(resets) > 6 else len(ev)
    ev = ev[:hi]
    d = os.path.join(vlib.scratch(), "selftest")
    os.makedirs(d, exist_ok=True)

    def first(pred):
        return next((i for i, e in enumerate(ev) if pred(e)), None)

    def change(i, **kw):
        return [dict(e, **kw) if k == i else e for k, e in enumerate(ev)]

    muts = {}
    i = first(lambda e: e.get("e") == "rd" and e.get("res") == "ok" and e.get("got", 0) > 1)
    if i is not None:
        muts["rd_got_minus1"] = (i, change(i, got=ev[i]["got"] - 1))
    i = first(lambda e: e.get("e") == "wr" and e.get("c", 0) < e.get("len", 0))
    if i is not None:
        muts["wr_short_as_full"] = (i, change(i, c=ev[i]["len"]))
    i = first(lambda e: e.get("e") == "wr")
    if i is not None:
        muts["wr_dropped"] = (i, ev[:i] + ev[i + 1:])
        muts["wfds_excess"] = ("fdx", change(i, wfds=ev[i]["wfds"] + 7))
    i = first(lambda e: e.get("e") == "newreader")
    if i is not None:
        muts["announced_minus1"] = (i, change(i, announced=ev[i]["announced"] - 1))
    i = first(lambda e: e.get("e") == "treediff")
    if i is not None:
        muts["treediff_sha"] = (i, change(i, sha=1))
    i = first(lambda e: e.get("e") == "entry" and not e.get("dir") and e.get("size", 0) > 0)
    if i is not None:
        muts["entry_size_plus1"] = (None, change(i, size=ev[i]["size"] + 1))
    i = first(lambda e: e.get("e") == "rd" and e.get("rfds", 0) > 0)
    if i is not None:
        muts["rfds_below_spec"] = (i, change(i, rfds=0))
    if len(muts) < 6:
        raise vlib.Infra("self-test: the recorded slice lacks the events to corrupt (%s)" % sorted(muts))
    names = sorted(muts)
    paths = []
    for n in names:
        p = os.path.join(d, n + ".ndjson")
        _write_ndjson(p, muts[n][1])
        paths.append(p)
    res = vlib.validate_traces("ArchiveTrace", "ArchiveTrace.cfg", paths, timeout=600)
    out = {}
    for n, r in zip(names, res):
        at = muts[n][0]
        if at == "fdx":
            fx = _fdx(r["out"])
            out[n] = bool(r["hw"] is None and fx and fx[0] >= 7)
        elif at is None:
            out[n] = r["hw"] is not None or r["violated"] not in (None, "postcondition")
        else:
            out[n] = r["hw"] == at + 1
    cov["selftests"] = out
    if not all(out.values()):
        raise vlib.Infra("binding self-test failed (a corrupted trace was not rejected where it was corrupted): %s" % out)


def run(tier, v):
    cov = {"samples": [], "phase_wall_s": {}}
    quick = tier == "quick"
    t0 = [time.time()]

    def phase(name):
        cov["phase_wall_s"][name] = round(time.time() - t0[0], 1)
        vlib.log("phase %s: %.1fs" % (name, time.time() - t0[0]))
        t0[0] = time.time()
    # ------------------------------------------------------------------ 1. design
    rc = vlib.tlc("Archive", "Archive_cov.cfg", timeout=900, heap="4g", workers=WORKERS, coverage=True)
    r = vlib.tlc("Archive", "Archive_quick.cfg", timeout=1500, heap="4g", workers=WORKERS)
    for x in (rc, r):
        if not x["ok"]:
            raise vlib.Infra("Archive model violates %s on the design level:\n%s" % (x["violated"], x["out"][-3000:]))
    acts = vlib.action_counts(rc["out"])
    cov["action_counts_cov_cfg"] = acts
    need = ["ScanAny", "NewReader", "ResizeAny", "RdBegin", "RdAdvance", "RdEOF", "RdHeader", "RdFile", "RdDirSkip", "RdClose",
            "WaBegin", "WrPayload", "WrHeaderPart", "WrHeaderEnd", "WrClose"]
    dead = [a for a in need if acts.get(a, [0, 0])[1] == 0]
    if dead:
        raise vlib.Infra("actions never fired in the exhaustive config: %s" % dead)
    runs = [("Archive_quick.cfg", r)]
    if not quick:
        for cfg in ("Archive_thorough.cfg", "Archive_thorough_pipe.cfg"):
            r2 = vlib.tlc("Archive", cfg, timeout=3000, heap="4g", workers=WORKERS)
            if not r2["ok"]:
                raise vlib.Infra("Archive model violates %s on the design level (%s):\n%s" % (r2["violated"], cfg, r2["out"][-3000:]))
            runs.append((cfg, r2))
    cov["tlc_runs"] = [{"cfg": c, "states": x["distinct"], "transitions": x["states"], "depth": x.get("depth"), "wall_s": x["wall_s"]} for c, x in runs]
    big = max(runs, key=lambda cx: cx[1]["distinct"])
    cov["states"], cov["transitions"] = big[1]["distinct"], big[1]["states"]
    cov["exhaustive"] = True
    cov["model_constants"] = {c: open(os.path.join(vlib.VERIF, "spec", c)).read() for c, _ in runs}

    phase("tlc_design")
    h = vlib.build_harness(["c15"])
    # ------------------------------------------------------------------ 2. spec -> impl
    g = vlib.tlc("ArchiveGen", "ArchiveGen_quick.cfg", timeout=1200, heap="4g", workers=WORKERS)
    if not g["ok"]:
        raise vlib.Infra("ArchiveGen violates %s:\n%s" % (g["violated"], g["out"][-3000:]))
    cases = vlib.mbt_lines(g["out"])
    cov["mbt_cases_exported_exhaustively"] = len(cases)
    if quick:   # quick replays every third exported behaviour (offset by the seed), thorough all of them
        cases = cases[vlib.seed() % 3::3]
    cov["mbt_cases_exhaustive"] = len(cases)
    for cfg, num in (("ArchiveGen_sim0.cfg", 300 if quick else 8000), ("ArchiveGen_sim.cfg", 200 if quick else 4000)):
        g2 = vlib.tlc("ArchiveGen", cfg, workers=1, timeout=1500, heap="4g", simulate="num=%d" % num, depth=250,
                      extra_args=["-seed", str(vlib.seed())])
        if g2["violated"]:
            raise vlib.Infra("ArchiveGen (%s) violates %s:\n%s" % (cfg, g2["violated"], g2["out"][-3000:]))
        cases += vlib.mbt_lines(g2["out"])
    cov["mbt_cases_simulated"] = len(cases) - cov["mbt_cases_exhaustive"]
    if len(cases) < 1000:
        raise vlib.Infra("MBT export produced only %d cases" % len(cases))
    phase("mbt_export")
    mdir = os.path.join(vlib.scratch(), "c15mbt")
    os.makedirs(mdir, exist_ok=True)
    cpath = os.path.join(mdir, "cases.ndjson")
    _write_ndjson(cpath, cases)
    m = vlib.run_driver(h, "c15_mbt", mdir, {"cases": cpath, "procs": 8}, timeout=3000)
    phase("mbt_replay")
    if m.get("shards_crashed"):
        raise vlib.Infra("c15_mbt: %d shard(s) crashed" % m["shards_crashed"])
    mism = []
    for p in sorted(glob.glob(os.path.join(mdir, "shard-*", "mismatches.json"))):
        mism += json.load(open(p)) or []
    for mm in mism:
        v.violation("mbt-" + str(mm.get("cls")), "real archive reader/writer diverges from the Archive behaviour: %s" % mm.get("msg"),
                    {"case": cases[mm["case"]], "step": mm["step"], "want": mm["want"], "got": mm["got"]})
    cov["mbt_cases_replayed"] = m["replayed"]
    cov["mbt_steps"] = m["steps"]
    cov["mbt_mismatches"] = m["mismatches"]
    cov["mbt_cases_with_writer_fd_excess"] = m.get("fd_writer_excess_cases", 0)
    cov["samples"].append({"mbt_case": cases[len(cases) // 3]})
    mbt_leak_case = None
    if m.get("fd_writer_excess_cases", 0) > 0:
        for p in sorted(glob.glob(os.path.join(mdir, "shard-*", "summary.json"))):
            fx = json.load(open(p)).get("fd_writer_excess") or {}
            if fx.get("case", -1) >= 0 and (mbt_leak_case is None or len(cases[fx["case"]]["steps"]) < len(mbt_leak_case["steps"])):
                mbt_leak_case = cases[fx["case"]]
    # ------------------------------------------------------------------ 3. impl -> spec
    out = os.path.join(vlib.scratch(), "c15tv")
    params = {"procs": 8, "shards": 2, "small": 640, "large": 8, "shrink": 240} if quick else \
             {"procs": 8, "shards": 2, "small": 4000, "large": 40, "shrink": 1500}
    s = vlib.run_driver(h, "c15_tv", out, params, timeout=3000)
    if s.get("shards_crashed"):
        raise vlib.Infra("c15_tv: %d shard(s) crashed" % s["shards_crashed"])
    files = sorted(glob.glob(os.path.join(out, "shard-*", "trace-*.ndjson")))
    files = [f for f in files if os.path.getsize(f) > 0]
    res = vlib.validate_traces("ArchiveTrace", "ArchiveTrace.cfg", files, timeout=3000, heap="2g")
    # trees with more entries than the open-file limit (own process: RLIMIT_NOFILE = 64)
    lout = os.path.join(vlib.scratch(), "c15lim")
    ls = vlib.run_driver(h, "c15_limits", lout, {"n": 300, "nofile": 64}, timeout=600)
    lfiles = [os.path.join(lout, "trace-00.ndjson"), os.path.join(lout, "trace-01.ndjson")]
    lres = vlib.validate_traces("ArchiveTrace", "ArchiveTrace.cfg", lfiles, timeout=900, heap="2g")
    phase("trace_validation")
    measured = {k: x for k, x in s.items() if k.startswith("many")}
    cov["limit_runs"] = {k: x for k, x in ls.items() if k in ("nofile", "scan_err", "scan_entries", "scan_dirfds", "xfer_setup_err", "eof_runs", "wr_calls")}
    nrej = _judge(lfiles, lres, v, cov, measured)
    nrej += _judge(files, res, v, cov, measured)
    if mbt_leak_case is not None and not any(k == "writer-entry-fd-leak" for k, _, _ in v.violations) \
            and "writer-entry-fd-leak" not in v.known_hit:
        v.violation("writer-entry-fd-leak", "archiveFileWriter holds more entry files open than the model (MBT replay)",
                    {"case": mbt_leak_case, "measured": measured})
    cov["traces_validated_against_impl"] = s["runs"] + ls["runs"] + m["replayed"]
    cov["recorded_runs"] = s["runs"] + ls["runs"]
    cov["trace_events"] = s["events"] + ls["events"]
    cov["trace_files_rejected"] = nrej
    cov["tv_states"] = sum(x["distinct"] for x in res)
    cov["recorded"] = {k: s[k] for k in ("rd_calls", "wr_calls", "wr_short", "resizes", "eof_runs", "err_runs", "bytes", "large_entries") if k in s}
    cov["descriptor_measurements"] = measured
    ev0 = vlib.read_ndjson(files[0])
    cov["samples"].append({"recorded_run": vlib.run_of(ev0, 0)[:16]})
    _selftests(files, res, cov)
    phase("selftests")
    return cov


def replay(path, v):
    """Re-run a saved counterexample against the current tree."""
    rec = json.load(open(path))
    rp = rec["replay"]
    h = vlib.build_harness(["c15"])
    if "case" in rp:
        mdir = os.path.join(vlib.scratch(), "c15replay")
        os.makedirs(mdir, exist_ok=True)
        cpath = os.path.join(mdir, "cases.ndjson")
        _write_ndjson(cpath, [rp["case"]])
        m = vlib.run_driver(h, "c15_mbt", mdir, {"cases": cpath, "procs": 1})
        mism = json.load(open(os.path.join(mdir, "shard-00", "mismatches.json"))) or []
        for mm in mism:
            print("mismatch at step %s: want %s got %s (%s)" % (mm["step"], mm["want"], mm["got"], mm["msg"]), flush=True)
            v.violation("mbt-" + str(mm.get("cls")), mm.get("msg", ""), {"case": rp["case"], "step": mm["step"], "want": mm["want"], "got": mm["got"]})
        if m.get("fd_writer_excess_cases", 0) > 0:
            print("consumer-side descriptors exceed the model's open set", flush=True)
            v.violation("writer-entry-fd-leak", "archiveFileWriter holds more entry files open than the model (MBT replay)", {"case": rp["case"]})
        return {}
    out = os.path.join(vlib.scratch(), "c15replay")
    os.makedirs(out, exist_ok=True)
    rpath = os.path.join(out, "run.ndjson")
    _write_ndjson(rpath, rp["run"])
    s = vlib.run_driver(h, "c15_replay", out, {"run": rpath, "gcoff": bool(rp.get("gcoff")), "nofile": int(rp.get("nofile") or 0)})
    f = os.path.join(out, "trace-00.ndjson")
    res = vlib.validate_traces("ArchiveTrace", "ArchiveTrace.cfg", [f], timeout=900)
    print("replayed %d events; descriptors below the destination peaked at %s, below the source at %s" %
          (s.get("events", 0), s.get("wfds_peak"), s.get("rfds_peak")), flush=True)
    _judge([f], res, v, {})
    return {}
