"""C03 - stream reassembly independent of chunking.  Spec: Wire.tla.
 1. TLC exhaustive on Wire (design): SegIndep, CursorOK, NoWait, PartialOK.
 2. impl -> spec: real trzszBuffer runs (exhaustive small streams x all segmentations x op
    sequences, random long ones, concurrent pusher, timer/newTimeout scenarios) validated
    against WireTrace with every invariant evaluated at every step.
 3. spec -> impl: every behaviour of WireGen (exhaustive for small constants, simulated for
    larger) replayed into a real trzszBuffer, results/cursor compared after each return."""
import os, json, time
import vlib

ASSUMPTIONS = [
    "a reader is 'waiting' when runtime.Stack shows it parked in nextBuffer's select with an empty bufCh",
    "TLC fingerprint collisions negligible (reported probability < 1e-8)",
]


def run(tier, v):
    cov = {"samples": []}
    quick = tier == "quick"
    # 1. design
    r = vlib.tlc("Wire", "Wire_quick.cfg" if quick else "Wire_thorough.cfg", timeout=3000, heap="24g")
    if not r["ok"]:
        raise vlib.Infra("Wire model violates %s on the design level:\n%s" % (r["violated"], r["out"][-3000:]))
    cov["states"], cov["transitions"] = r["distinct"], r["states"]
    cov["exhaustive"] = True
    cov["model_constants"] = open(os.path.join(vlib.VERIF, "spec", "Wire_quick.cfg" if quick else "Wire_thorough.cfg")).read()
    # 2. impl -> spec
    h = vlib.build_harness(["c03"])
    out = os.path.join(vlib.scratch(), "c03tv")
    s = vlib.run_driver(h, "c03_tv", out, {"maxlen": 4 if quick else 5, "shards": 16,
                                            "random": 1500 if quick else 20000, "alpha6": not quick}, timeout=1200 if quick else 5400)
    files = vlib.split_traces([os.path.join(out, "trace-%02d.ndjson" % i) for i in range(s["shards"])])
    res = vlib.validate_traces("WireTrace", "WireTrace.cfg", files, timeout=3000)
    if s.get("deep_backlog_reads"):
        # a backlog of more reads than the buffer queues: validated against the same actions (every returned line must be
        # the model's); the state invariants (quadratic in the queue length) are checked on the other recordings
        deep = [os.path.join(out, "trace-%02d.ndjson" % s["shards"])]
        t0 = time.time()
        res += vlib.validate_traces("WireTrace", "WireTrace_deep.cfg", deep, timeout=1500)
        files += deep
        cov["deep_backlog"] = {"reads": s["deep_backlog_reads"], "accepted": res[-1]["accepted"], "wall_s": round(time.time() - t0, 1)}
    nrej = 0
    for f, r in zip(files, res):
        if r["violated"] not in (None, "postcondition"):
            # an invariant of Wire is false on a state of a real execution
            ev = vlib.read_ndjson(f)
            v.violation("tv-invariant-" + str(r["violated"]), "invariant %s false on a recorded execution" % r["violated"],
                        {"trace_tail": r["out"][-3000:], "file": os.path.basename(f)})
            nrej += 1
        elif not r["accepted"]:
            ev = vlib.read_ndjson(f)
            i = (r["hw"] or 1) - 1
            run_ev = vlib.run_of(ev, min(i, len(ev) - 1))
            bad = ev[i] if i < len(ev) else {}
            key = "tv-%s-%s" % (bad.get("e"), bad.get("res", ""))
            v.violation(key, "recorded trzszBuffer execution is not a behaviour of Wire: " + vlib.explain_rejection(f, r["hw"]),
                        {"run": run_ev, "rejected_event": bad})
            nrej += 1
    cov["traces_validated_against_impl"] = s["runs"]
    cov["trace_events"] = s["events"]
    cov["exhaustive_impl_runs"] = s["exhaustive_runs"]
    cov["trace_files_rejected"] = nrej
    cov["tv_states"] = sum(r["distinct"] for r in res)
    ev0 = vlib.read_ndjson(files[0])
    cov["samples"].append({"recorded_run": vlib.run_of(ev0, 0)[:12]})
    # binding demonstration: one corrupted field must be rejected
    def corrupt(ev):
        ev = [dict(e) for e in ev]
        for e in ev:
            if e.get("e") == "end" and e.get("res") == "ok":
                e["idx"] = e["idx"] + 1
                break
        return ev
    def drop(ev):
        k = next(i for i, e in enumerate(ev) if e.get("e") == "push")
        return ev[:k] + ev[k + 1:]
    cov["selftest_corrupt_rejected"] = vlib.selftest_reject("WireTrace", "WireTrace.cfg", files[1], corrupt)
    cov["selftest_drop_rejected"] = vlib.selftest_reject("WireTrace", "WireTrace.cfg", files[1], drop)
    if not (cov["selftest_corrupt_rejected"] and cov["selftest_drop_rejected"]):
        raise vlib.Infra("binding self-test failed: corrupted trace accepted")
    # 3. spec -> impl
    g = vlib.tlc("WireGen", "WireGen_quick.cfg", timeout=1200, heap="8g")
    cases = vlib.mbt_lines(g["out"])
    if not quick:
        g2 = vlib.tlc("WireGen", "WireGen_sim.cfg", workers=1, timeout=900, heap="8g",
                      simulate="num=20000", depth=24, extra_args=["-seed", str(vlib.seed())])
        cases += vlib.mbt_lines(g2["out"])
    if len(cases) < 100:
        raise vlib.Infra("MBT export produced only %d cases" % len(cases))
    mdir = os.path.join(vlib.scratch(), "c03mbt")
    os.makedirs(mdir, exist_ok=True)
    with open(os.path.join(mdir, "cases.ndjson"), "w") as fh:
        for c in cases:
            fh.write(json.dumps(c) + "\n")
    m = vlib.run_driver(h, "c03_mbt", mdir, {})
    mism = json.load(open(os.path.join(mdir, "mismatches.json"))) or []
    for mm in mism:
        want = mm.get("want")
        key = "mbt-%s" % (want.get("res") if isinstance(want, dict) else want)
        v.violation(key, "real trzszBuffer diverges from the Wire behaviour: %s" % mm.get("msg"),
                    {"case": cases[mm["case"]], "step": mm["step"], "want": mm["want"], "got": mm["got"]})
    cov["mbt_cases_replayed"] = m["replayed"]
    cov["mbt_mismatches"] = len(mism)
    cov["samples"].append({"mbt_case": cases[len(cases) // 2]})
    return cov


def replay(path, v):
    """Re-run a saved counterexample against the current tree."""
    rec = json.load(open(path))
    rp = rec["replay"]
    h = vlib.build_harness(["c03"])
    mdir = os.path.join(vlib.scratch(), "c03replay")
    os.makedirs(mdir, exist_ok=True)
    if "case" in rp:
        case = rp["case"]
    else:
        # turn a recorded run into an MBT case: pushes and starts in recorded order, returns as recorded
        steps = []
        for e in rp.get("run", []):
            if e["e"] == "push":
                steps.append({"a": "push", "c": e["c"]})
            elif e["e"] == "begin":
                steps.append({"a": "start", "op": e["op"], "n": e["n"]})
        case = {"steps": steps}
        print("replaying recorded schedule (pushes/starts only); results are printed by the driver", flush=True)
    with open(os.path.join(mdir, "cases.ndjson"), "w") as fh:
        fh.write(json.dumps(case) + "\n")
    vlib.run_driver(h, "c03_mbt", mdir, {})
    mism = json.load(open(os.path.join(mdir, "mismatches.json"))) or []
    for mm in mism:
        v.violation("replay", mm.get("msg", ""), {"case": case, "want": mm["want"], "got": mm["got"]})
    return {}
