"""C11 - a transfer cannot hang.  Specs: Transfer.tla (message level: faults, time-outs enabled
only when nothing can arrive, Termination under fairness) and Pipeline.tla (stage level: every
goroutine and bounded channel of sendFileDataV2 / recvFileDataV2, cancellation, the
buffer-size-probing WaitGroup; deadlock freedom, Termination, NoWorkerLeft).  Binding: in real
transfers the peer falls silent / the connection returns write errors after every message index
of either direction, the destination write fails (/dev/full), the source shrinks mid-transfer;
observed: time from the fault to each role's return, results, fail lines, transfer goroutines
still alive one time-out after both returned (runtime.Stack); judged by TransferObs."""
import os, json, re
import vlib
from checks import e2ecommon as E

ASSUMPTIONS = [
    "in time = read time-out (client default 20 s before it has the configuration) + 1.5 s drains + 8 s slack",
    "a worker is 'left' if a goroutine with a trzszTransfer/sendDataWriter/recvDataReader frame is alive timeout+1 s after both roles returned",
    "the server waiting for the first ACT has no time-out by design (the handshake has not begun)",
]


def left_signature(frames):
    names = set()
    for f in frames or []:
        m = re.search(r"trzsz\.\(\*?(\w+)\)\.(\w+)", f)
        if m:
            names.add(m.group(1) + "." + m.group(2))
    return names


def keyfn(kind, run, det):
    case = det.get("case") or {}
    plan = case.get("plan", {})
    pk = next((k for k in ("silence", "writeerr", "shrink") if plan.get(k)), "dsterr" if plan.get("dsterr") else "none")
    if kind == "ObsNoWorkerLeft":
        sig = left_signature(det.get("left_frames"))
        if sig and "sendDataWriter.Write" in sig and sig <= {"sendDataWriter.Write", "trzszTransfer.pipelineSendData"}:
            return "left:encoder-bufinit-wait"
        return "left:" + ",".join(sorted(sig))[:80]
    d = (plan.get(pk) or {}).get("dir", "") if isinstance(plan.get(pk), dict) else ""
    return "%s-%s-%s-%s" % (kind, pk, d, "up" if case.get("opts", {}).get("upload") else "down")


def run(tier, v):
    quick = tier == "quick"
    cov = {"samples": []}
    r = vlib.tlc("TransferMC", "Transfer_fault1.cfg", timeout=3000, heap="16g")
    if not r["ok"]:
        raise vlib.Infra("Transfer (faults) violates %s on the design level\n%s" % (r["violated"], r["out"][-3000:]))
    cov["states"], cov["transitions"] = r["distinct"], r["states"]
    cov["model"] = "Transfer_fault1.cfg with Termination (liveness under weak fairness of role steps and time-outs)"
    p1 = vlib.tlc("Pipeline", "Pipeline_fixed.cfg" if quick else "Pipeline_fixed_big.cfg", timeout=3000, heap="16g")
    if not p1["ok"]:
        raise vlib.Infra("Pipeline (stage level) violates %s on the design level\n%s" % (p1["violated"], p1["out"][-3000:]))
    cov["pipeline_states"], cov["pipeline_transitions"] = p1["distinct"], p1["states"]
    cov["states"] += p1["distinct"]
    cov["transitions"] += p1["states"]
    p2 = vlib.tlc("PipelineRecv", "PipelineRecv.cfg", timeout=3000, heap="16g")
    if not p2["ok"]:
        raise vlib.Infra("PipelineRecv (stage level, receiving side) violates %s on the design level\n%s" % (p2["violated"], p2["out"][-3000:]))
    cov["pipeline_recv_states"] = p2["distinct"]
    cov["states"] += p2["distinct"]
    cov["transitions"] += p2["states"]
    # non-vacuity: the same model with the pre-fix WaitGroup hand-shake must violate Termination
    p0 = vlib.tlc("Pipeline", "Pipeline_old.cfg", timeout=1200, heap="8g")
    cov["pipeline_old_waitgroup_violates"] = p0["violated"]
    if p0["violated"] != "temporal":
        raise vlib.Infra("non-vacuity: Pipeline with OldWaitGroup should violate Termination, got %s" % p0["violated"])
    h = vlib.build_harness(["e2e", "c11"])
    out = os.path.join(vlib.scratch(), "c11")
    s = vlib.run_driver(h, "c11_hang", out, {"shards": 96, "thorough": not quick}, timeout=3400)
    files, details = E.gather(out)
    # one violation per TLC run: validate run by run groups so that several findings surface
    bad, _, st = E.judge(files, "TransferObs", "TransferObs_c11.cfg", v, details, "obs", keyfn=keyfn, timeout=3000)
    cov["traces_validated_against_impl"] = s["runs"]
    # a pipeline goroutine held at each of its blocking operations while the peer falls silent / the
    # connection breaks (and held only, as a schedule perturbation)
    E.run_points(h, "silence,writeerr,none,dstfull", "TransferObs_c11.cfg", v, cov, tier, keyfn=keyfn)
    cov["fault_kinds"] = {k[5:]: s[k] for k in s if k.startswith("kind_")}
    cov["tv_states"] = st
    cov["obs_files_rejected"] = bad
    table, mx = {}, 0
    for f in files:
        cur = {}
        for e in vlib.read_ndjson(f):
            if e["e"] == "reset":
                cur = {"k": e["fkind"]}
            elif e["e"] == "ret":
                cur[e["role"]] = e["res"]
                mx = max(mx, e["since"])
            elif e["e"] == "left":
                k = "%s C=%s V=%s left=%d" % (cur["k"], cur.get("C"), cur.get("V"), e["n"])
                table[k] = table.get(k, 0) + 1
    cov["outcomes"] = table
    cov["max_ms_from_fault_to_return"] = mx
    some = next(iter(details.values()))
    cov["samples"].append({"plan": some["case"]["plan"], "opts": some["case"]["opts"]})
    def slow(ev):
        ev = [dict(e) for e in ev]
        for e in ev:
            if e.get("e") == "ret" and e.get("since", -1) >= 0:
                e["since"] = 120000
                break
        return ev
    cov["selftest_slow_rejected"] = vlib.selftest_reject("TransferObs", "TransferObs_c11.cfg", files[0], slow)
    if not cov["selftest_slow_rejected"]:
        raise vlib.Infra("binding self-test failed")
    # extension beyond the listed properties (never a verdict on C11): the error-termination
    # sub-protocol that Transfer abstracts into one Fail step (spec/ErrorPaths.tla)
    vlib.run_extension("x05", tier, cov)
    return cov


def replay(path, v):
    rec = json.load(open(path))
    case = rec["replay"].get("case")
    h = vlib.build_harness(["e2e", "c11"])
    out = E.replay_cases(h, [case])
    files, details = E.gather(out, 1)
    E.judge(files, "TransferObs", "TransferObs_c11.cfg", v, details, "obs", keyfn=keyfn)
    return {}
