"""X03 "RelayTunnel" (extension, outside the twenty listed properties) - the tunnel path through a
TrzszRelay.  Spec: RelayTunnel.tla - the in-band pumps, the handshake worker, the accept loop,
handleTunnelConn (greeting, CAS, tr.relay.Store, listener close), the two tunnel pumps and the two
writers of every connection pair, resetToStandby (CAS + clears), with every shared-memory
operation as its own action; bytes are unique tokens.  TLC checks exhaustively (several small
configurations: confirmed / refused / server-ended / undecodable CFG transfers with in-band noise,
two racing pairs, tunnel -> in-band -> tunnel through one relay, trigger with a port that nobody
dials, the ends closing in every order):
  TunnelOrder, TunnelNotInband, TunnelNothingLost, TunnelNoJunk   bytes written into a tunnel
      connection reach the other tunnel connection exactly once, in order, never the in-band side
  InbandIgnoredWhileTunnel, InbandOrder, InbandNothingLost        in-band bytes never enter a tunnel
      stream and still reach the terminal / the server
  AtMostOneTunnelRelay, BoundIsCurrent, LoserClosed               one adopted pair; a losing / refused
      pair is closed on both sides
  ResetClean, Progress                                            after EXIT / FAIL no tunnel state is
      left and later transfers through the same relay work
  PumpsEnd (design with SpinOnError = FALSE) / PumpsEndOrSpin (the code: named deviation SpinOnError)
Mutant designs (parked chunks flushed in-band, plain Store instead of the CAS, in-band pumps keep
parking, reset forgets tunnelConnected) must and do violate them.
Binding: a real NewTrzszRelay whose tunnel listener is reached over loopback TCP; a scripted
client and server speak trigger / greeting / ACT / CFG / data / EXIT with unique payload bytes in
seeded chunkings, in-band noise and seeded delays at the vhook points; one to three transfers per
relay instance (tunnel, in-band, tunnel ...); second pairs racing or arriving late.  Every
recorded session is validated against RelayTunnelTrace (RelayTunnel's own actions; lock-free
operations are silent steps confirmed by hooks and observations); properties are judged on
accepted sessions only.
Two behaviours of the unchanged code violate the stated properties; each is first produced by TLC
(configurations `window`, `late`), then steered onto the real relay and reported under a stable key:
  inband-parked-before-tunnel-flag-flushed-into-tunnel   (InbandIgnoredWhileTunnel)
  late-greeting-adopted-after-reset                      (ResetClean)
The spinning tunnel pumps (SpinOnError) are measured and reported as an observation, not a verdict."""
import os, json, glob, re, time
from concurrent.futures import ThreadPoolExecutor
import vlib

ASSUMPTIONS = [
    "environment: a later trigger arrives only when the relay has come to rest (reset finished, accept loop gone, no tunnel pump in the middle of a chunk); TLC shows that a pump stalled between its status load and addHandshakeBuffer across a whole transfer would park into the next handshake (stale relay pointer) - design level only, not reproduced",
    "environment of the must-hold configurations and of the mixed sessions (~Window): no in-band noise arrives between a trigger that carries a port and the worker's tunnelConnected.Store; the window itself is exercised separately (key inband-parked-before-tunnel-flag-flushed-into-tunnel)",
    "environment (~LateOK): every greeted connection pair is resolved before the transfer ends; a greeting that completes after the reset is exercised separately (key late-greeting-adopted-after-reset)",
    "the ACT sent through the tunnel is decodable; bytes are never written into a tunnel connection in front of the ACT / CFG line (they would be eaten by the junk-tolerant line read: JunkBeforeLine, as in C13)",
    "hooks: the 16 vhook points of relay.go; lock-free loads / stores / CAS, the accept loop, the handlers and the tunnel pumps (no hook of their own) are silent steps of the trace module; reductions: t.relay.Load + relayStatus.Load one action, the clears of resetToStandby one action, the four greeting messages one action",
    "named deviation SpinOnError: tunnelRelay.wrapInput / wrapOutput leave their loop only on io.EOF; the trace module accepts the spinning pump, the measurement is an observation",
    "the server-side tunnel connection is a harness net.Conn handed out by the connector (chunk preserving, Read / Write / Close are events; in the mixed sessions it reports its own Close as io.EOF so that no pump is left spinning in the driver process); the client side is real loopback TCP to the relay's own listener",
]

KEY_WINDOW = "inband-parked-before-tunnel-flag-flushed-into-tunnel"
KEY_LATE = "late-greeting-adopted-after-reset"

HOLD = ["quick", "cas", "rounds", "close_real"]
HOLD_THOROUGH = ["medium", "badcfg", "fallback", "refuse", "srvend", "close_ideal", "close_eofwrap", "thorough", "thorough_cas", "thorough_rounds"]
FAIL_QUICK = ["window", "late", "mut_flushinband", "mut_nocas"]     # the other must-fail configurations run in the thorough tier
# configuration -> what must be violated (non-vacuity of the design-level check)
MUST_FAIL = {
    "mut_flushinband": {"TunnelNotInband", "TunnelNothingLost"},
    "mut_nocas": {"AtMostOneTunnelRelay", "BoundIsCurrent"},
    "mut_parkalways": {"InbandIgnoredWhileTunnel", "InbandNothingLost"},
    "mut_noclear": {"ResetClean"},
    "close_real_strict": {"temporal"},          # PumpsEnd is false for the code: the named deviation SpinOnError
    "window": {"InbandIgnoredWhileTunnel"},
    "late": {"ResetClean", "BoundIsCurrent"},
}


def _cov_counts(out):
    """per action (disjuncts of NextEnv / NextRelay that carry an environment guard: by position) -> generated count"""
    res = {}
    for line in out.splitlines():
        m = re.match(r"^<(\w+) line \d+, col \d+ to line \d+, col \d+ of module RelayTunnel(?: \((\d+) (\d+) \d+ \d+\))?>: (\d+):(\d+)$", line.strip())
        if m:
            name = m.group(1)
            if name in ("NextEnv", "NextRelay", "Next"):
                name = "%s@%s:%s" % (name, m.group(2), m.group(3))
            res[name] = max(res.get(name, 0), int(m.group(5)))
    return res


JOPTS = {"JAVA_TOOL_OPTIONS": "-XX:ParallelGCThreads=2 -XX:CICompilerCount=2"}     # many small JVMs on a busy machine


def _tlc_all(tier):
    quick = tier == "quick"
    # action coverage (-coverage 1, every action must fire in some must-hold configuration) is measured in the thorough tier
    jobs = [(c, not quick) for c in HOLD] + [(c, False) for c in MUST_FAIL if not quick or c in FAIL_QUICK]
    if not quick:
        jobs = [(c, not c.startswith("thorough")) for c in HOLD_THOROUGH] + jobs

    def one(job):
        c, cover = job
        big = c.startswith("thorough")
        return c, vlib.tlc("RelayTunnelMC", "RelayTunnel_%s.cfg" % c, workers=4 if big else 2, timeout=2400 if big else 600,
                           heap="5g" if big else "1g", coverage=cover, extra_env=None if big else JOPTS)
    with ThreadPoolExecutor(max_workers=4 if quick else 6) as ex:
        return dict(ex.map(one, jobs))


def _judge(files, res, cfgname, v, scen, cov, expect=None):
    """Turn TLC's results for recorded files into verdicts.  expect = (invariant name, stable key): that invariant is the
    known behaviour this batch was steered into."""
    nrej, hit = 0, 0
    for f, r in zip(files, res):
        if r["accepted"]:
            continue
        ev = vlib.read_ndjson(f)
        if r["violated"] not in (None, "postcondition"):
            ls = re.findall(r"/\\ l = (\d+)", r["out"])
            i = (int(ls[-1]) - 2) if ls else 0
            i = max(0, min(i, len(ev) - 1))
            run_ev = vlib.run_of(ev, i)
            rid = run_ev[0].get("run") if run_ev else None
            inv = str(r["violated"])
            if expect and inv == expect[0]:
                hit += 1
                # stable key, stable replay file: the plan re-creates the schedule (it is steered, not timing dependent);
                # the recorded events go into the text
                brief = " ".join("%s%s" % (e.get("p", e.get("e")), ("" if "u" not in e else str(e["u"]).replace(" ", "")) + ("@pr%s" % e["pr"] if "pr" in e else ""))
                                 for e in run_ev if e.get("e") != "reset")[:3000]
                v.violation(expect[1], "run %s: %s\nrecorded: %s" % (rid, expect[2], brief),
                            {"mode": cfgname[1], "cfg": cfgname[0], "plan": (scen.get(rid) or {}).get("plan")})
                continue
            else:
                nrej += 1
                key, what = "invariant-" + inv, "%s is false on an accepted recorded session" % inv
            v.violation(key, "run %s: %s" % (rid, what), {"mode": cfgname[1], "cfg": cfgname[0], "plan": (scen.get(rid) or {}).get("plan"),
                                                            "events": run_ev[:400]})
        else:
            nrej += 1
            i = max(0, min((r["hw"] or 1) - 1, len(ev) - 1))
            e = ev[i]
            run_ev = vlib.run_of(ev, i)
            rid = run_ev[0].get("run") if run_ev else None
            kind = "reject-%s-%s" % (e.get("e"), e.get("p", e.get("to", e.get("side", e.get("who", "")))))
            v.violation(kind, "run %s: recorded session is not a behaviour of RelayTunnel: %s" % (rid, vlib.explain_rejection(f, r["hw"], context=10)),
                        {"mode": cfgname[1], "cfg": cfgname[0], "plan": (scen.get(rid) or {}).get("plan"), "events": run_ev[:400]})
    return nrej, hit


def _drive(h, mode, runs, shards, timeout=1500, extra=None, merge=0):
    out = os.path.join(vlib.scratch(), "x03-" + mode)
    p = {"runs": runs, "shards": shards, "mode": mode}
    if extra:
        p.update(extra)
    s = vlib.run_driver(h, "x03_relaytunnel", out, p, timeout=timeout)
    files = sorted(glob.glob(os.path.join(out, "shard-*", "trace.ndjson")))
    files = [f for f in files if os.path.getsize(f) > 0]
    if merge:      # fewer JVMs: sessions are independent (every one starts with a reset event)
        groups = [files[i::merge] for i in range(merge)]
        files = []
        for i, g in enumerate(x for x in groups if x):
            p = os.path.join(out, "merged-%02d.ndjson" % i)
            with open(p, "w") as fh:
                for f in g:
                    fh.write(open(f).read())
            files.append(p)
    scen = {}
    for f in glob.glob(os.path.join(out, "shard-*", "infos.json")):
        for x in json.load(open(f)) or []:
            scen[x["id"]] = x
    return out, s, files, scen


def run(tier, v):
    quick = tier == "quick"
    t0 = time.time()
    cov = {"samples": [], "states": 0, "transitions": 0, "configs": {}}
    h = vlib.build_harness(["x03"])
    nmix = 48 if quick else 1500
    # the mixed sessions run alone (their schedules are perturbed by seeded delays, not by our own JVMs); the design-level
    # TLC runs and the steered / measuring drivers follow while the recordings are validated
    out_mix, s_mix, f_mix, scen_mix = _drive(h, "mix", nmix, 8 if quick else 16, merge=4 if quick else 0)
    out_w, s_w, f_w, scen_w = _drive(h, "window", 3 if quick else 12, 1 if quick else 2, merge=1)
    out_l, s_l, f_l, scen_l = _drive(h, "late", 4 if quick else 12, 2, merge=1)
    pool = ThreadPoolExecutor(max_workers=2)
    tlc_future = pool.submit(_tlc_all, tier)
    out_p, s_p, f_p, scen_p = _drive(h, "pumps", 6 if quick else 12, 3 if quick else 4, merge=1)
    cov["driver_wall_s"] = round(time.time() - t0, 1)
    stuck = sum(s.get("stuck", 0) for s in (s_mix, s_p, s_w, s_l))

    # ---- trace validation (all batches at once)
    f_mix = vlib.split_traces(f_mix, max_bytes=400 << 10)
    batches = [(f_mix, "RelayTunnelTrace.cfg"), (f_p, "RelayTunnelTrace_real.cfg"), (f_w, "RelayTunnelTrace.cfg"), (f_l, "RelayTunnelTrace.cfg")]
    with ThreadPoolExecutor(max_workers=4) as ex:
        results = list(ex.map(lambda b: vlib.validate_traces("RelayTunnelTrace", b[1], b[0], timeout=3000, heap="1200m", extra_env=JOPTS, par=8), batches))
    r_mix, r_p, r_w, r_l = results
    cov["tv_wall_s"] = round(time.time() - t0 - cov["driver_wall_s"], 1)

    nrej, _ = _judge(f_mix, r_mix, ("RelayTunnelTrace.cfg", "mix"), v, scen_mix, cov)
    nrej_p, _ = _judge(f_p, r_p, ("RelayTunnelTrace_real.cfg", "pumps"), v, scen_p, cov)
    _, hit_w = _judge(f_w, r_w, ("RelayTunnelTrace.cfg", "window"), v, scen_w, cov, expect=(
        "TInbandIgnoredWhileTunnel", KEY_WINDOW,
        "an in-band client chunk that the relay reads between recvAction's return (hook relay.hs.act) and tunnelConnected.Store(true) "
        "is parked in stdinBuffer behind the ACT that came through the tunnel and is flushed into clientBufChan: the byte arrives in the "
        "server's tunnel connection (schedule: trigger with port, tunnel adopted, ACT{tunnel:true} through the tunnel, worker at relay.hs.act, "
        "in-band chunk fed, wrapInput parks it (status handshaking, tunnelConnected still false), worker stores tunnelConnected, flush)"))
    _, hit_l = _judge(f_l, r_l, ("RelayTunnelTrace.cfg", "late"), v, scen_l, cov, expect=(
        "TResetClean", KEY_LATE,
        "a second connection whose server-side greeting completes only after the transfer ended wins tunnelRelay.CompareAndSwap(nil, tr) in "
        "standby: the relay keeps a bound tunnelRelay and four goroutines although no transfer runs, and the accept loop of the next trigger "
        "closes the next client's tunnel connection (r.tunnelRelay.Load() != nil) until that transfer's reset clears the stale relay"))
    cov["traces_validated_against_impl"] = s_mix["runs"] + s_p["runs"] + s_w["runs"] + s_l["runs"]
    cov["sessions"] = {"mix": s_mix["runs"], "pumps": s_p["runs"], "window": s_w["runs"], "late": s_l["runs"]}
    cov["rounds_mix"] = s_mix.get("rounds")
    cov["events_validated"] = sum(r["n"] for rs in results for r in rs)
    cov["tv_states"] = sum(r["distinct"] for rs in results for r in rs)
    cov["trace_files_rejected"] = nrej + nrej_p
    cov["known_behaviours_reproduced"] = {KEY_WINDOW: hit_w, KEY_LATE: hit_l}
    kinds = {}
    for x in scen_mix.values():
        for r in x["plan"]["rounds"]:
            k = "%s%s%s%s" % (r["kind"], "" if r["confirm"] else "-refused", "-badcfg" if r["badcfg"] else "", ("-" + r["second"]) if r["second"] else "")
            kinds[k] = kinds.get(k, 0) + 1
    cov["round_kinds_mix"] = kinds
    cov["samples"].append({"session": next(iter(scen_mix.values()))["plan"], "events_head": vlib.read_ndjson(f_mix[0])[:60]})

    # ---- observation: what the tunnel goroutines do after the ends closed (named deviation SpinOnError)
    obs = {"by_close_order": {}, "processes": []}
    for x in scen_p.values():
        for c in x.get("census") or []:
            k = x["plan"]["close"]
            d = obs["by_close_order"].setdefault(k, {})
            sig = "wrapInput=%s wrapOutput=%s writerToServer=%s writerToClient=%s" % (c["ti"], c["to"], c["wrs"], c["wrc"])
            d[sig] = d.get(sig, 0) + 1
    for f in sorted(glob.glob(os.path.join(out_p, "shard-*", "leftover.json"))):
        obs["processes"].append(json.load(open(f)))
    obs["text"] = ("after a tunnel transfer the pump whose connection the relay itself closed (or that got a reset) sees a read error other than io.EOF and "
                   "spins, allocating 32 KiB per turn; its channel is never closed, so the writer goroutine of the other direction and that connection's "
                   "descriptor stay; per process: goroutines left (ti_alive/to_alive/writers_alive), CPU ms used in wall_ms with the machine as loaded as it was, MB allocated per second")
    cov["observation"] = obs
    mixleft = {}
    for x in scen_mix.values():
        for c in x.get("census") or []:
            sig = "%s/%s/%s/%s" % (c["ti"], c["to"], c["wrs"], c["wrc"])
            mixleft[sig] = mixleft.get(sig, 0) + 1
    cov["pumps_after_close_mix(client first, wrapped server conn)"] = mixleft

    # ---- binding self-tests: a corrupted recording must be rejected
    def head(ev, n=3):
        k, out = 0, []
        for e in ev:
            if e.get("e") == "reset":
                k += 1
                if k > n:
                    break
            out.append(dict(e))
        return out
    def drop_tok(ev):
        ev = head(ev)
        k = next(i for i, e in enumerate(ev) if e.get("e") == "tdeliver" and len(e["u"]) > 1)
        ev[k]["u"] = ev[k]["u"][1:]
        return ev
    def swap_tok(ev):
        ev = head(ev)
        k = next(i for i, e in enumerate(ev) if e.get("e") == "tdeliver" and len(e["u"]) > 1 and e["u"][0] > 0 and e["u"][1] > 0)
        u = list(ev[k]["u"]); u[0], u[1] = u[1], u[0]; ev[k]["u"] = u
        return ev
    def inband_into_tunnel(ev):
        ev = head(ev)
        tok = next(e["u"][0] for e in ev if e.get("e") == "feed" and e["u"][0] > 0)
        k = max(i for i, e in enumerate(ev) if e.get("e") == "tdeliver")
        ev[k]["u"] = list(ev[k]["u"]) + [tok]
        return ev
    def lose_close(ev):
        ev = head(ev)
        k = next(i for i, e in enumerate(ev) if e.get("e") == "rclosed" and e.get("side") == "s")
        return ev[:k] + ev[k + 1:]
    def wrong_route(ev):     # a tunnel delivery reported as an in-band one
        ev = head(ev)
        k = next(i for i, e in enumerate(ev) if e.get("e") == "tdeliver" and e.get("to") == "s")
        ev[k] = {"e": "deliver", "run": ev[k]["run"], "to": "s", "u": ev[k]["u"]}
        return ev
    def usable(f):
        ev = vlib.read_ndjson(f)
        try:
            for m in (drop_tok, swap_tok, inband_into_tunnel, lose_close, wrong_route):
                m(ev)
        except (StopIteration, ValueError):
            return False
        return any(e.get("e") == "final" for e in head(ev))
    base = next((f for f in f_mix if usable(f)), None)
    tests = [("drop_token", drop_tok), ("inband_token_in_tunnel_delivery", inband_into_tunnel), ("relay_close_not_observed", lose_close)]
    if not quick:
        tests += [("swap_tokens", swap_tok), ("tunnel_delivery_as_inband", wrong_route)]
    if base is None:
        # no complete recorded session to corrupt (every session broke off early): only acceptable next to a verdict
        if not v.violations:
            raise vlib.Infra("no complete session recorded: binding self-test impossible")
        cov["selftests_rejected"] = "skipped: no complete session was recorded (see the violations)"
    else:
        with ThreadPoolExecutor(max_workers=5) as ex:
            sts = list(ex.map(lambda t: vlib.selftest_reject("RelayTunnelTrace", "RelayTunnelTrace.cfg", base, t[1], heap="1g", extra_env=JOPTS), tests))
        cov["selftests_rejected"] = dict(zip([t[0] for t in tests], sts))
        if not all(sts):
            raise vlib.Infra("binding self-test failed: %s" % cov["selftests_rejected"])

    # ---- the design-level results
    tl = tlc_future.result()
    union = {}
    for c, r in tl.items():
        cov["configs"][c] = {"distinct": r["distinct"], "generated": r["states"], "violated": r["violated"], "wall_s": r["wall_s"]}
        if c in MUST_FAIL:
            cov["states_mutants"] = cov.get("states_mutants", 0) + r["distinct"]
            if r["violated"] is None or r["violated"] not in MUST_FAIL[c]:
                raise vlib.Infra("non-vacuity: configuration %s should violate one of %s, got %s\n%s" % (c, sorted(MUST_FAIL[c]), r["violated"], r["out"][-1500:]))
            continue
        if not r["ok"]:
            raise vlib.Infra("RelayTunnel design violates %s in %s (a counterexample of the model alone is not a verdict)\n%s" % (r["violated"], c, r["out"][-4000:]))
        cov["states"] += r["distinct"]
        cov["transitions"] += r["states"]
        for a, n in _cov_counts(r["out"]).items():
            union[a] = union.get(a, 0) + n
    spec = open(os.path.join(vlib.VERIF, "spec", "RelayTunnel.tla")).read()
    blk = spec[spec.index("NextRelay =="):spec.index("Next == NextRelay")]
    names = set(re.findall(r"\b((?:In|Out|Wk|Acc|H|Wr|TI|TO)[A-Z][A-Za-z]*|Dial|DialDropped|CliClose|SrvClose)\b", blk))
    guarded = {"InRead", "OutRead", "Dial", "CliClose", "SrvClose", "TIRead", "TORead", "TIEof", "TOEof"}   # reported by TLC as disjuncts of Next*
    wrapped = [a for a in union if "@" in a]
    zero = sorted(a for a in (names - guarded) if union.get(a, 0) == 0) + sorted(a for a in wrapped if union[a] == 0)
    cov["actions"] = len(names)
    if quick:
        cov["action_coverage"] = "measured in the thorough tier (66 of 66 actions fire)"
    else:
        cov["actions_covered"] = len([a for a in (names - guarded) if union.get(a, 0) > 0]) + min(len(guarded), len([a for a in wrapped if union[a] > 0]))
        cov["actions_never_fired"] = zero
    if not quick and (zero or len(wrapped) < len(guarded)):
        raise vlib.Infra("coverage: actions never fired in any exhaustive configuration: %s (%d guarded disjuncts seen)" % (zero, len(wrapped)))
    cov["mutant_designs_violate"] = {c: tl[c]["violated"] for c in MUST_FAIL if c.startswith("mut_") and c in tl}
    cov["deviation_configs_violate"] = {c: tl[c]["violated"] for c in ("close_real_strict", "window", "late") if c in tl}

    # the two behaviours TLC shows outside the environment assumptions must have been reproduced on the real relay
    # (a verdict found elsewhere in this run takes precedence: the sessions may have broken off before reaching the schedule)
    if hit_w == 0 and not v.violations and not any(k == KEY_WINDOW for k in v.known_hit):
        raise vlib.Infra("configuration `window` violates InbandIgnoredWhileTunnel in the model but the steered real sessions did not show it (code changed? update the model)")
    if hit_l == 0 and not v.violations and not any(k == KEY_LATE for k in v.known_hit):
        raise vlib.Infra("configuration `late` violates ResetClean in the model but the steered real sessions did not show it (code changed? update the model)")
    where = [(x["id"], x.get("stuck_at")) for sc in (scen_mix, scen_p, scen_w, scen_l) for x in sc.values() if not x.get("ok")]
    cov["stuck_sessions"] = stuck
    cov["stuck_where"] = where[:10]
    if stuck and not v.violations:
        raise vlib.Infra("%d session(s) did not finish within the driver's bounds (a time-out of the driver is not a verdict): %s" % (stuck, where[:10]))
    return cov


def replay(path, v):
    """Re-run the recorded plan (same seed) on the real relay and validate it again.  Schedules perturbed by
    seeded delays only are not guaranteed to recur; the steered ones (window, late) are."""
    payload = json.load(open(path))["replay"]
    plan = payload.get("plan")
    if not plan:
        raise vlib.Infra("replay file carries no plan")
    h = vlib.build_harness(["x03"])
    pf = os.path.join(vlib.scratch(), "plans.json")
    json.dump([plan], open(pf, "w"))
    out, s, files, scen = _drive(h, payload.get("mode", "mix"), 1, 1, extra={"plans": pf})
    res = vlib.validate_traces("RelayTunnelTrace", payload.get("cfg", "RelayTunnelTrace.cfg"), files, timeout=600, heap="1200m")
    exp = {"window": ("TInbandIgnoredWhileTunnel", KEY_WINDOW, "reproduced"), "late": ("TResetClean", KEY_LATE, "reproduced")}.get(payload.get("mode"))
    _judge(files, res, (payload.get("cfg", "RelayTunnelTrace.cfg"), payload.get("mode", "mix")), v, scen, {}, expect=exp)
    return {"replayed": True, "accepted": [r["accepted"] for r in res], "violated": [r["violated"] for r in res]}
