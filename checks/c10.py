"""C10 - stopping ends a transfer promptly on both sides and removes only what it made.
Spec: Transfer.tla with UserStop(role, keep|del) enabled in every state (one stop per transfer),
NoticeStop at the next checkStop, the fail line "Stopped [and deleted]", DeleteCreated on the
receiving side; TLC checks NoFalseSuccess, NoSilentCorruption, DeleteExact and Termination.
Binding: the stop is delivered synchronously inside the wire before / after every protocol
message of real transfers (client keep, client delete, server keep); the observed outcome
(results, time from the stop to each role's return, what is left at the destination, whether
verified files are intact, whether anything pre-existing changed) is judged by TransferObs."""
import os, json
import vlib
from checks import e2ecommon as E

ASSUMPTIONS = [
    "the stop is injected at message boundaries of the wire (before/after delivery of message k); sub-message timing varies with scheduling",
    "prompt = within timeout + 1.5 s (drains) + 8 s slack after the stop, taken from the code's constants",
    "one stop per transfer",
    "process-level runs: SIGINT / SIGTERM to the real trz / tsz process once 0.3-2.3 MB have flowed of a 6 MiB transfer (timing by byte count, not by message)",
]


def keyfn(kind, run, det):
    st = ((det.get("case") or {}).get("plan") or {}).get("stop") or {}
    return "stop-%s-%s%s-%s" % (kind, st.get("role"), "-del" if st.get("delete") else "", "up" if (det.get("case") or {}).get("opts", {}).get("upload") else "down")


def run(tier, v):
    quick = tier == "quick"
    cov = {"samples": []}
    r = vlib.tlc("TransferMC", "Transfer_stop.cfg" if quick else "Transfer_stop_big.cfg", timeout=3000, heap="24g")
    if not r["ok"]:
        raise vlib.Infra("Transfer (stop) violates %s on the design level\n%s" % (r["violated"], r["out"][-3000:]))
    cov["states"], cov["transitions"] = r["distinct"], r["states"]
    cov["model"] = "Transfer_stop: UserStop(C keep/del, V keep) in every state, protocols 1,2,4 (thorough 1..4, more files), liveness Termination"
    h = vlib.build_harness(["e2e", "c10"])
    out = os.path.join(vlib.scratch(), "c10")
    s = vlib.run_driver(h, "c10_stop", out, {"shards": 96, "thorough": not quick}, timeout=3400)
    files, details = E.gather(out)
    # SIGINT / SIGTERM to the real trz / tsz processes in the middle of a transfer
    bins = vlib.build_cmds(("trz", "tsz"))
    out2 = os.path.join(vlib.scratch(), "c10sig")
    s2 = vlib.run_driver(h, "c10_signal", out2, {"bindir": os.path.dirname(bins["trz"]), "runs": 8 if quick else 64, "shards": 8}, timeout=1500)
    f2, d2 = E.gather(out2, 2)
    details.update(d2)
    files = files + f2
    bad, _, st = E.judge(files, "TransferObs", "TransferObs_c10.cfg", v, details, "obs", keyfn=keyfn, timeout=3000)
    cov["traces_validated_against_impl"] = s["runs"] + s2["runs"]
    # the stop arrives while a pipeline goroutine is held at each of its blocking operations (sub-message timing)
    E.run_points(h, "stopC,stopCdel,stopV", "TransferObs_c10.cfg", v, cov, tier, keyfn=keyfn)
    cov["process_level_signal_runs"] = s2["runs"]
    cov["process_level_signalled"] = s2.get("signalled", 0)
    cov["tv_states"] = st
    cov["obs_files_rejected"] = bad
    table, mx = {}, 0
    for f in files:
        cur = {}
        for e in vlib.read_ndjson(f):
            if e["e"] == "reset":
                cur = {"stop": e["stop"], "del": e["stopdel"]}
            elif e["e"] == "ret":
                cur[e["role"]] = e["res"]
                mx = max(mx, e["since"])
            elif e["e"] == "fs":
                k = "stop=%s del=%s C=%s V=%s same=%s left=%s" % (cur["stop"], cur["del"], cur.get("C"), cur.get("V"), e["allsame"], e["npresent"])
                table[k] = table.get(k, 0) + 1
    cov["outcomes"] = table
    cov["max_ms_from_stop_to_return"] = mx
    some = next(iter(details.values()))
    cov["samples"].append({"stop_plan": some["case"]["plan"], "opts": some["case"]["opts"]})
    def corrupt(ev):
        ev = [dict(e) for e in ev]
        dele = False
        for e in ev:
            if e.get("e") == "reset":
                dele = e.get("stopdel")
            if e.get("e") == "fs" and e.get("npresent") == 0 and dele:
                e["npresent"] = 1
                break
        return ev
    def slow(ev):
        ev = [dict(e) for e in ev]
        for e in ev:
            if e.get("e") == "ret" and e.get("since", -1) >= 0:
                e["since"] = 60000
                break
        return ev
    dfile = next(f for f in files if '"stopdel":true' in open(f).read())
    cov["selftest_left_rejected"] = vlib.selftest_reject("TransferObs", "TransferObs_c10.cfg", dfile, corrupt)
    cov["selftest_slow_rejected"] = vlib.selftest_reject("TransferObs", "TransferObs_c10.cfg", files[0], slow)
    if not (cov["selftest_left_rejected"] and cov["selftest_slow_rejected"]):
        raise vlib.Infra("binding self-test failed: %s" % cov)
    return cov


def replay(path, v):
    rec = json.load(open(path))
    case = rec["replay"].get("case")
    h = vlib.build_harness(["e2e", "c10"])
    out = E.replay_cases(h, [case])
    files, details = E.gather(out, 1)
    E.judge(files, "TransferObs", "TransferObs_c10.cfg", v, details, "obs", keyfn=keyfn)
    return {}
