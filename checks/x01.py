"""X01 "BufSize" - extension beyond the twenty listed properties (relates to C12 and C01): the
adaptive buffer size of the sending side and the receiver's acceptance bound.
Spec: BufSize.tla (one action per branch of sendDataWriter.Write/Close, pipelineSendData,
pipelineRecvAck, the protocol-1 loop sendFileData, and checkBinarySize as a function of the
negotiated configuration).

 1. TLC exhaustive on BufSize (several bounded configurations, real constants 1024 / 10240 /
    2 MiB / 1G): SizeInRange, NeverRejectedByReceiver (main), NothingQueuedIsRejected,
    ProbeEndsOnce, TokenPaired, EncoderNotStuck, OneChunkWhileProbing, DoubleOnlyWhenAllowed,
    ShrinkOnlyWhenSlow, SuspendedAfterPause, ProbeEndedBy, deadlock freedom, Termination;
    every action must fire (-coverage); three design-level mutants (doubling without the
    `< MaxBufSize` test, bound without the factor 2, shrink without the floor) must each violate.
 2. impl -> spec: real transfers (real client <-> e2e wire <-> real server role) whose sender is
    observed from outside (own io.Writer, the package's injectable clock timeNowFunc, the wire
    tap; bufferSize / bufInitPhase / lastChunkTimeArr of the real trzszTransfer read in the
    goroutine that writes them) and steered (fast acknowledgements up to the maximum, slow ones
    by k seconds through the clock, two really slow ones held back 2.1 s at the wire, -B 1K .. 1G,
    binary / base64, escape tables, compression, protocol 1..4, pauses).  Every recorded step must
    be a step of BufSize with the logged values (BufSizeTrace), all invariants evaluated on it;
    a clean transfer must succeed on both sides with identical content.
 3. spec -> impl: every (configuration, block size) pair the model's sender writes, and the edge
    of the bound, against the real checkBinarySize; worst-case blocks through the real escapeData;
    the real encoder (escape writer -> sendDataWriter) at the exported sizes (BufSizeGen).
 4. binding self-tests: a corrupted recorded size / block size / a dropped event must be rejected.

Observation (not a violation, decided by the lead): the strict reading of -B ("max buffer chunk
size") does not hold for -B below 10K - a new transfer starts at 10240 whatever was negotiated;
reported in coverage["observations"] under the key chunk-above-negotiated-bufsize with the
numbers of the real -B 1K / 4K runs."""
import os, json, glob, re, time
from concurrent.futures import ThreadPoolExecutor
import vlib

ASSUMPTIONS = [
    "chunk times are classified at millisecond resolution (the code compares nanoseconds with 500 ms / 2 s)",
    "the clock is steered through the package's own injectable timeNowFunc (pipeline); protocol 1 reads time.Now itself and is only steered by really holding acknowledgements back",
    "pauses are applied to the sending client only and are shorter than the read time-out, so that every turn of the ack goroutine reads exactly one acknowledgement",
    "exhaustive model: channel capacities 1..3 (the real 5 only in the trace module), 1..3 full chunks per file, 1..2 files; deeper size histories are covered by the recorded real runs only",
    "trace validation accepts a recorded run as soon as one interleaving of the unobservable steps (encoder, channel operations, the moment an acknowledgement is handled) explains it; the invariants are evaluated on the states visited on the way",
    "protocols 2, 3 and 4 are the same machine here (pause needs >= 3); the model explores 1 and 4 (2 in one configuration)",
    "TLC fingerprint collisions negligible",
]

QUICK = ["BufSize_quick.cfg", "BufSize_quick_pause.cfg", "BufSize_quick_p1.cfg", "BufSize_quick_files.cfg"]
THOROUGH = ["BufSize_thorough.cfg", "BufSize_thorough_steady.cfg", "BufSize_thorough_p1.cfg", "BufSize_thorough_files.cfg",
            "BufSize_thorough_caps.cfg", "BufSize_quick_steady.cfg", "BufSize_quick_pause.cfg"]
MUTANTS = {"BufSize_mut_noMaxTest.cfg": {"ShrinkOnlyWhenSlow", "DoubleOnlyWhenAllowed", "SizeInRange"},
           "BufSize_mut_noFactor2.cfg": {"NeverRejectedByReceiver", "NothingQueuedIsRejected"},
           "BufSize_mut_noFloor.cfg": {"SizeInRange", "ShrinkOnlyWhenSlow"}}
# TLC names an action after the innermost definition it can attribute the step to (the model's M-wrappers
# that only add a bound keep their own name, those that quantify are reported under the wrapped action)
ACTIONS = ["BeginFile", "EncFull", "EncDeliver", "EncWait", "EncRenew", "EndOfData", "EncTail", "EncFlag",
           "SndRecv", "SndTake", "SendChunk", "SndLoadPiece", "SendPiece", "SndAckPush", "AckTake", "AckFast", "AckSlow", "AckMiddle",
           "AckIgnored", "PauseSeen", "Pause", "P1Send", "P1AckFast", "P1AckReset", "P1AckKeep", "P1Empty", "FileDone", "Finish"]


def _design(quick):
    """Exhaustive runs, mutants, strict variant - all in parallel."""
    jobs = [(c, "prop") for c in (QUICK if quick else THOROUGH)]
    if not quick:   # the design-level mutants and the strict variant cost five more JVMs: thorough tier only
        jobs += [(c, "mut") for c in MUTANTS] + [("BufSize_strict.cfg", "strict")]

    def one(job):
        cfgname, kind = job
        r = vlib.tlc("BufSize", cfgname, workers=3 if quick else 8, timeout=900 if quick else 3000,
                     heap="3g" if quick else "8g", coverage=(kind == "prop" and not quick))
        return cfgname, kind, r
    with ThreadPoolExecutor(max_workers=len(jobs)) as ex:
        return list(ex.map(one, jobs))


def _judge_design(results, cov):
    cov["states"], cov["transitions"] = 0, 0
    cov["exhaustive_configs"] = {}
    cov["design_mutants"] = {}
    fired = {}
    for cfgname, kind, r in results:
        if kind == "prop":
            if not r["ok"]:
                raise vlib.Infra("BufSize/%s violates %s on the design level (not a verdict about the code):\n%s" % (cfgname, r["violated"], r["out"][-3000:]))
            cov["states"] += r["distinct"]
            cov["transitions"] += r["states"]
            cov["exhaustive_configs"][cfgname] = {"states": r["distinct"], "transitions": r["states"], "depth": r.get("depth"), "wall_s": r["wall_s"],
                                                  "constants": _constants(cfgname)}
            for a, g in _action_counts(r["out"]).items():
                fired[a] = fired.get(a, 0) + g
        elif kind == "mut":
            ok = r["violated"] in MUTANTS[cfgname]
            cov["design_mutants"][cfgname] = {"violated": r["violated"], "expected_one_of": sorted(MUTANTS[cfgname]), "caught": ok}
            if not ok:
                raise vlib.Infra("design-level mutant %s is not caught by the invariants (violated=%s)" % (cfgname, r["violated"]))
        else:
            cov["strict_variant_on_design"] = {"cfg": cfgname, "violated": r["violated"]}
    if fired:      # -coverage is switched on in the thorough tier (it costs half of TLC's time)
        cov["action_coverage"] = {a: fired.get(a, 0) + fired.get("M" + a, 0) for a in ACTIONS}
        dead = [a for a in ACTIONS if cov["action_coverage"][a] == 0]
        if dead:
            raise vlib.Infra("actions that never fire in the exhaustive configurations: %s" % dead)
    else:
        cov["action_coverage"] = "measured in the thorough tier (-coverage 1); the quick tier reports what the recorded real runs exercised (real_runs)"
    cov["exhaustive"] = True


def _action_counts(out):
    """Per-action generated-state counts of a -coverage 1 run (TLC adds a position suffix to the name of an
    action that is one disjunct of a definition: tolerate it)."""
    res = {}
    for line in out.splitlines():
        m = re.match(r"^<(\w+) line [^>]*>: (\d+):(\d+)$", line.strip())
        if m:
            res[m.group(1)] = res.get(m.group(1), 0) + int(m.group(3))
    return res


def _constants(cfgname):
    txt = open(os.path.join(vlib.VERIF, "spec", cfgname)).read()
    return " ".join(l.strip() for l in txt.splitlines() if "=" in l and not l.startswith("\\*"))


# ---------------------------------------------------------------- traces

def _gather(out, nfiles):
    shards = sorted(glob.glob(os.path.join(out, "shard-*", "trace.ndjson"))) or sorted(glob.glob(os.path.join(out, "trace.ndjson")))
    if not shards:
        raise vlib.Infra("no traces under " + out)
    runs = []
    for s in shards:
        cur = None
        for line in open(s):
            if not line.strip():
                continue
            if '"e":"reset"' in line:
                cur = []
                runs.append(cur)
            if cur is not None:
                cur.append(line)
    # complete runs only (a run ends with its `end` event)
    runs = [r for r in runs if '"e":"end"' in r[-1]]
    # balance by size
    runs.sort(key=lambda r: -len(r))
    k = max(1, min(nfiles, len(runs)))
    buckets = [[] for _ in range(k)]
    load = [0] * k
    for r in runs:
        i = load.index(min(load))
        buckets[i].append(r)
        load[i] += len(r)
    files = []
    for i, b in enumerate(buckets):
        if not b:
            continue
        p = os.path.join(out, "all-%02d.ndjson" % i)
        with open(p, "w") as fh:
            for r in b:
                fh.writelines(r)
        files.append(p)
    details = {}
    for dj in glob.glob(os.path.join(out, "shard-*", "details.json")) + glob.glob(os.path.join(out, "details.json")):
        for d in json.load(open(dj)) or []:
            details[d["case"]["id"]] = d
    return files, details, len(runs)


def _run_at(ev, i):
    lo = i
    while lo > 0 and ev[lo].get("e") != "reset":
        lo -= 1
    hi = i + 1
    while hi < len(ev) and ev[hi].get("e") != "reset":
        hi += 1
    return lo, hi


def _judge(files, v, details, cfg="BufSizeTrace.cfg", timeout=1800, max_rounds=4, report=True):
    """Validate; report the offending run of every rejected file, cut it out, validate the rest."""
    bad, states = [], 0
    todo = list(files)
    for rnd in range(max_rounds):
        if not todo:
            break
        res = vlib.validate_traces("BufSizeTrace", cfg, todo, timeout=timeout, heap="1500m")
        vlib.log("x01 trace validation round %d: %s" % (rnd, [(os.path.basename(f), r["n"], r["distinct"], r["wall_s"]) for f, r in zip(todo, res)]))
        nxt = []
        for f, r in zip(todo, res):
            if rnd == 0:
                states += r["distinct"]
            if r["accepted"]:
                continue
            ev = vlib.read_ndjson(f)
            if r["violated"] not in (None, "postcondition"):
                ls = re.findall(r"/\\ l = (\d+)", r["out"])
                i = (int(ls[-1]) - 2) if ls else 0
                i = max(0, min(i, len(ev) - 1))
                key = "tv-invariant-%s" % r["violated"]
                what = "invariant %s is false on a recorded execution" % r["violated"]
            else:
                i = max(0, min((r["hw"] or 1) - 1, len(ev) - 1))
                e = ev[i]
                if e.get("e") == "end" and not (e.get("cok") and e.get("sok") and e.get("same")):
                    key = "clean-transfer-failed"
                    what = "a clean transfer did not succeed: client=%r server=%r same=%s" % (e.get("cerr"), e.get("serr"), e.get("same"))
                else:
                    key = "tv-reject-%s" % e.get("e")
                    what = "recorded execution is not a behaviour of BufSize: " + vlib.explain_rejection(f, r["hw"], context=6)
            lo, hi = _run_at(ev, i)
            run = ev[lo:hi]
            rid = run[0].get("run")
            det = details.get(rid, {})
            label = run[0].get("label")
            bad.append({"key": key, "run": rid, "label": label, "what": what[:1500]})
            if report:
                v.violation(key, "run %s (%s): %s" % (rid, label, what),
                            {"case": det.get("case"), "client_err": det.get("client_err"), "server_err": det.get("server_err"),
                             "rejected_event_index_in_run": i - lo, "events": run[max(0, i - lo - 40): i - lo + 5],
                             "tlc": r["out"][-1500:] if r["violated"] not in (None, "postcondition") else ""})
            rest = ev[:lo] + ev[hi:]
            if rest:
                p2 = f if f.endswith(".rest.ndjson") else f.replace(".ndjson", ".rest.ndjson")
                with open(p2, "w") as out:
                    for e in rest:
                        out.write(json.dumps(e) + "\n")
                nxt.append(p2)
        todo = nxt
    return bad, states


def _real_coverage(files):
    """What the recorded real runs exercised (non-vacuity of the binding) and the numbers for the
    strict-reading observation."""
    c = {"runs": 0, "data_messages": 0, "pieces": 0, "acks": 0, "doublings": 0, "doubling_capped_at_max": 0, "shrinks": 0, "shrinks_to_floor": 0,
         "acks_ignored_after_pause": 0, "probe_ended_by_ack": 0, "probe_ended_by_end_of_data": 0, "pauses": 0,
         "p1_chunks": 0, "p1_doublings": 0, "p1_resets": 0, "p1_reached_max": 0, "real_clock_slow_acks": 0,
         "max_size_seen": 0, "max_block_announced": 0, "by_bufsize": {}, "by_mode_proto": {}}
    above = {}
    for f in files:
        cur, size, phase, p1bs = None, 10240, True, 1024
        for e in vlib.read_ndjson(f):
            k = e["e"]
            if k == "reset":
                cur, size, phase = e, e["init"], e["phase0"]
                c["runs"] += 1
                c["by_bufsize"][str(e["max"])] = c["by_bufsize"].get(str(e["max"]), 0) + 1
                mp = "%s/p%d/%s" % (e["mode"], e["proto"], "up" if e["upload"] else "down")
                c["by_mode_proto"][mp] = c["by_mode_proto"].get(mp, 0) + 1
            elif k == "file":
                p1bs = 1024
            elif k == "data":
                c["data_messages"] += 1
                c["pieces"] += 0 if e["whole"] else 1
                c["max_block_announced"] = max(c["max_block_announced"], e["n"])
                if e["n"] > cur["max"]:
                    a = above.setdefault(cur["label"], {"bufsize": cur["max"], "mode": cur["mode"], "proto": cur["proto"], "blocks_above": 0, "largest_block": 0})
                    a["blocks_above"] += 1
                    a["largest_block"] = max(a["largest_block"], e["n"])
            elif k == "ack":
                c["acks"] += 1
                if not e["ad"]:
                    c["acks_ignored_after_pause"] += 1
                if e["size"] > size:
                    c["doublings"] += 1
                    if e["size"] == cur["max"] and e["size"] < 2 * size:
                        c["doubling_capped_at_max"] += 1
                elif e["size"] < size:
                    c["shrinks"] += 1
                    if e["size"] == 1024:
                        c["shrinks_to_floor"] += 1
                    if e["ms"] >= 2000 and cur["label"].startswith(("real-slow", "p1-real-slow")):
                        c["real_clock_slow_acks"] += 1
                if phase and not e["phase"]:
                    # a full chunk whose acknowledgement did not double ends the probing itself; a rest / finish
                    # flag was written after Close() had already ended it
                    c["probe_ended_by_ack" if e["len"] == size else "probe_ended_by_end_of_data"] += 1
                size, phase = e["size"], e["phase"]
                c["max_size_seen"] = max(c["max_size_seen"], size)
            elif k == "pause":
                c["pauses"] += 1
            elif k == "p1data":
                c["p1_chunks"] += 1
                c["max_block_announced"] = max(c["max_block_announced"], e["n"])
            elif k == "p1ack":
                if e["len"] == p1bs and e["ms"] < 500 and p1bs < cur["max"]:
                    nb = min(2 * p1bs, cur["max"])
                    c["p1_doublings"] += 1
                    if nb == cur["max"]:
                        c["p1_reached_max"] += 1
                    p1bs = nb
                elif e["ms"] >= 2000 and p1bs > 1024:
                    p1bs = 1024
                    c["p1_resets"] += 1
                    c["real_clock_slow_acks"] += 1
    return c, above


def _corruptions(quick):
    def corrupt_size(ev):
        ev = [dict(e) for e in ev]
        k = [i for i, e in enumerate(ev) if e["e"] == "ack" and e["ad"]]
        ev[k[len(k) // 2]]["size"] += 1
        return ev

    def corrupt_block(ev):
        ev = [dict(e) for e in ev]
        k = [i for i, e in enumerate(ev) if e["e"] == "data" and e["n"] > 0]
        ev[k[len(k) // 2]]["n"] += 1
        return ev

    def corrupt_class(ev):
        ev = [dict(e) for e in ev]
        for e in ev:
            if e["e"] == "ack" and e["ad"] and e["ms"] < 500 and e["len"] > 0:
                e["ms"] = 2500     # a fast chunk reported as slow: the recorded size no longer follows
                break
        return ev

    def drop_ack(ev):
        k = next(i for i, e in enumerate(ev) if e["e"] == "ack")
        return ev[:k] + ev[k + 1:]
    tests = {"size_plus_one": corrupt_size, "ack_dropped": drop_ack}
    if not quick:
        tests.update({"block_plus_one": corrupt_block, "fast_reported_as_slow": corrupt_class})
    return tests


def run(tier, v):
    quick = tier == "quick"
    cov = {"samples": [], "observations": []}
    t0 = time.time()
    parts = {}

    def mark(name, since):
        parts[name] = round(time.time() - since, 1)
        vlib.log("x01 %s: %.1fs" % (name, parts[name]))
        return time.time()
    pool = ThreadPoolExecutor(max_workers=8)
    design = pool.submit(_design, quick)
    gen = pool.submit(lambda: vlib.tlc("BufSizeGen", "BufSizeGen_quick.cfg" if quick else "BufSizeGen_thorough.cfg",
                                       workers=1, timeout=900 if quick else 3000, heap="3g"))
    # 2. impl -> spec: record
    t = time.time()
    h = vlib.build_harness(["e2e", "x01"])
    t = mark("build", t)
    out = os.path.join(vlib.scratch(), "x01tv")
    s = vlib.run_driver(h, "x01_tv", out, {"thorough": not quick, "shards": 16}, timeout=600 if quick else 3000)
    t = mark("driver", t)
    files, details, nruns = _gather(out, 4 if quick else 16)
    amb = [d["case"]["label"] + ": " + d["ambiguous"] for d in details.values() if d.get("ambiguous")]
    if amb:
        raise vlib.Infra("the recorder could not attribute an event (harness, not a verdict): %s" % amb[:5])
    if nruns < (40 if quick else 300):
        raise vlib.Infra("only %d complete recorded runs" % nruns)
    # binding self-tests and the strict-reading observation run beside the validation
    st_file = _selftest_file(files, out)
    selftests = [(name, pool.submit(vlib.selftest_reject, "BufSizeTrace", "BufSizeTrace.cfg", st_file, fn, timeout=600, heap="1500m"))
                 for name, fn in _corruptions(quick).items()]
    strict_run, strict_job = None, None
    if not quick:
        for f in files:
            ev = vlib.read_ndjson(f)
            for i, e in enumerate(ev):
                if e["e"] == "reset" and e["max"] < 10240 and e["proto"] >= 2:
                    lo, hi = _run_at(ev, i)
                    if hi - lo < 400 and (strict_run is None or hi - lo < len(strict_run)):
                        strict_run = ev[lo:hi]
        if strict_run:
            p = os.path.join(out, "strict-one.ndjson")
            with open(p, "w") as fh:
                for e in strict_run:
                    fh.write(json.dumps(e) + "\n")
            strict_job = pool.submit(vlib.validate_trace, "BufSizeTrace", "BufSizeTrace_strict.cfg", p, timeout=600, heap="1500m")
    # validate
    bad, tvstates = _judge(files, v, details, timeout=600 if quick else 3000)
    t = mark("trace_validation", t)
    cov["traces_validated_against_impl"] = nruns
    cov["trace_events"] = s.get("events")
    cov["trace_runs_rejected"] = len(bad)
    cov["tv_states"] = tvstates
    rc, above = _real_coverage(files)
    cov["real_runs"] = rc
    # (what depends on the real clock being fast - protocol 1 reaching its maximum - is reported, not required)
    need = ["pieces", "doublings", "doubling_capped_at_max", "shrinks", "shrinks_to_floor", "acks_ignored_after_pause",
            "probe_ended_by_ack", "probe_ended_by_end_of_data", "pauses", "p1_doublings", "p1_resets", "real_clock_slow_acks"]
    missing = [k for k in need if rc[k] == 0]
    if missing and not bad:
        raise vlib.Infra("the steered runs did not reach: %s (steering failed, no verdict)" % missing)
    ev0 = vlib.read_ndjson(files[0])
    lo, hi = _run_at(ev0, 0)
    cov["samples"].append({"recorded_run": [{k: (x if k != "bounds" else x[:4] + ["..."]) for k, x in e.items()} for e in ev0[lo:min(hi, lo + 14)]]})
    # observation (not a violation): the strict reading of -B
    if above:
        worst = sorted(above.items(), key=lambda kv: (kv[1]["bufsize"], kv[0]))[:6]
        obs = {"key": "chunk-above-negotiated-bufsize",
               "text": "a new transfer starts with bufferSize 10240 (transfer.go newTransfer) and the negotiated bufsize never clamps it: "
                       "with -B below 10K the sender writes DATA blocks larger than the negotiated 'max buffer chunk size' until a slow "
                       "chunk shrinks it (the receiver's bound tolerates this since fix 99f58f5); SizeWithinNegotiated (size <= MaxBufSize) "
                       "is therefore false on real code, SizeInRange (size <= max(MaxBufSize, 10240)) holds",
               "real_runs": {k: a for k, a in worst}, "runs_affected": len(above)}
        if strict_job:
            r = strict_job.result()
            obs["strict_invariant_on_a_real_run"] = {"label": strict_run[0]["label"], "bufsize": strict_run[0]["max"], "tlc_violated": r["violated"]}
        cov["observations"].append(obs)
    # 4. binding self-tests
    rs = {name: job.result() for name, job in selftests}
    cov["selftests_rejected"] = rs
    if not all(rs.values()):
        raise vlib.Infra("binding self-test failed: a corrupted trace was accepted: %s" % rs)
    t = mark("selftests", t)
    # 3. spec -> impl
    g = gen.result()
    t = mark("wait_gen_tlc", t)
    if not g["ok"]:
        raise vlib.Infra("BufSizeGen violates %s on the design level\n%s" % (g["violated"], g["out"][-2000:]))
    cases = vlib.mbt_lines(g["out"])
    if len([c for c in cases if c["kind"] == "sent"]) < 200:
        raise vlib.Infra("BufSizeGen exported only %d cases" % len(cases))
    mdir = os.path.join(vlib.scratch(), "x01gen")
    os.makedirs(mdir, exist_ok=True)
    with open(os.path.join(mdir, "cases.ndjson"), "w") as fh:
        for c in cases:
            fh.write(json.dumps(c) + "\n")
    m = vlib.run_driver(h, "x01_gen", mdir, {}, timeout=900)
    mism = json.load(open(os.path.join(mdir, "mismatches.json"))) or []
    for mm in mism:
        v.violation("gen-" + mm["what"], "real code disagrees with BufSize on an exported (configuration, block) pair: %s -> %s" % (mm["case"], mm["got"]),
                    {"gen_case": mm["case"], "what": mm["what"], "got": mm["got"]})
    cov["gen_states"] = g["distinct"]
    cov["gen_cases_replayed"] = m["replayed"]
    cov["gen_sent_pairs"] = len([c for c in cases if c["kind"] == "sent"])
    cov["gen_probe_pairs"] = len([c for c in cases if c["kind"] == "probe"])
    cov["gen_real_expansions"] = m.get("real_expansions")
    cov["gen_real_encoder_runs"] = m.get("real_encoder_runs")
    cov["gen_mismatches"] = len(mism)
    big = [c for c in cases if c["kind"] == "sent" and c["n"] >= 1 << 29]
    cov["samples"].append({"gen_case": (big or cases)[0]})
    t = mark("gen_replay", t)
    # 1. design
    _judge_design(design.result(), cov)
    t = mark("wait_design_tlc", t)
    parts["total"] = round(time.time() - t0, 1)
    cov["wall_parts_s"] = parts
    pool.shutdown(wait=False)
    return cov


def _selftest_file(files, out):
    """The shortest recorded run that has a doubling, a shrink and at least 6 acks."""
    best = None
    for f in files:
        ev = vlib.read_ndjson(f)
        i = 0
        while i < len(ev):
            lo, hi = _run_at(ev, i)
            run = ev[lo:hi]
            acks = [e for e in run if e["e"] == "ack"]
            sizes = [e["size"] for e in acks]
            if len(acks) >= 6 and any(b > a for a, b in zip(sizes, sizes[1:])) and any(b < a for a, b in zip(sizes, sizes[1:])) \
                    and all(e["ad"] for e in acks):
                if best is None or len(run) < len(best):
                    best = run
            i = hi
    if best is None:
        raise vlib.Infra("no recorded run suitable for the binding self-test")
    p = os.path.join(out, "selftest-base.ndjson")
    with open(p, "w") as fh:
        for e in best:
            fh.write(json.dumps(e) + "\n")
    return p


def replay(path, v):
    """Re-run a saved counterexample against the current tree."""
    rec = json.load(open(path))
    rp = rec["replay"]
    h = vlib.build_harness(["e2e", "x01"])
    if "gen_case" in rp:
        mdir = os.path.join(vlib.scratch(), "x01gen")
        os.makedirs(mdir, exist_ok=True)
        with open(os.path.join(mdir, "cases.ndjson"), "w") as fh:
            fh.write(json.dumps(rp["gen_case"]) + "\n")
        vlib.run_driver(h, "x01_gen", mdir, {})
        for mm in json.load(open(os.path.join(mdir, "mismatches.json"))) or []:
            v.violation("gen-" + mm["what"], "%s -> %s" % (mm["case"], mm["got"]), {"gen_case": mm["case"]})
        return {}
    case = rp.get("case")
    if not case:
        raise vlib.Infra("replay file has no case")
    out = os.path.join(vlib.scratch(), "x01replay")
    os.makedirs(out, exist_ok=True)
    p = os.path.join(out, "cases.json")
    json.dump([case], open(p, "w"))
    vlib.run_driver(h, "x01_replay", out, {"cases": p})
    files, details, n = _gather(out, 1)
    _judge(files, v, details)
    return {}
