"""C19 - a zmodem session always ends by handing the terminal back.  Spec: Zmodem.tla.

 1. Design: TLC exhaustive on Zmodem (output pump, input pump, handleZmodemEvent/Stream goroutine,
    checkClientExited goroutine, handleZmodemError, cleanup/client/server timers, kill, helper
    process as environment): VetoedHeaderStartsNothing, CancelSentToWaiter, SwallowOnlyWhileActive,
    InputFlowsAfter, ActiveHasHelper, LongQuietEndsAll, CursorBack, hand-back at quiescence
    (NotStuck) and the liveness property HandBack under fairness of the internal steps/timers.
    Two code variants are constants of the spec (InitBeforePublish, ErrArms); the variant that is
    checked is the one the real code is *observed* to have in this run (see 3.), and for a variant
    with a deviation the strict property is run as well to record TLC's counterexample.
 2. spec -> impl: ZmodemGen exports every order of the environment's steps (header kind / veto /
    helper startable, server chunk kinds, helper output/exit, Ctrl-C, quiet points) for small
    bounds; a seeded, signature-stratified sample is realised by harness/c19_zmodem.go against the
    real NewTrzszFilter{EnableZmodem} with remote-controlled fake rz/sz (missing-from-PATH
    scenarios in a second process), each followed by: quiet, typed text, probe chunk, quiet, typed
    text, probe chunk.
 3. impl -> spec: every recorded run is validated against ZmodemTrace (each write to the server,
    message, cursor escape, disposition of every server chunk and every input must be what the
    spec does in some interleaving; at a quiet point nothing short may be pending).  Verdicts
    (observable): a recorded run that is not a behaviour of the spec; a run whose quiet point is
    Stuck (ended session, remote side quiet for 0.5 s + 2 s slack, yet typed text is dropped / the
    probe is withheld); the process dying on Ctrl-C right after the header (isolated children).
"""
import os, json, re, random, threading, time
import vlib

ASSUMPTIONS = [
    "time is abstract in the spec: the driver declares a quiet point after 0.5 s (longest short delay of zmodem.go) + 2 s slack without any fed chunk or recorded event (20.5 s + 2 s for the client/server timers), re-checked after 150 ms",
    "the fake rz/sz is the harness binary re-executed under that name; it reads stdin promptly and outputs/exits only on the driver's command (a helper that stops reading its stdin is not explored)",
    "one session per run; the start header arrives within one read",
    "ordinary scenarios wait (reading internals, steering only) until handleZmodemEvent has assigned the session's writers; the window before that is probed separately by c19_early",
    "a trace is accepted when some interleaving of the spec's silent steps explains it",
    "TLC fingerprint collisions negligible",
]

KEY_F0 = "panic-ctrlc-before-session-init"
KEY_F1 = "stuck-after-error-before-helper"

FINAL = [{"a": "quiet"}, {"a": "text"}, {"a": "srv", "k": "probe"}, {"a": "quiet"}, {"a": "text"}, {"a": "srv", "k": "probe"}]
DELAYS = [0, 0, 0, 20, 125, 125, 300, 700]


# ---------------------------------------------------------------- plans

def _tag(s):
    a = s["a"]
    if a == "srv":
        return {"fin": "F", "can": "C", "cno": "C", "data": ""}.get(s["k"], "")
    if a == "hout":
        return {"fin": "f", "data": ""}[s["k"]]
    return {"hexit": "X", "ctrlc": "^", "text": "t", "quiet": "q"}.get(a, "")


def signature(p):
    h = p["steps"][0]
    return "%s/%s/%s" % (h["start"], "veto" if h["veto"] != "none" else "clean", "".join(_tag(s) for s in p["steps"][1:]))


def concretise(gen_plan, pid, rng):
    """A TLC-exported behaviour -> driver plan: drop the padding fields, choose the sub-quiescent
    delay in front of every step, append the final probing phase."""
    steps = []
    for s in gen_plan["steps"]:
        a = s["a"]
        if a == "hdr":
            # "can" is realised as the full 20-byte cancel sequence or as five bare CAN bytes
            steps.append({"a": "hdr", "up": s["up"], "veto": s["veto"], "start": s["start"], "short": rng.random() < 0.5})
        elif a == "srv":
            steps.append({"a": "srv", "k": s["k"], "ms": rng.choice(DELAYS), "short": rng.random() < 0.5})
        elif a == "hout":
            steps.append({"a": "hout", "k": s["k"], "ms": rng.choice(DELAYS)})
        elif a == "hexit":
            steps.append({"a": "hexit", "code": s["code"], "ms": rng.choice(DELAYS)})
        elif a in ("ctrlc", "text"):
            steps.append({"a": a, "ms": rng.choice(DELAYS)})
        elif a == "quiet":
            steps.append({"a": "quiet"})
    fin = FINAL[1:] if steps[-1]["a"] == "quiet" else FINAL
    return {"id": pid, "sig": signature(gen_plan), "steps": steps + [dict(x) for x in fin]}


def long_plans():
    """The 20 s client/server timer scenarios (thorough): nothing ends the session but the timers."""
    res = []
    for up in (True, False):
        res.append([{"a": "hdr", "up": up, "veto": "none", "start": "ok"}, {"a": "quiet"}, {"a": "quiet", "long": True}])
        res.append([{"a": "hdr", "up": up, "veto": "none", "start": "ok"}, {"a": "quiet"}, {"a": "srv", "k": "data"},
                    {"a": "hout", "k": "data"}, {"a": "quiet", "long": True}])
        res.append([{"a": "hdr", "up": up, "veto": "none", "start": "ok"}, {"a": "srv", "k": "fin", "ms": 300},
                    {"a": "quiet", "long": True}])
        res.append([{"a": "hdr", "up": up, "veto": "none", "start": "ok"}, {"a": "srv", "k": "can", "ms": 300},
                    {"a": "quiet", "long": True}])
    return [{"sig": "long", "steps": st + [dict(x) for x in FINAL[1:]]} for st in res]


def sample(gen_plans, quotas, rng):
    """Seeded sample that prefers signatures not taken yet (each order of the end events first)."""
    strata = {}
    for p in gen_plans:
        h = p["steps"][0]
        st = "veto" if h["veto"] != "none" else h["start"]
        strata.setdefault(st, []).append(p)
    chosen = []
    for st, q in quotas.items():
        ps = strata.get(st, [])
        rng.shuffle(ps)
        seen, first, rest = set(), [], []
        for p in ps:
            sg = signature(p)
            (rest if sg in seen else first).append(p)
            seen.add(sg)
        chosen += (first + rest)[:q]
    return chosen


# ---------------------------------------------------------------- running and judging

def run_plans(h, name, plans, nohelper, par):
    out = os.path.join(vlib.scratch(), name)
    os.makedirs(out, exist_ok=True)
    with open(os.path.join(out, "plans.ndjson"), "w") as fh:
        for p in plans:
            fh.write(json.dumps(p) + "\n")
    shards = max(1, min(12, len(plans) // 12))
    s = vlib.run_driver(h, "c19_run", out, {"par": par, "shards": shards, "nohelper": nohelper}, timeout=2400)
    files = []
    for i in range(s["shards"]):
        f = os.path.join(out, "trace-%02d.ndjson" % i)
        if os.path.getsize(f) == 0:
            continue
        with open(f, "a") as fh:
            fh.write(json.dumps({"e": "reset", "id": -1}) + "\n")   # lets the last run be reported
        files.append(f)
    hangs = json.load(open(os.path.join(out, "hangs.json"))) or []
    return s, files, hangs


def judge(files, plans_by_id, nohelper, v, cov):
    """Trace validation of the recorded runs; returns (stuck reports, rejected files)."""
    res = vlib.validate_traces("ZmodemTrace", "ZmodemTrace.cfg", files, par=6, timeout=1200, heap="1g")
    stuck, nrej = {}, 0
    for f, r in zip(files, res):
        ev = vlib.read_ndjson(f)
        cov["tv_states"] = cov.get("tv_states", 0) + r["distinct"]
        for rep in vlib.mbt_lines(r["out"], tag="STUCK"):
            cur = stuck.setdefault(rep["run"], {"line": 0, "nocmd": False, "late": False, "file": f})
            if rep["line"]:
                cur["line"], cur["nocmd"] = rep["line"], rep["nocmd"]
            cur["late"] = cur["late"] or rep["late"]
        if r["violated"] not in (None, "postcondition"):
            nrej += 1
            v.violation("tv-invariant-" + str(r["violated"]), "invariant %s false on a recorded execution" % r["violated"],
                        {"trace_tail": r["out"][-3000:], "file": os.path.basename(f), "nohelper": nohelper})
        elif not r["accepted"]:
            nrej += 1
            i = min((r["hw"] or 1) - 1, len(ev) - 1)
            run_ev = vlib.run_of(ev, i)
            bad = ev[i]
            rid = run_ev[0].get("id")
            key = "tv-%s-%s" % (bad.get("e"), bad.get("c") or bad.get("m") or bad.get("disp") or bad.get("k") or "")
            v.violation(key, "recorded zmodem session is not a behaviour of Zmodem: " + vlib.explain_rejection(f, r["hw"], context=8),
                        {"plans": [plans_by_id.get(rid)], "nohelper": nohelper, "run": run_ev, "rejected_event": bad})
    # a Stuck quiet point counts only with its observable consequence in the recorded run
    confirmed = {}
    for rid, rep in stuck.items():
        if not rep["line"]:
            continue
        ev = vlib.read_ndjson(rep["file"])
        after = ev[rep["line"]:]            # events after the quiet line (1-based line -> 0-based next)
        obs = []
        for e in after:
            if e["e"] == "reset":
                break
            if e["e"] == "inpdone" and e["disp"] == "drop":
                obs.append("typed text dropped")
                break
            if e["e"] == "srvdone" and e["disp"] == "held":
                obs.append("server chunk withheld")
                break
            if e["e"] in ("inpdone", "srvdone"):
                break
        if obs:
            confirmed[rid] = dict(rep, observed=obs[0], run=vlib.run_of(ev, rep["line"] - 1))
    return stuck, confirmed, nrej


def variant_cfg(src, f0, f1, name):
    """The static cfgs describe the current code (both deviations).  Rewrite the variant lines and the
    property set for the variant the real code is observed to have."""
    s = open(os.path.join(vlib.VERIF, "spec", src)).read()
    s = re.sub(r"InitBeforePublish = \w+", "InitBeforePublish = " + ("FALSE" if f0 else "TRUE"), s)
    s = re.sub(r"ErrArms = \{\w+\}", "ErrArms = {%s}" % ("FALSE" if f1 else "TRUE"), s)
    if not f1:
        s = s.replace("LiveSpecEcho", "LiveSpec").replace("NotStuckButNoCmd", "NotStuck")
    if not f0:
        s = s.replace("INVARIANTS ", "INVARIANTS NoCrash ")
    with open(os.path.join(vlib._specdir(), name), "w") as fh:
        fh.write(s)
    return name


def tlc_trace(out, limit=40):
    """Action names of a TLC counterexample."""
    return re.findall(r"^State \d+: <(\S+(?:\([^)]*\))?) line", out, re.M)[:limit]


def run(tier, v):
    quick = tier == "quick"
    HEAP = "2g" if quick else "6g"      # the machine is shared: keep the JVMs small
    cov = {"samples": []}
    rng = random.Random(vlib.seed() * 7919 + 19)
    vlib._specdir()
    # scenarios from the spec (in the background while the harness is built and the variant is probed)
    gbox = {}

    def generate():
        try:
            gbox["g"] = vlib.tlc("ZmodemGen", "ZmodemGen_quick.cfg", timeout=1200, heap="2g", workers=4)
        except Exception as e:
            gbox["e"] = e
    gth = threading.Thread(target=generate)
    gth.start()
    h = vlib.build_harness(["c19"])
    res = {}

    def early():
        try:
            out = os.path.join(vlib.scratch(), "c19early")
            res["early"] = (vlib.run_driver(h, "c19_early", out, {"procs": 6, "attempts": 12 if quick else 40},
                                            timeout=600, extra_env={"VERIF_SHARD_CRASH_OK": "1"}), out)
        except Exception as e:
            res["early"] = e

    def f1probe():
        # which variant does the code have?  (only a prediction for the design run below; the verdict on
        # F1 comes from the validated scenario runs)
        try:
            pl = {"id": 0, "sig": "probe", "steps": [{"a": "hdr", "up": False, "veto": "none", "start": "nopath"},
                                                    {"a": "quiet"}, {"a": "text"}]}
            s0, files0, _ = run_plans(h, "c19probe", [pl], True, 1)
            ev = vlib.read_ndjson(files0[0]) if files0 else []
            res["f1probe"] = any(e["e"] == "inpdone" and e["disp"] == "drop" for e in ev)
        except Exception as e:
            res["f1probe"] = e
    pths = [threading.Thread(target=early), threading.Thread(target=f1probe)]
    for t in pths:
        t.start()
    for t in pths:
        t.join()
    for k in ("early", "f1probe"):
        if isinstance(res[k], Exception):
            raise res[k]
    es, eout = res["early"]
    crashes = [open(os.path.join(eout, f)).read() for f in sorted(os.listdir(eout)) if f.endswith(".crash.txt")]
    f0 = any("handleZmodemError" in txt for txt in crashes)
    f1_pred = bool(res["f1probe"])
    # 1. design, for the variant the code appears to have, in the background
    box = {}
    main_cfg = "Zmodem_quick.cfg" if quick else "Zmodem_thorough.cfg"

    def design():
        try:
            cfg = main_cfg if (f0 and f1_pred) else variant_cfg(main_cfg, f0, f1_pred, "Zmodem_pred.cfg")
            box["r"] = vlib.tlc("Zmodem", cfg, timeout=3000, heap=HEAP, workers=8)
        except Exception as e:     # re-raised in the main thread
            box["e"] = e
    th = threading.Thread(target=design)
    th.start()
    # 2. scenarios from the spec
    gth.join()
    if "e" in gbox:
        raise gbox["e"]
    g = gbox["g"]
    if not g["ok"]:
        raise vlib.Infra("ZmodemGen failed: %s\n%s" % (g["violated"], g["out"][-2000:]))
    gen = list({json.dumps(p, sort_keys=True): p for p in vlib.mbt_lines(g["out"])}.values())
    gen.sort(key=lambda p: json.dumps(p, sort_keys=True))
    if len(gen) < 1000:
        raise vlib.Infra("ZmodemGen exported only %d scenarios" % len(gen))
    cov["gen_scenarios"], cov["gen_signatures"] = len(gen), len({signature(p) for p in gen})
    quotas = {"ok": 110, "nochoice": 14, "veto": 10, "nopath": 26} if quick else \
             {"ok": 1100, "nochoice": 160, "veto": 90, "nopath": 220}
    chosen = sample(gen, quotas, rng)
    if not quick:
        # longer scenarios (two quiet points, up to 7 steps) from random behaviours of the spec
        g2 = vlib.tlc("ZmodemGen", "ZmodemGen_sim.cfg", workers=1, timeout=400, heap="2g", simulate="num=4000", depth=70,
                      extra_args=["-seed", str(vlib.seed())])
        gen2 = list({json.dumps(p, sort_keys=True): p for p in vlib.mbt_lines(g2["out"]) if len(p["steps"]) > 5}.values())
        gen2.sort(key=lambda p: json.dumps(p, sort_keys=True))
        cov["gen_simulated_scenarios"] = len(gen2)
        chosen += sample(gen2, {"ok": 260, "nochoice": 40, "veto": 20, "nopath": 60}, rng)
    plans = [concretise(p, i, rng) for i, p in enumerate(chosen)]
    if not quick:
        for lp in long_plans():
            lp["id"] = len(plans)
            plans.append(lp)
    with_h = [p for p in plans if p["steps"][0]["start"] != "nopath"]
    no_h = [p for p in plans if p["steps"][0]["start"] == "nopath"]
    by_id = {p["id"]: p for p in plans}
    cov["signatures_run"] = len({p["sig"] for p in plans})
    def drive(name, ps, nohelper):
        try:
            res[name] = run_plans(h, "c19" + name, ps, nohelper, 64 if quick else 96)
        except Exception as e:
            res[name] = e

    ths = [threading.Thread(target=drive, args=("h", with_h, False)),
           threading.Thread(target=drive, args=("n", no_h, True))]
    for t in ths:
        t.start()
    for t in ths:
        t.join()
    for k in ("h", "n"):
        if isinstance(res[k], Exception):
            raise res[k]
    # 3. judge
    runs = events = 0
    nrej = 0
    stuck_all, confirmed_all, hangs_all = {}, {}, []
    first_file = None
    for name, nohelper in (("h", False), ("n", True)):
        s, files, hangs = res[name]
        runs += s["runs"]
        events += s["events"]
        cov["skipped_steps"] = cov.get("skipped_steps", 0) + s["skipped_steps"]
        hangs_all += [dict(x, nohelper=nohelper) for x in hangs]
        if files:
            st, conf, nr = judge(files, by_id, nohelper, v, cov)
            nrej += nr
            stuck_all.update({(name, k): x for k, x in st.items()})
            confirmed_all.update({(name, k): dict(x, nohelper=nohelper) for k, x in conf.items()})
        if name == "h" and files:
            first_file = files[0]
    for x in hangs_all:
        if "pump did not return" in x["why"]:
            v.violation("pump-blocked", "a pump of the filter stayed blocked for 15 s: " + x["why"],
                        {"plans": [by_id.get(x["id"])], "nohelper": x["nohelper"], "events": x["events"]})
        else:
            raise vlib.Infra("scenario %s could not be run: %s" % (x["id"], x["why"]))
    cov["traces_validated_against_impl"] = runs
    cov["trace_events"] = events
    cov["trace_files_rejected"] = nrej
    cov["quiet_ms"], cov["quiet_long_ms"] = res["h"][0]["quiet_ms"], res["h"][0]["quiet_long_ms"]
    f1 = False
    for (name, rid), c in sorted(confirmed_all.items()):
        plan = by_id.get(rid)
        if c["nocmd"]:
            f1 = True
            v.violation(KEY_F1, "session stopped by handleZmodemError while no helper existed (%s); after %d ms of silence "
                        "the terminal is still not handed back: %s (the cleanup timer is armed only by the next server "
                        "output)" % (plan["sig"], cov["quiet_ms"], c["observed"]),
                        {"plans": [plan], "nohelper": c["nohelper"], "run": c["run"]})
        else:
            v.violation("stuck-" + plan["sig"], "ended session not handed back after %d ms of silence: %s"
                        % (cov["quiet_ms"], c["observed"]), {"plans": [plan], "nohelper": c["nohelper"], "run": c["run"]})
    cov["runs_stuck_at_quiet"] = len(confirmed_all)
    cov["runs_helper_launched_after_stop"] = sum(1 for x in stuck_all.values() if x["late"])
    # early Ctrl-C probe
    for txt in crashes:
        if "handleZmodemError" in txt:
            m = re.search(r"panic: .*", txt)
            v.violation(KEY_F0, "Ctrl-C right after the start header, before handleZmodemEvent assigned z.serverIn: the process "
                        "dies (%s) in sendInput -> stopTransferringFiles -> handleZmodemError" % (m.group(0) if m else "panic"),
                        {"early": True, "stack": txt[-2500:]})
        else:
            v.violation("early-crash", "a child running 'header, immediate Ctrl-C' died", {"early": True, "stack": txt[-2500:]})
    cov["early_ctrlc_attempts_survived"] = es.get("attempts_survived", 0)
    cov["early_ctrlc_children_crashed"] = len(crashes)
    cov["observed_variant"] = {"InitBeforePublish": not f0, "ErrArmsCleanup": not f1}
    # design result for the observed variant
    th.join()
    if "e" in box:
        raise box["e"]
    r = box["r"]
    if f1 != f1_pred:
        r = vlib.tlc("Zmodem", variant_cfg(main_cfg, f0, f1, "Zmodem_obs.cfg"), timeout=3000, heap=HEAP, workers=8)
    if not r["ok"]:
        raise vlib.Infra("Zmodem (variant %s) violates %s on the design level: %s\n%s"
                         % (cov["observed_variant"], r["violated"], tlc_trace(r["out"]), r["out"][-1500:]))
    cov["states"], cov["transitions"] = r["distinct"], r["states"]
    cov["exhaustive"] = True
    cov["liveness_checked"] = "HandBack" + ("" if not f1 else " (under the echo assumption: finding F1)")
    cov["model_constants"] = open(os.path.join(vlib.VERIF, "spec", main_cfg)).read()
    if not quick:
        # non-vacuity: every action of the spec fires (coverage run on the small configuration)
        rc = vlib.tlc("Zmodem", variant_cfg("Zmodem_quick.cfg", f0, f1, "Zmodem_cov.cfg"), timeout=3000, heap="2g",
                      workers=8, coverage=True)
        ac = vlib.action_counts(rc["out"])
        cov["action_counts"] = ac
        cov["actions_never_fired"] = [a for a, c in ac.items() if c[1] == 0]
        rr = vlib.tlc("Zmodem", "Zmodem_repaired.cfg", timeout=3000, heap="2g", workers=8)
        cov["repaired_variant_strict"] = {"ok": bool(rr["ok"]), "violated": rr["violated"], "states": rr["distinct"]}
        if not rr["ok"]:
            raise vlib.Infra("the repaired variant violates %s: %s" % (rr["violated"], tlc_trace(rr["out"])))
    # the strict property on the observed deviations (TLC's own counterexample, for the record) and the
    # binding demonstration, side by side
    def corrupt(ev):
        ev = [dict(e) for e in ev]
        k = [i for i, e in enumerate(ev) if e.get("e") == "srvdone" and e.get("disp") == "pass"]
        ev[k[len(k) // 2]]["disp"] = "held"
        return ev

    def drop(ev):
        k = [i for i, e in enumerate(ev) if e.get("e") == "tsrv" and e.get("c") == "can"]
        j = k[len(k) // 2]
        return ev[:j] + ev[j + 1:]
    tail = {}

    def job(name, fn):
        try:
            tail[name] = fn()
        except Exception as e:
            tail[name] = e
    jobs = [("corrupt", lambda: vlib.selftest_reject("ZmodemTrace", "ZmodemTrace.cfg", first_file, corrupt, heap="1g")),
            ("drop", lambda: vlib.selftest_reject("ZmodemTrace", "ZmodemTrace.cfg", first_file, drop, heap="1g"))]
    if f0:
        jobs.append(("NoCrash", lambda: vlib.tlc("Zmodem", "Zmodem_f0.cfg", timeout=600, heap="1g", workers=2)))
    if f1:
        jobs.append(("NotStuck", lambda: vlib.tlc("Zmodem", "Zmodem_f1.cfg", timeout=600, heap="1g", workers=2)))
    tths = []
    for name, fn in jobs:
        t = threading.Thread(target=job, args=(name, fn))
        t.start()
        tths.append(t)
        time.sleep(0.3)
    for t in tths:
        t.join()
    for name, val in tail.items():
        if isinstance(val, Exception):
            raise val
    for inv in ("NoCrash", "NotStuck"):
        if inv in tail:
            if tail[inv]["violated"] != inv:
                raise vlib.Infra("real code shows the deviation but the spec's variant gives %s for %s" % (tail[inv]["violated"], inv))
            cov.setdefault("design_counterexamples", {})[inv] = tlc_trace(tail[inv]["out"])
    cov["selftest_corrupt_rejected"] = tail["corrupt"]
    cov["selftest_drop_rejected"] = tail["drop"]
    if nrej == 0 and not (cov["selftest_corrupt_rejected"] and cov["selftest_drop_rejected"]):
        raise vlib.Infra("binding self-test failed: corrupted trace accepted")
    ev0 = vlib.read_ndjson(first_file)
    cov["samples"].append({"plan": plans[0]})
    cov["samples"].append({"recorded_run": vlib.run_of(ev0, 1)})
    if confirmed_all:
        c = sorted(confirmed_all.items())[0][1]
        cov["samples"].append({"stuck_run": c["run"]})
    return cov


def replay(path, v):
    """Re-run a saved counterexample against the current tree."""
    rec = json.load(open(path))
    rp = rec["replay"]
    h = vlib.build_harness(["c19"])
    if rp.get("early"):
        out = os.path.join(vlib.scratch(), "c19early")
        s = vlib.run_driver(h, "c19_early", out, {"procs": 6, "attempts": 40}, timeout=600,
                            extra_env={"VERIF_SHARD_CRASH_OK": "1"})
        for f in sorted(os.listdir(out)):
            if f.endswith(".crash.txt"):
                txt = open(os.path.join(out, f)).read()
                print(txt[-1500:], flush=True)
                v.violation(KEY_F0 if "handleZmodemError" in txt else "early-crash", "child died on header + immediate Ctrl-C",
                            {"early": True, "stack": txt[-2500:]})
                break
        return {}
    plans = [p for p in rp.get("plans", []) if p]
    if not plans:
        raise vlib.Infra("replay file has no plan")
    cov = {}
    s, files, hangs = run_plans(h, "c19replay", plans, bool(rp.get("nohelper")), 4)
    for x in hangs:
        v.violation("pump-blocked", x["why"], {"plans": plans, "nohelper": rp.get("nohelper"), "events": x["events"]})
    if files:
        for l in open(files[0]):
            print(l.rstrip(), flush=True)
        stuck, conf, nrej = judge(files, {p["id"]: p for p in plans}, bool(rp.get("nohelper")), v, cov)
        for rid, c in conf.items():
            v.violation(KEY_F1 if c["nocmd"] else "stuck", "ended session not handed back after the quiet period: " + c["observed"],
                        {"plans": plans, "nohelper": rp.get("nohelper"), "run": c["run"]})
    return {}
