"""C17 - only the authenticated tunnel connection is ever used, and only one.  Spec: Tunnel.tla.

 1. TLC exhaustive on Tunnel (design): the server's accept loop and one handler per connection
    (scripts wrong / right-prefix-wrong-id / greeting-plus-more / right / split / silent / flood),
    the client's connector goroutine with its one-second timer (outcomes refuse / dead / good /
    bad reply / no reply, each step before or after the timer), sendAction / recvAction and the
    in-band pump; invariants AtMostOneAdopted, AdoptedAuthenticated, NoAnswerToStrangers,
    OnlyAdoptedFeeds, FallbackWorks, AgreeConsistent, NoLateAdoption and the action property
    InbandIgnoredAfterAgree.  Configs: all scripts x all outcomes with one stranger (pumps on),
    the three-way race, the stream-transport (coalescing) variant; thorough adds all scripts with
    two strangers.
 2. spec -> impl: every ordering of the harness-controllable steps exported from TunnelGen
    (exhaustive for one stranger, simulated for two) plus "storms" (all connections that know the
    greeting answered at the same instant) is forced onto the real acceptOnTunnel (fake
    net.Listener handing out net.Pipe ends) and the real TrzszFilter.handleTrzsz ->
    connectToTunnel -> sendAction (connector under the driver's control, real one-second timer);
    a complete real transfer then runs over whatever was adopted, or in-band; strangers keep
    writing protocol-looking bytes; after agreement both ends are fed trigger text, #FAIL and
    Ctrl-C in-band.
 3. impl -> spec: everything observed in 2. (what each connection attempt received, what the
    listener / connector / proxy saw, ACT / recvAction values, the code's own trace log
    "rcvbuf"/"ignout", return values, destination files) is validated against TunnelTrace with
    every invariant evaluated at every step; the same over loopback TCP (listenForTunnel, real
    dialers at random times, recording connections) and with one TrzszRelay hop.
 Verdict: only from a recorded real execution that TunnelTrace rejects / that makes an invariant
 false (or a greeting that does not depend on id and port)."""
import os, json, random, glob, re
import vlib

ASSUMPTIONS = [
    "what reached a transfer's buffer is observed through the code's own trace log (traceLogger 'rcvbuf' / 'ignout' records, channel installed by the harness): a change that stops logging before addBuffer would blind the fed/ign events (the end-to-end result of the transfer is still checked)",
    "a connection the server was handed non-greeting bytes on counts as 'not closed' only if it is still open 4 s later, after the whole transfer has finished",
    "the one-second grace timer is the real one: orderings that put steps before it rely on those steps finishing within 1 s; when they do not, the run takes the (valid) time-out branch and is counted as drift, not as a violation",
    "loopback TCP and relay runs are schedule samples, not enumerations; the relay's own listener is not observable (its steps are silent in the trace spec)",
    "with a relay in the path the harness closes the server's end of the tunnel last and reports read errors of the relay's upstream connection as EOF (TrzszRelay's tunnel pumps busy-loop on other read errors; outside this property)",
    "TLC fingerprint collisions negligible (reported probability < 1e-4 for the largest configuration)",
]

INVS = "TypeOK AtMostOneAdopted AdoptedAuthenticated NoAnswerToStrangers OnlyAdoptedFeeds FallbackWorks AgreeConsistent NoLateAdoption"


def _group(c):
    return (tuple(c["scripts"]), c["outcome"], tuple(c["hpc"]), tuple(c["replied"]), c["adopted"], c["act"])


def _select_cases(cases, per_group, extra, rnd):
    groups = {}
    for c in cases:
        groups.setdefault(_group(c), []).append(c)
    sel = []
    rest = []
    for g in sorted(groups):
        lst = groups[g]
        rnd.shuffle(lst)
        sel += lst[:per_group]
        rest += lst[per_group:]
    rnd.shuffle(rest)
    sel += rest[:extra]
    return sel, len(groups)


def _storms(n, rnd, nmax=4):
    res = []
    for k in range(n):
        ns = rnd.choice([2, 2, 3, 3])
        scripts = ["right"] * ns
        if rnd.random() < 0.4:
            scripts[rnd.randrange(ns)] = rnd.choice(["wrong", "wrongid", "long", "split", "flood", "silent"])
        oc = rnd.choice(["good", "good", "good", "refuse", "noreply"])
        first = "genuine" if oc == "good" else "absent"
        res.append({"scripts": [first] + scripts, "outcome": oc, "steps": [], "replied": [], "hpc": [],
                    "adopted": -2, "act": "", "must": False, "mode": "storm"})
    return res


def _run_files(outdir, nfiles=6):
    """The shards' recordings, concatenated into at most nfiles files (one JVM each)."""
    dirs = outdir if isinstance(outdir, list) else [outdir]
    outdir = dirs[0]
    shards = []
    for d in dirs:
        shards += sorted(glob.glob(os.path.join(d, "shard-*", "trace.ndjson")))
    shards = [f for f in shards if os.path.getsize(f) > 0]
    k = min(nfiles, len(shards))
    res = []
    for i in range(k):
        p = os.path.join(outdir, "all-%02d.ndjson" % i)
        with open(p, "w") as out:
            for f in shards[i::k]:
                out.write(open(f).read())
        res.append(p)
    return res


def _infos(outdir):
    res = []
    for f in sorted(glob.glob(os.path.join(outdir, "shard-*", "infos.json"))):
        res += json.load(open(f)) or []
    return res


def _key(mode, run, bad):
    scripts = []
    for e in run:
        if e.get("e") == "reset":
            scripts = e.get("scripts", [])
    i = bad.get("i", bad.get("src"))
    sc = scripts[i - 1] if isinstance(i, int) and 1 <= i <= len(scripts) else ""
    parts = [mode, str(bad.get("e"))]
    for f in ("what", "cls", "side", "src", "tunnel", "ok", "same", "res", "hello"):
        if f in bad:
            parts.append("%s=%s" % (f, bad[f]))
    if sc:
        parts.append("script=" + sc)
    return "-".join(parts)


def _isolated_rerun(mode, cfg, case, h, n):
    """Run one case / plan alone (nothing else in the process) and validate it.  True = rejected again."""
    d = os.path.join(vlib.scratch(), "c17iso-%s-%d" % (mode, n))
    if mode == "mbt":
        _write_ndjson(os.path.join(d, "cases.ndjson"), [case])
        vlib.run_driver(h, "c17_mbt", d, {"cases": os.path.join(d, "cases.ndjson"), "shards": 1, "par": 1})
    else:
        _write_ndjson(os.path.join(d, "plans.ndjson"), [case])
        vlib.run_driver(h, "c17_" + mode, d, {"plans": os.path.join(d, "plans.ndjson"), "shards": 1, "par": 1})
    r = vlib.validate_trace("TunnelTrace", cfg, _run_files(d, 1)[0])
    return not r["accepted"]


def _judge(mode, cfg, files, v, lookup, cov, h=None):
    """Validate recorded runs; every rejection / invariant violation is a violation.  A run that
    is rejected only at the outcome of its transfer (ret / fs: the code's own time-outs are
    involved, and hundreds of transfers share the machine) is repeated once on its own and
    counts only if it is rejected again."""
    if not files:
        raise vlib.Infra("no traces for " + mode)
    res = vlib.validate_traces("TunnelTrace", cfg, files, timeout=1500)
    nrej = 0
    for f, r in zip(files, res):
        cov["tv_states"] = cov.get("tv_states", 0) + r["distinct"]
        rounds = 0
        while not r["accepted"]:
            # TLC stops at the first run it cannot consume: report it, cut it out, validate the rest
            rounds += 1
            nrej += 1
            ev = vlib.read_ndjson(f)
            if r["violated"] not in (None, "postcondition"):
                ls = re.findall(r"/\\ l = (\d+)", r["out"])
                i = max(0, min(len(ev) - 1, (int(ls[-1]) - 2) if ls else 0))
                run = vlib.run_of(ev, i)
                rid = run[0].get("run")
                v.violation("%s-invariant-%s" % (mode, r["violated"]),
                            "invariant %s false on a recorded %s execution (run %s)" % (r["violated"], mode, rid),
                            {"mode": mode, "case": lookup(rid), "run": run, "tlc_tail": r["out"][-2500:]})
            else:
                if r["hw"] is None:
                    raise vlib.Infra("trace validation of %s gave no high-water mark:\n%s" % (f, r["out"][-3000:]))
                i = min(r["hw"] - 1, len(ev) - 1)
                bad = ev[i]
                run = vlib.run_of(ev, i)
                rid = run[0].get("run")
                reproduced = True
                if h is not None and bad.get("e") in ("ret", "fs") and lookup(rid) is not None:
                    cov["outcome_rejections_rerun"] = cov.get("outcome_rejections_rerun", 0) + 1
                    if cov["outcome_rejections_rerun"] <= 12 and not _isolated_rerun(mode, cfg, lookup(rid), h, cov["outcome_rejections_rerun"]):
                        cov["outcome_rejections_not_reproduced"] = cov.get("outcome_rejections_not_reproduced", 0) + 1
                        cov.setdefault("not_reproduced_runs", []).append({"mode": mode, "run": run[-6:]})
                        nrej -= 1
                        reproduced = False
                if reproduced:
                    v.violation(_key(mode, run, bad),
                                "recorded %s execution (run %s) is not a behaviour of Tunnel: %s" % (mode, rid, vlib.explain_rejection(f, r["hw"], context=12)),
                                {"mode": mode, "case": lookup(rid), "run": run, "rejected_event": bad})
            if rounds >= 5:
                break
            lo = i
            while lo > 0 and ev[lo].get("e") != "reset":
                lo -= 1
            rest = ev[:lo] + ev[lo + len(run):]
            if not rest:
                break
            _write_ndjson(f, rest)
            r = vlib.validate_trace("TunnelTrace", cfg, f, timeout=1500)
    cov["trace_files_rejected"] = cov.get("trace_files_rejected", 0) + nrej
    return res


_HUNG = []


def _side_checks(mode, infos, v, cov):
    # a run that did not finish within the watchdog: its recorded events are still judged; if
    # nothing in the whole check is a violation, a hang is an infrastructure problem, not a verdict
    _HUNG.extend((mode, i) for i in infos if i.get("hung"))
    cov["runs_hung_" + mode] = sum(1 for i in infos if i.get("hung"))
    for i in infos:
        if i.get("aux", {}).get("greeting_derived") is False:
            v.violation("greeting-not-derived", "the greeting does not depend on the transfer's id and port", {"mode": mode, "info": i})
    cov["runs_" + mode] = len(infos)
    cov["tunnel_runs_" + mode] = sum(1 for i in infos if i.get("act_tunnel"))
    cov["inband_runs_" + mode] = sum(1 for i in infos if not i.get("act_tunnel"))


def _write_ndjson(path, items):
    os.makedirs(os.path.dirname(path), exist_ok=True)
    with open(path, "w") as fh:
        for c in items:
            fh.write(json.dumps(c) + "\n")


def run(tier, v):
    import time
    del _HUNG[:]
    quick = tier == "quick"
    cov = {"samples": [], "exhaustive": True, "stage_wall_s": {}}
    t_stage = [time.time()]

    def stage(name):
        now = time.time()
        cov["stage_wall_s"][name] = round(now - t_stage[0], 1)
        vlib.log("stage %s: %.1fs" % (name, now - t_stage[0]))
        t_stage[0] = now

    rnd = random.Random(vlib.seed() * 7919 + 17)

    # ---- 1. design
    cfgs = ["Tunnel_quick.cfg", "Tunnel_race.cfg", "Tunnel_tcp.cfg"] + ([] if quick else ["Tunnel_thorough.cfg"])
    cov["states"], cov["transitions"] = 0, 0
    cov["model_configs"] = {}
    for cfg in cfgs:
        r = vlib.tlc("Tunnel", cfg, timeout=2400, heap="4g", coverage=(cfg == "Tunnel_quick.cfg"), workers=8)
        if not r["ok"]:
            raise vlib.Infra("Tunnel (%s) violates %s on the design level:\n%s" % (cfg, r["violated"], r["out"][-3000:]))
        cov["states"] += r["distinct"]
        cov["transitions"] += r["states"]
        cov["model_configs"][cfg] = {"distinct": r["distinct"], "generated": r["states"], "depth": r.get("depth"), "wall_s": r["wall_s"],
                                     "constants": open(os.path.join(vlib.VERIF, "spec", cfg)).read()}
        if cfg == "Tunnel_quick.cfg":
            ac = vlib.action_counts(r["out"])
            cov["action_counts"] = ac
            dead = [a for a, c in ac.items() if c[1] == 0 and a not in ("Init",)]
            cov["actions_never_fired"] = dead
            if dead:
                raise vlib.Infra("actions never fire in Tunnel_quick: %s" % dead)

    stage("design_tlc")
    # ---- 2. spec -> impl: orderings
    g = vlib.tlc("TunnelGen", "TunnelGen_quick.cfg", timeout=1200, heap="3g", workers=8)
    if not g["ok"]:
        raise vlib.Infra("TunnelGen failed: %s\n%s" % (g["violated"], g["out"][-2000:]))
    allc = vlib.mbt_lines(g["out"])
    if len(allc) < 1000:
        raise vlib.Infra("MBT export produced only %d orderings" % len(allc))
    cov["mbt_orderings_exported_n2"] = len(allc)
    if quick:
        cases, ngroups = _select_cases(allc, 3, 250, rnd)
    else:
        cases, ngroups = list(allc), len({_group(c) for c in allc})
    cov["mbt_outcome_classes_n2"] = ngroups
    g3 = vlib.tlc("TunnelGen", "TunnelGen_sim.cfg", workers=1, timeout=600, heap="2g",
                  simulate="num=%d" % (400 if quick else 4000), depth=80, extra_args=["-seed", str(vlib.seed())])
    c3 = vlib.mbt_lines(g3["out"])
    seen = set()
    for c in c3:
        k = json.dumps(c, sort_keys=True)
        if k not in seen:
            seen.add(k)
            cases.append(c)
    cov["mbt_orderings_n3_simulated"] = len(seen)
    cases += _storms(60 if quick else 1000, rnd)
    for n, c in enumerate(cases):
        c["id"] = n + 1
        c["seed"] = vlib.seed()
    byid = {c["id"]: c for c in cases}
    stage("mbt_export")
    h = vlib.build_harness(["c17"])
    mdir = os.path.join(vlib.scratch(), "c17mbt")
    _write_ndjson(os.path.join(mdir, "cases.ndjson"), cases)
    # batches: the harness processes keep some memory per case (leaked TrzszFilter.wrapOutput
    # goroutines, garbage of the code's trace log); a batch ends, its processes exit
    infos, mdirs, nev = [], [], 0
    B = 5000
    for b0 in range(0, len(cases), B):
        bd = os.path.join(mdir, "b%d" % (b0 // B))
        _write_ndjson(os.path.join(bd, "cases.ndjson"), cases[b0:b0 + B])
        s = vlib.run_driver(h, "c17_mbt", bd, {"cases": os.path.join(bd, "cases.ndjson"), "shards": 8, "par": 32, "memlimit_mb": 300}, timeout=2400)
        infos += _infos(bd)
        mdirs.append(bd)
        nev += s["events"]
    s = {"events": nev}
    if len(infos) != len(cases):
        raise vlib.Infra("c17_mbt: %d cases, %d results" % (len(cases), len(infos)))
    _side_checks("mbt", infos, v, cov)
    stage("mbt_replay")
    files = _run_files(mdirs, 8)
    _judge("mbt", "TunnelTrace.cfg", files, v, lambda rid: byid.get(rid), cov, h)
    stage("mbt_validate")
    cov["mbt_cases_replayed"] = len(cases)
    cov["trace_events"] = s["events"]
    # expectation of the model vs what happened (timing drift, not a verdict)
    drift = []
    for i in infos:
        c = byid[i["id"]]
        if c.get("mode") == "storm":
            continue
        exp_rep = [bool(x) for x in c["replied"]]
        if (i["act_tunnel"] != (c["act"] == "tunnel")) or i["adopted"] != c["adopted"] or [bool(x) for x in i["replied"]] != exp_rep:
            drift.append(i["id"])
    cov["mbt_expectation_drift"] = len(drift)
    if len(drift) > max(10, len(cases) // 5) and not v.violations:
        raise vlib.Infra("%d of %d replays diverged from the model's expectation (machine too slow for the one-second timer?)" % (len(drift), len(cases)))
    cov["storm_runs"] = sum(1 for c in cases if c.get("mode") == "storm")
    cov["port_passed_to_connector_matches_trigger"] = all(i["conn_port"] == i["port"] for i in infos if i.get("conn_calls"))
    if not cov["port_passed_to_connector_matches_trigger"]:
        bad = next(i for i in infos if i.get("conn_calls") and i["conn_port"] != i["port"])
        v.violation("connector-port", "connectToTunnel was called with another port than the trigger's", {"mode": "mbt", "case": byid[bad["id"]], "info": bad})
    ev0 = vlib.read_ndjson(files[0])
    cov["samples"].append({"mbt_case": {k: cases[len(cases) // 3][k] for k in ("scripts", "outcome", "steps", "adopted", "act")}})
    cov["samples"].append({"recorded_run": vlib.run_of(ev0, 0)[:40]})

    # ---- binding self-test: corrupted recordings must be rejected
    def find_run(pred):
        for f in files:
            ev = vlib.read_ndjson(f)
            k = 0
            while k < len(ev):
                run = vlib.run_of(ev, k)
                if pred(run):
                    return run
                k += len(run)
        return None

    def has(run, **kw):
        return any(all(e.get(a) == b for a, b in kw.items()) for e in run)

    st = {}
    r1 = find_run(lambda run: any(e.get("e") == "got" and e.get("what") == "closed" and e.get("i", 0) > 1 and
                                  run[0]["scripts"][e["i"] - 1] in ("wrong", "wrongid", "long", "flood") for e in run))
    r2 = find_run(lambda run: has(run, e="act", tunnel=True) and has(run, e="ign", side="S"))
    r3 = find_run(lambda run: has(run, e="act", tunnel=False) and has(run, e="fs", same=True) and has(run, e="cret")
                  and not any(x in ("right", "split") for x in run[0]["scripts"]))
    if not (r1 and r2 and r3):
        if not v.violations:
            raise vlib.Infra("self-test: recorded runs lack the needed shapes")
        cov["selftest_skipped"] = "recorded runs of a violating tree lack the needed shapes"

    if r1 and r2 and r3:
        def write_run(run, name):
            p = os.path.join(vlib.scratch(), name)
            _write_ndjson(p, run)
            return p

        def answered(ev):
            ev = [dict(e) for e in ev]
            for e in ev:
                if e.get("e") == "got" and e.get("what") == "closed" and e.get("i", 0) > 1 and ev[0]["scripts"][e["i"] - 1] in ("wrong", "wrongid", "long", "flood"):
                    e["what"] = "reply"
                    break
            return ev

        def leaked(ev):
            ev = [dict(e) for e in ev]
            for e in ev:
                if e.get("e") == "ign" and e.get("side") == "S":
                    e["e"], e["src"] = "fed", 0
                    break
            return ev

        def differs(ev):
            ev = [dict(e) for e in ev]
            for e in ev:
                if e.get("e") == "fs":
                    e["same"] = False
            return ev

        def second_feeder(ev):
            ev = [dict(e) for e in ev]
            k = next(i for i, e in enumerate(ev) if e.get("e") == "ign")
            return ev[:k] + [{"e": "fed", "side": "S", "src": 2}] + ev[k:]

        def drop_accept(ev):
            k = next((i for i, e in enumerate(ev) if e.get("e") == "accept"), None)
            return ev[:k] + ev[k + 1:] if k is not None else ev[1:]

        from concurrent.futures import ThreadPoolExecutor
        jobs = {
            "selftest_answer_to_stranger_rejected": (r1, "st1.ndjson", answered),
            "selftest_inband_leak_rejected": (r2, "st2.ndjson", leaked),
            "selftest_second_feeder_rejected": (r2, "st2b.ndjson", second_feeder),
            "selftest_fallback_differs_rejected": (r3, "st3.ndjson", differs),
            "selftest_dropped_accept_rejected": (r2, "st4.ndjson", drop_accept),
        }

        def one(item):
            name, (run_, fn, mut) = item
            pth = os.path.join(vlib.scratch(), fn)
            _write_ndjson(pth, mut(run_))
            return name, not vlib.validate_trace("TunnelTrace", "TunnelTrace.cfg", pth)["accepted"]

        with ThreadPoolExecutor(max_workers=6) as ex:
            fut_ok = ex.submit(lambda: vlib.validate_trace("TunnelTrace", "TunnelTrace.cfg", write_run(r2, "st5.ndjson"))["accepted"])
            for name, rej in ex.map(one, jobs.items()):
                st[name] = rej
            st["selftest_unchanged_accepted"] = fut_ok.result()
        cov.update(st)
        if not all(st.values()) and not v.violations:
            raise vlib.Infra("binding self-test failed: %s" % st)

    stage("selftest")
    # ---- 3. loopback TCP and one relay hop
    tdir = os.path.join(vlib.scratch(), "c17tcp")
    ts = vlib.run_driver(h, "c17_tcp", tdir, {"runs": 400 if quick else 4000, "shards": 8, "par": 24, "memlimit_mb": 300}, timeout=2400)
    tinfos = _infos(tdir)
    _side_checks("tcp", tinfos, v, cov)
    plans = {i["id"]: i.get("plan") for i in tinfos}
    _judge("tcp", "TunnelTrace_tcp.cfg", _run_files(tdir), v, lambda rid: plans.get(rid), cov, h)
    cov["trace_events"] += ts["events"]
    stage("tcp")
    nrel = 0
    rinfos = []
    rdirs = []
    for b in range(2 if quick else 8):
        rdir = os.path.join(vlib.scratch(), "c17relay%d" % b)
        rs = vlib.run_driver(h, "c17_relay", rdir, {"runs": 48, "shards": 8, "par": 6, "id0": 1000 * (b + 1)}, timeout=1200)
        rinfos += _infos(rdir)
        rdirs.append(rdir)
        cov["trace_events"] += rs["events"]
        nrel += rs["runs"]
    rplans = {i["id"]: i.get("plan") for i in rinfos}
    _judge("relay", "TunnelTrace_relay.cfg", _run_files(rdirs, 4), v, lambda rid: rplans.get(rid), cov, h)
    _side_checks("relay", rinfos, v, cov)
    stage("relay")
    cov["traces_validated_against_impl"] = len(cases) + len(tinfos) + nrel
    if _HUNG and not v.violations and not v.known_hit:
        raise vlib.Infra("%d run(s) did not finish within the watchdog and nothing else was observed: %s"
                         % (len(_HUNG), json.dumps(_HUNG[0])[:1500]))
    return cov


def replay(path, v):
    """Re-run a saved counterexample (the ordering / plan) against the current tree."""
    rec = json.load(open(path))
    rp = rec["replay"]
    mode, case = rp.get("mode"), rp.get("case")
    if not case:
        raise vlib.Infra("replay file has no case")
    h = vlib.build_harness(["c17"])
    cov = {}
    reps = 1 if mode == "mbt" else 8
    for k in range(reps):
        d = os.path.join(vlib.scratch(), "c17replay%d" % k)
        os.makedirs(d, exist_ok=True)
        if mode == "mbt":
            _write_ndjson(os.path.join(d, "cases.ndjson"), [case])
            vlib.run_driver(h, "c17_mbt", d, {"cases": os.path.join(d, "cases.ndjson"), "shards": 1, "par": 1})
            cfg = "TunnelTrace.cfg"
        else:
            _write_ndjson(os.path.join(d, "plans.ndjson"), [case])
            vlib.run_driver(h, "c17_" + mode, d, {"plans": os.path.join(d, "plans.ndjson"), "shards": 1, "par": 1})
            cfg = "TunnelTrace_tcp.cfg" if mode == "tcp" else "TunnelTrace_relay.cfg"
        for f in _run_files(d):
            for line in open(f):
                print(line.rstrip())
        _judge(mode, cfg, _run_files(d), v, lambda rid: case, cov)
        _side_checks(mode, _infos(d), v, cov)
        if v.violations:
            break
    return cov
