"""C09 - received files can only be created inside the chosen destination directory.
Spec: Dest.tla.
 1. TLC exhaustive on Dest with Validate = "required" (the design the property demands: a name
    with an element that is empty, ".", "..", contains a separator or is absolute is refused
    where it is decoded): Confined == outside = {} over all names of <= 3 elements (quick: <= 2
    plus the 3-element names behind "x/.." and "../..") over {plain, "..", "", ".", embedded
    separator, absolute, over-long, names of the destination's own ancestors} x overwrite x
    directory mode x protocols 1..4 x both receiving roles x stop-and-delete x path id / is_dir
    claimed by the hostile entry, at the three decode sites (plain NAME, JSON NAME, archive
    entry header).
 2. TLC on the variant Validate = "ascoded" (only check: the list is not empty): every receive
    that ends with something touched outside the destination is exported (DestGen.Export09);
    the shortest name per decode site and element kind is played against the real code.
 3. binding: a hostile peer against the real receivers
      e2e      the real sender, the NAME payload replaced in flight (plain name / JSON list);
      crafted  the real sending code fed a sourceFile list whose archive sub-entry carries the
               hostile path_name (real archiveFileReader -> DATA stream -> real receiver);
      direct   the decode sites themselves (recvFileName, recvFileNameV3, archiveFileWriter.Write
               driven by writeAll), every name of the universe x every mode.
    Each job runs in a private sandbox root (/dev/shm/verif-c09-*/run-N/l1/l2/l3/sb/dst) with
    canary files and directories at every level; the whole root is snapshotted before and
    after (types, sizes, SHA-256, mtimes in ns); DestTrace rebuilds Dest's state from the
    observation and TLC evaluates Confined.  Anything created / changed / removed that is not
    inside the destination is the violation, keyed  escape:<decode site>:<element kind>."""
import os, json, glob, random, re
import vlib

ASSUMPTIONS = [
    "symbolic links are out of scope: names are judged by the lexical cleaning filepath.Join performs",
    "a touch that changes neither bytes, type, mode nor mtime (ns) of an entry outside the destination is invisible; a create-then-delete is seen through the parent directory's mtime",
    "'\\\\' is not a separator on the platform the check runs on (Linux): names with it are ordinary names here",
    "e2e and crafted runs sample the name universe (the direct runs at the decode sites cover all of it)",
]

SITE = {"plain": "plain-name", "json": "json-name", "archive": "archive-entry"}


def elem_kind(e):
    atoms = e.split("/")
    if len(atoms) > 1:
        return "absolute" if atoms[0] == "" else "separator"
    return {"..": "dotdot", "": "empty", ".": "dot", "LONG": "long"}.get(e, "plain")


def name_kind(rel):
    """The kind a finding is keyed by: what makes the name hostile, most dangerous first.  A '..'
    anywhere (an element of its own or behind a separator inside an element or a plain name)
    is `dotdot`; the other kinds are names without any '..'."""
    if any(a == ".." for e in rel for a in e.split("/")):
        return "dotdot"
    if any("\\" in e for e in rel):
        return "backslash"       # '\\' is an ordinary character of a name on this platform
    ks = [elem_kind(e) for e in rel]
    for k in ("absolute", "separator", "empty", "dot", "long"):
        if k in ks:
            return k
    return "plain"


def key_of(job):
    return "escape:%s:%s" % (SITE[job["site"]], job["kind"])


def cfg_combos():
    """(proto, directory) -> site of the NAME message"""
    for proto in (1, 2, 3, 4):
        for directory in (False, True):
            yield proto, directory, ("plain" if proto < 3 and not directory else "json")


def build_jobs(names, escapes, quick, rng):
    jobs = []

    def add(mode, site, rel, **kw):
        j = {"mode": mode, "site": site, "rel": rel, "hp": 0, "hd": False, "overwrite": False, "directory": False, "proto": 4,
             "role": "V", "stopdel": False, "src": "file", "kind": name_kind(rel), "binary": len(jobs) % 3 == 0}
        j.update(kw)
        jobs.append(j)

    # ---- direct: every name x every mode, at the decode sites (thorough tier: for the 3-element
    # names of the large universe a seeded third of the modes)
    def add_direct(site, rel, **kw):
        if not quick and len(rel) >= 3 and rng.randrange(3) != 0:
            return
        add("direct", site, rel, **kw)
    for rel in names:
        for proto, directory, site in cfg_combos():
            if site == "plain":
                if len(rel) != 1:
                    continue
                for ow in (False, True):
                    for sd in (False, True):
                        add_direct("plain", rel, proto=proto, directory=False, overwrite=ow, stopdel=sd)
            else:
                for ow in (False, True):
                    for hd in (False, True):
                        for sd in (False, True):
                            add_direct("json", rel, proto=proto, directory=directory, overwrite=ow, hd=hd, stopdel=sd)
        for hp in (0, 1):
            for hd in (False, True):
                for sd in (False, True):
                    add_direct("archive", rel, proto=4, directory=True, overwrite=False, hp=hp, hd=hd, stopdel=sd)
    # ---- deeper names than the model's 3 elements: an element with an embedded separator can hide
    # depth that later '..' elements climb back out of, once the receiver has cached a local name
    # for the path id (json: primed with an honest ["d"] entry first; archive: the top entry)
    deep = [["d/e", "..", "..", "r"], ["d", "e/f", "..", "..", "..", "r"], ["a/b/c", "..", "..", "..", "r"],
            ["d/e", "..", "..", "..", "r"], ["x", "y/z", "..", "..", "..", "canary"], ["d/e/f", "..", "..", "r"]]
    for rel in deep:
        for proto, directory, site in cfg_combos():
            if site == "json" and (directory or proto >= 3):
                for ow in (False, True):
                    for hd in (False, True):
                        for primed in (False, True):
                            add("direct", "json", rel, proto=proto, directory=directory, overwrite=ow, hd=hd, primed=primed, deep=True)
        for hp in (0, 1):
            for hd in (False, True):
                add("direct", "archive", rel, proto=4, directory=True, overwrite=False, hp=hp, hd=hd, deep=True)
    # ---- elements that are a parent reference (or a plain name) with trailing separators: what a check that
    # tolerates "dir/" must not let through, because joining drops the separator and keeps the '..'
    trail = [["../", "canary"], ["..//", "r"], ["d", "../", "../", "r"], ["../"], ["..//"], ["x/", "..", "..", "y"], ["./", "r"],
             ["x", "../", "../", "canary"]]
    for rel in trail:
        for proto, directory, site in cfg_combos():
            if site == "plain":
                if len(rel) == 1:
                    for ow in (False, True):
                        add("direct", "plain", rel, proto=proto, directory=False, overwrite=ow)
            elif site == "json" and (directory or proto >= 3):
                for ow in (False, True):
                    for primed in (False, True):
                        add("direct", "json", rel, proto=proto, directory=directory, overwrite=ow, hd=False, primed=primed, deep=True)
        for hd in (False, True):
            add("direct", "archive", rel, proto=4, directory=True, overwrite=False, hp=0, hd=hd, deep=True)
    # ---- names with '\\': not a separator here, so such an element is one ordinary name inside the
    # destination -- also when the peer claims to be a Windows server (the client then uses Windows
    # framing; nothing may start treating '\\' as a separator after the names were checked)
    bs = [["sub\\..\\..\\canary"], ["..\\canary"], ["d", "e\\..\\..\\..\\r"], ["\\abs\\r"], ["a\\b"], ["x", "..\\..\\y"]]
    for rel in bs:
        for win in (False, True):
            for proto, directory, site in cfg_combos():
                if site == "plain":
                    if len(rel) == 1:
                        for ow in (False, True):
                            add("direct", "plain", rel, proto=proto, directory=False, overwrite=ow, win=win)
                else:
                    for ow in (False, True):
                        add("direct", "json", rel, proto=proto, directory=directory, overwrite=ow, win=win)
            for hd in (False, True):
                add("direct", "archive", rel, proto=4, directory=True, overwrite=False, hp=0, hd=hd, win=win)
    # ---- e2e / crafted: a sample of the names (stratified by kind), every configuration
    bykind = {}
    for rel in names:
        bykind.setdefault(name_kind(rel), []).append(rel)
    per = 2 if quick else 12
    sample = []
    for k in sorted(bykind):
        l = sorted(bykind[k], key=lambda r: (len(r), r))
        pick = l[:1] + rng.sample(l[1:], min(per - 1, len(l) - 1))
        sample += pick
    must = [["..", "canary"], ["x", "..", "..", "y"], ["../canary"], ["x", "..", "..", "canary"]]
    for m in must:
        if m in names and m not in sample:
            sample.append(m)
    for rel in sample:
        for proto, directory, site in cfg_combos():
            if site == "plain" and len(rel) != 1:
                continue
            for ow in (False, True):
                for role in ("V", "C"):
                    for sd in (False, True):
                        srcs = ["file"] + (["dir"] if directory else [])
                        for src in srcs:
                            add("e2e", site, rel, proto=proto, directory=directory, overwrite=ow, role=role, stopdel=sd, src=src)
        for role in ("V", "C"):
            for hp in (0, 1):
                for hd in (False, True):
                    for sd in (False, True):
                        add("crafted", "archive", rel, proto=4, directory=True, overwrite=False, role=role, hp=hp, hd=hd, stopdel=sd, src="dir")
    # ---- the escaping names TLC exported from the as-coded variant: the shortest per site x kind
    best = {}
    for c in escapes:
        rel = ["/".join(e) for e in c["rel"]]
        k = (c["site"], name_kind(rel))
        size = (len(rel), sum(len(e) for e in c["rel"]))
        best.setdefault(k, [])
        best[k].append((size, json.dumps(c, sort_keys=True)))
    nexp = 0
    for k in sorted(best):
        for size, cj in sorted(best[k])[:(2 if quick else 6)]:
            c = json.loads(cj)
            rel = ["/".join(e) for e in c["rel"]]
            cf = c["cfg"]
            for role in ("V", "C"):
                if c["site"] == "archive":
                    add("crafted", "archive", rel, proto=4, directory=True, overwrite=False, role=role, hp=c["pid"], hd=c["dir"], src="dir", mbt=True)
                else:
                    add("e2e", c["site"], rel, proto=cf["proto"], directory=cf["directory"], overwrite=cf["overwrite"], role=role,
                        hp=c["pid"], hd=c["dir"], src="dir" if c["nsrc"] > 1 else "file", mbt=True)
                nexp += 1
    for i, j in enumerate(jobs):
        j["id"] = i + 1
    return jobs, sample, nexp


PRE = {}      # hash -> full `pre` line (identical sandbox snapshots are recorded once per shard)


def write_runs(fh, runs, ids):
    """Write the runs; a run whose pre snapshot equals that of the run before it in this file
    gets reset.samepre = true instead of the (long) pre event."""
    last = None
    for r in ids:
        lines = runs[r]
        k = next((i for i, l in enumerate(lines) if '"e":"pre"' in l), None)
        if k is None:
            fh.writelines(lines)
            last = None
            continue
        pe = json.loads(lines[k])
        h = pe["h"]
        out = list(lines)
        if h == last:
            rs = json.loads(out[0])
            rs["samepre"] = True
            out[0] = json.dumps(rs) + "\n"
            del out[k]
        else:
            full = dict(PRE[h])
            full["run"] = r
            out[k] = json.dumps(full) + "\n"
        last = h
        fh.writelines(out)


def split_runs(outdir):
    """events grouped by run, in recorded order"""
    runs = {}
    order = []
    for f in sorted(glob.glob(os.path.join(outdir, "shard-*", "dest.ndjson"))) + sorted(glob.glob(os.path.join(outdir, "dest.ndjson"))):
        for line in open(f):
            if not line.strip():
                continue
            if '"e":"pre"' in line:
                pe = json.loads(line)
                if not pe["ref"]:
                    PRE.setdefault(pe["h"], pe)
            m = re.search(r'"run":(\d+)', line)
            rid = int(m.group(1))
            if rid not in runs:
                runs[rid] = []
                order.append(rid)
            runs[rid].append(line)
    results = {}
    for rj in glob.glob(os.path.join(outdir, "shard-*", "results.json")) + glob.glob(os.path.join(outdir, "results.json")):
        for r in json.load(open(rj)) or []:
            results[r["run"]] = r
    return runs, order, results


def judge(outdir, v, cov, nfiles=16):
    runs, order, results = split_runs(outdir)
    if not runs:
        raise vlib.Infra("no traces under " + outdir)
    clean = [r for r in order if not (results.get(r, {}).get("outside"))]
    susp = {}
    for r in order:
        if results.get(r, {}).get("outside"):
            susp.setdefault(key_of(results[r]["job"]), []).append(r)
    files, tags = [], []
    k = max(1, min(nfiles, len(clean) // 50 + 1))
    for i in range(k):
        p = os.path.join(outdir, "clean-%02d.ndjson" % i)
        with open(p, "w") as fh:
            write_runs(fh, runs, clean[i::k])
        if os.path.getsize(p) > 0:
            files.append(p)
            tags.append(None)
    for key in sorted(susp):
        p = os.path.join(outdir, "susp-%s.ndjson" % key.replace(":", "_"))
        # the e2e runs first (the replay of choice), the shortest name first
        rs = sorted(susp[key], key=lambda r: ({"e2e": 0, "crafted": 1, "direct": 2}[results[r]["job"]["mode"]],
                                              len(results[r]["job"]["rel"]), results[r]["job"]["stopdel"], r))
        with open(p, "w") as fh:
            write_runs(fh, runs, rs)
        files.append(p)
        tags.append((key, rs))
    res = vlib.validate_traces("DestTrace", "DestTrace_c09.cfg", files, timeout=5400)
    st = 0
    nviol = 0
    for f, tag, r in zip(files, tags, res):
        st += r["distinct"]
        if r["accepted"]:
            continue
        ev = vlib.read_ndjson(f)
        if r["violated"] not in (None, "postcondition"):
            ls = re.findall(r"/\\ l = (\d+)", r["out"])
            i = (int(ls[-1]) - 2) if ls else 0
            what = "invariant %s is false" % r["violated"]
        else:
            i = (r["hw"] or 1) - 1
            what = "not a behaviour of DestTrace: " + vlib.explain_rejection(f, r["hw"])
        i = max(0, min(i, len(ev) - 1))
        run = vlib.run_of(ev, i)
        rid = run[0].get("run")
        det = results.get(rid, {})
        job = det.get("job") or {}
        key = key_of(job) if r["violated"] == "Confined" and job else "trace:%s:%s" % (r["violated"] or "rejected", job.get("site"))
        nviol += 1
        v.violation(key, "run %s (%s, name %s, overwrite=%s directory=%s protocol=%s role=%s stopdel=%s): %s; outside the destination: %s" % (
            rid, job.get("mode"), job.get("rel"), job.get("overwrite"), job.get("directory"), job.get("proto"), job.get("role"),
            job.get("stopdel"), what, det.get("outside")),
            {"job": job, "outside": det.get("outside"), "deltas": det.get("deltas"), "reply": det.get("reply"), "errs": det.get("errs"),
             "events": [e for e in run if e.get("e") != "pre"][:30]})
    cov["tv_states"] = st
    cov["trace_files"] = len(files)
    cov["runs_with_outside_touch"] = sum(len(x) for x in susp.values())
    cov["outside_touch_by_key"] = {k: len(x) for k, x in sorted(susp.items())}
    return runs, order, results, files


def run(tier, v):
    quick = tier == "quick"
    cov = {"samples": []}
    rng = random.Random(vlib.seed())
    # 1. the required design
    cfg = "Dest_c09_quick.cfg" if quick else "Dest_c09_thorough.cfg"
    r = vlib.tlc("Dest", cfg, timeout=5400, heap="6g", coverage=quick)
    if not r["ok"]:
        raise vlib.Infra("Dest (required design) violates %s:\n%s" % (r["violated"], r["out"][-3000:]))
    cov["states"], cov["transitions"], cov["depth"] = r["distinct"], r["states"], r.get("depth")
    cov["exhaustive"] = True
    cov["model_config"] = cfg
    cov["model_wall_s"] = r["wall_s"]
    if quick:
        ac = vlib.action_counts(r["out"])
        cov["action_counts"] = ac
        need = ["RecvPlainName", "RecvJsonName", "ArchiveEntry", "GetNewName", "Mkdir", "OpenCreate", "Write", "Finish", "DeleteCreated"]
        dead = [a for a in need if a not in ac or ac[a][1] == 0]
        if dead:
            raise vlib.Infra("actions never taken in %s: %s" % (cfg, dead))
    # 2. the as-coded variant: escaping names as test cases
    g = vlib.tlc("DestGen", "DestGen_c09.cfg" if quick else "DestGen_c09_thorough.cfg", timeout=5400, heap="6g")
    escapes = vlib.mbt_lines(g["out"])
    nl = vlib.mbt_lines(g["out"], tag="NAMES")
    if not nl or not escapes:
        raise vlib.Infra("DestGen exported no names / no escaping cases")
    names = sorted({tuple("/".join(e) for e in n) for n in nl[0]})
    names = [list(n) for n in names]
    # names that climb out and come down again into a *sibling whose name begins like the destination's* ("dst"): a
    # containment test by string prefix would let them pass
    names += [["..", "dst.bak", "notes.txt"], ["d", "..", "..", "dst-evil", "sub"], ["..", "dstx"], ["d", "..", "..", "dst.bak"],
              ["..", "dst-evil"]]
    cov["ascoded_model_states"] = g["distinct"]
    cov["ascoded_escaping_cases_exported"] = len(escapes)
    cov["names_in_universe"] = len(names)
    jobs, sample, nexp = build_jobs(names, escapes, quick, rng)
    cov["jobs"] = {m: sum(1 for j in jobs if j["mode"] == m) for m in ("direct", "e2e", "crafted")}
    cov["mbt_escape_cases_played"] = nexp
    cov["names_sampled_for_e2e"] = len(sample)
    # 3. the real code
    h = vlib.build_harness(["e2e", "c07", "c09"])
    out = os.path.join(vlib.scratch(), "c09")
    os.makedirs(out, exist_ok=True)
    jp = os.path.join(out, "jobs.ndjson")
    with open(jp, "w") as fh:
        for j in jobs:
            fh.write(json.dumps(j) + "\n")
    s = vlib.run_driver(h, "c09_escape", out, {"jobs": jp, "shards": 64 if quick else 96}, timeout=5400)
    runs, order, results, files = judge(out, v, cov)
    cov["traces_validated_against_impl"] = s.get("runs", 0)
    cov["runs_by_mode"] = {m: s.get("runs_" + m, 0) for m in ("direct", "e2e", "crafted")}
    cov["mutation_not_applied"] = s.get("unapplied", 0)
    cov["runs_hung"] = s.get("hung", 0)
    cov["skipped_above_root"] = s.get("skipped_above_root", 0)
    cov["stop_and_delete_performed"] = s.get("stops_done", 0)
    if s.get("runs", 0) < 0.9 * len(jobs):
        raise vlib.Infra("only %d of %d jobs were played (mutation not applied: %d)" % (s.get("runs", 0), len(jobs), s.get("unapplied", 0)))
    # how the receivers answered the hostile names
    answers = {}
    for rr in results.values():
        if not rr.get("applied"):
            continue
        j = rr["job"]
        k = "%s %s: %s" % (j["mode"], j["kind"], "outside" if rr.get("outside") else ("accepted" if rr["res"] == "ok" else "refused/failed"))
        answers[k] = answers.get(k, 0) + 1
    cov["answers"] = dict(sorted(answers.items()))
    mbt = [rr for rr in results.values() if rr["job"].get("mbt") and rr.get("applied")]
    cov["ascoded_escapes_reproduced"] = "%d of %d" % (sum(1 for rr in mbt if rr.get("outside")), len(mbt))
    some = next((rr for rr in results.values() if rr["job"]["mode"] == "e2e" and rr.get("applied") and rr["job"]["kind"] == "dotdot"), None)
    if some:
        cov["samples"].append({"job": some["job"], "res": some["res"], "reply": some["reply"], "outside": some["outside"], "deltas": some["deltas"], "errs": some["errs"]})
    cov["samples"].append({"ascoded_escape_case": escapes[0]})
    # binding demonstration: an escape injected into a clean recorded run must be rejected
    clean = next((f for f in files if os.path.basename(f).startswith("clean-")), None)
    if clean is None:
        raise vlib.Infra("no clean trace file")

    def inject(ev):
        ev = [dict(e) for e in ev]
        k = next(i for i, e in enumerate(ev) if e["e"] == "name")
        ev.insert(k + 1, {"e": "made", "run": ev[k]["run"], "up": 1, "p": ["y"], "t": "file", "c": "0" * 64, "what": ""})
        return ev

    def canary(ev):
        ev = [dict(e) for e in ev]
        k = next(i for i, e in enumerate(ev) if e["e"] == "name")
        ev.insert(k + 1, {"e": "changed", "run": ev[k]["run"], "up": 2, "p": ["canary"], "t": "file", "c": "1" * 64, "what": "mtime"})
        return ev
    small = os.path.join(out, "selftest-src.ndjson")
    ev = vlib.read_ndjson(clean)
    cut = [i for i, e in enumerate(ev) if e["e"] == "reset"][:8]
    with open(small, "w") as fh:
        for e in ev[:(cut[-1] if len(cut) == 8 else len(ev))]:
            fh.write(json.dumps(e) + "\n")
    cov["selftest_inject_rejected"] = vlib.selftest_reject("DestTrace", "DestTrace_c09.cfg", small, inject)
    cov["selftest_canary_rejected"] = vlib.selftest_reject("DestTrace", "DestTrace_c09.cfg", small, canary)
    if not (cov["selftest_inject_rejected"] and cov["selftest_canary_rejected"]):
        raise vlib.Infra("binding self-test failed: corrupted trace accepted")
    return cov


def replay(path, v):
    rec = json.load(open(path))
    job = rec["replay"].get("job")
    if not job:
        raise vlib.Infra("replay file has no job")
    h = vlib.build_harness(["e2e", "c07", "c09"])
    out = os.path.join(vlib.scratch(), "c09replay")
    os.makedirs(out, exist_ok=True)
    jp = os.path.join(out, "jobs.ndjson")
    with open(jp, "w") as fh:
        fh.write(json.dumps(job) + "\n")
    vlib.run_driver(h, "c09_escape", out, {"jobs": jp, "inproc": True}, timeout=3000)
    cov = {}
    runs, order, results, files = judge(out, v, cov, 1)
    for r in order:
        rr = results.get(r, {})
        print("run %s: res=%s reply=%r outside=%s deltas=%s errs=%s skipped=%s" % (r, rr.get("res"), rr.get("reply"), rr.get("outside"),
              rr.get("deltas"), rr.get("errs"), rr.get("skipped")), flush=True)
    return {}
