"""C20 - the progress line always fits the terminal and never misreports.  Spec: Progress.tla
(+ ProgressNum.tla: 75-bit integers, TLC's are 32 bit and the property quantifies over 2^62).

 1. TLC exhaustive on Progress (design): the nine-rung ladder of getProgressText guard by guard
    over abstract widths for every terminal width x name (families ascii / double width / ZWJ
    clusters / combining / control / leading blank, every display width) x file count x field
    lengths (Progress_<tier>.cfg), and call sequences onSize / setPreSize / onStep / onDone /
    setPause / setTerminalColumns with steps {-1,0,1,size-1,size,size+1,2^62}, sizes 0..2^62 and
    negative, throttling and tmux pane mode (ProgressSeq_<tier>.cfg).  Invariants Fits, PctRange,
    PctMonotone, BarCellsInRange, NameOnlyShortened, NameImpliesBar.
 2. impl -> spec: harness/c20_progress.go calls the real textProgressBar (mocked timeNowFunc,
    own io.Writer, every call under recover; calls that would make getProgressBar allocate
    gigabytes run in a child process under RLIMIT_AS + timeout) for widths 1..500 x names of
    every display width of nine families x counts x sizes x step sequences x speeds 0..+Inf, and
    logs inputs and what was written.  ProgressTrace.tla drives the model with the inputs and
    TLC judges every written line: equal to the model's line (same fields, same shortening,
    same cells, same display width, same percentage, same redraw prefix) and the C20 conditions
    on the observation itself.  Non-conforming calls are reported one by one (BAD lines), the
    validation carries on, so a known deviation does not hide another one.
 3. spec -> impl: ProgressGen.tla exports one case per (rung, fields, name shown, bar, clamp
    class, redraw prefix, both edges of the rung) over witnesses of the lengths the real
    formatters produce (c20_catalogue); c20_mbt makes the calls on the real code and the line
    must be the predicted one.
 4. binding self-test: a corrupted observation (width + 1) and a dropped onSize event must be
    reported by TLC.

Verdict keys: <kind>:<class> with kind in render-panic | render-crash | render-hang | fits |
pct-range | pct-monotone | bar-cells | name | conformance, class in step>size | size<0 | step<0 |
ok (for ok the rung and the differing fields are appended, e.g. fits:ok:rung9:bar+w).  Outside the
class ok (fileStep > fileSize > 0, negative size: the range the clamp of commit 46f99a5 covers) only
the C20 conditions are judged on what the code wrote, not equality with the model's clamped line.
On the tree before 46f99a5 the check reports render-panic:step>size, pct-range:step>size,
render-hang:step>size (colour bar), render-panic:size<0, pct-range:size<0, fits:size<0."""
import os, json, re, threading, time
from concurrent.futures import ThreadPoolExecutor
import vlib

ASSUMPTIONS = [
    "display width = go-runewidth v0.0.16 StringWidth (grapheme clusters by rivo/uniseg), RUNEWIDTH_EASTASIAN=0; control characters in a name count as zero columns (what a terminal does with TAB/CR/ESC inside a file name is out of scope)",
    "names are valid UTF-8 without Prepend-class characters; at most three leading blanks",
    "onDone is the last progress call of a file (transfer.go send/recvFileMD5); preSize+step and preSize+size stay below 2^63",
    "the lengths of the total/speed/ETA texts are taken from the code's own formatters (copy of recentSpeed + convertSizeToString/convertTimeToString) when the field was dropped from the line, from the line itself otherwise; a disagreement between the two is an infrastructure error",
    "for |size| > 2^40 a percentage / cell count within 2^-30 of a rounding tie may differ by one (float64 vs exact arithmetic); such calls are flagged by the driver (count in evidence: fuzzy)",
    "tmuxPrefix (tmux control mode octal encoding of the line) is not exercised",
    "TLC fingerprint collisions negligible (reported probability < 1e-6)",
]

ENV = {"RUNEWIDTH_EASTASIAN": "0", "CLICOLOR_FORCE": "1", "COLORTERM": "truecolor"}
PRIORITY = ["render-panic", "render-crash", "render-hang", "fits", "pct-range", "pct-monotone", "bar-cells", "name"]


def _bad_lines(out):
    res = []
    for d in vlib.mbt_lines(out, tag="BAD"):
        res.append(d)
    return res


def _sigs(out):
    s = set()
    for d in vlib.mbt_lines(out, tag="SIGS"):
        for x in d:
            s.add(tuple(x))
    return s


def _key(broken, diff, cls, rung):
    kind = next((k for k in PRIORITY if k in broken), None)
    if kind is None:
        kind = "conformance"
    if cls in ("ok", ""):
        return "%s:ok:rung%s:%s" % (kind, rung, "+".join(sorted(diff)) or "-")
    return "%s:%s" % (kind, cls)


def _describe(run, ev):
    """The failing input in words, from the recorded run."""
    st = {"cols": None, "pane": 0, "colour": False, "count": 0, "name": "", "size": "0", "pre": "0"}
    for e in run:
        if e["e"] == "new":
            st.update(cols=e["cols"], pane=e["pane"], colour=e.get("colour", False))
        elif e["e"] == "cols":
            st["cols"] = e["c"]
        elif e["e"] == "num":
            st["count"] = e["n"]
        elif e["e"] == "name":
            st["name"] = e.get("name", "")
            st["pre"] = "0"
        elif e["e"] == "size":
            st["size"] = e["vs"]
        elif e["e"] == "presize":
            st["pre"] = e["vs"]
    o = ev.get("out", {})
    call = "onDone()" if ev["e"] == "done" else "onStep(%s)" % ev.get("vs")
    return ("%s with columns=%s tmuxPane=%s colours=%s fileCount=%s name=%r (len %d) onSize(%s) preSize=%s -> %s%s" % (
        call, st["cols"], st["pane"], st["colour"], st["count"], st["name"][:40], len(st["name"]), st["size"], st["pre"],
        o.get("res"), (": " + o["msg"]) if o.get("msg") else
        (" width=%s pct=%s cells=%s/%s fields=%s" % (o.get("w"), o.get("pct"), o.get("full"), o.get("total"), o.get("nf")))))


def _judge_files(files, res, v, cov, label):
    """Turn TLC's BAD lines into violations; returns number of BAD lines."""
    nbad = 0
    for f, r in zip(files, res):
        if r["violated"] not in (None, "postcondition"):
            # an invariant of Progress is false on the model state reached with real inputs
            raise vlib.Infra("Progress invariant %s false while validating %s (model defect, not a verdict):\n%s"
                             % (r["violated"], os.path.basename(f), r["out"][-3000:]))
        bads = _bad_lines(r["out"])
        if r["accepted"]:
            continue
        ev = vlib.read_ndjson(f)
        if (r["hw"] or 0) != len(ev) + 1:
            raise vlib.Infra("trace %s not consumed to the end (%s of %d): %s" % (
                os.path.basename(f), r["hw"], len(ev), vlib.explain_rejection(f, r["hw"])))
        for b in bads:
            nbad += 1
            i = b["line"] - 1
            # the run up to and including the offending call
            lo = i
            while lo > 0 and ev[lo].get("e") != "new":
                lo -= 1
            run = ev[lo:i + 1]
            key = _key(b["broken"], b["diff"], b["cls"], b["pred"]["rung"])
            cov.setdefault("bad_by_key", {}).setdefault(key, 0)
            cov["bad_by_key"][key] += 1
            cov.setdefault("tv_bad_by_key", {}).setdefault(key, 0)
            cov["tv_bad_by_key"][key] += 1
            v.violation(key, "%s: %s; C20 conditions broken: %s; differs from the model in: %s (model: %s)" % (
                label, _describe(run, ev[i]), b["broken"] or "-", b["diff"] or "-",
                {k: b["pred"][k] for k in ("rung", "nf", "match", "bar", "total", "full", "w", "pct", "pfx")}),
                {"run": run, "bad": b})
    return nbad


def _mbt_judge(exp, obs, fz=False):
    """Same judgement as ProgressTrace.Judge, for a replayed ProgressGen case."""
    broken, diff = [], []
    if obs["res"] in ("panic", "crash", "hang"):
        broken.append("render-" + obs["res"])
    elif obs["res"] == "rendered":
        if exp["cols"] >= 5 and obs["w"] > exp["cols"]:
            broken.append("fits")
        if not (0 <= obs["pct"] <= 100):
            broken.append("pct-range")
        if obs["bar"] and exp["bar"] and exp["nf"] == obs["nf"] and exp["match"] == obs["match"] and exp["pl"] == obs["pl"] and obs["total"] != exp["total"]:
            broken.append("bar-cells")
        if obs["match"] == "none":
            broken.append("name")
    if exp["cls"] == "ok":
        if obs["res"] != "rendered":
            diff.append("res")
        else:
            for f in ("nf", "match", "bar", "total", "full", "w", "pct", "pl", "pfx", "pn"):
                if exp[f] != obs[f] and not (fz and f in ("pct", "full") and abs(exp[f] - obs[f]) <= 1):
                    diff.append(f)
            if exp["match"] == "ell" and obs["match"] == "ell" and exp["k"] != obs["k"]:
                diff.append("k")
    return broken, diff


def _run_tv_driver(h, out, params, parts):
    def one(i):
        p = dict(params)
        p.update(part=i, parts=parts, shards=max(1, 16 // parts))
        return vlib.run_driver(h, "c20_tv", os.path.join(out, "p%d" % i), p, timeout=1500, extra_env=ENV)
    with ThreadPoolExecutor(max_workers=parts) as ex:
        return list(ex.map(one, range(parts)))


def run(tier, v):
    cov = {"samples": []}
    quick = tier == "quick"
    t0 = time.time()
    # harness build in the background while TLC checks the design
    hbox = {}

    def build():
        try:
            hbox["h"] = vlib.build_harness(["c20"])
        except Exception as e:  # re-raised in the main thread
            hbox["err"] = e
    bt = threading.Thread(target=build)
    bt.start()

    # 1. design
    cfgs = ["Progress_quick.cfg", "ProgressSeq_quick.cfg"] if quick else ["Progress_thorough.cfg", "ProgressSeq_thorough.cfg"]
    cov["states"], cov["transitions"], cov["exhaustive_runs"] = 0, 0, {}
    for cfg in cfgs:
        r = vlib.tlc("Progress", cfg, timeout=3000, heap="4g")
        if not r["ok"]:
            raise vlib.Infra("Progress model violates %s on the design level (%s):\n%s" % (r["violated"], cfg, r["out"][-3000:]))
        cov["states"] += r["distinct"]
        cov["transitions"] += r["states"]
        cov["exhaustive_runs"][cfg] = {"distinct": r["distinct"], "generated": r["states"], "wall_s": r["wall_s"],
                                       "constants": open(os.path.join(vlib.VERIF, "spec", cfg)).read()}
    cov["exhaustive"] = True
    bt.join()
    if "err" in hbox:
        raise hbox["err"]
    h = hbox["h"]

    # 2. impl -> spec
    out = os.path.join(vlib.scratch(), "c20tv")
    params = ({"colstride": 7, "namestride": 10, "random": 300, "seqsample": True, "probes": 6, "probecpu": 2}
              if quick else
              {"colstride": 1, "namestride": 3, "random": 3000, "seqsample": False, "probes": 24, "probecpu": 4})
    parts = 4 if quick else 8
    sums = _run_tv_driver(h, out, params, parts)
    files = []
    for i, s in enumerate(sums):
        files += [os.path.join(out, "p%d" % i, "trace-%02d.ndjson" % k) for k in range(s["shards"])]
    files = [f for f in files if os.path.getsize(f) > 0]
    if sum(s["desync"] for s in sums):
        raise vlib.Infra("harness shadow formatter out of sync with showProgress (%d fields): update c20Run.render" % sum(s["desync"] for s in sums))
    res = vlib.validate_traces("ProgressTrace", "ProgressTrace.cfg", files, timeout=3000, dfs=True)
    nbad = _judge_files(files, res, v, cov, "recorded call")
    cov["traces_validated_against_impl"] = sum(s["runs"] for s in sums)
    cov["trace_events"] = sum(s["events"] for s in sums)
    cov["rendered_lines_judged"] = sum(s["renders"] for s in sums)
    cov["panics_observed"] = sum(s["panics"] for s in sums)
    cov["fuzzy"] = sum(s["fuzzy"] for s in sums)
    cov["names_not_describable"] = sum(s["badnames"] for s in sums)
    cov["child_probes"] = {}
    cov["classes"] = {}
    for s in sums:
        for k, n in (s.get("probes") or {}).items():
            cov["child_probes"][k] = cov["child_probes"].get(k, 0) + n
        for k, n in (s.get("classes") or {}).items():
            cov["classes"][k] = cov["classes"].get(k, 0) + n
    cov["wild_calls_not_probed"] = sum(s["wild_skipped"] for s in sums)
    cov["tv_bad_lines"] = nbad
    cov["tv_states"] = sum(r["distinct"] for r in res)
    sigs = set()
    for r in res:
        sigs |= _sigs(r["out"])
    cov["tv_rungs_conforming"] = sorted({s[0] for s in sigs if s[0] > 0})
    cov["tv_outcomes_conforming"] = sorted({s[2] for s in sigs if s[0] == 0} | {"rendered"})
    cov["tv_signatures_conforming"] = len(sigs)
    cov["driver_params"] = params
    ev0 = vlib.read_ndjson(files[0])
    cov["samples"].append({"recorded_run": [{k: e[k] for k in e if k != "rs"} for e in vlib.run_of(ev0, 0, reset="new")[:8]]})
    if cov["tv_rungs_conforming"] != list(range(1, 10)):
        raise vlib.Infra("real executions did not reach every rung of the ladder: %s" % cov["tv_rungs_conforming"])

    # binding demonstration on a small recorded file: corrupt one observed width / drop one event
    small = min(files, key=os.path.getsize)

    def corrupt(ev):
        ev = [json.loads(json.dumps(e)) for e in ev]
        for e in ev:
            if e.get("e") == "step" and e["out"]["res"] == "rendered" and e["out"]["bar"]:
                e["out"]["w"] += 1
                break
        return ev

    def drop(ev):
        for k, e in enumerate(ev):
            if e.get("e") == "size" and e["vs"] not in ("0",):
                nxt = [x for x in ev[k + 1:k + 4] if x.get("e") == "step" and x["out"]["res"] == "rendered"]
                if nxt:
                    return ev[:k] + ev[k + 1:]
        return ev[1:]
    base_bad = len(_bad_lines(next(r for f, r in zip(files, res) if f == small)["out"]))

    def more_bad(mut):
        evs = mut(vlib.read_ndjson(small))
        p = os.path.join(vlib.scratch(), "selftest-%d.ndjson" % (int(time.time() * 1e6) % 10 ** 9))
        with open(p, "w") as fh:
            for e in evs:
                fh.write(json.dumps(e) + "\n")
        r = vlib.validate_trace("ProgressTrace", "ProgressTrace.cfg", p, timeout=600)
        return (not r["accepted"]) and len(_bad_lines(r["out"])) > base_bad
    cov["selftest_corrupt_rejected"] = more_bad(corrupt)
    cov["selftest_drop_rejected"] = more_bad(drop)
    if not (cov["selftest_corrupt_rejected"] and cov["selftest_drop_rejected"]):
        raise vlib.Infra("binding self-test failed: corrupted trace accepted")

    # 3. spec -> impl
    mdir = os.path.join(vlib.scratch(), "c20mbt")
    cs = vlib.run_driver(h, "c20_catalogue", mdir, {"maxwit": 24 if quick else 36}, extra_env=ENV)
    cat = os.path.join(mdir, "catalogue.ndjson")
    g = vlib.tlc("ProgressGen", "ProgressGen_quick.cfg" if quick else "ProgressGen_thorough.cfg", timeout=3000, heap="4g",
                 extra_env={"VERIF_CATALOGUE": cat, "VERIF_SEED": str(vlib.seed())})
    if not g["ok"]:
        raise vlib.Infra("ProgressGen violates %s on the design level:\n%s" % (g["violated"], g["out"][-3000:]))
    cases, seen = [], set()
    for c in vlib.mbt_lines(g["out"]):
        k = json.dumps(c["sig"])
        if k not in seen:       # every TLC worker prints its own first case of a signature
            seen.add(k)
            cases.append(c)
    if len(cases) < 100:
        raise vlib.Infra("MBT export produced only %d cases" % len(cases))
    with open(os.path.join(mdir, "cases.ndjson"), "w") as fh:
        for c in cases:
            fh.write(json.dumps(c) + "\n")
    m = vlib.run_driver(h, "c20_mbt", mdir, {}, extra_env=ENV)
    results = json.load(open(os.path.join(mdir, "results.json"))) or []
    wit = {w["id"]: w for w in vlib.read_ndjson(cat)}
    mism = 0
    for rr in results:
        c = cases[rr["case"]]
        if rr.get("unrealised"):
            continue
        if rr.get("desync") and c["exp"]["cls"] == "ok":
            raise vlib.Infra("MBT witness %s did not reproduce its field lengths: %s" % (c["w"], rr))
        broken, diff = _mbt_judge(c["exp"], rr["obs"], rr.get("fz", False))
        if broken or diff:
            mism += 1
            w = wit[c["w"]]
            key = _key(broken, diff, c["exp"]["cls"], c["exp"]["rung"])
            cov.setdefault("bad_by_key", {}).setdefault(key, 0)
            cov["bad_by_key"][key] += 1
            cov.setdefault("mbt_bad_by_key", {}).setdefault(key, 0)
            cov["mbt_bad_by_key"][key] += 1
            v.violation(key, "model case not reproduced: columns=%s pane=%s count=%s name=%r onSize(%s) onStep(%s) after %s ms -> %s; broken: %s; differs in: %s (model: %s)" % (
                c["cols"], c["pane"], c["count"], rr.get("name", "")[:40], vlib_num(w["size"]), vlib_num(w["step"]), w["el"],
                {k: rr["obs"][k] for k in ("res", "msg", "nf", "match", "bar", "total", "full", "w", "pct", "pfx")},
                broken or "-", diff or "-", {k: c["exp"][k] for k in ("rung", "nf", "match", "bar", "total", "full", "w", "pct", "pfx")}),
                {"case": c, "witness": w})
    cov["mbt_cases_replayed"] = m["replayed"]
    cov["mbt_cases_unrealised"] = m["unrealised"]
    cov["mbt_mismatches"] = mism
    cov["mbt_gen_states"] = g["distinct"]
    cov["mbt_witnesses"] = cs["witnesses"]
    cov["mbt_rungs"] = sorted({c["exp"]["rung"] for c in cases})
    cov["mbt_classes"] = sorted({c["exp"]["cls"] for c in cases})
    cov["samples"].append({"mbt_case": {k: cases[len(cases) // 2][k] for k in ("w", "cols", "pane", "count", "name", "pre0", "exp")}})
    if m["unrealised"] > len(cases) // 10:
        raise vlib.Infra("too many MBT cases could not be realised as real names: %d" % m["unrealised"])
    cov["wall_breakdown_s"] = round(time.time() - t0, 1)
    return cov


def vlib_num(n):
    x = 0
    for limb in reversed(n["m"]):
        x = x * 32768 + limb
    return -x if n["s"] < 0 else x


def replay(path, v):
    """Re-run a saved counterexample against the current tree."""
    rec = json.load(open(path))
    rp = rec["replay"]
    h = vlib.build_harness(["c20"])
    d = os.path.join(vlib.scratch(), "c20replay")
    os.makedirs(d, exist_ok=True)
    cov = {}
    if "run" in rp:
        with open(os.path.join(d, "scripts.ndjson"), "w") as fh:
            fh.write(json.dumps({"run": rp["run"]}) + "\n")
        try:
            # address space capped: the call may be one that makes getProgressBar allocate without bound
            vlib.run_driver(h, "c20_script", d, {"limitgb": 6, "noprobe": True}, timeout=60, extra_env=ENV)
        except vlib.Infra as e:
            print("the recorded calls kill or hang the process again: %s" % str(e)[-400:], flush=True)
            v.violation(rec["key"], "replayed calls crash/hang the process", rp)
            return cov
        f = os.path.join(d, "trace-00.ndjson")
        r = vlib.validate_trace("ProgressTrace", "ProgressTrace.cfg", f, timeout=600)
        for e in vlib.read_ndjson(f)[-1:]:
            print("last call now:", json.dumps({k: e[k] for k in e if k != "rs"})[:600], flush=True)
        _judge_files([f], [r], v, cov, "replayed call")
    else:
        with open(os.path.join(d, "cases.ndjson"), "w") as fh:
            fh.write(json.dumps(rp["case"]) + "\n")
        with open(os.path.join(d, "catalogue.ndjson"), "w") as fh:
            fh.write(json.dumps(rp["witness"]) + "\n")
        vlib.run_driver(h, "c20_mbt", d, {}, extra_env=ENV)
        for rr in json.load(open(os.path.join(d, "results.json"))) or []:
            if rr.get("unrealised"):
                continue
            print("observed now:", json.dumps(rr["obs"]), flush=True)
            broken, diff = _mbt_judge(rp["case"]["exp"], rr["obs"], rr.get("fz", False))
            if broken or diff:
                v.violation(_key(broken, diff, rp["case"]["exp"]["cls"], rp["case"]["exp"]["rung"]),
                            "model case not reproduced: broken %s, differs in %s" % (broken, diff), rp)
    return cov
