"""C05 - the wrapper is transparent whenever no transfer is in progress.  Spec: Filter.tla.
 1. TLC exhaustive on Filter (design): OutPump / InPump / Handler / ZSession / Drag / Main as
    processes, all interleavings, option sets, 0..2 transfers ending every way; invariants
    PassThroughOut, PassThroughIn, PtrClearedOnEveryExit, NoStuckFlags, PromptOnlyInTransfer,
    ExitPassed; liveness []<>ModePass under weak fairness of every goroutine / timer.
 2. impl -> spec (FilterTrace): a real NewTrzszFilter on harness pipes is fed seeded chunks of
    every kind in both directions under every option set, before / between / after real
    transfers (real trz/tsz role bodies in-process, ended by success, server failure, stop /
    Ctrl-C prompt, refusal through a fake zenity), zmodem sessions and drag uploads; what
    arrives at the client writer and the server writer is recorded per pump turn and validated.
    The wrapper binary (cmd/trzsz) is run around scripted commands for the exit status and
    the last words; those runs are validated by the same trace spec (event `exit`).
 3. spec -> impl (FilterGen): TLC enumerates option set x history x probe; a seeded sample is
    replayed on real filters and every probe's image compared with the model's.
Violation keys are `<scenario>:<event>:<chunk kind>:<relation>`; the replay payload holds the
recorded run (events) and, where available, the bytes fed and received."""
import json, os, pty, random, re, select, subprocess, time
from concurrent.futures import ThreadPoolExecutor
import vlib

ASSUMPTIONS = [
    "a chunk's image is what the pump goroutine of that direction wrote between two of its Read calls; writes of other goroutines are attributed to sessions",
    "'after a transfer' = server role body returned and its last words delivered, IsTransferringFiles()==false and no handleTrzsz goroutine left (runtime.Stack)",
    "documented, intended modifications are not violations: genuine trigger shown rewritten (C06), trace-log switch replaced by a message when the option is on, genuine zmodem header starts a session and hides the cursor, show-cursor before the first chunk after a cleaned-up zmodem session (C19), drag upload of input that is entirely a list of existing paths (Ctrl-C + command injected, output suppressed while interrupting, echo of the command replaced by CRLF)",
    "model: the tty echoes the drag upload command before the 3 s drag window closes (EchoAssumed); the silent-server case is run on the real code as scenario drag-silent-server",
    "model: a stopped zmodem session is cleaned up (the server answers the cancel sequence); launch of rz/sz always fails here (no helper on the private PATH)",
    "a child killed by a signal has no exit status: any non-zero wrapper status counts as passed on",
    "a history planned to succeed (cooperative real server, nothing injected) that does not deliver its files intact counts as a violation (the pumps own every byte of the session); one that times out is an infrastructure failure",
    "steering by internals only: waits on filter.zmodem / stopped / cleaned / dragging / promptPipe and on goroutine stacks; the zmodem session's goroutine is awaited before Ctrl-C is typed (typing it earlier crashes the process: nil writer in handleZmodemError, reported, C19's topic)",
    "near-miss triggers / zmodem-like fragments are free of genuine ones according to the harness's own reference grammar (c05GenuineTrigger / c05GenuineZmodem)",
    "TLC fingerprint collisions negligible",
]

TV = ("FilterTrace", "FilterTrace.cfg")


# ---------------------------------------------------------------- trace validation with cut-and-continue

def _write_events(ev, name):
    p = os.path.join(vlib.scratch(), name)
    with open(p, "w") as fh:
        for e in ev:
            fh.write(json.dumps(e) + "\n")
    return p


def validate_all(files, tag):
    """Validate every file; on a rejection record the failing run, cut the file after it and go on
    with the rest, so that every rejected run of a file is found.  Returns (findings, stats)."""
    findings, stats = [], {"files": len(files), "tlc_runs": 0, "states": 0, "events": 0}
    pending = [(f, 0) for f in files]
    rnd = 0
    while pending:
        rnd += 1
        res = vlib.validate_traces(TV[0], TV[1], [f for f, _ in pending], timeout=900)
        nxt = []
        for (f, gen), r in zip(pending, res):
            stats["tlc_runs"] += 1
            stats["states"] += r["distinct"]
            if r["accepted"]:
                stats["events"] += r["n"]
                continue
            ev = vlib.read_ndjson(f)
            inv = r["violated"] if r["violated"] not in (None, "postcondition") else None
            if inv:
                # the counterexample ends in the state reached by the offending event: its l = that event's line + 1
                ls = re.findall(r"^/\\ l = (\d+)$", r["out"], re.M)
                if not ls:
                    raise vlib.Infra("no counterexample for invariant %s in %s:\n%s" % (inv, f, r["out"][-2000:]))
                i = int(ls[-1]) - 2
            elif r["hw"] is None:
                raise vlib.Infra("trace validation of %s gave no high-water mark:\n%s" % (f, r["out"][-2000:]))
            else:
                i = r["hw"] - 1                      # 0-based index of the first event that could not be matched
            i = max(0, min(i, len(ev) - 1))
            run = vlib.run_of(ev, i)
            lo = i
            while lo > 0 and ev[lo].get("e") != "reset":
                lo -= 1
            findings.append({"file": f, "index": i, "event": ev[i], "invariant": inv, "run": run,
                             "at": i - lo, "scenario": ev[lo].get("sc", "?"), "si": ev[lo].get("si"), "opts": {k: ev[lo].get(k) for k in ("drag", "zmodem", "osc52", "tlog")},
                             "explain": vlib.explain_rejection(f, i + 1)})
            stats["events"] += lo
            j = i + 1
            while j < len(ev) and ev[j].get("e") != "reset":
                j += 1
            if j < len(ev) and gen < 12:
                nxt.append((_write_events(ev[j:], "%s-cut%d-%d.ndjson" % (tag, rnd, len(nxt))), gen + 1))
        pending = nxt
    return findings, stats


def _kind_of(run, ev):
    """chunk kind of a done event (looked up in its feed event)"""
    want = {"doneOut": "feedOut", "doneIn": "feedIn"}.get(ev.get("e"))
    if want:
        for e in run:
            if e.get("e") == want and e.get("id") == ev.get("id"):
                return e.get("k", "?")
    return ev.get("k", "")


def _key(f):
    ev = f["event"]
    sc = re.sub(r"\d+$", "", re.sub(r"^mbt-\d+", "mbt", f["scenario"]))
    what = ev.get("e", "?")
    if what in ("doneOut", "doneIn"):
        rel = ("show+" if ev.get("pre") else "") + str(ev.get("body")) + ("+hide" if ev.get("post") else "")
        return "%s:%s:%s:%s" % (sc, what, _kind_of(f["run"], ev), rel)
    if what == "mode":
        return "%s:still-transferring-after-%s" % (sc, ev.get("why"))
    if what == "xfer":
        return "%s:planned-success-failed" % sc
    if what == "other":
        return "%s:stray-write-%s" % (sc, ev.get("side"))
    if what == "exit":
        if f["invariant"] == "LastWordsDelivered":
            return "wrapper-exit-output-lost"
        return "wrapper-exit-status-%s-as-%s" % (ev.get("child"), ev.get("wrapper"))
    return "%s:%s" % (sc, what)


def _text(f):
    ev = f["event"]
    if f["invariant"]:
        head = "invariant %s is false on a recorded execution" % f["invariant"]
    else:
        head = "recorded execution is not a behaviour of Filter that keeps the wrapper transparent"
    return "%s (scenario %s, opts %s, event %s)" % (head, f["scenario"], f["opts"], json.dumps(ev))


# ---------------------------------------------------------------- process level: exit status and last words

def _default_signals():
    # a check started under nohup (or from a shell that ignores them) would hand the ignored dispositions
    # down to the wrapper and to the command it wraps: `kill -HUP $$` would then do nothing
    import signal
    for s in (signal.SIGHUP, signal.SIGINT, signal.SIGQUIT, signal.SIGTERM, signal.SIGPIPE):
        signal.signal(s, signal.SIG_DFL)


def _run_wrapped(binary, script, mode, timeout=30):
    """Run `trzsz sh -c script`.  mode: pipe (stdin = open pipe, stdout = pipe), pty (both on a
    pty slave), slow (stdout = pipe that is read only after the wrapper has exited or 0.3 s)."""
    t0 = time.time()
    out = b""
    if mode == "pty":
        m, s = pty.openpty()
        p = subprocess.Popen([binary, "sh", "-c", script], stdin=s, stdout=s, stderr=s, close_fds=True, preexec_fn=_default_signals)
        os.close(s)
        fd = m
    else:
        p = subprocess.Popen([binary, "sh", "-c", script], stdin=subprocess.PIPE, stdout=subprocess.PIPE, stderr=subprocess.DEVNULL,
                             preexec_fn=_default_signals)
        fd = p.stdout.fileno()
    if mode == "slow":
        while p.poll() is None and time.time() - t0 < 0.3:
            time.sleep(0.01)
    quiet_after_exit = 0
    while True:
        r, _, _ = select.select([fd], [], [], 0.1)
        if r:
            try:
                d = os.read(fd, 65536)
            except OSError:
                d = b""
            if d:
                out += d
                if mode == "slow":
                    time.sleep(0.002)
                continue
            if p.poll() is not None:
                break
        if p.poll() is not None:
            quiet_after_exit += 1
            if quiet_after_exit >= 3:
                break
        if time.time() - t0 > timeout:
            p.kill()
            p.wait()
            raise vlib.Infra("wrapper did not exit within %ds: %s" % (timeout, script))
    rc = p.wait()
    if mode == "pty":
        os.close(m)
    else:
        p.stdin.close()
        p.stdout.close()
    return rc, out


def exit_runs(binary, quick, rng):
    """-> list of events for FilterTrace plus a list of human-readable samples"""
    plan = []
    reps = 4 if quick else 30
    for code in (0, 1, 2, 42, 255):
        for mode in ("pipe", "pty"):
            for i in range(reps):
                plan.append((mode, code, None, 0))
    for sig in ("KILL", "TERM", "HUP"):
        for mode in ("pipe", "pty"):
            plan.append((mode, None, sig, 0))
    # a consumer slower than the producer (e.g. `trzsz cmd | less`): 200 kB, then exit
    for code in (0, 3):
        for i in range(2 if quick else 10):
            plan.append(("slow", code, None, 200000))
    rng.shuffle(plan)

    def one(item):
        mode, code, sig, bulk = item
        tag = "c05-%08x" % rng.getrandbits(32)
        script = ""
        if bulk:
            script += "head -c %d /dev/zero | tr '\\0' 'x'; " % bulk
        script += "printf 'last-words-%s'; " % tag
        script += ("kill -%s $$" % sig) if sig else ("exit %d" % code)
        rc, out = _run_wrapped(binary, script, mode)
        outok = (b"last-words-" + tag.encode()) in out and (not bulk or out.count(b"x") >= bulk)
        ev = {"e": "exit", "child": code if code is not None else -1, "wrapper": rc, "sig": sig is not None, "outok": outok,
              "modeio": mode, "script": script, "got_bytes": len(out), "tail": out[-60:].decode("latin1")}
        return ev

    with ThreadPoolExecutor(max_workers=6) as ex:
        evs = list(ex.map(one, plan))
    events = []
    for e in evs:
        events.append({"e": "reset", "drag": False, "zmodem": False, "osc52": False, "tlog": False,
                       "sc": "exit-%s" % e["modeio"]})
        events.append(e)
    return events, evs


# ---------------------------------------------------------------- MBT

def mbt_sample(cases, n, rng):
    """seeded sample that covers every (option set) and every history shape at least once"""
    def shape(c):
        return tuple((s["a"], s.get("how", ""), s.get("v", "")) for s in c["steps"] if s["a"] not in ("out", "in"))
    by = {}
    for c in cases:
        o = c["opts"]
        by.setdefault((o["drag"], o["zmodem"], o["osc52"], o["tlog"], shape(c)), []).append(c)
    keys = sorted(by, key=lambda k: json.dumps(k))
    rng.shuffle(keys)
    # shapes with fewer sessions first: they are cheap and every option set appears among them
    keys.sort(key=lambda k: len(k[4]))
    picked, seen_shape, seen_opt = [], set(), set()
    for k in keys:
        if len(picked) >= n:
            break
        if k[4] in seen_shape and k[:4] in seen_opt and rng.random() < 0.8:
            continue
        seen_shape.add(k[4])
        seen_opt.add(k[:4])
        picked.append(rng.choice(by[k]))
    # fill up with further seeded picks (other probes after the same option set x history)
    taken = {json.dumps(c, sort_keys=True) for c in picked}
    tries = 0
    while len(picked) < n and tries < 20 * n:
        tries += 1
        c = rng.choice(by[rng.choice(keys)])
        j = json.dumps(c, sort_keys=True)
        if j not in taken:
            taken.add(j)
            picked.append(c)
    picked = [json.loads(json.dumps(c)) for c in picked]
    for c in picked:
        for s in c["steps"]:
            if s["a"] == "xfer":
                s["up"] = rng.random() < 0.5
                s["v"] = rng.randrange(8)
            elif s["a"] == "zsess":
                s["v"] = rng.randrange(6)
    return picked


def hist_sig(case):
    return "+".join((s["a"] + ("-" + s["how"] if s.get("how") else "") + (str(s["v"]) if s["a"] == "drag" else ""))
                    for s in case["steps"] if s["a"] not in ("out", "in")) or "none"


# ---------------------------------------------------------------- run

def run(tier, v):
    quick = tier == "quick"
    cov = {"samples": []}
    rng = random.Random(vlib.seed() * 7919 + 5)
    cfg = "Filter_quick.cfg" if quick else "Filter_thorough.cfg"
    pool = ThreadPoolExecutor(max_workers=3)
    # 1. design (runs while the drivers run: they mostly sleep in the code's own timers)
    vlib._specdir()
    fut_design = pool.submit(lambda: vlib.tlc("Filter", cfg, workers=8 if quick else 12, timeout=3000, heap="2g" if quick else "3g"))
    time.sleep(1.0)   # vlib numbers its TLC runs without a lock
    fut_gen = pool.submit(lambda: vlib.tlc("FilterGen", "FilterGen_quick.cfg" if quick else "FilterGen_thorough.cfg",
                                           workers=4, timeout=1800, heap="2g"))

    h = vlib.build_harness(["c05"])
    bins = vlib.build_cmds(("trzsz",))

    # 2a. impl -> spec: filter level
    out = os.path.join(vlib.scratch(), "c05tv")
    shards = 16
    s = vlib.run_driver(h, "c05_tv", out, {"shards": shards, "rounds": 1 if quick else 20, "special": True}, timeout=2400)
    files = [os.path.join(out, "shard-%02d" % i, "trace.ndjson") for i in range(shards)]
    # 3. (started here, collected below) spec -> impl: seeded sample of TLC's behaviours replayed on real filters
    g = fut_gen.result()
    if not g["ok"]:
        raise vlib.Infra("FilterGen violates %s:\n%s" % (g["violated"], g["out"][-2000:]))
    cases = vlib.mbt_lines(g["out"])
    if len(cases) < 1000:
        raise vlib.Infra("MBT export produced only %d cases" % len(cases))
    picked = mbt_sample(cases, 64 if quick else 800, rng)
    mdir = os.path.join(vlib.scratch(), "c05mbt")
    os.makedirs(mdir, exist_ok=True)
    cpath = os.path.join(mdir, "cases.ndjson")
    with open(cpath, "w") as fh:
        for c in picked:
            fh.write(json.dumps(c) + "\n")
    fut_mbt = pool.submit(lambda: vlib.run_driver(h, "c05_mbt", mdir, {"shards": shards, "cases": cpath}, timeout=3000))

    # 2b. process level
    ex_events, ex_samples = exit_runs(bins["trzsz"], quick, rng)
    # runs that look clean go into one file; of the others (identical in shape) three are validated one by one
    clean, suspect = [], []
    for k in range(0, len(ex_events), 2):
        e = ex_events[k + 1]
        ok = e["outok"] and (e["wrapper"] != 0 if e["sig"] else e["wrapper"] == e["child"])
        (clean if ok else suspect).append(ex_events[k:k + 2])
    files.append(_write_events([e for r in clean for e in r] or ex_events[:1], "c05-exit-clean.ndjson"))
    seen_cls = {}
    for r in suspect:
        cls = (r[1]["outok"], r[1]["sig"], r[1]["wrapper"] == r[1]["child"])
        if seen_cls.get(cls, 0) < 2:
            seen_cls[cls] = seen_cls.get(cls, 0) + 1
            files.append(_write_events(r, "c05-exit-suspect-%d.ndjson" % len(files)))
    findings, st = validate_all(files, "c05tv")
    diagnosed = {}
    for f in findings:
        payload = {"scenario": f["scenario"], "opts": f["opts"], "event": f["event"], "invariant": f["invariant"],
                   "run": f["run"][:400], "where": f["explain"]}
        res = _scenario_results(out, f)
        if res is not None:
            payload["steps_with_bytes"] = res
        if len(diagnosed) < 6 and _key(f) not in diagnosed:
            # diagnosis only: is the run at least a behaviour of the modelled code (Judge = FALSE)?
            d = vlib.validate_trace(TV[0], "FilterTraceModel.cfg", _write_events(f["run"], "c05-diag-%d.ndjson" % len(diagnosed)))
            diagnosed[_key(f)] = payload["model_of_the_code_explains_the_run"] = bool(d["accepted"])
        v.violation(_key(f), _text(f), payload)
    cov["rejected_runs_explained_by_code_model"] = diagnosed
    cov["traces_validated_against_impl"] = s["scenarios"] + len(ex_samples)
    cov["filter_scenarios"] = s["scenarios"]
    cov["histories_real_sessions"] = s["histories"]
    cov["chunks_fed"] = s["chunks"]
    cov["trace_events"] = s["events"] + len(ex_events)
    cov["clipboard_stub_calls"] = s.get("clipboard_calls", 0)
    cov["wrapper_runs"] = len(ex_samples)
    cov["wrapper_runs_output_lost"] = sum(1 for e in ex_samples if not e["outok"])
    cov["wrapper_runs_status_wrong"] = sum(1 for e in ex_samples if not e["sig"] and e["child"] != e["wrapper"])
    cov["runs_rejected"] = len(findings)
    cov["tv_tlc_runs"] = st["tlc_runs"]
    cov["tv_states"] = st["states"]
    cov["rejected_keys"] = sorted({_key(f) for f in findings})
    ev0 = vlib.read_ndjson(files[2])
    cov["samples"].append({"recorded_run": [e for e in vlib.run_of(ev0, 1)][:14]})
    cov["samples"].append({"wrapper_run": ex_samples[0]})
    tl = _tracelog_evidence(out)
    if tl:
        cov["tracelog_switch_runs_not_judged"] = tl

    # binding demonstration on a file without findings
    bad_files = {f["file"] for f in findings}
    good = next((f for f in files[:shards] if f not in bad_files), None)
    if good is not None:
        def corrupt(ev):
            ev = [dict(e) for e in ev]
            k = [i for i, e in enumerate(ev) if e.get("e") == "doneOut" and e.get("body") == "same"]
            ev[k[len(k) // 2]]["body"] = "none"
            return ev

        def drop(ev):
            k = [i for i, e in enumerate(ev) if e.get("e") == "feedIn"]
            j = k[len(k) // 2]
            return ev[:j] + ev[j + 1:]

        def stuck(ev):   # a transfer that never hands the terminal back
            ev = [dict(e) for e in ev]
            k = [i for i, e in enumerate(ev) if e.get("e") == "mode"]
            if k:
                ev[k[0]]["idle"] = False
            return ev
        cov["selftest_corrupt_rejected"] = vlib.selftest_reject(TV[0], TV[1], good, corrupt)
        cov["selftest_drop_rejected"] = vlib.selftest_reject(TV[0], TV[1], good, drop)
        cov["selftest_stuck_rejected"] = vlib.selftest_reject(TV[0], TV[1], good, stuck)
        if not (cov["selftest_corrupt_rejected"] and cov["selftest_drop_rejected"] and cov["selftest_stuck_rejected"]):
            raise vlib.Infra("binding self-test failed: corrupted trace accepted")
    else:
        cov["selftest"] = "skipped: every trace file had a finding"

    # 3. spec -> impl (collect)
    try:
        m = fut_mbt.result()
    except vlib.Infra as e:
        if not v.violations:
            raise
        # the replay driver gave up on a filter that trace validation has already shown to be broken
        cov["mbt_driver_gave_up"] = str(e)[-600:]
        m = None
    mism = 0
    replayed = 0
    for i in range(shards if m is not None else 0):
        for rec in vlib.read_ndjson(os.path.join(mdir, "shard-%02d" % i, "results.ndjson")):
            ci = i + shards * rec["scenario"]
            case = picked[ci]
            replayed += 1
            for r in rec["results"]:
                if r["a"] not in ("out", "in"):
                    if r["a"] == "xfer" and not r.get("idle", True):
                        mism += 1
                        if r.get("note") == "trigger-not-taken":
                            v.violation("mbt:%s:trigger-not-taken" % hist_sig(case),
                                        "a genuine trigger fed while no session was active did not start a transfer", {"case": case, "observed": rec["results"]})
                        else:
                            v.violation("mbt:%s:still-transferring-after-%s" % (hist_sig(case), r.get("how")),
                                        "filter still claims to be transferring after the transfer ended", {"case": case, "observed": rec["results"]})
                    continue
                want = case["steps"][r["step"]]
                if (r["pre"], r["body"], r["post"]) != (want["pre"], want["body"], want["post"]):
                    mism += 1
                    rel = ("show+" if r["pre"] else "") + r["body"] + ("+hide" if r["post"] else "")
                    v.violation("mbt:%s:%s:%s:%s" % (hist_sig(case), r["a"], r["k"], rel),
                                "real filter diverges from the Filter behaviour: after history [%s] under %s the %s chunk %s came out as %s, model: %s"
                                % (hist_sig(case), case["opts"], r["a"], r["fed"], r["got"], {k: want[k] for k in ("pre", "body", "post")}),
                                {"case": case, "step": r["step"], "want": want, "got": r, "observed": rec["results"]})
    cov["mbt_behaviours_exported"] = len(cases)
    cov["mbt_cases_replayed"] = replayed
    cov["mbt_mismatches"] = mism
    cov["mbt_export_states"] = g["distinct"]
    cov["samples"].append({"mbt_case": picked[len(picked) // 2]})

    # 1. (collect)
    r = fut_design.result()
    if not r["ok"]:
        raise vlib.Infra("Filter model violates %s on the design level:\n%s" % (r["violated"], r["out"][-3000:]))
    cov["states"], cov["transitions"] = r["distinct"], r["states"]
    cov["depth"] = r.get("depth")
    cov["exhaustive"] = True
    cov["liveness_checked"] = "Live"
    cov["design_wall_s"] = r["wall_s"]
    cov["model_constants"] = open(os.path.join(vlib.VERIF, "spec", cfg)).read()
    if not quick:
        # non-vacuity: every action of the model fires (safety part of the quick configuration)
        c = vlib.tlc("Filter", "Filter_cov.cfg", timeout=1800, coverage=True, heap="2g")
        cov["action_counts"] = vlib.action_counts(c["out"])
        cov["actions_never_fired"] = [a for a, n in cov["action_counts"].items() if n[1] == 0]
    pool.shutdown()
    # extension X02 (spec/DragScan.tla, spec/Prompt.tla): the two input-side sub-machines Filter.tla abstracts --
    # the byte-level drag path scanners and the stop prompt's key translation; observation-only for C05
    vlib.run_extension("x02", tier, cov)
    return cov


def _scenario_results(out, f):
    """bytes fed / received of the scenario a finding belongs to (from the driver's results file)"""
    name, si = f["scenario"], f.get("si")
    for d in sorted(os.listdir(out)):
        p = os.path.join(out, d, "results.ndjson")
        if not os.path.exists(p) or not os.path.exists(os.path.join(out, d, "trace.ndjson")):
            continue
        # the finding's file is this shard's trace or a cut of it: identify the shard by the run's first chunk hash
        hashes = {e.get("h") for e in f["run"] if e.get("e") in ("feedOut", "feedIn")}
        for rec in vlib.read_ndjson(p):
            if rec.get("name") == name and rec.get("scenario") == si:
                fed = [r for r in (rec.get("results") or []) if "fed" in r]
                if not fed or not hashes:
                    continue
                with open(os.path.join(out, d, "trace.ndjson")) as fh:
                    if any(h and ('"h":"%s"' % h) in fh.read() for h in list(hashes)[:1]):
                        return rec.get("results")
    return None


def _tracelog_evidence(out):
    """dedicated runs with DetectTraceLog on: what the switch chunk was turned into (reported, judged
    leniently: the spec allows any text in place of the marker when the option is on)"""
    res = []
    for d in sorted(os.listdir(out)):
        p = os.path.join(out, d, "results.ndjson")
        if not os.path.exists(p):
            continue
        for rec in vlib.read_ndjson(p):
            for r in rec.get("results") or []:
                if r.get("k") in ("tlmark", "tlmarkoff") and rec["opts"]["tlog"] and len(res) < 4:
                    res.append({"kind": r["k"], "fed": r["fed"], "got": re.sub(r"trzsz_\d+\.log", "trzsz_N.log", r["got"])})
    return res


def replay(path, v):
    """Re-run a saved counterexample against the current tree: the scenario (by name and option
    set) is run again with the current seed; MBT cases are replayed exactly."""
    rec = json.load(open(path))
    rp = rec["replay"]
    h = vlib.build_harness(["c05"])
    if "case" in rp:
        mdir = os.path.join(vlib.scratch(), "c05replay")
        os.makedirs(mdir, exist_ok=True)
        cpath = os.path.join(mdir, "cases.ndjson")
        with open(cpath, "w") as fh:
            fh.write(json.dumps(rp["case"]) + "\n")
        vlib.run_driver(h, "c05_mbt", mdir, {"shards": 1, "cases": cpath})
        for r in vlib.read_ndjson(os.path.join(mdir, "shard-00", "results.ndjson")):
            for o in r["results"]:
                print(json.dumps(o))
                if o["a"] in ("out", "in"):
                    want = rp["case"]["steps"][o["step"]]
                    if (o["pre"], o["body"], o["post"]) != (want["pre"], want["body"], want["post"]):
                        v.violation("replay", "probe image differs from the model's", {"case": rp["case"], "got": o})
        return {}
    if rec["key"].startswith("wrapper-exit"):
        bins = vlib.build_cmds(("trzsz",))
        ev, samples = exit_runs(bins["trzsz"], True, random.Random(1))
        f = _write_events(ev, "c05-exit-replay.ndjson")
        findings, _ = validate_all([f], "c05replay")
        for x in findings:
            v.violation(_key(x), _text(x), {"event": x["event"]})
        return {}
    out = os.path.join(vlib.scratch(), "c05replaytv")
    vlib.run_driver(h, "c05_tv", out, {"shards": 16, "rounds": 1, "special": True}, timeout=1200)
    files = [os.path.join(out, "shard-%02d" % i, "trace.ndjson") for i in range(16)]
    findings, _ = validate_all(files, "c05replay")
    for x in findings:
        print("finding:", _key(x))
        if _key(x) == rec["key"]:
            v.violation(_key(x), _text(x), {"event": x["event"], "run": x["run"][:200]})
    return {}
