"""C04 - escape coding is reversible and keeps protected bytes off the wire.  Spec: Codec.tla.
 1. TLC exhaustive on Codec (design): every well-formed table over a small byte universe + the two
    built-in tables x all payloads up to MaxLen (and each of the 256 single bytes) x every split
    of the escaped stream x every destination size, plus injected raw streams; invariants
    NoProtectedByte, WireIsEscape, CursorOK, RoundTrip, CapRespected, CarryIsLoneLeader,
    UnknownCodeRejected.  Run with -coverage: every action must fire.
 2. spec -> impl (MBT): every behaviour of CodecGen (exhaustive for small constants + simulation
    with larger ones) replayed into the real escapeWriter.Write / escapeData / escapeReader.Read /
    unescapeData, the table built through getEscapeChars -> unicode.MarshalJSON ->
    escapeTable.UnmarshalJSON.
 3. impl -> spec, call level (CodecTrace): recorded real calls - all 256 byte values, every split
    point incl. between leader and code, destinations of 1..8 bytes, random well-formed announced
    tables, payloads biased to protected bytes and 0xEE runs, corrupted streams - each call checked
    as a step of Codec with all invariants evaluated on every state.
 4. impl -> spec, wire level (CodecObs): real in-process binary uploads (trz -b / -b -e, compression
    no/yes/auto, protocol 4 / 2 / sendData-recvData path): EVERY Write of the uploading client from
    the ACT line to the EXIT line must be free of the protected bytes of the table the server
    announced in its CFG line, the DATA payloads must decode (reference decoder) to the source file
    (when no compressor is in front), and the receiver's file must equal the source.
 5. binding self-tests: corrupted / shortened traces must be rejected."""
import os, json, copy, time
import vlib

_T0 = [time.time()]


def _lap(what):
    now = time.time()
    vlib.log("  [c04] %-28s %.1fs" % (what, now - _T0[0]))
    _T0[0] = now

ASSUMPTIONS = [
    "the reference set a '-b -e' announcement has to protect is the 14 bytes of the trzsz protocol "
    "(7E 02 0D 10 11 13 18 1B 1D 8D 90 91 93 9D); for '-b' it is 7E (Codec!MustProtect)",
    "an announced table is well-formed: leader 0xEE itself mapped, codes pairwise distinct, no code is a protected byte",
    "arbitrary announcements containing '\"' or '\\\\' are written with \\u escapes (the repository's unicode.MarshalJSON "
    "does not quote them; its own two tables do not contain them)",
    "escapeReader.Read is never called with an empty destination (its callers use 32 KiB / zstd buffers)",
    "wire level: the client's Writes are observed at the io.Writer handed to newTransfer; the peer is the repository's own "
    "server role running in the same process",
    "TLC fingerprint collisions negligible (reported probability < 1e-7)",
]

INVS = "TypeOK NoProtectedByte WireIsEscape CursorOK RoundTrip CapRespected CarryIsLoneLeader UnknownCodeRejected".split()
ACTIONS = ["TableFromJSON", "NWrite", "NWrite1", "WriterClose", "Inject", "ReadStart", "ReadDecode", "NFill", "ReadEOF", "UnescapeWhole"]


def _action_counts(out):
    """Per-action [distinct, generated] of a -coverage run (also the '<A line .. of module M (..)>' form)."""
    import re
    res = {}
    for line in out.splitlines():
        m = re.match(r"^<(\w+) line [^>]*>: (\d+):(\d+)$", line.strip())
        if m:
            res[m.group(1)] = [int(m.group(2)), int(m.group(3))]
    return res


def _last_l(out):
    import re
    m = re.findall(r"^/\\ l = (\d+)", out, re.M)
    return int(m[-1]) if m else None


def _protected_in(ev_table, b):
    prot = {p[0] for p in ev_table.get("ann", []) if p and p[0] != 238}
    return sorted({x for x in b if x in prot})


def _judge(v, kind, module, files, res, cov):
    """Turn TLC's answers on recorded executions into violations.  kind = 'tv' | 'wire'."""
    nrej = 0
    for f, r in zip(files, res):
        if r["accepted"]:
            continue
        ev = vlib.read_ndjson(f)
        if r["violated"] not in (None, "postcondition"):
            li = _last_l(r["out"]) or 1
            i = max(0, min(li - 2, len(ev) - 1))     # the event that led to the bad state
            run_ev = vlib.run_of(ev, i)
            v.violation("%s-invariant-%s" % (kind, r["violated"]),
                        "invariant %s of Codec is false on a state of a recorded real execution (%s line %d)" % (
                            r["violated"], os.path.basename(f), i + 1),
                        {"kind": kind, "seed": vlib.seed(), "run": run_ev[0].get("run"), "event": _short(ev[i]),
                         "run_events": [_short(e) for e in run_ev[:60]]})
            nrej += 1
            continue
        i = (r["hw"] or 1) - 1
        i = min(i, len(ev) - 1)
        bad = ev[i]
        run_ev = vlib.run_of(ev, i)
        tab = next((e for e in run_ev if e.get("e") == "table"), {})
        key = "%s-%s" % (kind, bad.get("e"))
        why = ""
        if kind == "wire" and bad.get("e") == "cw":
            pb = _protected_in(tab, bad.get("b", []))
            if pb:
                key, why = "wire-cw-protected", "protected byte(s) %s of the announced table in a client Write; " % pb
            else:
                key, why = "wire-cw-stream", "the client's DATA stream does not decode to the source; "
        elif bad.get("e") == "ret":
            key += "-" + str(bad.get("res"))
        elif bad.get("e") == "table":
            key += "-" + str(bad.get("tmode"))
        dn = next((e for e in run_ev if e.get("e") == "done"), {})
        if kind == "wire" and bad.get("e") in ("dst", "done") and (dn.get("serr") or dn.get("cerr")):
            # the upload itself failed: the payload did not arrive
            first = dn.get("serr") if dn.get("serr") and dn.get("serr") != "Stopped" else dn.get("cerr")
            key = "wire-failed-" + _slug(first)
            why = "upload failed, client error %r, server error %r; " % (dn.get("cerr"), dn.get("serr"))
        v.violation(key, "recorded real execution is not a behaviour of %s: %s%s" % (module, why, vlib.explain_rejection(f, r["hw"], context=2)[:1500]),
                    {"kind": kind, "seed": vlib.seed(), "run": run_ev[0].get("run"), "cfg": run_ev[0].get("cfg"),
                     "rejected_event": _short(bad), "run_events": [_short(e) for e in run_ev[:60]]})
        nrej += 1
    return nrej


def _validate_all(module, cfg, files, **kw):
    """validate_traces, and for every rejected file validate the rest of it (from the run after the
    rejected one) again, so that one misbehaving run does not hide the runs recorded behind it.
    Returns (files, results) including the remainder files."""
    allf, allr = [], []
    todo = list(files)
    for rnd in range(12):
        if not todo:
            break
        res = vlib.validate_traces(module, cfg, todo, **kw)
        nxt = []
        for f, r in zip(todo, res):
            allf.append(f)
            allr.append(r)
            if r["accepted"]:
                continue
            ev = vlib.read_ndjson(f)
            i = (_last_l(r["out"]) or 1) - 2 if r["violated"] not in (None, "postcondition") else (r["hw"] or 1) - 1
            k = max(0, i) + 1
            while k < len(ev) and ev[k].get("e") != "reset":
                k += 1
            if k < len(ev):
                p = "%s.rest%d" % (f.split(".rest")[0], rnd + 1)
                with open(p, "w") as fh:
                    for e in ev[k:]:
                        fh.write(json.dumps(e) + "\n")
                nxt.append(p)
        todo = nxt
    return allf, allr


def _slug(s):
    import re
    return re.sub(r"[^a-z]+", "-", re.sub(r"\d+", "", (s or "").lower())).strip("-")[:48]


def _short(e, n=80):
    e = dict(e)
    for k, val in list(e.items()):
        if isinstance(val, list) and len(val) > n and all(isinstance(x, int) for x in val):
            e[k] = val[:n] + ["... %d more" % (len(val) - n)]
    return e


def _nonempty(files):
    return [f for f in files if os.path.exists(f) and os.path.getsize(f) > 0]


def _mbt(v, h, cases, cov, tag="c04mbt"):
    mdir = os.path.join(vlib.scratch(), tag)
    os.makedirs(mdir, exist_ok=True)
    with open(os.path.join(mdir, "cases.ndjson"), "w") as fh:
        for c in cases:
            fh.write(json.dumps(c) + "\n")
    m = vlib.run_driver(h, "c04_mbt", mdir, {})
    mism = json.load(open(os.path.join(mdir, "mismatches.json"))) or []
    for mm in mism:
        c = cases[mm["case"]]
        v.violation("mbt-%s-%s" % (mm.get("kind"), c.get("tmode")),
                    "real code diverges from the Codec behaviour: %s (table %s, data %s)" % (mm.get("msg"), c.get("table"), c.get("data")),
                    {"kind": "mbt", "case": c, "step": mm["step"], "want": mm["want"], "got": mm["got"]})
    return m, mism


def run(tier, v):
    cov = {"samples": []}
    quick = tier == "quick"
    # ---- 1. design
    cfg = "Codec_quick.cfg" if quick else "Codec_thorough.cfg"
    r = vlib.tlc("Codec", cfg, timeout=3000, heap="3g" if quick else "6g", coverage=quick)
    if not r["ok"]:
        raise vlib.Infra("Codec model violates %s on the design level:\n%s" % (r["violated"], r["out"][-3000:]))
    cov["states"], cov["transitions"] = r["distinct"], r["states"]
    cov["exhaustive"] = True
    cov["tlc_wall_s"] = r["wall_s"]
    cov["invariants"] = INVS
    cov["model_constants"] = open(os.path.join(vlib.VERIF, "spec", cfg)).read()
    if quick:
        ac = _action_counts(r["out"])
        cov["action_coverage"] = {a: ac.get(a) for a in ACTIONS}
        dead = [a for a in ACTIONS if not ac.get(a) or ac[a][1] == 0]
        if dead:
            raise vlib.Infra("actions never fired in the exhaustive run: %s" % dead)
    _lap("exhaustive TLC")
    h = vlib.build_harness(["c04"])
    # ---- 2. spec -> impl
    g = vlib.tlc("CodecGen", "CodecGen_quick.cfg", timeout=1200, heap="1500m")
    cases = vlib.mbt_lines(g["out"])
    nbfs = len(cases)
    g2 = vlib.tlc("CodecGen", "CodecGen_sim.cfg", workers=1, timeout=900, heap="2g",
                  simulate="num=%d" % (2500 if quick else 30000), depth=90, extra_args=["-seed", str(vlib.seed())])
    cases += vlib.mbt_lines(g2["out"])
    if nbfs < 1000 or len(cases) - nbfs < 100:
        raise vlib.Infra("MBT export produced only %d + %d cases" % (nbfs, len(cases) - nbfs))
    _lap("MBT export")
    m, mism = _mbt(v, h, cases, cov)
    _lap("MBT replay")
    cov["mbt_cases_exhaustive"] = nbfs
    cov["mbt_cases_simulated"] = len(cases) - nbfs
    cov["mbt_cases_replayed"] = m["replayed"]
    cov["mbt_reads"], cov["mbt_writes"] = m["reads"], m["writes"]
    cov["mbt_mismatches"] = len(mism)
    cov["mbt_drift"] = m["drift"]
    cov["samples"].append({"mbt_case": cases[nbfs + (len(cases) - nbfs) // 2]})
    # ---- 3. impl -> spec, call level
    out = os.path.join(vlib.scratch(), "c04tv")
    s = vlib.run_driver(h, "c04_tv", out, {"shards": 16, "random": 1500 if quick else 20000})
    files = [os.path.join(out, "trace-%02d.ndjson" % i) for i in range(s["shards"])]
    files, res = _validate_all("CodecTrace", "CodecTrace.cfg", files, timeout=3000, heap="1g")
    _lap("call-level trace validation")
    cov["tv_runs"], cov["tv_events"] = s["runs"], s["events"]
    cov["tv_breakdown"] = {k[2:]: val for k, val in s.items() if k.startswith("n_")}
    cov["tv_runs_rejected"] = _judge(v, "tv", "Codec", files, res, cov)
    cov["tv_states"] = sum(x["distinct"] for x in res)
    ev0 = vlib.read_ndjson(files[3 % len(files)])
    k = next((i for i, e in enumerate(ev0) if e.get("e") == "fill"), 0)
    cov["samples"].append({"recorded_calls": [_short(e, 40) for e in vlib.run_of(ev0, k)[:14]]})

    def corrupt_out(ev):
        ev = copy.deepcopy(ev)
        e = next(e for e in ev if e.get("e") == "write" and len(e["out"]) > 0)
        e["out"][-1] = (e["out"][-1] + 1) % 256
        return ev

    def drop_fill(ev):
        k = next(i for i, e in enumerate(ev) if e.get("e") == "fill" and ev[i + 1].get("e") in ("fill", "ret"))
        return ev[:k] + ev[k + 1:]

    def lose_leader(ev):   # a decoded byte too few: as if a pending leader had been dropped
        ev = copy.deepcopy(ev)
        e = next(e for e in ev if e.get("e") == "ret" and e.get("res") == "ok" and len(e["buf"]) > 0)
        e["buf"] = e["buf"][:-1]
        return ev
    small = _truncate_runs(files[1], 600)
    if not vlib.validate_trace("CodecTrace", "CodecTrace.cfg", small, heap="1g")["accepted"]:
        small = None          # the real code already misbehaves in the sample: corruption tests would be vacuous
    st = {"write_out_corrupted": _selftest("CodecTrace", "CodecTrace.cfg", small, corrupt_out, heap="1g"),
          "fill_dropped": _selftest("CodecTrace", "CodecTrace.cfg", small, drop_fill, heap="1g"),
          "ret_short": _selftest("CodecTrace", "CodecTrace.cfg", small, lose_leader, heap="1g")}
    _lap("call-level self-tests")
    # ---- 4. impl -> spec, wire level
    wout = os.path.join(vlib.scratch(), "c04wire")
    w = vlib.run_driver(h, "c04_wire", wout, {"shards": 16, "uploads": 72 if quick else 480}, timeout=1500)
    wfiles = _nonempty([os.path.join(wout, "wire-%02d.ndjson" % i) for i in range(w["shards"])])
    wfiles0 = wfiles
    wfiles, wres = _validate_all("CodecObs", "CodecObs.cfg", wfiles, timeout=3000, heap="1500m")
    _lap("wire-level trace validation")
    cov["wire_uploads"], cov["wire_events"] = w["runs"], w["events"]
    cov["wire_uploads_ok"] = w.get("uploads_ok", 0)
    cov["wire_slow_ack_runs"], cov["wire_blocks_split_again_after_a_shrink"] = w.get("slow_runs", 0), w.get("resplit_blocks", 0)
    cov["wire_uploads_failed"] = w.get("uploads_failed", 0)
    cov["wire_client_writes"], cov["wire_client_bytes"] = w.get("client_writes", 0), w.get("client_bytes", 0)
    cov["wire_act_to_exit"] = w.get("act_to_exit", 0)
    cov["wire_runs_rejected"] = _judge(v, "wire", "CodecObs", wfiles, wres, cov)
    wfiles = wfiles0
    cfgs = json.load(open(os.path.join(wout, "wire-cfgs.json")))
    cov["wire_matrix"] = sorted({"%s/comp=%s/proto=%d" % ("-b -e" if c["escape"] else "-b", c["comp"], c["proto"]) for c in cfgs})
    if not wfiles:
        raise vlib.Infra("no wire-level trace recorded")
    we = vlib.read_ndjson(wfiles[0])
    cov["samples"].append({"recorded_upload": [_short(e, 48) for e in we[:9]]})

    def is_data_cw(e):
        return e.get("e") == "cw" and e["b"][:6] == [35, 68, 65, 84, 65, 58] and len(e["b"]) > 40

    def tilde_on_wire(ev):
        ev = copy.deepcopy(ev)
        e = next(e for e in ev if is_data_cw(e))
        e["b"][-3] = 126
        return ev

    def drop_frame(ev):
        # first run whose files are sent without compression: losing a DATA frame breaks decoded = source
        for i, e in enumerate(ev):
            if e.get("e") == "src" and e.get("comp") == "no":
                k = next((j for j in range(i, len(ev)) if is_data_cw(ev[j]) or ev[j].get("e") == "reset"), None)
                if k is not None and ev[k].get("e") == "cw":
                    return ev[:k] + ev[k + 1:]
        raise StopIteration

    def wrong_file(ev):
        ev = copy.deepcopy(ev)
        e = next(e for e in ev if e.get("e") == "dst" and len(e["bytes"]) > 0)
        e["bytes"][0] ^= 1
        return ev
    # base of the corruption tests: a few uploads that succeeded, one of them uncompressed, accepted as recorded
    good, have_no = [], False
    for f in wfiles:
        ev = vlib.read_ndjson(f)
        i = 0
        while i < len(ev) and len(good) < 5:
            run_ev = vlib.run_of(ev, i)
            dn = run_ev[-1]
            if dn.get("e") == "done" and not dn.get("cerr") and not dn.get("serr"):
                is_no = any(e.get("e") == "src" and e.get("comp") == "no" for e in run_ev) and any(is_data_cw(e) for e in run_ev)
                if is_no or have_no or len(good) < 3:
                    good.append(run_ev)
                    have_no = have_no or is_no
            i += len(run_ev)
    wsample = os.path.join(vlib.scratch(), "selftest-base-wire.ndjson")
    with open(wsample, "w") as fh:
        for run_ev in sorted(good, key=lambda r: not any(e.get("comp") == "no" for e in r)):
            for e in run_ev:
                fh.write(json.dumps(e) + "\n")
    if not good or not vlib.validate_trace("CodecObs", "CodecObs.cfg", wsample, heap="1500m")["accepted"]:
        wsample = None
    st["wire_tilde_injected"] = _selftest("CodecObs", "CodecObs.cfg", wsample, tilde_on_wire, heap="1500m")
    st["wire_frame_dropped"] = _selftest("CodecObs", "CodecObs.cfg", wsample, drop_frame, heap="1500m")
    st["wire_saved_file_differs"] = _selftest("CodecObs", "CodecObs.cfg", wsample, wrong_file, heap="1500m")
    _lap("wire-level self-tests")
    cov["selftest_rejected"] = st
    if any(x is False for x in st.values()) or (not v.violations and not v.known_hit and not all(st.values())):
        raise vlib.Infra("binding self-test failed: a corrupted trace was accepted / not applicable: %s" % st)
    if w.get("uploads_failed", 0) and not cov["wire_runs_rejected"]:
        raise vlib.Infra("an upload failed but no trace was rejected: " + str(w.get("last_failure")))
    cov["traces_validated_against_impl"] = s["runs"] + w["runs"] + m["replayed"]
    # extension X01 (spec/BufSize.tla: the sender's adaptive buffer size and the receiver's acceptance bound for binary
    # blocks): most of what it says goes beyond C04, but a receiver that refuses a block which is the escape coding of a
    # chunk a sender can produce breaks the round trip C04 is about -- those keys are forwarded, the rest are notes
    vlib.run_extension("x01", tier, cov, v=v, forward=lambda key: key.startswith(("gen-receiver-rejects-escaped-block", "gen-receiver-rejects-sender-block")))
    return cov


def _selftest(module, cfg, path, mutate, **kw):
    """True = corrupted trace rejected, False = accepted, None = the recorded trace has no event of
    the kind the corruption needs / is itself rejected (only when the real code already misbehaves)."""
    if path is None:
        return None
    try:
        return vlib.selftest_reject(module, cfg, path, mutate, **kw)
    except (StopIteration, IndexError):
        return None


def _truncate_runs(path, nlines):
    """A prefix of a trace file ending at a run boundary (keeps the self-tests fast)."""
    ev = vlib.read_ndjson(path)
    k = nlines
    while k < len(ev) and ev[k].get("e") != "reset":
        k += 1
    p = os.path.join(vlib.scratch(), "selftest-base-%s" % os.path.basename(path))
    with open(p, "w") as fh:
        for e in ev[:k]:
            fh.write(json.dumps(e) + "\n")
    return p


def replay(path, v):
    """Re-run a saved counterexample against the current tree."""
    rec = json.load(open(path))
    rp = rec["replay"]
    h = vlib.build_harness(["c04"])
    cov = {}
    if rp.get("kind") == "mbt":
        m, mism = _mbt(v, h, [rp["case"]], cov, tag="c04replay")
        print("replayed MBT case: %d mismatch(es)" % len(mism), flush=True)
        return cov
    os.environ["VERIF_SEED"] = str(rp.get("seed", vlib.seed()))
    out = os.path.join(vlib.scratch(), "c04replay")
    if rp.get("kind") == "tv":
        s = vlib.run_driver(h, "c04_tv", out, {"shards": 1, "random": 40000, "only": rp["run"]})
        files = _nonempty([os.path.join(out, "trace-00.ndjson")])
        res = vlib.validate_traces("CodecTrace", "CodecTrace.cfg", files, timeout=600, heap="1g")
        n = _judge(v, "tv", "Codec", files, res, cov)
    else:
        s = vlib.run_driver(h, "c04_wire", out, {"shards": 1, "uploads": rp["run"] + 1, "only": rp["run"]})
        files = _nonempty([os.path.join(out, "wire-00.ndjson")])
        res = vlib.validate_traces("CodecObs", "CodecObs.cfg", files, timeout=600, heap="1500m")
        n = _judge(v, "wire", "CodecObs", files, res, cov)
    print("replayed run %s: %s" % (rp.get("run"), "rejected again" if n else "accepted"), flush=True)
    return cov
