"""Common machinery for /verif/check: scratch dirs, harness build (overlay, tag verif),
driver runs, TLC runs (exhaustive / trace validation / MBT export), evidence, findings.

Exit-code contract (see DESIGN.md 0.2): 0 = held, 1 = VIOLATION printed, 2 = infrastructure.
"""
import json, os, re, shutil, subprocess, sys, tempfile, threading, time, hashlib

VERIF = os.path.dirname(os.path.abspath(__file__))
REPO = os.environ.get("VERIF_REPO", "/repo")
NCPU = os.cpu_count() or 4

GOENV = {
    "GOFLAGS": "-mod=mod", "GOPROXY": "off", "GOSUMDB": "off", "GOTOOLCHAIN": "local",
}


class Infra(Exception):
    """Infrastructure failure (exit 2), never a violation."""


def log(*a):
    print(*a, file=sys.stderr, flush=True)


def seed():
    try:
        return int(os.environ.get("VERIF_SEED", "1"))
    except ValueError:
        return 1


_scratch = None


def scratch():
    global _scratch
    if _scratch is None:
        base = "/dev/shm" if os.path.isdir("/dev/shm") and os.access("/dev/shm", os.W_OK) else tempfile.gettempdir()
        _scratch = tempfile.mkdtemp(prefix="verif-", dir=base)
    return _scratch


def cleanup():
    global _scratch
    if _scratch and os.path.isdir(_scratch):
        subprocess.run(["chmod", "-R", "u+rwx", _scratch], stderr=subprocess.DEVNULL)
        shutil.rmtree(_scratch, ignore_errors=True)
    _scratch = None


def env(extra=None):
    e = dict(os.environ)
    e.update(GOENV)
    if extra:
        e.update({k: str(v) for k, v in extra.items()})
    return e


# ---------------------------------------------------------------- harness build

def build_harness(groups, name="harness.test"):
    """Build the in-package harness from /repo's working tree: go test -c with an overlay that
    maps /repo/trzsz/zz_verif_<file>_test.go to /verif/harness/<file>.go for every file whose
    name starts with 'common_' or with one of the given group prefixes."""
    hdir = os.path.join(VERIF, "harness")
    overlay = {}
    for f in sorted(os.listdir(hdir)):
        if not f.endswith(".go"):
            continue
        if f.startswith("common_") or any(f.startswith(g + "_") for g in groups):
            overlay[os.path.join(REPO, "trzsz", "zz_verif_" + f[:-3] + "_test.go")] = os.path.join(hdir, f)
    ov = os.path.join(scratch(), name + ".overlay.json")
    with open(ov, "w") as fh:
        json.dump({"Replace": overlay}, fh)
    out = os.path.join(scratch(), name)
    cmd = ["go", "test", "-c", "-vet=off", "-tags", "verif", "-overlay", ov, "-o", out, "./trzsz"]
    t0 = time.time()
    p = subprocess.run(cmd, cwd=REPO, env=env(), capture_output=True, text=True)
    if p.returncode != 0 or not os.path.exists(out):
        raise Infra("harness build failed:\n" + p.stdout + p.stderr)
    log("built harness %s in %.1fs" % (",".join(groups), time.time() - t0))
    return out


def build_cmds(names=("trz", "tsz", "trzsz")):
    """Build the real binaries from /repo's working tree (tag verif so hooks compile in, inert)."""
    outs = {}
    for n in names:
        out = os.path.join(scratch(), "bin", n)
        os.makedirs(os.path.dirname(out), exist_ok=True)
        p = subprocess.run(["go", "build", "-tags", "verif", "-o", out, "./cmd/" + n], cwd=REPO, env=env(),
                           capture_output=True, text=True)
        if p.returncode != 0:
            raise Infra("build of cmd/%s failed:\n%s%s" % (n, p.stdout, p.stderr))
        outs[n] = out
    return outs


def default_signals():
    """preexec_fn: a check started under nohup or as a background job of a non-interactive shell inherits
    ignored SIGHUP / SIGINT / SIGQUIT; the code under test and the helper processes it starts must see the
    default dispositions whatever the check was started from."""
    import signal
    for sg in (signal.SIGHUP, signal.SIGINT, signal.SIGQUIT, signal.SIGTERM, signal.SIGPIPE):
        signal.signal(sg, signal.SIG_DFL)


def run_driver(binary, driver, outdir, params=None, timeout=1200, extra_env=None):
    """Run one harness driver (a Go test function selected by VERIF_DRIVER).  The driver writes
    its traces / results under outdir and a summary.json; returns the parsed summary."""
    os.makedirs(outdir, exist_ok=True)
    e = {"VERIF_DRIVER": driver, "VERIF_OUT": outdir, "VERIF_SEED": seed(),
         "VERIF_PARAMS": json.dumps(params or {})}
    if extra_env:
        e.update(extra_env)
    cmd = [binary, "-test.run", "^TestVerifDriver$", "-test.timeout", "%ds" % (timeout + 30), "-test.v"]
    t0 = time.time()
    try:
        p = subprocess.run(cmd, cwd=outdir, env=env(e), capture_output=True, text=True, timeout=timeout + 60,
                           preexec_fn=default_signals)
    except subprocess.TimeoutExpired:
        raise Infra("driver %s timed out after %ds" % (driver, timeout))
    sfile = os.path.join(outdir, "summary.json")
    if p.returncode != 0 or not os.path.exists(sfile):
        raise Infra("driver %s failed (rc=%s):\n%s\n%s" % (driver, p.returncode, p.stdout[-4000:], p.stderr[-4000:]))
    with open(sfile) as fh:
        s = json.load(fh)
    s["wall_s"] = round(time.time() - t0, 2)
    log("driver %s: %.1fs %s" % (driver, s["wall_s"], {k: v for k, v in s.items() if isinstance(v, (int, float))}))
    return s


# ---------------------------------------------------------------- TLC

JAR = "/opt/veriftools/tla/tla2tools.jar:/opt/veriftools/tla/CommunityModules-deps.jar"


_specdir_lock = threading.Lock()


def _specdir():
    """Scratch copy of /verif/spec so that TLC's litter never lands in /verif."""
    d = os.path.join(scratch(), "spec")
    with _specdir_lock:
        if not os.path.isdir(d):
            tmp = d + ".tmp"
            shutil.rmtree(tmp, ignore_errors=True)
            shutil.copytree(os.path.join(VERIF, "spec"), tmp)
            os.rename(tmp, d)
    return d


_tlc_n = 0


def tlc(module, cfg, workers=None, timeout=600, simulate=None, depth=None, extra_env=None,
        dfs=False, coverage=False, heap=None, deadlock=None, extra_args=None):
    """Run TLC on spec/<module>.tla with spec/<cfg>.  Returns dict(ok, states, distinct, out,
    error, violated, wall_s).  Never raises on a property violation; raises Infra on a crash,
    parse error or timeout."""
    d = _specdir()
    meta = tempfile.mkdtemp(prefix="tlcmeta", dir=scratch())
    java = ["java", "-XX:+UseParallelGC", "-Xss64m"]
    if heap:
        java.append("-Xmx" + heap)
    if dfs:
        java.append("-Dtlc2.tool.queue.IStateQueue=StateDeque")
    cmd = java + ["-cp", JAR, "tlc2.TLC", "-metadir", meta, "-config", cfg,
                  "-workers", str(workers or "auto"), "-noGenerateSpecTE"]
    if simulate:
        cmd += ["-simulate", simulate]
    if depth:
        cmd += ["-depth", str(depth)]
    if coverage:
        cmd += ["-coverage", "1"]
    if deadlock is False:
        cmd += ["-deadlock"]
    if extra_args:
        cmd += list(extra_args)
    cmd += [module + ".tla"]
    t0 = time.time()
    try:
        p = subprocess.run(cmd, cwd=d, env=env(extra_env), capture_output=True, text=True, timeout=timeout)
    except subprocess.TimeoutExpired as ex:
        shutil.rmtree(meta, ignore_errors=True)
        if simulate:
            out = (ex.stdout or b"").decode("utf-8", "replace") if isinstance(ex.stdout, bytes) else (ex.stdout or "")
            return {"ok": True, "timeout": True, "out": out, "states": 0, "distinct": 0,
                    "wall_s": round(time.time() - t0, 2), "violated": None, "error": None}
        raise Infra("TLC %s/%s timed out after %ds" % (module, cfg, timeout))
    shutil.rmtree(meta, ignore_errors=True)
    out = p.stdout + p.stderr
    r = {"out": out, "wall_s": round(time.time() - t0, 2), "violated": None, "error": None,
         "states": 0, "distinct": 0, "timeout": False, "rc": p.returncode}
    m = re.findall(r"(\d+) states generated, (\d+) distinct states found", out)
    if m:
        r["states"], r["distinct"] = int(m[-1][0]), int(m[-1][1])
    m = re.search(r"The depth of the complete state graph search is (\d+)", out)
    if m:
        r["depth"] = int(m.group(1))
    m = re.search(r"Invariant (\S+) is violated", out)
    if m:
        r["violated"] = m.group(1)
    elif "Temporal properties were violated" in out or re.search(r"Temporal property \S+ was violated", out):
        r["violated"] = "temporal"
    elif re.search(r"Action property (\S+) is violated", out):
        r["violated"] = re.search(r"Action property (\S+) is violated", out).group(1)
    elif "Deadlock reached" in out:
        r["violated"] = "deadlock"
    elif "Postcondition" in out and "is false" in out:
        r["violated"] = "postcondition"
    elif "Assumption" in out and "is false" in out:
        r["violated"] = "assumption"
    if r["violated"] is None and ("Model checking completed. No error has been found" in out
                                  or (simulate and p.returncode in (0,))):
        r["ok"] = True
    elif r["violated"] is not None:
        r["ok"] = False
    else:
        # parse error, runtime evaluation error, stack overflow ...
        if simulate and ("Finished" in out or "states generated" in out) and "Error:" not in out:
            r["ok"] = True
        else:
            raise Infra("TLC %s/%s failed (rc=%d):\n%s" % (module, cfg, p.returncode, out[-6000:]))
    return r


def mbt_lines(out, tag="MBT"):
    """PrintT("MBT " \\o ToJson(x)) lines of a TLC run -> list of decoded JSON values."""
    res = []
    pre = '"' + tag + " "
    for line in out.splitlines():
        if line.startswith(pre) and line.endswith('"'):
            body = line[len(pre):-1]
            # TLC prints the string with TLA+ escaping of backslash and quote
            body = body.replace('\\"', '"').replace("\\\\", "\\")
            try:
                res.append(json.loads(body))
            except json.JSONDecodeError:
                raise Infra("cannot decode MBT line: " + line[:300])
    return res


def validate_trace(module, cfg, tracefile, timeout=600, dfs=True, extra_env=None, heap="2g"):
    """Trace validation: spec/<module>.tla reads the ndjson file named by env VERIF_TRACE and
    keeps the high-water mark of consumed lines in TLCGet(1); the cfg's POSTCONDITION demands
    it reaches the end.  Returns dict(accepted, hw, n, violated, out)."""
    e = {"VERIF_TRACE": tracefile}
    if extra_env:
        e.update(extra_env)
    with open(tracefile) as fh:
        n = sum(1 for _ in fh)
    if n == 0:
        raise Infra("empty trace " + tracefile)
    r = tlc(module, cfg, workers=1, timeout=timeout, dfs=dfs, extra_env=e, deadlock=False, heap=heap)
    hw = None
    m = re.findall(r'"HW (\d+)"', r["out"])
    if m:
        hw = max(int(x) for x in m)
    acc = bool(r.get("ok")) and r["violated"] is None
    return {"accepted": acc, "hw": hw, "n": n, "violated": r["violated"], "out": r["out"],
            "states": r["states"], "distinct": r["distinct"], "wall_s": r["wall_s"]}


def sany(module):
    d = _specdir()
    p = subprocess.run(["java", "-cp", JAR, "tla2sany.SANY", module + ".tla"], cwd=d, capture_output=True, text=True)
    if p.returncode != 0 or "Semantic errors" in p.stdout or "***Parse Error***" in p.stdout or "Fatal errors" in p.stdout:
        raise Infra("SANY failed on %s:\n%s" % (module, p.stdout[-3000:]))


def coverage_zero(out):
    """Names of actions/sub-expressions reported with count 0 in a -coverage run."""
    zeros = []
    for line in out.splitlines():
        m = re.match(r"^<(\w+) line .*>: (\d+):(\d+)$", line.strip())
        if m and m.group(2) == "0" and m.group(3) == "0":
            zeros.append(m.group(1))
    return zeros


def action_counts(out):
    """Per-action (distinct:generated) counts from a -coverage 1 run."""
    res = {}
    for line in out.splitlines():
        m = re.match(r"^<(\w+) line .* of module (\w+)>: (\d+):(\d+)$", line.strip())
        if m:
            res[m.group(1)] = [int(m.group(3)), int(m.group(4))]
    return res


# ---------------------------------------------------------------- findings / evidence / verdicts

def known_findings():
    """known_findings.txt: lines 'finding: property=<id> key=<key> <text>' and
    'fixed: property=<id> <commit> <text>'.  Only 'finding:' lines suppress, by exact key."""
    res = {}
    p = os.path.join(VERIF, "known_findings.txt")
    if os.path.exists(p):
        for line in open(p):
            line = line.strip()
            m = re.match(r"^finding:\s+property=(\S+)\s+key=(\S+)\s*(.*)$", line)
            if m:
                res.setdefault(m.group(1), {})[m.group(2)] = m.group(3)
    return res


class Verdict:
    """Collects violations (each with a key and a replay payload) and decides the exit code."""

    def __init__(self, pid):
        self.pid = pid
        self.violations = []   # (key, text, replay_payload)
        self.known_hit = {}
        self.known = known_findings().get(pid, {})

    def violation(self, key, text, replay):
        if key in self.known:
            self.known_hit.setdefault(key, text)
            return
        self.violations.append((key, text, replay))

    def finish(self):
        for key, text in sorted(self.known_hit.items()):
            print("KNOWN-FINDING: property=%s key=%s %s" % (self.pid, key, self.known.get(key) or text))
        if not self.violations:
            return 0
        rdir = os.path.join(VERIF, "replays", self.pid)
        os.makedirs(rdir, exist_ok=True)
        seen = set()
        for key, text, replay in self.violations:
            if key in seen:
                continue
            seen.add(key)
            if len(seen) > 20:
                break
            h = hashlib.sha1((key + json.dumps(replay, sort_keys=True, default=str)).encode()).hexdigest()[:10]
            path = os.path.join(rdir, "%s-%s.json" % (re.sub(r"[^A-Za-z0-9_.-]+", "_", key)[:60], h))
            with open(path, "w") as fh:
                json.dump({"property": self.pid, "key": key, "text": text, "replay": replay}, fh, indent=1, default=str)
            print("VIOLATION property=%s replay=%s" % (self.pid, os.path.relpath(path, VERIF)))
            log("  %s: %s" % (key, text))
        return 1


def run_extension(name, tier, cov, v=None, forward=None):
    """Run an extension module (checks/<name>.py: a specification that goes beyond the listed
    properties, bound to the code like the others) inside a host check.  Its coverage lands in
    cov["ext_<name>"].  What it reports is NOT a verdict on the host property: deviations are
    recorded (and printed as EXT-NOTE lines on stderr) unless `forward(key)` says that the key is
    a violation of the host property itself, in which case it goes to the host's Verdict.
    An infrastructure problem of the extension is recorded, never fatal for the host."""
    import importlib
    t0 = time.time()
    sub = Verdict(name.upper())
    ext = {}
    try:
        mod = importlib.import_module("checks." + name.lower())
        ext = mod.run(tier, sub) or {}
    except Infra as e:
        ext = {"infra_error": str(e)[:2000]}
        log("EXT-NOTE extension=%s infra: %s" % (name, str(e)[:300]))
    dev = []
    for key, text, replay in sub.violations:
        if forward and v is not None and forward(key):
            v.violation("%s:%s" % (name.lower(), key), text, replay)
        else:
            dev.append({"key": key, "text": text[:600]})
            log("EXT-NOTE extension=%s key=%s %s" % (name, key, text[:200]))
    ext["deviations_not_verdicts"] = dev
    ext["known_hit"] = sorted(sub.known_hit)
    ext["wall_s"] = round(time.time() - t0, 1)
    cov["ext_" + name.lower()] = ext
    return ext


def write_evidence(pid, tier, coverage, wall_s, violations, assumptions=None, level="model_checking"):
    edir = os.path.join(VERIF, "evidence")
    if os.path.realpath(REPO) != "/repo" or not re.fullmatch(r"C\d\d", pid):
        # a run against a private worktree (mutation testing) or of an extension module run on its
        # own: the registered evidence files describe /repo itself and only the listed properties
        edir = os.path.join(tempfile.gettempdir(), "verif-evidence-other")
    os.makedirs(edir, exist_ok=True)
    ev = {"property_id": pid, "tier": tier, "seed": seed(), "level": level, "coverage": coverage,
          "assumptions": assumptions or [], "wall_s": round(wall_s, 2), "violations": violations}
    tmp = os.path.join(edir, pid + ".json.tmp")
    with open(tmp, "w") as fh:
        json.dump(ev, fh, indent=1, default=str)
    os.replace(tmp, os.path.join(edir, pid + ".json"))


def read_ndjson(path):
    with open(path) as fh:
        return [json.loads(l) for l in fh if l.strip()]


def explain_rejection(tracefile, hw, context=3):
    """A rejected trace has no counterexample: show the last matched line and the next event."""
    lines = open(tracefile).read().splitlines()
    if hw is None:
        return "no high-water mark reported"
    i = hw - 1  # hw = index (1-based) of the first line that could not be consumed
    lo = max(0, i - context)
    return "rejected at line %d of %d:\n%s" % (hw, len(lines), "\n".join(
        ("%s %6d %s" % (">>" if k == i else "  ", k + 1, lines[k][:300])) for k in range(lo, min(len(lines), i + 2))))


def validate_traces(module, cfg, files, par=None, **kw):
    """validate_trace over many files in parallel (one JVM each)."""
    from concurrent.futures import ThreadPoolExecutor
    _specdir()
    with ThreadPoolExecutor(max_workers=par or min(NCPU, 16)) as ex:
        return list(ex.map(lambda f: validate_trace(module, cfg, f, **kw), files))


def split_traces(files, max_bytes=6 << 20, reset='"e":"reset"'):
    """Cut big ndjson trace files into pieces of about max_bytes at run boundaries (reset events):
    TLC's ndJsonDeserialize holds a whole file as one value."""
    out = []
    for f in files:
        if os.path.getsize(f) <= max_bytes:
            out.append(f)
            continue
        k, size, fh = 0, 0, None
        with open(f) as src:
            for line in src:
                if fh is None or (size >= max_bytes and reset in line.replace(" ", "")):
                    if fh:
                        fh.close()
                    p = "%s.part%03d.ndjson" % (f[:-7] if f.endswith(".ndjson") else f, k)
                    k, size = k + 1, 0
                    fh = open(p, "w")
                    out.append(p)
                fh.write(line)
                size += len(line)
        if fh:
            fh.close()
    return out


def run_of(events, i, reset="reset"):
    """The recorded run (slice between reset events) that contains 0-based line i."""
    lo = i
    while lo > 0 and events[lo].get("e") != reset:
        lo -= 1
    hi = i + 1
    while hi < len(events) and events[hi].get("e") != reset:
        hi += 1
    return events[lo:hi]


def selftest_reject(module, cfg, tracefile, mutate, **kw):
    """Binding demonstration: apply `mutate(events) -> events` to a recorded trace and require
    TLC to reject it.  Returns True when the corrupted trace is rejected."""
    ev = read_ndjson(tracefile)
    ev2 = mutate(ev)
    p = os.path.join(scratch(), "selftest-%d.ndjson" % (int(time.time() * 1e6) % 10**9))
    with open(p, "w") as fh:
        for e in ev2:
            fh.write(json.dumps(e) + "\n")
    r = validate_trace(module, cfg, p, **kw)
    return not r["accepted"]
