//go:build verif

package trzsz

// C14 drivers.  c14_matrix: TLC-exported (client action, server options, relay situation) cases
// pushed through the real relay handshake() with a real server role composing the CFG.
// c14_recover: sequences of real transfers (success / server-side fault / client stop) through
// one chain of 1 or 2 real relays, with pass-through probes in both directions after each.

import (
	"io"
	"encoding/json"
	"fmt"
	"net"
	"os"
	"strings"
	"sync"
	"time"
)

func init() {
	vRegister("c14_matrix", c14Matrix)
	vRegister("c14_recover", c14Recover)
}

type c14Case struct {
	Act    map[string]any `json:"act"`
	Args   map[string]any `json:"args"`
	Relay  map[string]any `json:"relay"`
	ActOut map[string]any `json:"actOut"`
	CfgIn  map[string]any `json:"cfgIn"`
	CfgOut map[string]any `json:"cfgOut"`
}

func c14B(m map[string]any, k string) bool { b, _ := m[k].(bool); return b }

// c14NL: the newline field of a CFG line in the vocabulary of RelayCfg.tla
func c14NL(m map[string]any) string {
	switch v, _ := m["newline"].(string); v {
	case "!\n":
		return "win"
	case "\n":
		return "plain"
	case "":
		return "absent"
	default:
		return "other"
	}
}
var d14ClientViews int

func c14I(m map[string]any, k string) int {
	f, _ := m[k].(float64)
	return int(f)
}

// c14RunCase returns the observed (actOut, cfgIn, cfgOut) in the abstract vocabulary of RelayCfg.tla.
func c14RunCase(c *c14Case) (map[string]any, error) {
	act := map[string]any{"lang": "go", "version": "1.1.8", "confirm": c14B(c.Act, "confirm"), "newline": "\n",
		"binary": c14B(c.Act, "binary"), "support_dir": c14B(c.Act, "dir"), "tunnel": c14B(c.Act, "tunnel"), "fork": c14B(c.Act, "fork")}
	if c14B(c.Act, "winnl") {
		act["newline"] = "!\n"
	}
	if p := c14I(c.Act, "proto"); p > 0 {
		act["protocol"] = p
	}
	actJSON, _ := json.Marshal(act)
	r := &TrzszRelay{osStdinChan: make(chan []byte, 100), osStdoutChan: make(chan []byte, 100),
		stdinBuffer: newTrzszBuffer(), stdoutBuffer: newTrzszBuffer()}
	r.bypassTmuxChan = r.osStdoutChan
	if c14B(c.Relay, "tmux") {
		r.tmuxMode = tmuxNormalMode
	}
	r.tmuxPaneWidth = int32(c14I(c.Relay, "width"))
	r.trigger = &trzszTrigger{mode: 'R', version: &trzszVersion{1, 1, 8}, uniqueID: "1234567890100", winServer: c14B(c.Args, "winsrv")}
	r.relayStatus.Store(kRelayHandshaking)
	// the client frames its own lines with "!\n" only towards a Windows server (sendAction: remoteIsWindows);
	// the newline it announces is the one it wants to be sent
	nl := "\n"
	if c14B(c.Args, "winsrv") {
		nl = "!\n"
	}
	r.stdinBuffer.addBuffer([]byte("#ACT:" + encodeString(string(actJSON)) + nl))

	// the real server role behind the relay
	var conn, peer net.Conn
	serverW := &e2eFuncWriter{fn: func(b []byte) { r.stdoutBuffer.addBuffer(b) }}
	st := newTransfer(serverW, nil, false, nil)
	st.windowsProtocol = c14B(c.Args, "winsrv") // a server on Windows reads "!\n"-framed lines
	if c14B(c.Act, "tunnel") {
		conn, peer = net.Pipe()
		st.tunnelConn.Store(&conn)
		go func() { // what the server writes to the tunnel reaches the relay's server-side buffer
			buf := make([]byte, 65536)
			for {
				n, err := peer.Read(buf)
				if n > 0 {
					r.stdoutBuffer.addBuffer(append([]byte(nil), buf[:n]...))
				}
				if err != nil {
					return
				}
			}
		}()
	}
	bufsize := int64(c14I(c.Args, "bufk")) * 1024
	args := &trzArgs{baseArgs: baseArgs{Quiet: c14B(c.Args, "quiet"), Overwrite: c14B(c.Args, "overwrite"), Binary: c14B(c.Args, "binary"),
		Directory: c14B(c.Args, "directory"), Bufsize: bufferSize{bufsize}, Timeout: c14I(c.Args, "timeout"),
		Compress: compressType(c14I(c.Args, "compress"))}, Path: os.TempDir()}
	stmux := tmuxModeType(noTmuxMode)
	if c14B(c.Args, "stmux") {
		stmux = tmuxNormalMode
	}
	srvDone := make(chan error, 1)
	go func() { srvDone <- recvFiles(st, args, stmux, int32(c14I(c.Args, "swidth"))) }()
	hsDone := make(chan struct{})
	go func() { r.handshake(); close(hsDone) }()

	obs := map[string]any{}
	var actOutRaw, cfgOutRaw []byte
	deadline := time.After(10 * time.Second)
	// relay -> server: the rewritten ACT
	select {
	case b := <-r.osStdinChan:
		actOutRaw = b
		st.addReceivedData(b, false)
	case <-deadline:
		return nil, fmt.Errorf("no ACT from the relay")
	}
	ao := e2eFindLine(actOutRaw, "ACT")
	if ao == nil {
		return nil, fmt.Errorf("undecodable ACT from the relay: %q", actOutRaw)
	}
	obs["actOut"] = map[string]any{"binary": c14B(ao, "binary"), "dir": c14B(ao, "support_dir"), "fork": c14B(ao, "fork"),
		"proto": c14I(ao, "protocol"), "winnl": ao["newline"] == "!\n", "tunnel": c14B(ao, "tunnel"), "confirm": c14B(ao, "confirm")}
	if c14B(c.Act, "confirm") {
		select {
		case b := <-r.osStdoutChan:
			cfgOutRaw = b
		case <-deadline:
			return nil, fmt.Errorf("no CFG from the relay")
		}
		co := e2eFindLine(cfgOutRaw, "CFG")
		if co == nil {
			return nil, fmt.Errorf("undecodable CFG from the relay: %q", cfgOutRaw)
		}
		abs := func(m map[string]any) map[string]any {
			return map[string]any{"quiet": c14B(m, "quiet"), "overwrite": c14B(m, "overwrite"), "directory": c14B(m, "directory"),
				"bufk": c14I(m, "bufsize") / 1024, "timeout": c14I(m, "timeout"), "compress": c14I(m, "compress"),
				"binary": c14B(m, "binary"), "proto": c14I(m, "protocol"), "junk": c14B(m, "tmux_output_junk"),
				"width": c14I(m, "tmux_pane_width"), "newline": c14NL(m)}
		}
		obs["cfgOut"] = abs(co)
		// what a client makes of the relayed configuration: the line goes through the real recvConfig of a fresh
		// client, whose defaults apply to every key the relay left out
		{
			ct := newTransfer(io.Discard, nil, false, nil)
			ct.addReceivedData(append([]byte(nil), cfgOutRaw...), false)
			if cc, err := ct.recvConfig(); err == nil {
				out := obs["cfgOut"].(map[string]any)
				out["quiet"], out["overwrite"], out["directory"] = cc.Quiet, cc.Overwrite, cc.Directory
				out["bufk"], out["timeout"], out["compress"] = int(cc.MaxBufSize/1024), cc.Timeout, int(cc.CompressType)
				out["binary"], out["proto"] = cc.Binary, cc.Protocol
				d14ClientViews++
			}
			ct.stopTransferringFiles(false)
		}
		// what the server itself sent (its transferConfig mirrors the CFG it wrote)
		sc := st.transferConfig
		obs["cfgIn"] = map[string]any{"quiet": sc.Quiet, "overwrite": sc.Overwrite, "directory": sc.Directory,
			"bufk": int(sc.MaxBufSize / 1024), "timeout": sc.Timeout, "compress": int(sc.CompressType), "binary": sc.Binary,
			"proto": sc.Protocol, "junk": sc.TmuxOutputJunk, "width": int(sc.TmuxPaneColumns), "newline": "absent"}
	}
	<-hsDone
	obs["status"] = int(r.relayStatus.Load())
	st.stopTransferringFiles(false)
	select {
	case <-srvDone:
	case <-time.After(3 * time.Second):
	}
	if conn != nil {
		conn.Close()
		peer.Close()
	}
	return obs, nil
}

func c14Matrix(d *vCtx) error {
	cases, err := vReadNDJSON(d.pStr("cases", d.path("cases.ndjson")))
	if err != nil {
		return err
	}
	devnull, _ := os.OpenFile(os.DevNull, os.O_WRONLY, 0)
	os.Stdout = devnull
	tr, err := vNewTrace(d.path("trace.ndjson"))
	if err != nil {
		return err
	}
	var wg sync.WaitGroup
	sem := make(chan struct{}, 64)
	var mu sync.Mutex
	nerr := 0
	for i, m := range cases {
		b, _ := json.Marshal(m)
		var c c14Case
		if err := json.Unmarshal(b, &c); err != nil {
			return err
		}
		wg.Add(1)
		sem <- struct{}{}
		go func(i int, c c14Case) {
			defer wg.Done()
			defer func() { <-sem }()
			obs, err := c14RunCase(&c)
			if err != nil {
				mu.Lock()
				nerr++
				mu.Unlock()
				tr.Emit(map[string]any{"e": "hs", "id": i, "ok": false, "err": err.Error(), "act": c.Act, "args": c.Args, "relay": c.Relay,
					"actOut": c.ActOut, "cfgIn": c.CfgIn, "cfgOut": c.CfgOut, "confirm": c14B(c.Act, "confirm")}, nil)
				return
			}
			ev := map[string]any{"e": "hs", "id": i, "ok": true, "err": "", "act": c.Act, "args": c.Args, "relay": c.Relay,
				"actOut": obs["actOut"], "confirm": c14B(c.Act, "confirm")}
			if c14B(c.Act, "confirm") {
				ev["cfgIn"], ev["cfgOut"] = obs["cfgIn"], obs["cfgOut"]
			} else {
				ev["cfgIn"], ev["cfgOut"] = c.CfgIn, c.CfgOut // refused: no configuration is exchanged
			}
			ev["status"] = obs["status"]
			tr.Emit(ev, nil)
		}(i, c)
	}
	wg.Wait()
	d.set("cases", len(cases))
	d.set("errors", nerr)
	return tr.Close()
}

// ---------------------------------------------------------------- recovery sequences

func c14Recover(d *vCtx) error {
	seqs := d.pInt("sequences", 24)
	shards := d.pInt("shards", 24)
	return vShards(d, shards, func(si, n int) error {
		base := e2eShmBase()
		defer os.RemoveAll(base)
		if err := e2eCaptureStdout(d.out); err != nil {
			return err
		}
		_ = os.Unsetenv("TMUX")
		tr, err := vNewTrace(d.path("obs.ndjson"))
		if err != nil {
			return err
		}
		var details []map[string]any
		for sq := si; sq < seqs; sq += n {
			rng := d.rng(int64(sq))
			hops := 1 + sq%2
			chain := newE2ERelayChain(hops)
			endings := []string{"success", "fault", "stop", "refuse", "success"}
			rng.Shuffle(4, func(i, j int) { endings[i], endings[j] = endings[j], endings[i] })
			tr.Emit(map[string]any{"e": "chain", "seq": sq, "hops": hops}, nil)
			for ti := 0; ti < len(endings); ti++ {
				how := endings[ti]
				id := sq*10 + ti
				if strings.HasPrefix(how, "again:") { // second attempt of a success-planned transfer (see below)
					how = "success"
					id = sq*10 + 5 + ti%5
				}
				c := &e2eCase{ID: id, Seed: d.seed*977 + int64(id), NamesFromTops: true, WatchdogMs: 40000}
				c.Opts = e2eOpts{Upload: (sq+ti)%2 == 0, Binary: rng.Intn(2) == 0, Protocol: 4, Timeout: 5, Bufsize: 4096,
					Overwrite: rng.Intn(2) == 0, Directory: rng.Intn(3) == 0}
				c.Nodes = []e2eNode{{Rel: e2eName(0, 0), Size: int64(2000 + rng.Intn(20000)), Kind: rng.Intn(3)}}
				if c.Opts.Directory {
					c.Nodes = []e2eNode{{Rel: "tree/a.txt", Size: 3000}, {Rel: "tree/sub/b.bin", Size: 100, Kind: 1}, {Rel: "tree/empty", Dir: true}}
				}
				c.Bases = make([]string, len(c.Nodes))
				switch how {
				case "refuse": // the server refuses after the action (directory mode, client without support): no configuration
					c.Opts.Directory = true
					c.Opts.NoDirClient = true
					c.Nodes = []e2eNode{{Rel: "tree/a.txt", Size: 3000}, {Rel: "tree/sub/b.bin", Size: 100, Kind: 1}}
					c.Bases = make([]string, len(c.Nodes))
				case "fault":
					c.Plan.Faults = []e2eFault{{Dir: []string{"c2s", "s2c"}[rng.Intn(2)], Off: 400 + rng.Intn(600), Kind: "flip", Val: 0x10}}
				case "stop":
					c.Plan.Stop = &e2eStop{G: 6 + rng.Intn(6), Phase: "after", Role: []string{"C", "V"}[rng.Intn(2)], Delete: false}
				}
				e2eChain, e2eChainUID = chain, (time.Now().UnixMilli()%1e10)*100+int64(id%100)/100*100
				e2eChainUID = (time.Now().UnixMilli()%1e9)*1000 + int64(id%10)*100
				res, detail, err := e2eExec(c, e2eWorkDir(base, id), tr, false)
				e2eChain = nil
				if err != nil {
					return err
				}
				flat := func(m map[string]any) map[string]any {
					if m == nil {
						return map[string]any{"present": false, "binary": false, "proto": 0, "tunnel": false, "junk": false, "width": 0,
							"quiet": false, "overwrite": false, "directory": false, "bufsize": 0, "timeout": 0}
					}
					return map[string]any{"present": true, "binary": c14B(m, "binary"), "proto": c14I(m, "protocol"), "tunnel": c14B(m, "tunnel"),
						"junk": c14B(m, "tmux_output_junk"), "width": c14I(m, "tmux_pane_width"), "quiet": c14B(m, "quiet"),
						"overwrite": c14B(m, "overwrite"), "directory": c14B(m, "directory"), "bufsize": c14I(m, "bufsize"), "timeout": c14I(m, "timeout")}
				}
				// give the relays a moment to see the end marker, then probe
				st := chain.statuses()
				for deadline := time.Now().Add(20 * time.Second); time.Now().Before(deadline); st = chain.statuses() {
					all0 := true
					for _, x := range st {
						if x != 0 {
							all0 = false
						}
					}
					if all0 {
						break
					}
					time.Sleep(2 * time.Millisecond)
				}
				// nothing the two ends wrote was lost, duplicated or reordered inside the chain
				consUp, consDown, consDetail := chain.conserved(20 * time.Second)
				up, down := chain.probe(id)
				// a success-planned transfer that ended with the code's own read time-out although the chain
				// delivered every line is starvation on a loaded machine, not a result of the relays: it is
				// recorded as such and attempted once more through the same chain
				if how == "success" && !(res.ClientOK && res.ServerOK) && consUp && consDown && len(endings) < 8 &&
					(strings.Contains(res.ClientErr+res.ServerErr, "timeout") || strings.Contains(res.ClientErr+res.ServerErr, "Timeout")) {
					how = "load-timeout"
					endings = append(endings[:ti+1], append([]string{"again:success"}, endings[ti+1:]...)...)
					d.add("load_timeouts_retried", 1)
				}
				tr.Emit(map[string]any{"e": "xfer", "run": id, "seq": sq, "how": how, "hops": hops, "trigger": res.TriggerSeen,
					"consUp": consUp, "consDown": consDown, "consNote": consDetail,
					"ctimeout": strings.Contains(strings.ToLower(res.ClientErr), "timeout"), "cms": int(res.ClientMs),
					"actIn": flat(res.ActSent), "actOut": flat(res.ActAtServer), "cfgIn": flat(res.CfgSent), "cfgOut": flat(res.CfgAtClient),
					"statuses": st, "probeUp": up, "probeDown": down,
					"marked": strings.Contains(res.TriggerShown, "#R")}, nil)
				detail["conservation"] = consDetail
				details = append(details, map[string]any{"case": c, "how": how, "hops": hops, "detail": detail})
				os.RemoveAll(e2eWorkDir(base, id))
				d.add("runs", 1)
			}
			chain.close()
		}
		if err := tr.Close(); err != nil {
			return err
		}
		return vWriteJSON(d.path("details.json"), details)
	})
}
