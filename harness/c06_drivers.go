//go:build verif

package trzsz

// C06 drivers.
//   c06_mbt  replays the behaviours TLC exported from DetectorGen.tla into a real trzszDetector
//            (and, for client-mode cases marked "filter", a real TrzszFilter) and compares with
//            the expectation of the specification after every chunk.
//   c06_tv   generates token-level sessions itself (seeded), runs them on the real code and
//            records one event per chunk for DetectorTrace.tla - TLC is the judge.
// isWindowsEnvironment() is a package global: all runs with win=false are done first (in
// parallel), then SetAffectedByWindows(true) and all runs with win=true, then it is reset.

import (
	"encoding/base64"
	"fmt"
	"math/rand"
	"os"
	"sync"
)

func init() {
	vRegister("c06_mbt", c06MBT)
	vRegister("c06_tv", c06TV)
	vRegister("c06_rerun", c06Rerun)
}

type c06Result struct {
	det    []c06Obs
	mem    []string
	fil    []c06Obs
	filErr error
	rel    []c06Obs
	relErr error
}

// c06RunAll runs every case (detector level; filter level where c.Filter) grouped by win.
func c06RunAll(d *vCtx, cases []*c06Case, workers int) ([]c06Result, error) {
	res := make([]c06Result, len(cases))
	base, err := os.MkdirTemp("", "c06-")
	if err != nil {
		return nil, err
	}
	defer os.RemoveAll(base)
	defer SetAffectedByWindows(false)
	_ = os.Unsetenv("TMUX") // the relay-level runs create real relays: not inside somebody's tmux
	for _, win := range []bool{false, true} {
		SetAffectedByWindows(win)
		var wg sync.WaitGroup
		jobs := make(chan int)
		for w := 0; w < workers; w++ {
			wg.Add(1)
			go func() {
				defer wg.Done()
				for i := range jobs {
					c := cases[i]
					obs, det := c06RunDetector(c)
					res[i].det, res[i].mem = obs, c06MemOrdered(det)
					if c.Role == "relaytmux" && !c.Win && c06NoTun(c) && i%c06RelayEvery == 0 {
						res[i].rel, res[i].relErr = c06RunRelay(c, obs)
					}
					if c.Filter && c.Role == "client" {
						dir := fmt.Sprintf("%s/f%d", base, i)
						res[i].fil, res[i].filErr = c06RunFilter(c, dir, i%2 == 1)
						os.RemoveAll(dir)
					}
				}
			}()
		}
		for i, c := range cases {
			if c.Win == win {
				jobs <- i
			}
		}
		close(jobs)
		wg.Wait()
	}
	return res, nil
}

// ---------------------------------------------------------------- MBT

func c06MBT(d *vCtx) error {
	raw, err := vReadNDJSON(d.pStr("cases", d.path("cases.ndjson")))
	if err != nil {
		return err
	}
	cases := make([]*c06Case, len(raw))
	for i, m := range raw {
		cases[i] = c06ParseCase(m)
		c06Concretise(cases[i], d.rng(int64(c06Int(m, "stream", 1000+i))))
	}
	res, err := c06RunAll(d, cases, d.pInt("workers", 16))
	if err != nil {
		return err
	}
	type mism struct {
		Case  int            `json:"case"`
		Step  int            `json:"step"`
		Level string         `json:"level"`
		What  string         `json:"what"`
		Role  string         `json:"role"`
		Win   bool           `json:"win"`
		Why   string         `json:"why"`
		Want  map[string]any `json:"want"`
		Got   map[string]any `json:"got"`
		Raw   string         `json:"raw"`
		Out   string         `json:"out"`
	}
	var mismatches []mism
	drift, filterSteps, detSteps, filterCases, fired := 0, 0, 0, 0, 0
	relayCases := 0
	var sample map[string]any
	for ci, c := range cases {
		check := func(level string, obs []c06Obs) {
			for si := range obs {
				st, o := &c.Steps[si], &obs[si]
				w := st.Want
				wantFired, _ := w["fired"].(bool)
				bad := func(what string) {
					mismatches = append(mismatches, mism{ci, si, level, what, c.Role, c.Win, c06Str(w, "why"),
						map[string]any{"fired": wantFired, "mode": w["mode"], "ver": w["ver"], "ts": w["ts"], "sfx": w["sfx"], "port": w["port"]},
						c06ChunkEvent(level, st, o), base64.StdEncoding.EncodeToString(st.Raw), base64.StdEncoding.EncodeToString(o.Out)})
				}
				if o.Fired != wantFired {
					bad("fired")
					return // the histories diverge from here on
				}
				if wantFired {
					fired++
					ts, ok := c.tsRev[o.Ts]
					if len(o.Ts) == 13 && len(o.Sfx) == 2 { // d15: "91" + base
						ts, ok = c.tsRev[o.Ts[2:]]
					}
					wantTs := c06Int(w, "ts", 0)
					last := c06LastTrig(st)
					if o.Mode != c06Str(w, "mode") || c.verRev[o.Ver] != c06Str(w, "ver") || o.Port != c06Int(w, "port", 0) {
						bad("fields")
					} else if last != nil && (last.Shape == "none" || last.Shape == "short" || last.Shape == "p11") {
						if o.Ts != last.Ts || o.Sfx != "" {
							bad("id")
						}
					} else if !ok || ts != wantTs || o.Sfx != c06Str(w, "sfx") {
						bad("id")
					}
					if c.Role == "client" && o.Refire {
						bad("shown-form-not-inert")
					}
					if c.Role != "client" {
						if !o.RMark {
							bad("relay-mark-missing")
						}
						if !o.Refire {
							bad("relay-form-not-recognised")
						} else if o.RMode != o.Mode || o.RVer != o.Ver || o.RPort != o.Port {
							bad("relay-form-fields")
						} else if o.RTs != o.Ts || o.RSfx != o.Sfx {
							bad("relay-form-id")
						}
					}
				} else if o.Shown != "same" && !(c.Role == "relaytmux" && o.Shown == "retag") {
					bad("not-transparent")
				}
				if level == "filter" {
					filterSteps++
					wantActs := 0
					if wantFired {
						wantActs = 1
					}
					if o.Acts != wantActs {
						bad("transfers-started")
					} else if wantFired {
						m := c06Str(w, "mode")
						if !(o.OMode == m || (o.OMode == "RD" && (m == "R" || m == "D"))) {
							bad("transfer-mode")
						}
						if o.OMode != "R" && o.Proto2 != (c06Str(w, "ver") == "p2") {
							bad("transfer-version")
						}
						if (st.Tun && o.TPort != c06Int(w, "port", 0)) || (!st.Tun && o.TPort != -2) {
							bad("tunnel-port")
						}
						if st.Tun && o.Hello != "" && o.Hello != o.Ts {
							bad("tunnel-greeting-id")
						}
					}
				} else {
					detSteps++
					if o.MemLen != c06Int(w, "memlen", -1) {
						drift++
					}
				}
				if sample == nil && wantFired && level == "filter" {
					sample = map[string]any{"case": ci, "step": si, "chunk": string(st.Raw), "event": c06ChunkEvent(level, st, o)}
				}
			}
		}
		check("det", res[ci].det)
		if len(res[ci].mem) != len(c.WantMem) {
			drift++
		}
		if res[ci].fil != nil || res[ci].filErr != nil {
			filterCases++
			if res[ci].filErr != nil {
				return fmt.Errorf("case %d: %v", ci, res[ci].filErr)
			}
			check("filter", res[ci].fil)
		}
		if res[ci].rel != nil || res[ci].relErr != nil {
			relayCases++
			if res[ci].relErr != nil {
				return fmt.Errorf("case %d: %v", ci, res[ci].relErr)
			}
			check("relay", res[ci].rel)
		}
	}
	d.set("relay_cases", relayCases)
	d.set("replayed", len(cases))
	d.set("det_steps", detSteps)
	d.set("filter_cases", filterCases)
	d.set("filter_steps", filterSteps)
	d.set("fired_steps", fired)
	d.set("mismatches", len(mismatches))
	d.set("memory_drift", drift)
	d.set("sample", sample)
	return vWriteJSON(d.path("mismatches.json"), mismatches)
}

func c06LastTrig(st *c06Step) *c06Tok {
	for i := len(st.Toks) - 1; i >= 0; i-- {
		t := &st.Toks[i]
		if t.T == "trig" {
			return t
		}
		if t.T == "part" && (t.K == "marker" || t.K == "mode" || t.K == "ver2" || t.K == "badmode") {
			return nil
		}
	}
	return nil
}

// ---------------------------------------------------------------- TV: own generator

var c06Shapes = []string{"none", "short", "s00", "s10", "s20", "d15"}
var c06VerClasses = []string{"zero", "p2", "new", "max"}
var c06PartKinds = []string{"inmarker", "marker", "mode", "ver2", "badmode", "gover", "lower"}
var c06Markers = []string{"Saved", "Cancelled", "Stopped", "Interrupted", "CFG"}

func c06GenTrig(rng *rand.Rand, tsPool int, shapes []string) c06Tok {
	t := c06Tok{T: "trig", Mode: string(c06Modes[rng.Intn(3)]), VerAbs: c06VerClasses[rng.Intn(4)], Port: -1}
	t.Shape = shapes[rng.Intn(len(shapes))]
	switch t.Shape {
	case "s00":
		t.Sfx = "00"
	case "s10":
		t.Sfx = "10"
	case "s20":
		t.Sfx = "20"
	case "d15":
		t.Sfx = []string{"10", "20"}[rng.Intn(2)]
	}
	if t.Shape != "none" && t.Shape != "short" {
		t.TsAbs = 1 + rng.Intn(tsPool)
	}
	if t.Shape != "none" {
		switch rng.Intn(5) {
		case 0:
			t.Port = 0
		case 1:
			t.Port = 65535
		case 2, 3:
			t.Port = 1 + rng.Intn(65535)
		}
	}
	return t
}

func c06IsOcc(t *c06Tok) bool {
	return t.T == "trig" || (t.T == "part" && (t.K == "marker" || t.K == "mode" || t.K == "ver2" || t.K == "badmode"))
}

// c06MakeDecided removes the inputs on which the property does not decide (see DetectorGen.Decided)
// and the "lookahead" class, which is generated deliberately elsewhere.
func c06MakeDecided(st *c06Step) {
	last := -1
	for i := range st.Toks {
		if c06IsOcc(&st.Toks[i]) {
			last = i
		}
	}
	if last < 0 || st.Toks[last].T != "trig" {
		return
	}
	lt := &st.Toks[last]
	if (st.Ctl == "out" || st.Ctl == "ext") && st.Tun && lt.Port == 0 {
		lt.Port = 65535
	}
	if lt.Shape == "none" || lt.Shape == "short" {
		for j := last + 1; j < len(st.Toks); j++ {
			if st.Toks[j].T == "fin" {
				st.Toks[j].Place = "far"
			}
		}
	}
}

func c06GenStep(rng *rand.Rand, tsPool int) c06Step {
	st := c06Step{Ctl: "none", Tun: rng.Intn(3) == 0}
	switch rng.Intn(10) {
	case 0:
		st.Ctl = "out"
	case 1:
		st.Ctl = "ext"
	case 2:
		st.Ctl = "fake"
	}
	if st.Ctl == "out" || st.Ctl == "ext" {
		st.Tun = rng.Intn(2) == 0
	}
	n := 1 + rng.Intn(4)
	for i := 0; i < n; i++ {
		switch r := rng.Intn(20); {
		case r < 10:
			st.Toks = append(st.Toks, c06GenTrig(rng, tsPool, c06Shapes))
		case r < 13:
			st.Toks = append(st.Toks, c06Tok{T: "junk"})
		case r < 17:
			st.Toks = append(st.Toks, c06Tok{T: "part", K: c06PartKinds[rng.Intn(len(c06PartKinds))]})
		default:
			st.Toks = append(st.Toks, c06Tok{T: "fin", Marker: c06Markers[rng.Intn(5)], Place: []string{"near", "far"}[rng.Intn(2)]})
		}
	}
	c06MakeDecided(&st)
	return st
}

var c06Roles = []string{"client", "relay", "relaytmux"}

func c06TV(d *vCtx) error {
	shards := d.pInt("shards", 16)
	nshort := d.pInt("sessions", 1500)
	nlong := d.pInt("long", 6)
	longLen := d.pInt("longlen", 210)
	nfilter := d.pInt("filter_sessions", 120)
	nfilterLong := d.pInt("filter_long", 1)
	nlook := d.pInt("lookahead", 24)
	rng := d.rng(6)
	var cases []*c06Case
	// short sessions: every role, both switch values, ids from a small pool (frequent replays)
	for i := 0; i < nshort; i++ {
		c := &c06Case{Role: c06Roles[i%3], Win: (i/3)%2 == 1, Filter: false}
		if i < nfilter*3 && i%3 == 0 {
			c.Filter = true
		}
		for k, n := 0, 1+rng.Intn(8); k < n; k++ {
			c.Steps = append(c.Steps, c06GenStep(rng, 3))
		}
		cases = append(cases, c)
	}
	// long histories: single triggers with tmux/Windows ids, crossing the pruning threshold twice
	for i := 0; i < nlong; i++ {
		c := &c06Case{Role: c06Roles[i%3], Win: (i/3)%2 == 1, Filter: i%3 == 0 && i/3 < nfilterLong}
		for k := 0; k < longLen; k++ {
			st := c06Step{Ctl: "none"}
			t := c06GenTrig(rng, 170, []string{"s10", "s20", "s10", "s20", "s00", "d15"})
			if c.Filter {
				t.Mode = "R" // uploads settle fastest
			}
			if k > 20 && rng.Intn(4) == 0 { // replay of a recent one
				back := 1 + rng.Intn(60)
				if back > k {
					back = k
				}
				prev := c.Steps[k-back].Toks[len(c.Steps[k-back].Toks)-1]
				t.Shape, t.Sfx, t.TsAbs = prev.Shape, prev.Sfx, prev.TsAbs
			}
			if rng.Intn(10) == 0 {
				st.Toks = append(st.Toks, c06Tok{T: "junk"})
			}
			st.Toks = append(st.Toks, t)
			c.Steps = append(c.Steps, st)
		}
		cases = append(cases, c)
	}
	nmain := len(cases)
	// class "lookahead": a finished-marker right behind a trigger line with absent / short id
	for i := 0; i < nlook; i++ {
		c := &c06Case{Role: c06Roles[i%3], Win: false, Class: "lookahead"}
		t := c06GenTrig(rng, 3, []string{"none", "short"})
		if t.Port > 9 {
			t.Port = rng.Intn(10) // keep the line shorter than the look-ahead
		}
		t.VerAbs = []string{"zero", "p2", "new"}[rng.Intn(3)]
		st := c06Step{Ctl: "none", Toks: []c06Tok{t, {T: "fin", Marker: c06Markers[i%5], Place: "near"}}}
		if i >= 6 && rng.Intn(2) == 0 {
			st.Toks = append([]c06Tok{{T: "junk"}}, st.Toks...)
		}
		c.Steps = []c06Step{st}
		cases = append(cases, c)
	}
	for i, c := range cases {
		c06Concretise(c, d.rng(int64(5000+i)))
	}
	res, err := c06RunAll(d, cases, d.pInt("workers", 16))
	if err != nil {
		return err
	}
	files := make([]*vTrace, shards+1)
	raws := make([]*vTrace, shards+1)
	for i := range files {
		name := fmt.Sprintf("trace-%02d.ndjson", i)
		if i == shards {
			name = "trace-lookahead.ndjson"
		}
		if files[i], err = vNewTrace(d.path(name)); err != nil {
			return err
		}
		if raws[i], err = vNewTrace(d.path("raw-" + name)); err != nil {
			return err
		}
	}
	runs, filterRuns, chunks, filterChunks, fired := 0, 0, 0, 0, 0
	emit := func(k int, c *c06Case, level string, obs []c06Obs) {
		files[k].Emit(map[string]any{"e": "reset", "role": c.Role, "win": c.Win}, nil)
		raws[k].Emit(map[string]any{}, nil)
		for si := range obs {
			files[k].Emit(c06ChunkEvent(level, &c.Steps[si], &obs[si]), nil)
			raws[k].Emit(map[string]any{"raw": base64.StdEncoding.EncodeToString(c.Steps[si].Raw),
				"out": base64.StdEncoding.EncodeToString(obs[si].Out)}, nil)
			if obs[si].Fired {
				fired++
			}
		}
	}
	for i, c := range cases {
		k := i % shards
		if i >= nmain {
			k = shards
		}
		emit(k, c, "det", res[i].det)
		runs++
		chunks += len(res[i].det)
		if res[i].filErr != nil {
			return fmt.Errorf("session %d: %v", i, res[i].filErr)
		}
		if res[i].fil != nil {
			emit(k, c, "filter", res[i].fil)
			filterRuns++
			filterChunks += len(res[i].fil)
		}
	}
	events := 0
	for i := range files {
		events += files[i].Len()
		if err := files[i].Close(); err != nil {
			return err
		}
		if err := raws[i].Close(); err != nil {
			return err
		}
	}
	d.set("runs", runs+filterRuns)
	d.set("detector_runs", runs)
	d.set("filter_runs", filterRuns)
	d.set("chunks", chunks)
	d.set("filter_chunks", filterChunks)
	d.set("fired", fired)
	d.set("events", events)
	d.set("shards", shards)
	d.set("long_histories", nlong)
	d.set("lookahead_sessions", nlook)
	return nil
}

// c06Rerun feeds recorded sessions (exact bytes) to the current tree again and records a
// trace for DetectorTrace (used by ./check C06 --replay for trace-validation findings).
func c06Rerun(d *vCtx) error {
	raw, err := vReadNDJSON(d.pStr("cases", d.path("cases.ndjson")))
	if err != nil {
		return err
	}
	cases := make([]*c06Case, len(raw))
	levels := make([]string, len(raw))
	for i, m := range raw {
		cases[i] = c06ParseCase(m)
		levels[i] = c06Str(m, "level")
		cases[i].Filter = levels[i] == "filter"
		c06Concretise(cases[i], d.rng(int64(9000+i)))
	}
	res, err := c06RunAll(d, cases, 4)
	if err != nil {
		return err
	}
	tr, err := vNewTrace(d.path("trace-rerun.ndjson"))
	if err != nil {
		return err
	}
	for i, c := range cases {
		obs := res[i].det
		if levels[i] == "filter" {
			if res[i].filErr != nil {
				return res[i].filErr
			}
			obs = res[i].fil
		}
		tr.Emit(map[string]any{"e": "reset", "role": c.Role, "win": c.Win}, nil)
		for si := range obs {
			tr.Emit(c06ChunkEvent(levels[i], &c.Steps[si], &obs[si]), nil)
		}
	}
	d.set("events", tr.Len())
	return tr.Close()
}

// c06RelayEvery: every n-th eligible session also runs through a real relay's output pump
var c06RelayEvery = 7

func c06NoTun(c *c06Case) bool {
	for _, st := range c.Steps {
		if st.Tun {
			return false
		}
	}
	return true
}
