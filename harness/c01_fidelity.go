//go:build verif

package trzsz

// C01 driver: fault-free end-to-end transfers over the configuration matrix, recorded for
// TransferObs.tla (observables) and TransferTrace.tla (message level).

import (
	"runtime/debug"
	"bytes"
	"fmt"
	"io"
	"math/rand"
	"os"
	"os/exec"
	"path/filepath"
	"strconv"
	"strings"
	"syscall"
	"time"
)

func init() {
	vRegister("c01_e2e", c01E2E)
	vRegister("c01_nofile", c01Nofile)
	vRegister("c01_resume", c01Resume)
	vRegister("c01_process", c01Process)
}

var c01Sizes = []int64{0, 1, 511, 512, 513, 1023, 1024, 1025, 4096, 70000, 128*1024 - 1, 128 * 1024, 128*1024 + 1, 300000, 1 << 20}

// c01Tree draws a source tree shape.
func c01Tree(r *rand.Rand, directory bool, overwrite bool, big bool) ([]e2eNode, []string) {
	var nodes []e2eNode
	var bases []string
	size := func() int64 {
		s := c01Sizes[r.Intn(len(c01Sizes))]
		if big && r.Intn(3) == 0 {
			s = int64(2<<20 + r.Intn(3<<20))
		}
		return s
	}
	add := func(rel string, dir bool, base string) {
		n := e2eNode{Rel: rel, Dir: dir, Kind: r.Intn(3)}
		if !dir {
			n.Size = size()
		}
		nodes = append(nodes, n)
		bases = append(bases, base)
	}
	if !directory {
		k := 1 + r.Intn(3)
		for i := 0; i < k; i++ {
			add(e2eName(r.Intn(11), i), false, "")
		}
		if !overwrite && r.Intn(3) == 0 { // same base name twice, from another parent directory
			add(nodes[0].Rel, false, "other")
		}
		return nodes, bases
	}
	switch r.Intn(5) {
	case 0: // single file in directory mode
		add(e2eName(r.Intn(11), 0), false, "")
	case 1: // empty directory
		add("emptydir", true, "")
	case 2: // nested
		add("top", true, "")
		add("top/a.txt", false, "")
		add("top/sub", true, "")
		add("top/sub/"+e2eName(r.Intn(11), 1), false, "")
		add("top/sub/deeper/leaf", true, "")
		add("top/empty.bin", false, "")
		nodes[len(nodes)-1].Size = 0
	case 3: // several top-level paths, a directory and files
		add("d1", true, "")
		add("d1/x", false, "")
		add(e2eName(r.Intn(11), 2), false, "")
		add("d2", true, "")
		add("d2/y/z", false, "")
	default: // same base name twice
		add("same", true, "")
		add("same/one", false, "")
		if !overwrite {
			add("same", true, "other")
			add("same/two", false, "other")
		}
	}
	return nodes, bases
}

func c01Case(id int, seed int64, big bool) *e2eCase {
	r := rand.New(rand.NewSource(seed*1000003 + int64(id)))
	o := e2eOpts{}
	o.Upload = id%2 == 0
	o.Binary = (id/2)%2 == 0
	switch (id / 4) % 6 {
	case 0, 5:
		o.Protocol = 4
	case 1:
		o.Protocol = 1
	case 2:
		o.Protocol = 2
	case 3:
		o.Protocol = 3
	case 4:
		o.Protocol = 4
		o.OldServer = true
	}
	o.Escape = o.Binary && r.Intn(2) == 0
	o.Compress = r.Intn(3)
	o.Overwrite = r.Intn(2) == 0
	o.Directory = r.Intn(2) == 0
	o.Windows = r.Intn(8) == 0
	o.Bufsize = []int64{1024, 4096, 65536, 1 << 20, 10 << 20}[r.Intn(5)]
	o.MaxChunk = []int{0, 1, 7, 64, 1000, 65536}[r.Intn(6)]
	o.Timeout = 20
	o.Progress = r.Intn(3) == 0
	o.TmuxJunk = false
	nodes, bases := c01Tree(r, o.Directory, o.Overwrite, big)
	if o.MaxChunk == 1 { // byte-wise delivery: keep the volume small
		for i := range nodes {
			if nodes[i].Size > 5000 {
				nodes[i].Size = int64(r.Intn(5000))
			}
		}
	}
	return &e2eCase{ID: id, Seed: seed*31 + int64(id), Opts: o, Nodes: nodes, Bases: bases}
}

func c01E2E(d *vCtx) error {
	total := d.pInt("runs", 320)
	shards := d.pInt("shards", 48)
	big := d.pBool("big", false)
	lines := d.pBool("lines", true)
	return vShards(d, shards, func(i, n int) error {
		base := e2eShmBase()
		defer os.RemoveAll(base)
		if err := e2eCaptureStdout(d.out); err != nil {
			return err
		}
		tr, err := vNewTrace(d.path("obs.ndjson"))
		if err != nil {
			return err
		}
		var details []map[string]any
		for id := i; id < total; id += n {
			if id <= vResumeAfter() {
				continue
			}
			c := c01Case(id, d.seed, big)
			work := e2eWorkDir(base, id)
			_, detail, err := e2eExec(c, work, tr, lines)
			if err != nil {
				return err
			}
			detail["case"] = c
			details = append(details, detail)
			os.RemoveAll(work)
			d.add("runs", 1)
			if e2eTainted {
				vRequestRestart(d, id)
				break
			}
		}
		if err := tr.Close(); err != nil {
			return err
		}
		return vWriteJSON(d.path("details.json"), details)
	})
}

// c01Nofile: more files in one transfer than the process may hold open at once.  The soft
// RLIMIT_NOFILE of this (child) process is lowered; client and server share the table.
func c01Nofile(d *vCtx) error {
	limit := uint64(d.pInt("limit", 96))
	nfiles := d.pInt("files", 220)
	var rl syscall.Rlimit
	if err := syscall.Getrlimit(syscall.RLIMIT_NOFILE, &rl); err != nil {
		return err
	}
	rl.Cur = limit
	if err := syscall.Setrlimit(syscall.RLIMIT_NOFILE, &rl); err != nil {
		return err
	}
	base := e2eShmBase()
	defer os.RemoveAll(base)
	if err := e2eCaptureStdout(d.out); err != nil {
		return err
	}
	tr, err := vNewTrace(d.path("obs.ndjson"))
	if err != nil {
		return err
	}
	// a descriptor that is only released by a finaliser is a leak: the collector must not hide it
	defer debug.SetGCPercent(debug.SetGCPercent(-1))
	var details []map[string]any
	id := 900000
	for _, upload := range []bool{true, false} {
		// 0/1: overwrite, single files / one directory; 2: no overwrite, one directory (sent as one archive
		// stream by protocol 4) in which two entries in three are empty files
		for variant := 0; variant < 3; variant++ {
			dirmode := variant >= 1
			c := &e2eCase{ID: id, Seed: d.seed + int64(id)}
			c.Opts = e2eOpts{Upload: upload, Directory: dirmode, Overwrite: variant < 2, Protocol: 4, Timeout: 20, Bufsize: 1 << 20}
			for i := 0; i < nfiles; i++ {
				rel := fmt.Sprintf("f%03d", i)
				if dirmode {
					rel = "many/" + rel
				}
				if variant == 2 && i%3 != 0 {
					c.Nodes = append(c.Nodes, e2eNode{Rel: rel, Size: 0, Kind: i % 3})
					c.Bases = append(c.Bases, "")
					continue
				}
				c.Nodes = append(c.Nodes, e2eNode{Rel: rel, Size: int64(10 + i), Kind: i % 3})
				c.Bases = append(c.Bases, "")
			}
			_, detail, err := e2eExec(c, e2eWorkDir(base, id), tr, false)
			if err != nil {
				return err
			}
			detail["case"] = c
			details = append(details, detail)
			d.add("runs", 1)
			id++
		}
	}
	if err := tr.Close(); err != nil {
		return err
	}
	return vWriteJSON(d.path("details.json"), details)
}

// c01Resume: overwrite (-y) onto existing destination files of the same names (the prefix-hash
// exchange of protocol 3/4, truncate-and-rewrite of protocol 2): a fault-free transfer must
// still complete successfully and reproduce the sources, whatever was there.
func c01Resume(d *vCtx) error {
	base := e2eShmBase()
	defer os.RemoveAll(base)
	if err := e2eCaptureStdout(d.out); err != nil {
		return err
	}
	tr, err := vNewTrace(d.path("obs.ndjson"))
	if err != nil {
		return err
	}
	var details []map[string]any
	id := 910000
	pairs := [][2]int64{{0, 1}, {0, 5000}, {1, 1}, {5000, 3000}, {3000, 5000}, {4096, 4096}, {1, 0},
		// the old file is the beginning of the new one (an interrupted earlier transfer): resumed, with
		// enough left (>= 128 KiB) for the compression probe of "auto"
		{-400000, 150000}, {-300000, 299000}}
	for _, upload := range []bool{true, false} {
		for _, proto := range []int{2, 3, 4} {
			for pi, pr := range pairs {
				c := &e2eCase{ID: id, Seed: d.seed + int64(id), NamesFromTops: true, WatchdogMs: 40000}
				c.Opts = e2eOpts{Upload: upload, Overwrite: true, Protocol: proto, Timeout: 10, Bufsize: 1 << 20, Binary: pi%2 == 0}
				like := 0
				if pr[0] < 0 { // negative source size: the pre-existing file is a prefix of the source
					pr[0], like = -pr[0], 1
				}
				c.Nodes = []e2eNode{{Rel: "same.bin", Size: pr[0], Kind: 1}, {Rel: "other.txt", Size: 700, Kind: 0}}
				c.Bases = []string{"", ""}
				c.Pre = []e2eNode{{Rel: "same.bin", Size: pr[1], Kind: 2, Like: like}, {Rel: "untouched.dat", Size: 300, Kind: 1}}
				_, detail, err := e2eExec(c, e2eWorkDir(base, id), tr, false)
				if err != nil {
					return err
				}
				detail["case"] = c
				details = append(details, detail)
				os.RemoveAll(e2eWorkDir(base, id))
				d.add("runs", 1)
				id++
			}
		}
	}
	if err := tr.Close(); err != nil {
		return err
	}
	return vWriteJSON(d.path("details.json"), details)
}

// c01Process: the real trz / tsz binaries (built from the working tree by the check) under a real
// NewTrzszFilter with its pumps: trigger printed by the server process, detected by the filter,
// handleTrzsz started by the pump, input wrapped by wrapTransferInput in the server process.
func c01Process(d *vCtx) error {
	bin := d.pStr("bindir", "")
	runs := d.pInt("runs", 12)
	shards := d.pInt("shards", 12)
	return vShards(d, shards, func(si, n int) error {
		base := e2eShmBase()
		defer os.RemoveAll(base)
		tr, err := vNewTrace(d.path("obs.ndjson"))
		if err != nil {
			return err
		}
		var details []map[string]any
		for id := si; id < runs; id += n {
			rid := 920000 + id
			r := d.rng(int64(rid))
			upload := id%2 == 0
			binary := (id/2)%2 == 0
			directory := (id/4)%2 == 0
			overwrite := r.Intn(2) == 0
			work := e2eWorkDir(base, rid)
			srcRoot, dst := filepath.Join(work, "src"), filepath.Join(work, "dst")
			_ = os.MkdirAll(dst, 0755)
			nodes, _ := c01Tree(r, directory, overwrite, false)
			tops, err := e2eMakeTree(srcRoot, nodes, d.seed+int64(rid))
			if err != nil {
				return err
			}
			e2eSrcCache = map[string]map[string]e2eEntry{}
			for _, t := range tops {
				if s := e2eSourceSnapshot(t); s != nil {
					e2eSrcCache[t] = s
				}
			}
			var args []string
			if binary {
				args = append(args, "-b")
			}
			if directory {
				args = append(args, "-d")
			}
			if overwrite {
				args = append(args, "-y")
			}
			args = append(args, "-t", "20", "-B", []string{"1K", "64K", "10M"}[r.Intn(3)])
			var cmd *exec.Cmd
			if upload {
				cmd = exec.Command(filepath.Join(bin, "trz"), append(args, dst)...)
			} else {
				cmd = exec.Command(filepath.Join(bin, "tsz"), append(args, tops...)...)
			}
			cmd.Env = append(os.Environ(), "TMUX=", "TERM=xterm")
			cmd.Env = e2eDropEnv(cmd.Env, "TMUX")
			stdin, _ := cmd.StdinPipe()
			// our own pipe: cmd.Wait closes a StdoutPipe as soon as the process exits and whatever the
			// filter's pump had not read yet (the final "Received ..." lines) would be lost
			pr, pw, perr := os.Pipe()
			if perr != nil {
				return perr
			}
			cmd.Stdout = pw
			stdout := &e2eEOFReader{r: pr, eof: make(chan struct{})}
			var stderr bytes.Buffer
			cmd.Stderr = &stderr
			clientIn := &e2eChanReader{ch: make(chan []byte)}
			sink := &e2eSink{}
			// a client affected by Windows ("!\n" framing wanted, no binary) in front of the non-Windows server
			// process, and zero, one or two relays (in this process) between them
			win := (id/8)%2 == 1
			hops := (id / 16) % 3
			SetAffectedByWindows(win)
			_ = os.Unsetenv("TMUX") // the relays must not believe that they sit inside somebody's tmux
			var srvIn io.WriteCloser = stdin
			var srvOut io.Reader = stdout
			for hp := 0; hp < hops; hp++ {
				upR, upW := io.Pipe()     // towards the server: filter / outer relay -> this relay
				downR, downW := io.Pipe() // towards the client: this relay -> filter / outer relay
				NewTrzszRelay(upR, downW, srvIn, srvOut, TrzszOptions{})
				srvIn, srvOut = upW, downR
			}
			f := NewTrzszFilter(clientIn, sink, srvIn, srvOut, TrzszOptions{TerminalColumns: 100})
			var upRes <-chan error
			if upload {
				upRes, err = f.OneTimeUpload(tops)
				if err != nil {
					return err
				}
			} else {
				f.SetDefaultDownloadPath(dst)
			}
			// the server process starts only now: its trigger must not arrive before the one-time
			// upload is armed (the filter would open the file chooser instead)
			if err := cmd.Start(); err != nil {
				return err
			}
			_ = pw.Close()
			t0 := time.Now()
			done := make(chan error, 1)
			go func() { done <- cmd.Wait() }()
			var werr error
			hung := false
			select {
			case werr = <-done:
			case <-time.After(60 * time.Second):
				hung = true
				_ = cmd.Process.Kill()
			}
			// everything the server process wrote has passed the filter, and the client side is done
			select {
			case <-stdout.eof:
			case <-time.After(10 * time.Second):
			}
			for dl := time.Now().Add(10 * time.Second); f.IsTransferringFiles() && time.Now().Before(dl); {
				time.Sleep(2 * time.Millisecond)
			}
			// the server's last words travel on through the relays and the filter's output pump
			for dl := time.Now().Add(8 * time.Second); !hung && !e2eSavedRe.MatchString(sink.String()) && time.Now().Before(dl); {
				time.Sleep(2 * time.Millisecond)
			}
			time.Sleep(5 * time.Millisecond)
			_ = pr.Close()
			cok := false
			cerrText := ""
			if upload {
				select {
				case e := <-upRes:
					cok = e == nil
					if e != nil {
						cerrText = e2eFirstLine(e.Error())
					}
				case <-time.After(2 * time.Second):
					cerrText = "no upload result"
				}
			} else {
				cok = strings.Contains(sink.String(), "Saved")
			}
			shownText := sink.String()
			names, shownOK := e2eParseSaved(shownText)
			entries, allSame, extra := e2eCompare(tops, names, dst, map[string]e2eEntry{})
			nsame := 0
			for _, e := range entries {
				if e["got"] == "same" {
					nsame++
				}
			}
			res := func(b bool) string {
				if b {
					return "ok"
				}
				return "fail"
			}
			tr.Emit(map[string]any{"e": "reset", "run": rid, "upload": upload, "proto": 4, "binary": binary, "overwrite": overwrite,
				"directory": directory, "windows": false, "nfaults": 0, "stop": "none", "stopdel": false, "pause": false, "silence": false,
				"timeout": 20, "fkind": "none", "prehs": false, "files": []any{}}, nil)
			tr.Emit(map[string]any{"e": "ret", "run": rid, "role": "C", "res": res(cok), "hung": false, "ms": time.Since(t0).Milliseconds(),
				"since": -1, "told": false, "msg": "", "claims": c01Claims(!upload, shownOK, len(names), len(tops))}, nil)
			tr.Emit(map[string]any{"e": "ret", "run": rid, "role": "V", "res": res(werr == nil && !hung && shownOK), "hung": hung,
				"ms": time.Since(t0).Milliseconds(), "since": -1, "told": false, "msg": e2eFirstLine(stderr.String()),
				"claims": c01Claims(upload, shownOK, len(names), len(tops))}, nil)
			tr.Emit(map[string]any{"e": "fs", "run": rid, "n": len(entries), "nsame": nsame, "allsame": allSame && len(entries) > 0,
				"extra": len(extra), "touched": 0, "shown": shownOK, "nshown": len(names), "ntops": len(tops), "npresent": 0, "keptok": true,
				"verified": 0, "claimsame": allSame && len(entries) > 0, "mutapplied": false, "vmgrow": 0, "pdata": 0, "pkeep": 0, "dataafter": 0, "pausems": 0, "npauses": 0}, nil)
			details = append(details, map[string]any{"case": map[string]any{"id": rid, "opts": map[string]any{"upload": upload, "binary": binary,
				"directory": directory, "overwrite": overwrite, "windows_client": win, "relay_hops": hops}, "process": true}, "entries": entries, "extra": extra, "shown": names,
				"server_err": e2eFirstLine(stderr.String()), "client_err": cerrText, "terminal": e2eTail(shownText, 700)})
			close(clientIn.ch)
			SetAffectedByWindows(false)
			os.RemoveAll(work)
			d.add("runs", 1)
			if win {
				d.add("windows_client_runs", 1)
			}
			d.add(fmt.Sprintf("relay_hops_%d", hops), 1)
		}
		if err := tr.Close(); err != nil {
			return err
		}
		return vWriteJSON(d.path("details.json"), details)
	})
}


// c01Claims: the number of entries a role's success stands for (see e2eExec).
func c01Claims(receiver, shownOK bool, nshown, ntops int) int {
	if receiver && shownOK {
		return nshown
	}
	return ntops
}

func e2eTail(s string, n int) string {
	if len(s) > n {
		s = s[len(s)-n:]
	}
	return strconv.QuoteToASCII(s)
}
