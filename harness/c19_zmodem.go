//go:build verif

package trzsz

// C19 driver: real NewTrzszFilter(..., TrzszOptions{EnableZmodem: true}) on harness pipes, with
// remote-controlled fake `rz`/`sz` helpers.
//
//   * The fake helper is this test binary itself: a private bin directory holds symlinks `rz`
//     and `sz` to os.Args[0]; when the binary is started under one of those names, init() turns
//     it into a puppet that connects to the unix socket `c19.sock` in its working directory
//     (= the scenario's private directory: the download path / the directory of the upload
//     file), reports everything it reads from stdin and writes/exits on command.  Scenarios
//     therefore run in parallel and the driver decides *when* the helper outputs and exits.
//   * The driver plays the server (chunks fed to the filter's serverOut reader) and the user
//     (chunks fed to clientIn).  The readers hand over one chunk per Read and block (never
//     EOF); "the pump is back in Read" tells the driver that a chunk has been fully handled.
//   * Everything the filter writes to the terminal writer / server writer is classified and
//     recorded at the moment of the write.
//
// Events (ndjson, one recorded run between two `reset` events) consumed by spec/ZmodemTrace.tla:
//   reset{id}                                 new run
//   srv{k,v,st,id}  srvdone{id,disp}          server chunk handed to the pump / pump back in Read
//                                             k: hdr0 hdr1 data fin can cno probe; v: veto none|can|cno
//                                             disp: pass (chunk reached the terminal) | held
//   inp{k,id}       inpdone{id,disp}          user input (ctrlc|text) handed to wrapInput / back in Read
//                                             disp: pass (bytes reached the server writer) | drop
//   tsrv{c,id}                                write to the server: can | cr | oo | hout(id) | other
//   msg{m}                                    message on the terminal: stopped exit0 exitN runfail
//                                             choosefail ctimeout stimeout readerr writeerr other
//   cur{v}                                    hide | show  (cursor escape written to the terminal)
//   hstart{name}    hgone{}                   puppet connected / puppet's socket closed (process gone)
//   hin{c,id}                                 puppet read from stdin: can (bare cancel sequence) | oo |
//                                             chunk(id: token of a forwarded server chunk) | other
//   hout{k,id}      hexit{code}               driver tells the puppet to output data|fin / to exit
//   quiet{long}                               nothing was fed and no event was recorded for
//                                             c19Quiet (long: c19QuietLong), see constants below

import (
	"bufio"
	"bytes"
	"encoding/hex"
	"fmt"
	"net"
	"os"
	"path/filepath"
	"regexp"
	"strconv"
	"strings"
	"sync"
	"time"
)

// Timer constants of trzsz/zmodem.go (the bounds below are derived from them):
//   100 ms   handleZmodemEvent's initial sleep           50 ms  chooseDownloadPath's sleep
//   500 ms   cleanup timer (resetCleanupTimer)          500 ms  ensureClientExit's kill delay
//   20 s     client / server timers
const (
	c19CodeShort = 500 * time.Millisecond // longest of the short delays
	c19CodeLong  = 20 * time.Second       // client/server timers
	c19Slack     = 2 * time.Second        // generous slack for a loaded machine
	c19Quiet     = c19CodeShort + c19Slack
	c19QuietLong = c19CodeLong + c19CodeShort + c19Slack
)

func init() {
	switch filepath.Base(os.Args[0]) {
	case "rz", "sz":
		c19Puppet(filepath.Base(os.Args[0])) // never returns
	}
	vRegister("c19_run", c19Run)
	vRegister("c19_early", c19Early)
}

// ---------------------------------------------------------------- the puppet helper

func c19Puppet(name string) {
	conn, err := net.Dial("unix", "c19.sock")
	if err != nil {
		os.Exit(97)
	}
	var mu sync.Mutex
	send := func(s string) {
		mu.Lock()
		_, _ = conn.Write([]byte(s + "\n"))
		mu.Unlock()
	}
	send("hello " + name + " " + hex.EncodeToString([]byte(strings.Join(os.Args[1:], "\x1f"))))
	go func() {
		buf := make([]byte, 1<<16)
		for {
			n, err := os.Stdin.Read(buf)
			if n > 0 {
				send("in " + hex.EncodeToString(buf[:n]))
			}
			if err != nil {
				send("ineof")
				return
			}
		}
	}()
	sc := bufio.NewScanner(conn)
	sc.Buffer(make([]byte, 1<<16), 1<<22)
	for sc.Scan() {
		f := strings.SplitN(sc.Text(), " ", 2)
		switch f[0] {
		case "out":
			b, _ := hex.DecodeString(f[1])
			_, _ = os.Stdout.Write(b)
		case "exit":
			code, _ := strconv.Atoi(f[1])
			os.Exit(code)
		}
	}
	os.Exit(98) // the driver went away
}

// ---------------------------------------------------------------- harness pipes

// c19Reader hands over exactly one fed chunk per Read and blocks otherwise (never EOF).
type c19Reader struct {
	ch      chan []byte
	mu      sync.Mutex
	cond    *sync.Cond
	entered int
}

func newC19Reader() *c19Reader {
	r := &c19Reader{ch: make(chan []byte)}
	r.cond = sync.NewCond(&r.mu)
	return r
}

func (r *c19Reader) Read(p []byte) (int, error) {
	r.mu.Lock()
	r.entered++
	r.cond.Broadcast()
	r.mu.Unlock()
	b := <-r.ch
	return copy(p, b), nil
}

func (r *c19Reader) waitEntered(n int, d time.Duration) bool {
	deadline := time.Now().Add(d)
	tm := time.AfterFunc(d, func() {
		r.mu.Lock()
		r.cond.Broadcast()
		r.mu.Unlock()
	})
	defer tm.Stop()
	r.mu.Lock()
	defer r.mu.Unlock()
	for r.entered < n {
		if !time.Now().Before(deadline) {
			return false
		}
		r.cond.Wait()
	}
	return true
}

// feed hands b to the pump and waits until the pump is back in Read (chunk fully handled).
func (r *c19Reader) feed(b []byte, d time.Duration) bool {
	r.mu.Lock()
	n0 := r.entered
	r.mu.Unlock()
	select {
	case r.ch <- b:
	case <-time.After(d):
		return false
	}
	return r.waitEntered(n0+1, d)
}

type c19Writer struct {
	s    *c19Scn
	side string
}

func (w *c19Writer) Write(p []byte) (int, error) {
	w.s.onWrite(w.side, p)
	return len(p), nil
}
func (w *c19Writer) Close() error { return nil }

// ---------------------------------------------------------------- one scenario

var (
	c19SrvTok = regexp.MustCompile(`#c19:(\d+);`)
	c19HlpTok = regexp.MustCompile(`#h19:(\d+);`)
	c19InpTok = regexp.MustCompile(`#t19:(\d+);`)
)

type c19Scn struct {
	id   int
	dir  string
	mu   sync.Mutex
	ev   []map[string]any
	last time.Time

	termTok map[int]bool // server chunk tokens seen on the terminal
	inpTok  map[int]bool // input tokens seen at the server
	houtTok map[int]bool // helper output tokens seen at the server
	nCtrlC  int          // bare 0x03 writes seen at the server

	srvR, cliR *c19Reader
	ln         net.Listener
	pupMu      sync.Mutex
	pup        net.Conn
	started    chan struct{}
	gone       chan struct{}
	nextID     int
	sentCtrlC  bool
	sentSrvFin bool
	sentHFin   bool
	hang       string
	skipped    int
}

func (s *c19Scn) emit(ev map[string]any) {
	s.mu.Lock()
	s.ev = append(s.ev, ev)
	s.last = time.Now()
	s.mu.Unlock()
}

func c19MsgClass(t string) string {
	switch {
	case strings.Contains(t, "Transferred "):
		return "" // progress line
	case strings.Contains(t, "client exit with"):
		return "exitN"
	case strings.Contains(t, "Success!!"):
		return "exit0"
	case strings.Contains(t, "client failed: exec") || strings.Contains(t, "run rz client failed") || strings.Contains(t, "run sz client failed"):
		return "runfail"
	case strings.Contains(t, "client timeout"):
		return "ctimeout"
	case strings.Contains(t, "server timeout"):
		return "stimeout"
	case strings.Contains(t, "read from client failed"):
		return "readerr"
	case strings.Contains(t, "write to server failed"):
		return "writeerr"
	case strings.Contains(t, "zenity") || strings.Contains(t, "Open file dialog failed") || strings.Contains(t, "Cancelled"):
		return "choosefail"
	case strings.Contains(t, "Stopped"):
		return "stopped"
	}
	return "other"
}

func (s *c19Scn) onWrite(side string, p []byte) {
	b := append([]byte(nil), p...)
	if side == "term" {
		s.mu.Lock()
		for _, m := range c19SrvTok.FindAllSubmatch(b, -1) {
			n, _ := strconv.Atoi(string(m[1]))
			s.termTok[n] = true
		}
		s.mu.Unlock()
		switch {
		case bytes.Equal(b, []byte("\x1b[?25l")):
			s.emit(map[string]any{"e": "cur", "v": "hide"})
		case bytes.Equal(b, []byte("\x1b[?25h")):
			s.emit(map[string]any{"e": "cur", "v": "show"})
		case bytes.HasPrefix(b, []byte("\r\x1b[2K")):
			if m := c19MsgClass(string(b)); m != "" {
				s.emit(map[string]any{"e": "msg", "m": m})
			}
		}
		return
	}
	// server writer
	switch {
	case bytes.Equal(b, zmodemCancelFullSequence):
		s.emit(map[string]any{"e": "tsrv", "c": "can", "id": 0})
	case bytes.Equal(b, []byte("\r")):
		s.emit(map[string]any{"e": "tsrv", "c": "cr", "id": 0})
	case bytes.Equal(b, zmodemOverAndOut):
		s.emit(map[string]any{"e": "tsrv", "c": "oo", "id": 0})
	case bytes.Equal(b, []byte{3}):
		s.mu.Lock()
		s.nCtrlC++
		s.mu.Unlock()
	case c19InpTok.Match(b):
		s.mu.Lock()
		for _, m := range c19InpTok.FindAllSubmatch(b, -1) {
			n, _ := strconv.Atoi(string(m[1]))
			s.inpTok[n] = true
		}
		s.mu.Unlock()
	case c19HlpTok.Match(b):
		for _, m := range c19HlpTok.FindAllSubmatch(b, -1) {
			n, _ := strconv.Atoi(string(m[1]))
			s.mu.Lock()
			s.houtTok[n] = true
			s.mu.Unlock()
			s.emit(map[string]any{"e": "tsrv", "c": "hout", "id": n})
		}
	default:
		s.emit(map[string]any{"e": "tsrv", "c": "other", "id": 0})
	}
}

func (s *c19Scn) acceptLoop() {
	conn, err := s.ln.Accept()
	if err != nil {
		return
	}
	s.pupMu.Lock()
	s.pup = conn
	s.pupMu.Unlock()
	sc := bufio.NewScanner(conn)
	sc.Buffer(make([]byte, 1<<16), 1<<24)
	for sc.Scan() {
		f := strings.SplitN(sc.Text(), " ", 3)
		switch f[0] {
		case "hello":
			s.emit(map[string]any{"e": "hstart", "name": f[1]})
			close(s.started)
		case "in":
			b, _ := hex.DecodeString(f[1])
			s.classifyHin(b)
		}
	}
	s.emit(map[string]any{"e": "hgone"})
	close(s.gone)
}

// classifyHin splits what the puppet read into forwarded server chunks (payload + token), bare
// cancel sequences (handleZmodemError) and over-and-out, in order of appearance.  Every forwarded
// chunk has a non-empty payload in front of its token, so a cancel sequence / OO in front of a
// token is "bare" only when something is left between it and the token.
func (s *c19Scn) classifyHin(b []byte) {
	bare := [][]byte{zmodemCancelFullSequence, zmodemOverAndOut}
	names := []string{"can", "oo"}
	for len(b) > 0 {
		loc := c19SrvTok.FindSubmatchIndex(b)
		end := len(b)
		if loc != nil {
			end = loc[0]
		}
		pos := 0
	strip:
		for {
			for i, x := range bare {
				if bytes.HasPrefix(b[pos:end], x) && (loc == nil || end-pos > len(x)) {
					s.emit(map[string]any{"e": "hin", "c": names[i], "id": 0})
					pos += len(x)
					continue strip
				}
			}
			break
		}
		if loc == nil {
			if pos < end {
				s.emit(map[string]any{"e": "hin", "c": "other", "id": 0})
			}
			return
		}
		n, _ := strconv.Atoi(string(b[loc[2]:loc[3]]))
		s.emit(map[string]any{"e": "hin", "c": "chunk", "id": n})
		b = b[loc[1]:]
	}
}

func (s *c19Scn) pupSend(line string) bool {
	s.pupMu.Lock()
	c := s.pup
	s.pupMu.Unlock()
	if c == nil {
		return false
	}
	_, err := c.Write([]byte(line + "\n"))
	return err == nil
}

func (s *c19Scn) waitStarted(d time.Duration) bool {
	select {
	case <-s.started:
		return true
	case <-time.After(d):
		return false
	}
}

const c19PumpWait = 15 * time.Second

// waitSessionInit (steering only, reads internals): the filter publishes the session in
// filter.zmodem *before* the goroutine handleZmodemEvent assigns z.serverIn / z.clientOut.  A
// Ctrl-C in between dereferences a nil writer (finding "early Ctrl-C", probed separately and in
// isolation by c19_early).  Ordinary scenarios wait until the session is initialised.
func (s *c19Scn) waitSessionInit(filter *TrzszFilter) {
	deadline := time.Now().Add(5 * time.Second)
	for time.Now().Before(deadline) {
		z := filter.zmodem.Load()
		if z == nil || z.clientOut != nil {
			break
		}
		time.Sleep(200 * time.Microsecond)
	}
	time.Sleep(time.Millisecond)
}

var c19VetoN int

// c19VetoBehind alternates over the vetoed headers of a shard: behind the header, in front of it, ...
func c19VetoBehind() bool {
	c19VetoN++
	return c19VetoN%2 == 1
}

func (s *c19Scn) feedSrv(kind, veto, start string, short bool) {
	cancel := zmodemCancelFullSequence
	if short {
		cancel = zmodemCancelSubSequence // five CAN bytes are enough for the code's detector
	}
	s.nextID++
	id := s.nextID
	tok := fmt.Sprintf("#c19:%d;", id)
	var b []byte
	switch kind {
	case "hdr0": // remote sz announces a download
		b = []byte("rz\r**\x18B00000000000000\r\x8a\x11" + tok)
	case "hdr1": // remote rz waits for an upload
		b = []byte("rz waiting to receive.**\x18B0100000023be50\r\x8a\x11" + tok)
	case "data":
		b = []byte("\x18A\x18B zdata " + tok)
	case "fin":
		b = []byte("**\x18B0800000000022d\r\x8a" + tok)
	case "can":
		b = append(append([]byte(nil), cancel...), tok...)
	case "cno":
		b = []byte("sz: cannot open /nonexistent: No such file or directory\r\n" + tok)
	case "probe":
		b = []byte("\r\nprobe " + tok)
	}
	// the veto stands behind the header or (every other time) in front of it: "alongside", wherever in the read
	switch {
	case veto == "can" && c19VetoBehind():
		b = append(b, cancel...)
	case veto == "can":
		b = append(append([]byte(nil), cancel...), b...)
	case veto == "cno" && c19VetoBehind():
		b = append(b, []byte("\r\nsz: cannot open /nonexistent: No such file or directory\r\n")...)
	case veto == "cno":
		b = append([]byte("sz: cannot open /nonexistent: No such file or directory\r\n"), b...)
	}
	s.emit(map[string]any{"e": "srv", "k": kind, "v": veto, "st": start, "id": id})
	if !s.srvR.feed(b, c19PumpWait) {
		s.hang = "output pump did not return to Read within 15s after " + kind
		return
	}
	s.mu.Lock()
	seen := s.termTok[id]
	s.mu.Unlock()
	disp := "held"
	if seen {
		disp = "pass"
	}
	s.emit(map[string]any{"e": "srvdone", "id": id, "disp": disp})
}

func (s *c19Scn) feedCli(kind string) {
	s.nextID++
	id := s.nextID
	var b []byte
	if kind == "ctrlc" {
		b = []byte{3}
	} else {
		b = []byte(fmt.Sprintf("ls #t19:%d;\r", id))
	}
	s.mu.Lock()
	c0 := s.nCtrlC
	s.mu.Unlock()
	s.emit(map[string]any{"e": "inp", "k": kind, "id": id})
	if !s.cliR.feed(b, c19PumpWait) {
		s.hang = "input pump did not return to Read within 15s after " + kind
		return
	}
	s.mu.Lock()
	seen := s.inpTok[id] || (kind == "ctrlc" && s.nCtrlC > c0)
	s.mu.Unlock()
	disp := "drop"
	if seen {
		disp = "pass"
	}
	s.emit(map[string]any{"e": "inpdone", "id": id, "disp": disp})
}

// quiet waits until nothing has been recorded for d (nothing is fed meanwhile) and records it.
func (s *c19Scn) quiet(d time.Duration, long bool) {
	deadline := time.Now().Add(d + 60*time.Second)
	for {
		s.mu.Lock()
		idle := time.Since(s.last)
		s.mu.Unlock()
		if idle >= d {
			// after a stall of the whole process an overdue timer of the code and this waiter become
			// runnable together: give overdue work a moment and look again before declaring quiet
			time.Sleep(150 * time.Millisecond)
			s.mu.Lock()
			idle2 := time.Since(s.last)
			s.mu.Unlock()
			if idle2 >= d+150*time.Millisecond {
				break
			}
			continue
		}
		if time.Now().After(deadline) {
			s.hang = "no quiet period: events keep arriving"
			return
		}
		time.Sleep(d - idle + time.Millisecond)
	}
	s.emit(map[string]any{"e": "quiet", "long": long})
}

type c19Env struct {
	root     string
	helperOK bool // rz/sz reachable through PATH in this process
}

func (s *c19Scn) run(plan map[string]any, env *c19Env) {
	steps, _ := plan["steps"].([]any)
	s.emit(map[string]any{"e": "reset", "id": s.id})
	_ = os.MkdirAll(s.dir, 0755)
	ln, err := net.Listen("unix", filepath.Join(s.dir, "c19.sock"))
	if err != nil {
		s.hang = "listen: " + err.Error()
		return
	}
	s.ln = ln
	defer ln.Close()
	go s.acceptLoop()
	s.srvR, s.cliR = newC19Reader(), newC19Reader()
	term := &c19Writer{s, "term"}
	srvw := &c19Writer{s, "srv"}
	filter := NewTrzszFilter(s.cliR, term, srvw, s.srvR, TrzszOptions{TerminalColumns: 80, EnableZmodem: true})
	if !s.srvR.waitEntered(1, c19PumpWait) || !s.cliR.waitEntered(1, c19PumpWait) {
		s.hang = "pumps did not start"
		return
	}
	defer func() {
		s.pupMu.Lock()
		if s.pup != nil {
			_ = s.pup.Close() // the puppet exits when its socket closes
		}
		s.pupMu.Unlock()
	}()
	for _, st := range steps {
		if s.hang != "" {
			return
		}
		m := st.(map[string]any)
		if ms, ok := m["ms"].(float64); ok && ms > 0 {
			time.Sleep(time.Duration(ms) * time.Millisecond)
		}
		switch m["a"] {
		case "hdr":
			up, _ := m["up"].(bool)
			veto, _ := m["veto"].(string)
			start, _ := m["start"].(string)
			// start: ok | nopath (helper not on PATH: only in a process without helpers) | nochoice
			// (no default path / no one-time upload files => the file dialog fails: no zenity here)
			if start != "nochoice" {
				if up {
					f := filepath.Join(s.dir, "upload.bin")
					_ = os.WriteFile(f, []byte("c19 upload payload\n"), 0644)
					if _, err := filter.OneTimeUpload([]string{f}); err != nil {
						s.hang = "OneTimeUpload: " + err.Error()
						return
					}
				} else {
					filter.SetDefaultDownloadPath(s.dir)
				}
			}
			if (start == "nopath") == env.helperOK {
				s.hang = "plan/start=" + start + " does not fit this process (helperOK=" + strconv.FormatBool(env.helperOK) + ")"
				return
			}
			k := "hdr0"
			if up {
				k = "hdr1"
			}
			short, _ := m["short"].(bool)
			s.feedSrv(k, veto, start, short)
			if early, _ := m["early"].(bool); !early {
				s.waitSessionInit(filter)
			}
		case "srv":
			k, _ := m["k"].(string)
			if k == "fin" {
				s.sentSrvFin = true
			}
			short, _ := m["short"].(bool)
			s.feedSrv(k, "none", "-", short)
		case "ctrlc", "text":
			if m["a"] == "ctrlc" {
				s.sentCtrlC = true
			}
			s.feedCli(m["a"].(string))
		case "hout":
			if !s.waitStarted(3 * time.Second) {
				s.skipped++
				continue
			}
			s.nextID++
			id := s.nextID
			k, _ := m["k"].(string)
			var b []byte
			if k == "fin" {
				b = []byte(fmt.Sprintf("**\x18B0800000000022d\r\x8a#h19:%d;", id))
			} else {
				b = []byte(fmt.Sprintf("**\x18B0100000023be50\r\x8a\x11#h19:%d;", id))
			}
			s.emit(map[string]any{"e": "hout", "k": k, "id": id})
			if !s.pupSend("out " + hex.EncodeToString(b)) {
				continue
			}
			// avoid two helper outputs coalescing into one Read of the bridge: wait until this one
			// has been forwarded (long, when nothing known to the driver keeps the bridge from
			// forwarding it; short otherwise: an ignored output is never seen)
			wait := 4 * time.Second
			if s.sentCtrlC || (s.sentSrvFin && s.sentHFin) {
				wait = 300 * time.Millisecond
			}
			if k == "fin" {
				s.sentHFin = true
			}
			dl := time.Now().Add(wait)
			for time.Now().Before(dl) {
				s.mu.Lock()
				ok := s.houtTok[id]
				s.mu.Unlock()
				if ok {
					break
				}
				select {
				case <-s.gone:
					dl = time.Now()
				default:
				}
				time.Sleep(2 * time.Millisecond)
			}
		case "hexit":
			if !s.waitStarted(3 * time.Second) {
				s.skipped++
				continue
			}
			code := 0
			if c, ok := m["code"].(float64); ok {
				code = int(c)
			}
			s.emit(map[string]any{"e": "hexit", "code": code})
			s.pupSend("exit " + strconv.Itoa(code))
			select {
			case <-s.gone:
			case <-time.After(5 * time.Second):
			}
		case "quiet":
			if l, _ := m["long"].(bool); l {
				s.quiet(c19QuietLong, true)
			} else {
				s.quiet(c19Quiet, false)
			}
		}
	}
	if s.hang == "" {
		s.emit(map[string]any{"e": "end", "id": s.id})
	}
}

// ---------------------------------------------------------------- early Ctrl-C probe

// c19Early: in child processes (a crash must not take the other scenarios down), repeat
// "start header, Ctrl-C immediately" without the steering wait.  A child that dies is reported
// by vShards (shard-XX.crash.txt holds its output); survivors count their attempts.
func c19Early(d *vCtx) error {
	attempts := d.pInt("attempts", 20)
	return vShards(d, d.pInt("procs", 6), func(i, n int) error {
		root := d.path("scn")
		_ = os.Setenv("PATH", d.path("nobin")+":/usr/bin:/bin")
		_ = os.Setenv("HOME", d.path("home"))
		env := &c19Env{root: root, helperOK: false}
		done := 0
		for a := 0; a < attempts; a++ {
			plan := map[string]any{"steps": []any{
				map[string]any{"a": "hdr", "up": (a+i)%2 == 0, "veto": "none", "start": "nopath", "early": true},
				map[string]any{"a": "ctrlc"},
				map[string]any{"a": "wait", "ms": 200.0},
			}}
			s := &c19Scn{id: a, dir: filepath.Join(root, fmt.Sprintf("e%02d-%03d", i, a)),
				termTok: map[int]bool{}, inpTok: map[int]bool{}, houtTok: map[int]bool{},
				started: make(chan struct{}), gone: make(chan struct{}), last: time.Now()}
			s.run(plan, env)
			_ = os.RemoveAll(s.dir)
			done++
		}
		d.set("attempts_survived", done)
		return nil
	})
}

// ---------------------------------------------------------------- driver

func c19Run(d *vCtx) error {
	plans, err := vReadNDJSON(d.pStr("plans", d.path("plans.ndjson")))
	if err != nil {
		return err
	}
	par := d.pInt("par", 48)
	shards := d.pInt("shards", 8)
	nohelper := d.pBool("nohelper", false)
	root := d.path("scn")
	bin := d.path("bin")
	if err := os.MkdirAll(bin, 0755); err != nil {
		return err
	}
	env := &c19Env{root: root, helperOK: !nohelper}
	if !nohelper {
		self, err := os.Executable()
		if err != nil {
			return err
		}
		for _, n := range []string{"rz", "sz"} {
			_ = os.Remove(filepath.Join(bin, n))
			if err := os.Symlink(self, filepath.Join(bin, n)); err != nil {
				return err
			}
		}
	}
	// PATH is process-global: the private bin directory first (empty in a nohelper process),
	// then only directories that have no rz/sz (there is none in this sandbox anyway)
	_ = os.Setenv("PATH", bin+":/usr/bin:/bin")
	_ = os.Setenv("HOME", d.path("home")) // no ~/.trzsz.conf surprises
	_ = os.MkdirAll(d.path("home"), 0755)

	traces := make([]*vTrace, shards)
	for i := range traces {
		t, err := vNewTrace(d.path(fmt.Sprintf("trace-%02d.ndjson", i)))
		if err != nil {
			return err
		}
		traces[i] = t
	}
	var wg sync.WaitGroup
	sem := make(chan struct{}, par)
	var mu sync.Mutex
	hangs := []map[string]any{}
	runs, events, skipped := 0, 0, 0
	for i, p := range plans {
		wg.Add(1)
		sem <- struct{}{}
		go func(i int, p map[string]any) {
			defer wg.Done()
			defer func() { <-sem }()
			id := i
			if v, ok := p["id"].(float64); ok {
				id = int(v)
			}
			s := &c19Scn{id: id, dir: filepath.Join(root, fmt.Sprintf("s%05d", id)),
				termTok: map[int]bool{}, inpTok: map[int]bool{}, houtTok: map[int]bool{},
				started: make(chan struct{}), gone: make(chan struct{}), last: time.Now()}
			s.run(p, env)
			time.Sleep(20 * time.Millisecond)
			s.mu.Lock()
			evs := append([]map[string]any(nil), s.ev...)
			s.mu.Unlock()
			mu.Lock()
			defer mu.Unlock()
			if s.hang != "" {
				hangs = append(hangs, map[string]any{"id": id, "why": s.hang, "events": evs})
				return
			}
			// cut at the `end` marker: events recorded while the scenario is torn down are not part of the run
			t := traces[id%shards]
			for _, e := range evs {
				if e["e"] == "end" {
					break
				}
				t.Emit(e, nil)
				events++
			}
			runs++
			skipped += s.skipped
			_ = os.RemoveAll(s.dir)
		}(i, p)
	}
	wg.Wait()
	for _, t := range traces {
		if err := t.Close(); err != nil {
			return err
		}
	}
	d.set("runs", runs)
	d.set("events", events)
	d.set("hangs", len(hangs))
	d.set("skipped_steps", skipped)
	d.set("shards", shards)
	d.set("quiet_ms", int(c19Quiet/time.Millisecond))
	d.set("quiet_long_ms", int(c19QuietLong/time.Millisecond))
	return vWriteJSON(d.path("hangs.json"), hangs)
}
