//go:build verif

package trzsz

// C07 driver: every (pre, incoming, protocol) case exported by TLC from spec/DestGen.tla (and
// a few cases with the code's real constants: the 1001 taken names, name.N series with gaps,
// names at the length limit) is materialised on disk and received for real, overwrite off, by
// the server (upload) or the client (download), protocols 1..4 (4 in directory mode = archive
// stream), twice in a row into the same destination.  Recorded for spec/DestTrace.tla.

import (
	"encoding/json"
	"fmt"
	"os"
	"path/filepath"
	"sort"
	"strings"
)

func init() { vRegister("c07_dest", c07Dest) }

type c07Path struct {
	Up int      `json:"up"`
	P  []string `json:"p"`
	T  string   `json:"t"`
	C  string   `json:"c"`
}

type c07Entry struct {
	Site string     `json:"site"`
	Pid  int        `json:"pid"`
	Rel  [][]string `json:"rel"`
	Dir  bool       `json:"dir"`
	C    string     `json:"c"`
	Size int64      `json:"size"`
}

type c07Cfg struct {
	Proto     int  `json:"proto"`
	Directory bool `json:"directory"`
	Overwrite bool `json:"overwrite"`
}

type c07Case struct {
	ID      int            `json:"id"`
	Pre     []c07Path      `json:"pre"`
	Entries []c07Entry     `json:"entries"`
	Cfg     c07Cfg         `json:"cfg"`
	Want    map[string]any `json:"want"`
	Role    string         `json:"role"` // V: server receives an upload, C: client downloads
	Special string         `json:"special"`
	Binary  bool           `json:"binary"`
	Rounds  int            `json:"rounds"`
}

func c07RelString(rel [][]string) string {
	parts := make([]string, 0, len(rel))
	for _, e := range rel {
		parts = append(parts, strings.Join(e, "/"))
	}
	return strings.Join(parts, "/")
}

func c07Content(id string, n int) []byte {
	if id == "empty" || id == "" {
		return nil
	}
	s := strings.Repeat(id+"\n", 1+n%5)
	return []byte(s)
}

// c07Specials: cases that need the code's real constants or real name lengths.
func c07Specials() []*c07Case {
	var res []*c07Case
	file := func(name, c string) c07Path { return c07Path{0, []string{name}, "file", c} }
	dir := func(name string) c07Path { return c07Path{0, []string{name}, "dir", ""} }
	ent := func(pid int, dirflag bool, rel ...string) c07Entry {
		e := c07Entry{Site: "json", Pid: pid, Dir: dirflag, Size: 333}
		for _, r := range rel {
			e.Rel = append(e.Rel, []string{r})
		}
		return e
	}
	// all 1001 candidate names taken: the receive must fail and touch nothing
	{
		c := &c07Case{Special: "taken1001-file", Cfg: c07Cfg{Proto: 4}, Role: "V"}
		c.Pre = append(c.Pre, file("a", "old-a"))
		for i := 0; i < 1000; i++ {
			c.Pre = append(c.Pre, file(fmt.Sprintf("a.%d", i), fmt.Sprintf("old-a-%d", i)))
		}
		c.Entries = []c07Entry{ent(0, false, "a")}
		res = append(res, c)
		c2 := &c07Case{Special: "taken1001-dir", Cfg: c07Cfg{Proto: 4, Directory: true}, Role: "C"}
		c2.Pre = append(c2.Pre, dir("d"))
		for i := 0; i < 1000; i++ {
			if i%2 == 0 {
				c2.Pre = append(c2.Pre, dir(fmt.Sprintf("d.%d", i)))
			} else {
				c2.Pre = append(c2.Pre, file(fmt.Sprintf("d.%d", i), "old"))
			}
		}
		c2.Entries = []c07Entry{ent(0, true, "d"), ent(0, false, "d", "x")}
		res = append(res, c2)
		// all but the last one taken: name.999 is the only free candidate
		c3 := &c07Case{Special: "taken1000-file", Cfg: c07Cfg{Proto: 2}, Role: "C"}
		c3.Pre = append(c3.Pre, file("a", "old-a"))
		for i := 0; i < 999; i++ {
			c3.Pre = append(c3.Pre, file(fmt.Sprintf("a.%d", i), "old"))
		}
		c3.Entries = []c07Entry{ent(0, false, "a")}
		res = append(res, c3)
	}
	// series with gaps, far beyond the model's bound; files and directories mixed
	for k, proto := range []int{1, 2, 3, 4} {
		c := &c07Case{Special: fmt.Sprintf("gaps-p%d", proto), Cfg: c07Cfg{Proto: proto, Directory: k%2 == 1}, Role: []string{"V", "C"}[k%2]}
		c.Pre = append(c.Pre, file("a", "old-a"), dir("a.0"), file("a.1", "old"), file("a.2", "old"), file("a.4", "old"), file("a.10", "old"),
			dir("d"), file("d.0", "old"), c07Path{0, []string{"d", "x"}, "file", "old-dx"}, file("d.2", "old"))
		c.Entries = []c07Entry{ent(0, false, "a"), ent(1, false, "a")}
		if c.Cfg.Directory {
			c.Entries = append(c.Entries, ent(2, true, "d"), ent(2, false, "d", "x"), ent(2, true, "d", "s"), ent(2, false, "d", "s", "y"))
		}
		res = append(res, c)
	}
	// names up to the length limit (255 bytes): free / colliding (name.0 does not fit) / 250 bytes colliding
	for k, n := range []int{255, 255, 250, 253} {
		name := strings.Repeat("n", n-1) + "z"
		c := &c07Case{Special: fmt.Sprintf("len%d-%d", n, k), Cfg: c07Cfg{Proto: []int{4, 4, 2, 3}[k], Directory: k == 3}, Role: []string{"V", "C"}[k%2]}
		if k > 0 {
			c.Pre = append(c.Pre, file(name, "old-long"))
		}
		c.Pre = append(c.Pre, file("other", "old-other"))
		c.Entries = []c07Entry{ent(0, false, name)}
		res = append(res, c)
	}
	// names that need quoting on the wire / in the text shown to the user
	for k, name := range []string{"with space & (paren).bin", "文件 1.txt", "émoji-😀", "a.b.c.0", "-dash", "name.0"} {
		c := &c07Case{Special: fmt.Sprintf("odd-%d", k), Cfg: c07Cfg{Proto: 1 + k%4, Directory: k%3 == 0}, Role: []string{"V", "C"}[k%2]}
		c.Pre = append(c.Pre, file(name, "old-odd"), file(name+".1", "old-odd1"))
		c.Entries = []c07Entry{ent(0, false, name), ent(1, false, name)}
		res = append(res, c)
	}
	// names with pattern metacharacters (a fresh-name search must treat names literally): name and
	// name.0 taken (and name.1 in every other case), also inside a destination directory of that kind
	for k, name := range []string{"report[1].txt", "a*b", "q?.dat", "x[a-z]y", "back\\slash", "{brace}", "[", "tilde~"} {
		c := &c07Case{Special: fmt.Sprintf("glob-%d", k), Cfg: c07Cfg{Proto: 1 + k%4, Directory: k%3 == 2}, Role: []string{"V", "C"}[k%2]}
		c.Pre = append(c.Pre, file(name, "old-glob"), file(name+".0", "old-glob0"))
		if k%2 == 1 {
			c.Pre = append(c.Pre, file(name+".1", "old-glob1"))
		}
		c.Entries = []c07Entry{ent(0, false, name), ent(1, false, name)}
		res = append(res, c)
	}
	return res
}

func c07LoadCases(path string) ([]*c07Case, error) {
	var res []*c07Case
	if path == "" {
		return res, nil
	}
	evs, err := vReadNDJSON(path)
	if err != nil {
		return nil, err
	}
	for _, m := range evs {
		b, _ := json.Marshal(m)
		c := &c07Case{}
		if err := json.Unmarshal(b, c); err != nil {
			return nil, err
		}
		res = append(res, c)
	}
	return res, nil
}

type c07Run struct {
	Run     int            `json:"run"`
	Case    *c07Case       `json:"case"`
	Round   int            `json:"round"`
	Res     string         `json:"res"`
	Names   []destNamePair `json:"names"`
	Shown   []string       `json:"shown"`
	Deltas  []string       `json:"deltas"`
	Errs    []string       `json:"errs"`
	Drift   string         `json:"drift,omitempty"`
	Skipped string         `json:"skipped,omitempty"`
}

// c07Exec materialises the case in a fresh sandbox under base and receives it c.Rounds times.
func c07Exec(d *vCtx, tr, aux *vTrace, base string, c *c07Case, runBase int) ([]*c07Run, error) {
	sb, err := newDestSandbox(base, runBase)
	if err != nil {
		return nil, err
	}
	defer os.RemoveAll(sb.root)
	// pre-existing destination content (parents first)
	pre := append([]c07Path(nil), c.Pre...)
	sort.SliceStable(pre, func(i, j int) bool { return len(pre[i].P) < len(pre[j].P) })
	for i, p := range pre {
		if p.Up != 0 || len(p.P) == 0 {
			continue
		}
		full := filepath.Join(append([]string{sb.dst}, p.P...)...)
		if p.T == "dir" {
			if err := os.MkdirAll(full, 0755); err != nil {
				return nil, err
			}
			continue
		}
		if err := os.MkdirAll(filepath.Dir(full), 0755); err != nil {
			return nil, err
		}
		if err := os.WriteFile(full, c07Content(p.C, i), 0644); err != nil {
			return nil, err
		}
	}
	// sources: entries in announce order (path id, then depth)
	ents := append([]c07Entry(nil), c.Entries...)
	sort.SliceStable(ents, func(i, j int) bool {
		if ents[i].Pid != ents[j].Pid {
			return ents[i].Pid < ents[j].Pid
		}
		if len(ents[i].Rel) != len(ents[j].Rel) {
			return len(ents[i].Rel) < len(ents[j].Rel)
		}
		return c07RelString(ents[i].Rel) < c07RelString(ents[j].Rel)
	})
	var nodes []e2eNode
	var bases []string
	for i, e := range ents {
		size := e.Size
		if size == 0 && !e.Dir {
			size = int64([]int{120, 0, 5000, 1, 777}[(i+c.ID)%5])
		}
		nodes = append(nodes, e2eNode{Rel: c07RelString(e.Rel), Dir: e.Dir, Size: size, Kind: (i + c.ID) % 3})
		b := ""
		if e.Pid > 0 {
			b = fmt.Sprintf("p%d", e.Pid)
		}
		bases = append(bases, b)
	}
	o := e2eOpts{Upload: c.Role == "V", Binary: c.Binary, Protocol: c.Cfg.Proto, Directory: c.Cfg.Directory,
		Overwrite: c.Cfg.Overwrite, Timeout: 60, Bufsize: 4096, Compress: 0}
	rounds := c.Rounds
	if rounds == 0 {
		rounds = 2
	}
	// a third round on a share of the cases: the same sources once more (every top-level name now collides twice), the
	// user stops and asks for deletion once the receiver has answered the first name: whatever the transfer had
	// created goes, whatever was there before stays
	stopRound := 0
	if rounds == 2 && c.Special == "" && c.ID%3 == 0 {
		rounds, stopRound = 3, 3
	}
	var out []*c07Run
	for round := 1; round <= rounds; round++ {
		run := runBase*10 + round
		destSettle()
		preSnap := destSnapshot(sb.dst)
		var msgs []*e2eMsg
		e2eProbeSink = func(w *e2eWire) {
			w.mu.Lock()
			msgs = append([]*e2eMsg(nil), w.msgs...)
			w.mu.Unlock()
		}
		ec := &e2eCase{ID: run, Seed: d.seed*1009 + int64(c.ID), Opts: o, Nodes: nodes, Bases: bases, WatchdogMs: 240000}
		if round == stopRound {
			ec.Plan.Stop = &e2eStop{G: 5, Phase: "after", Role: "C", Delete: true}
			d.add("stopdel_rounds", 1)
		}
		res, detail, err := e2eExec(ec, sb.work, aux, false)
		e2eProbeSink = nil
		if err != nil {
			return nil, err
		}
		postSnap := destSnapshot(sb.dst)
		r := &c07Run{Run: run, Case: c, Round: round, Errs: []string{res.ClientErr, res.ServerErr}}
		if len(res.Hung) > 0 {
			// the watchdog expired: an infrastructure event here, never a verdict of this property
			r.Skipped = "hung:" + strings.Join(res.Hung, ",")
			d.add("hung", 1)
			out = append(out, r)
			break
		}
		_ = detail
		recvOK := res.ClientOK && res.ServerOK
		r.Res = "failed"
		if recvOK {
			r.Res = "ok"
		}
		r.Names = destNamePairs(msgs, o.Upload)
		r.Shown = res.Shown
		// ---- events
		destEmitReset(tr, &destRun{Run: run, Overwrite: o.Overwrite, Directory: o.Directory, Proto: o.Protocol, Role: c.Role,
			StopDel: round == stopRound,
			Extra: map[string]any{"prop": "c07", "round": round, "special": c.Special}})
		srcEv := []map[string]any{}
		for i, e := range ents {
			cid := ""
			if !e.Dir {
				p := filepath.Join(sb.src, bases[i], filepath.FromSlash(nodes[i].Rel))
				if b, err := os.ReadFile(p); err == nil {
					cid = destContentID(destEntry{T: "file", Sum: destSum(b)})
				}
			}
			site := "json"
			if o.Protocol < 3 && !o.Directory {
				site = "plain"
			}
			srcEv = append(srcEv, map[string]any{"site": site, "pid": e.Pid, "rel": e.Rel, "dir": e.Dir, "c": cid})
		}
		tr.Emit(map[string]any{"e": "src", "run": run, "entries": srcEv}, nil)
		base := destDstBase()
		destEmitPre(tr, run, preSnap, base, func(rel string) bool { return rel == base })
		destEmitNames(tr, run, r.Names)
		deltas := destDiff(preSnap, postSnap)
		destEmitDeltas(tr, run, deltas, base, func(dl destDelta, rel string) bool { return rel == base })
		for _, dl := range deltas {
			if dl.Rel != "." {
				r.Deltas = append(r.Deltas, dl.Kind+" "+dl.Rel+" "+dl.What)
			}
		}
		shown := make([][]string, 0, len(res.Shown))
		for _, s := range res.Shown {
			shown = append(shown, destAtoms(s))
		}
		tr.Emit(map[string]any{"e": "reported", "run": run, "names": shown, "ok": res.ShownOK}, nil)
		tr.Emit(map[string]any{"e": "ret", "run": run, "res": r.Res}, nil)
		tr.Flush()
		// ---- comparison with the behaviour TLC exported (recorded as drift, the verdict is DestTrace's)
		if round == 1 && c.Want != nil {
			wantPhase, _ := c.Want["phase"].(string)
			exh, _ := c.Want["exhausted"].(bool)
			if !exh {
				if wantPhase != r.Res {
					r.Drift = fmt.Sprintf("model: %s, real: %s", wantPhase, r.Res)
				} else if wantPhase == "ok" {
					var want []string
					if arr, ok := c.Want["reported"].([]any); ok {
						for _, x := range arr {
							if el, ok := x.([]any); ok {
								var atoms []string
								for _, a := range el {
									atoms = append(atoms, fmt.Sprint(a))
								}
								want = append(want, strings.Join(atoms, "/"))
							}
						}
					}
					if strings.Join(want, "|") != strings.Join(res.Shown, "|") {
						r.Drift = fmt.Sprintf("model names %v, real names %v", want, res.Shown)
					}
				}
			} else {
				d.add("model_bound_cases", 1)
			}
			if r.Drift != "" {
				d.add("mbt_drift", 1)
			} else if !exh {
				d.add("mbt_agree", 1)
			}
		}
		d.add("runs", 1)
		if recvOK {
			d.add("runs_ok", 1)
		} else {
			d.add("runs_failed", 1)
		}
		out = append(out, r)
		if !recvOK {
			break
		}
	}
	return out, nil
}

func c07Dest(d *vCtx) error {
	shards := d.pInt("shards", 64)
	casesPath := d.pStr("cases", "")
	roles := d.pStr("roles", "alt") // alt: one role per case, chosen from the seed; both
	specials := d.pBool("specials", true)
	inproc := d.pBool("inproc", false)
	body := func(si, n int) error {
		base := e2eShmBase()
		defer os.RemoveAll(base)
		if err := e2eCaptureStdout(d.out); err != nil {
			return err
		}
		cases, err := c07LoadCases(casesPath)
		if err != nil {
			return err
		}
		for i, c := range cases {
			if c.ID == 0 {
				c.ID = i + 1
			}
		}
		if specials {
			only := d.pStr("only_special", "")
			for i, c := range c07Specials() {
				c.ID = 900000 + i
				if only == "" || only == c.Special {
					cases = append(cases, c)
				}
			}
		}
		tr, err := vNewTrace(d.path("dest.ndjson"))
		if err != nil {
			return err
		}
		aux, err := vNewTrace(d.path("e2e.ndjson"))
		if err != nil {
			return err
		}
		var runs []*c07Run
		job := 0
		for ci, c := range cases {
			var rl []string
			switch {
			case c.Role != "":
				rl = []string{c.Role}
			case roles == "both":
				rl = []string{"V", "C"}
			default:
				rl = []string{[]string{"V", "C"}[(ci+int(d.seed))%2]}
			}
			for ri, role := range rl {
				job++
				if job%n != si {
					continue
				}
				cc := *c
				cc.Role = role
				if !cc.Binary {
					cc.Binary = (ci+ri+int(d.seed))%3 == 0
				}
				rs, err := c07Exec(d, tr, aux, base, &cc, job)
				if err != nil {
					return err
				}
				runs = append(runs, rs...)
			}
		}
		if si == 0 {
			d.set("cases_total", len(cases))
		}
		if err := tr.Close(); err != nil {
			return err
		}
		_ = aux.Close()
		return vWriteJSON(d.path("runs.json"), runs)
	}
	if inproc {
		return body(0, 1)
	}
	return vShards(d, shards, body)
}
