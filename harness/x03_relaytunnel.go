//go:build verif

package trzsz

// X03 "RelayTunnel": the tunnel path through a real TrzszRelay.
//
//   in-band:  x03Reader (chunk preserving) -> relay.clientIn / relay.serverOut ; relay writes into x03Tok sinks
//   tunnel:   the scripted client dials the relay's real TCP listener (port learnt from the trigger
//             the relay forwards), greets, writes chunks of unique payload bytes around real ACT /
//             EXIT lines; the relay's connector gets an x03SConn (a chunk preserving net.Conn whose
//             Read / Write / Close are events) that plays the server's tunnel connection.
//   hooks:    the 16 vhook points of relay.go are recorded and delayed with seeded random sleeps.
//
// Driver x03_relaytunnel, param mode:
//   mix     one to three transfers per relay instance (tunnel / in-band, confirmed / refused / undecodable CFG, ended by
//           either side with #EXIT: / #FAIL: / #fail:), a second connection pair racing for the CAS or dialling after the
//           adoption; in-band noise is held back while a trigger with a port has not yet led to tunnelConnected (gate);
//           the ends close client first and the server-side connection reports its own Close as io.EOF
//   window  an in-band chunk is fed exactly between hook relay.hs.act and tunnelConnected.Store (steered by the hook)
//   late    the server's greeting of a second pair is withheld until the transfer is over; the next trigger's connection is probed
//   pumps   real error values (net.ErrClosed), all close orders; goroutines / CPU / allocation left behind are measured
//
// Events (ndjson, one per spec action of RelayTunnelTrace.tla):
//   reset{confirm}  feed{side,u}  deliver{to,u}  hook{p,a}  dial{pr}  dialfail{pr}  connect{pr}
//   hello4{pr}  twrite{pr,u}  tfeed{pr,u}  tdeliver{pr,to,u}  tclose{pr,who}  rclosed{pr,side}
//   quiet{}  pumps{pr,ti,to,wrs,wrc}
// Tokens: payload bytes 128..255 are themselves; protocol lines are negative (see x03* constants),
// items of round r are x - 10*(r-1).

import (
	"bytes"
	"encoding/json"
	"fmt"
	"io"
	"math/rand"
	"net"
	"os"
	"regexp"
	"runtime"
	"strconv"
	"strings"
	"sync"
	"sync/atomic"
	"syscall"
	"time"
)

const (
	x03ACT    = -1
	x03CFG    = -2
	x03TRIG   = -3
	x03END    = -4
	x03FAIL   = -5
	x03BADACT = -6
	x03BADCFG = -7
	x03TRIGT  = -8
	x03ACTT   = -9
	x03UNK    = -99
)

func x03K(t int) int {
	if t >= 0 || t == x03UNK {
		return t
	}
	return -(((-t)-1)%10) - 1
}
func x03R(t int) int    { return ((-t)-1)/10 + 1 }
func x03T(k, r int) int { return k - 10*(r-1) }

type x03Round struct {
	Kind    string  `json:"kind"`    // "tunnel" | "inband"
	Confirm bool    `json:"confirm"` // the ACT confirms
	EndBy   string  `json:"endby"`   // "cli" | "srv": who ends a confirmed transfer
	EndText string  `json:"endtext"` // "#EXIT:" | "#FAIL:" | "#fail:"
	BadCfg  bool    `json:"badcfg"`  // the server's CFG is undecodable
	Probe   bool    `json:"probe"`   // in-band round with a port: the client dials once and watches the connection
	Port    bool    `json:"port"`    // in-band round whose trigger carries a tunnel port (nobody dials)
	Second  string  `json:"second"`  // "" | "race" | "after" | "late": a second pair of connections
	Cli     [][]int `json:"cli"`     // in-band chunks of the client side
	Srv     [][]int `json:"srv"`     // in-band chunks of the server side (the first one holds the trigger)
	CT      [][]int `json:"ct"`      // tunnel chunks of the client (adopted pair)
	ST      [][]int `json:"st"`      // tunnel chunks of the server (adopted pair)
}

type x03Plan struct {
	ID     int        `json:"id"`
	Seed   int64      `json:"seed"`
	Rounds []x03Round `json:"rounds"`
	SrvErr string     `json:"srverr"` // "eof": the connector's connection reports its own Close as io.EOF; "closed": net.ErrClosed
	Close  string     `json:"close"`  // "cli" | "srv" | "both": who closes first after a tunnel transfer
	CloseWaitMs int   `json:"closewait_ms"`
	Window bool       `json:"window"` // steer an in-band client chunk into the window between hs.act and tunnelConnected.Store
}

// ---------------------------------------------------------------- in-band reader

type x03Chunk struct {
	b []byte
	u []int
}

type x03Reader struct {
	ch     chan x03Chunk
	onRead func(u []int)
}

func (r *x03Reader) Read(p []byte) (int, error) {
	c, ok := <-r.ch
	if !ok {
		return 0, io.EOF
	}
	n := copy(p, c.b)
	if r.onRead != nil {
		r.onRead(c.u)
	}
	return n, nil
}

// ---------------------------------------------------------------- tokenizer sink

type x03Tok struct {
	// inbandServer: the sink is what the server reads from its terminal; an action that arrives here came the
	// in-band way and must have passed the relay's handshake (C14: no binary mode without a tunnel)
	inbandServer bool
	mu           sync.Mutex
	s     *x03Sess
	carry []byte
	seen  map[int]bool
	emit  func(toks []int)
}

func (w *x03Tok) Close() error { return nil }

func (w *x03Tok) Write(p []byte) (int, error) {
	w.mu.Lock()
	defer w.mu.Unlock()
	data := append(w.carry, p...)
	w.carry = nil
	var toks []int
	i := 0
	for i < len(data) {
		if data[i] >= 0x80 {
			toks = append(toks, int(data[i]))
			i++
			continue
		}
		j := i
		for j < len(data) && data[j] < 0x80 && data[j] != '\n' {
			j++
		}
		if j >= len(data) || data[j] != '\n' {
			if j < len(data) {
				toks = append(toks, w.s.classify(data[i:j]))
				i = j
				continue
			}
			w.carry = append([]byte(nil), data[i:]...)
			break
		}
		toks = append(toks, w.s.classify(data[i:j+1]))
		if w.inbandServer {
			w.s.checkInbandAct(data[i : j+1])
		}
		i = j + 1
	}
	if len(toks) > 0 {
		w.emit(toks)
		for _, t := range toks {
			w.seen[t] = true
		}
	}
	return len(p), nil
}

func (w *x03Tok) has(tok int) bool {
	w.mu.Lock()
	defer w.mu.Unlock()
	return w.seen[tok]
}

// ---------------------------------------------------------------- the server's tunnel connection

type x03Addr string

func (a x03Addr) Network() string { return "x03" }
func (a x03Addr) String() string  { return string(a) }

type x03SConn struct {
	s       *x03Sess
	pr      int
	rd      chan x03Chunk
	closeCh chan struct{} // the relay called Close
	peerCh  chan struct{} // the server end closed
	hold    chan struct{} // hello3 is withheld until this is closed
	once    sync.Once
	ponce   sync.Once
	first   atomic.Bool
	hello2  string
	hello3  string
	tok     *x03Tok
	errEOF  bool
	badRd   atomic.Int64 // Reads answered with an error after the relay's own Close
	greeted atomic.Bool
}

func (c *x03SConn) closedErr() error {
	c.badRd.Add(1)
	if c.errEOF {
		return io.EOF
	}
	return net.ErrClosed
}

func (c *x03SConn) Read(b []byte) (int, error) {
	select {
	case <-c.closeCh:
		return 0, c.closedErr()
	default:
	}
	select {
	case ch := <-c.rd:
		n := copy(b, ch.b)
		if ch.u != nil {
			c.s.ev(map[string]any{"e": "tfeed", "pr": c.pr, "u": ch.u}, nil)
		}
		return n, nil
	case <-c.closeCh:
		return 0, c.closedErr()
	case <-c.peerCh:
		return 0, io.EOF
	}
}

func (c *x03SConn) Write(b []byte) (int, error) {
	select {
	case <-c.closeCh:
		return 0, net.ErrClosed
	default:
	}
	if c.first.CompareAndSwap(false, true) {
		if string(b) != c.hello2 {
			c.s.note("hello2 mismatch: " + string(b))
			return len(b), nil
		}
		c.greeted.Store(true)
		go func() {
			select {
			case <-c.hold:
			case <-c.closeCh:
				return
			}
			select {
			case c.rd <- x03Chunk{[]byte(c.hello3), nil}:
			case <-c.closeCh:
			}
		}()
		return len(b), nil
	}
	return c.tok.Write(b)
}

func (c *x03SConn) Close() error {
	c.once.Do(func() {
		c.s.ev(map[string]any{"e": "rclosed", "pr": c.pr, "side": "s"}, func() { close(c.closeCh) })
	})
	return nil
}
func (c *x03SConn) peerClose()                         { c.ponce.Do(func() { close(c.peerCh) }) }
func (c *x03SConn) LocalAddr() net.Addr                { return x03Addr("relay-side") }
func (c *x03SConn) RemoteAddr() net.Addr               { return x03Addr("server") }
func (c *x03SConn) SetDeadline(t time.Time) error      { return nil }
func (c *x03SConn) SetReadDeadline(t time.Time) error  { return nil }
func (c *x03SConn) SetWriteDeadline(t time.Time) error { return nil }

func (c *x03SConn) relayClosed() bool {
	select {
	case <-c.closeCh:
		return true
	default:
		return false
	}
}

// ---------------------------------------------------------------- rendering / classification

var x03TrigRe = regexp.MustCompile(`::TRZSZ:TRANSFER:[SRD]:1\.1\.(\d+):(\d+)(?::(\d+))?`)

func (s *x03Sess) render(toks []int) []byte {
	var b bytes.Buffer
	for _, t := range toks {
		if t >= 0 {
			b.WriteByte(byte(t))
			continue
		}
		r := x03R(t)
		switch x03K(t) {
		case x03TRIG:
			b.WriteString(fmt.Sprintf("::TRZSZ:TRANSFER:R:1.1.%d:%013d:0\r\n", 7+r, s.base+int64(100*r)))
		case x03TRIGT:
			b.WriteString(fmt.Sprintf("::TRZSZ:TRANSFER:R:1.1.%d:%013d:%d\r\n", 7+r, s.base+int64(100*r), 20000+r))
		case x03ACT, x03ACTT:
			act, _ := json.Marshal(&transferAction{Lang: fmt.Sprintf("go%d", r), Version: "1.1.8", Confirm: s.plan.Rounds[r-1].Confirm,
				Newline: "\n", Protocol: 4, SupportBinary: true, SupportDirectory: true, TunnelConnected: x03K(t) == x03ACTT})
			b.WriteString("#ACT:" + encodeString(string(act)) + "\n")
		case x03CFG:
			b.WriteString("#CFG:" + encodeString(fmt.Sprintf(`{"lang":"go","bufsize":10485760,"timeout":%d,"protocol":4}`, 20+r)) + "\n")
		case x03END:
			b.WriteString(s.plan.Rounds[r-1].EndText + encodeString(fmt.Sprintf("end%d", r)) + "\n")
		case x03BADACT:
			b.WriteString("#ACT:%%%%\n")
		case x03BADCFG:
			b.WriteString("#CFG:%%%%\n")
		}
	}
	return b.Bytes()
}

// checkInbandAct: an ACT line on the server's terminal input.  The scripted client announces binary support; the
// relay lets that stand only for a transfer that runs through the tunnel.
func (s *x03Sess) checkInbandAct(line []byte) {
	i := bytes.Index(line, []byte("#ACT:"))
	if i < 0 {
		return
	}
	dec, err := decodeString(string(bytes.TrimRight(line[i+5:], "\r\n")))
	if err != nil {
		return
	}
	var a transferAction
	if json.Unmarshal(dec, &a) != nil {
		return
	}
	if a.SupportBinary && !a.TunnelConnected {
		s.note("c14:act-binary-inband:" + a.Lang)
	}
	if a.Protocol > kProtocolVersion {
		s.note("c14:act-protocol-raised:" + a.Lang)
	}
}

func (s *x03Sess) classify(line []byte) int {
	payload := func(typ string) []byte {
		i := bytes.Index(line, []byte("#"+typ+":"))
		if i < 0 {
			return nil
		}
		dec, err := decodeString(string(bytes.TrimRight(line[i+len(typ)+2:], "\r\n")))
		if err != nil {
			return nil
		}
		return dec
	}
	num := func(b []byte, key string) int {
		i := bytes.Index(b, []byte(key))
		if i < 0 {
			return 0
		}
		j := i + len(key)
		k := j
		for k < len(b) && b[k] >= '0' && b[k] <= '9' {
			k++
		}
		n, _ := strconv.Atoi(string(b[j:k]))
		return n
	}
	switch {
	case bytes.Contains(line, []byte("::TRZSZ:TRANSFER:")):
		m := x03TrigRe.FindSubmatch(line)
		if m == nil {
			return x03UNK
		}
		patch, _ := strconv.Atoi(string(m[1]))
		r := patch - 7
		port := 0
		if m[3] != nil {
			port, _ = strconv.Atoi(string(m[3]))
		}
		if r < 1 || r > 9 {
			return x03UNK
		}
		if port != 0 {
			s.setPort(r, port)
			return x03T(x03TRIGT, r)
		}
		return x03T(x03TRIG, r)
	case bytes.Contains(line, []byte("#ACT:")):
		p := payload("ACT")
		r := num(p, `"lang":"go`)
		if r < 1 {
			return x03UNK
		}
		if bytes.Contains(p, []byte(`"tunnel":true`)) {
			return x03T(x03ACTT, r)
		}
		return x03T(x03ACT, r)
	case bytes.Contains(line, []byte("#CFG:")):
		r := num(payload("CFG"), `"timeout":`) - 20
		if r < 1 {
			return x03UNK
		}
		return x03T(x03CFG, r)
	case bytes.Contains(line, []byte("#EXIT:")), bytes.Contains(line, []byte("#FAIL:")), bytes.Contains(line, []byte("#fail:")):
		for _, typ := range []string{"EXIT", "FAIL", "fail"} {
			if p := payload(typ); p != nil {
				if r := num(p, "end"); r >= 1 && bytes.HasPrefix(p, []byte("end")) {
					return x03T(x03END, r)
				}
				return x03FAIL
			}
		}
		return x03FAIL
	}
	return x03UNK
}

// ---------------------------------------------------------------- goroutine census

type x03Census struct {
	TI, TO, WrS, WrC       int // goroutines alive in tunnelRelay.wrapInput / wrapOutput / the two writers
	TIBusy, TOBusy         int // ... of which not blocked (running / runnable)
	TISleep, TOSleep       int // ... in time.Sleep (waiting for the reset after io.EOF)
	Handlers, Acceptors    int
	Total                  int
}

func x03TakeCensus() x03Census {
	buf := make([]byte, 1<<20)
	for {
		n := runtime.Stack(buf, true)
		if n < len(buf) {
			buf = buf[:n]
			break
		}
		buf = make([]byte, 2*len(buf))
	}
	var c x03Census
	for _, g := range strings.Split(string(buf), "\n\n") {
		if !strings.HasPrefix(g, "goroutine ") {
			continue
		}
		c.Total++
		head := g
		if i := strings.IndexByte(g, '\n'); i >= 0 {
			head = g[:i]
		}
		busy := strings.Contains(head, "[running") || strings.Contains(head, "[runnable")
		sleep := strings.Contains(head, "[sleep")
		switch {
		case strings.Contains(g, "trzsz.(*tunnelRelay).wrapInput"):
			c.TI++
			if busy {
				c.TIBusy++
			}
			if sleep {
				c.TISleep++
			}
		case strings.Contains(g, "trzsz.(*tunnelRelay).wrapOutput"):
			c.TO++
			if busy {
				c.TOBusy++
			}
			if sleep {
				c.TOSleep++
			}
		case strings.Contains(g, "trzsz.newTunnelRelay.func1"):
			c.WrS++
		case strings.Contains(g, "trzsz.newTunnelRelay.func2"):
			c.WrC++
		case strings.Contains(g, "trzsz.(*TrzszRelay).handleTunnelConn"):
			c.Handlers++
		case strings.Contains(g, "trzsz.(*TrzszRelay).acceptOnTunnel"):
			c.Acceptors++
		}
	}
	return c
}

func x03CPU() time.Duration {
	var ru syscall.Rusage
	if err := syscall.Getrusage(syscall.RUSAGE_SELF, &ru); err != nil {
		return 0
	}
	return time.Duration(ru.Utime.Nano() + ru.Stime.Nano())
}

func x03OpenFDs() int {
	ents, err := os.ReadDir("/proc/self/fd")
	if err != nil {
		return -1
	}
	return len(ents)
}

// ---------------------------------------------------------------- one session = one relay instance, several transfers

type x03Pair struct {
	pr     int
	round  int
	conn   *net.TCPConn
	sc     *x03SConn
	tok    *x03Tok
	hello4 chan struct{} // closed when the relay's answer to the greeting arrived
	gone   chan struct{} // closed when the client's read side saw EOF / an error
	goneBy string
	self   atomic.Bool // the harness itself closed the client's connection: a read error is not the relay's doing
}

type x03Sess struct {
	id      int
	tr      *vTrace
	plan    *x03Plan
	rmu     sync.Mutex
	rng     *rand.Rand
	base    int64
	relay   *TrzszRelay
	cin     *x03Reader
	sout    *x03Reader
	toS     *x03Tok
	toC     *x03Tok
	flushes atomic.Int32
	gateMu  sync.Mutex
	gate    atomic.Bool
	pmu     sync.Mutex
	ports   map[int]int
	pairs   []*x03Pair
	dialQ   []*x03Pair
	fedIn   []int
	notes   []string
	stuck   atomic.Bool
	stuckAt atomic.Value
	winArm  atomic.Bool
	winGo   chan struct{}
	winBack chan struct{}
	census  []map[string]any
	late    *x03Pair
}

func (s *x03Sess) rnd(n int) int {
	s.rmu.Lock()
	defer s.rmu.Unlock()
	return s.rng.Intn(n)
}

func (s *x03Sess) ev(m map[string]any, do func()) {
	m["run"] = s.id
	s.tr.Emit(m, do)
}

func (s *x03Sess) note(t string) {
	s.pmu.Lock()
	s.notes = append(s.notes, t)
	s.pmu.Unlock()
}

func (s *x03Sess) setPort(r, port int) {
	s.pmu.Lock()
	s.ports[r] = port
	s.pmu.Unlock()
}

func (s *x03Sess) port(r int) int {
	s.pmu.Lock()
	defer s.pmu.Unlock()
	return s.ports[r]
}

func (s *x03Sess) fail(where string) bool {
	if s.stuck.CompareAndSwap(false, true) {
		s.stuckAt.Store(where)
	}
	return false
}

// wait polls cond (generous bound: the machine may be heavily loaded); a time-out marks the session stuck
func (s *x03Sess) wait(where string, cond func() bool) bool {
	deadline := time.Now().Add(30 * time.Second)
	for !cond() {
		if s.stuck.Load() {
			return false
		}
		if time.Now().After(deadline) {
			return s.fail(where)
		}
		time.Sleep(100 * time.Microsecond)
	}
	return true
}

func (s *x03Sess) jitter() {
	switch s.rnd(6) {
	case 0:
		time.Sleep(time.Duration(s.rnd(400)) * time.Microsecond)
	case 1:
		time.Sleep(time.Duration(s.rnd(2000)) * time.Microsecond)
	case 2:
		runtime.Gosched()
	}
}

func x03Has(c []int, ks ...int) (int, bool) {
	for _, t := range c {
		for _, k := range ks {
			if t < 0 && x03K(t) == k {
				return t, true
			}
		}
	}
	return 0, false
}

// the connector handed to the relay: called by handleTunnelConn after it read the client's greeting
func (s *x03Sess) connector(port int) net.Conn {
	s.pmu.Lock()
	var p *x03Pair
	for len(s.dialQ) > 0 {
		q := s.dialQ[0]
		s.dialQ = s.dialQ[1:]
		select {
		case <-q.gone:
			continue
		default:
		}
		p = q
		break
	}
	s.pmu.Unlock()
	if p == nil {
		s.note("connector called without a pending dial")
		return nil
	}
	s.ev(map[string]any{"e": "connect", "pr": p.pr, "port": port}, nil)
	return p.sc
}

// dial connects a new client to the relay's listener and sends the greeting
func (s *x03Sess) dial(round int, hold chan struct{}, queue bool) *x03Pair {
	rport := s.port(round)
	uidSeen := fmt.Sprintf("%013d", s.base+int64(100*round)+20) // the relay (tmux-aware detector) rewrites ...00 to ...20
	hello1, hello4 := getHelloConstant(uidSeen, rport)
	hello2, hello3 := getHelloConstant(uidSeen, 20000+round)
	s.pmu.Lock()
	p := &x03Pair{pr: len(s.pairs) + 1, round: round, hello4: make(chan struct{}), gone: make(chan struct{})}
	s.pairs = append(s.pairs, p)
	s.pmu.Unlock()
	p.tok = &x03Tok{s: s, seen: map[int]bool{}, emit: func(toks []int) {
		s.ev(map[string]any{"e": "tdeliver", "pr": p.pr, "to": "c", "u": toks}, nil)
	}}
	sc := &x03SConn{s: s, pr: p.pr, rd: make(chan x03Chunk), closeCh: make(chan struct{}), peerCh: make(chan struct{}),
		hold: hold, hello2: hello2, hello3: hello3, errEOF: s.plan.SrvErr != "closed"}
	sc.tok = &x03Tok{s: s, seen: map[int]bool{}, emit: func(toks []int) {
		s.ev(map[string]any{"e": "tdeliver", "pr": p.pr, "to": "s", "u": toks}, nil)
	}}
	p.sc = sc
	if queue {
		s.pmu.Lock()
		s.dialQ = append(s.dialQ, p)
		s.pmu.Unlock()
	}
	c, err := net.DialTimeout("tcp", fmt.Sprintf("127.0.0.1:%d", rport), 10*time.Second)
	if err != nil {
		s.ev(map[string]any{"e": "dialfail", "pr": p.pr}, nil)
		p.goneBy = "dialfail"
		close(p.gone)
		return p
	}
	p.conn = c.(*net.TCPConn)
	_ = p.conn.SetNoDelay(true)
	s.ev(map[string]any{"e": "dial", "pr": p.pr}, nil)
	if _, err := p.conn.Write([]byte(hello1)); err != nil {
		s.note("hello1 write: " + err.Error())
	}
	go func() {
		buf := make([]byte, len(hello4))
		if _, err := io.ReadFull(p.conn, buf); err != nil || string(buf) != hello4 {
			p.goneBy = "nogreeting"
			if !p.self.Load() {
				s.ev(map[string]any{"e": "rclosed", "pr": p.pr, "side": "c"}, nil)
			}
			close(p.gone)
			return
		}
		s.ev(map[string]any{"e": "hello4", "pr": p.pr}, nil)
		close(p.hello4)
		rb := make([]byte, 32*1024)
		for {
			n, err := p.conn.Read(rb)
			if n > 0 {
				_, _ = p.tok.Write(rb[:n])
			}
			if err != nil {
				p.goneBy = err.Error()
				if !p.self.Load() {
					s.ev(map[string]any{"e": "rclosed", "pr": p.pr, "side": "c"}, nil)
				}
				close(p.gone)
				return
			}
		}
	}()
	return p
}

func x03Closed(ch chan struct{}) bool {
	select {
	case <-ch:
		return true
	default:
		return false
	}
}

func (s *x03Sess) atRest() bool {
	r := s.relay
	return r.relayStatus.Load() == kRelayStandBy && r.tunnelRelay.Load() == nil && !r.tunnelConnected.Load() && r.tunnelListener.Load() == nil
}

// settle: everything the relay accepted has come out (internal channels empty, no new event for a while)
func (s *x03Sess) settle(tunnels []*tunnelRelay, rounds int) {
	empty := func() bool {
		r := s.relay
		if len(r.osStdinChan) > 0 || len(r.osStdoutChan) > 0 || len(r.bypassTmuxChan) > 0 || len(r.stdinBuffer.bufCh) > 0 || len(r.stdoutBuffer.bufCh) > 0 {
			return false
		}
		for _, t := range tunnels {
			if t != nil && (len(t.clientBufChan) > 0 || len(t.serverBufChan) > 0) {
				return false
			}
		}
		return true
	}
	deadline := time.Now().Add(10 * time.Second)
	okRounds := 0
	for okRounds < rounds && time.Now().Before(deadline) {
		n := s.tr.Len()
		time.Sleep(15 * time.Millisecond)
		if empty() && s.tr.Len() == n {
			okRounds++
		} else {
			okRounds = 0
		}
	}
}

func (s *x03Sess) hook(point string, args ...int) {
	a := make([]int, len(args))
	copy(a, args)
	if len(a) == 0 {
		a = []int{-1}
	}
	s.ev(map[string]any{"e": "hook", "p": point, "a": a}, nil)
	if point == "relay.flush.done" {
		s.flushes.Add(1)
	}
	if point == "relay.hs.act" && s.winArm.CompareAndSwap(true, false) {
		// the window: recvAction has returned, tunnelConnected is not stored yet
		close(s.winGo)
		select {
		case <-s.winBack:
		case <-time.After(5 * time.Second):
		}
		return
	}
	switch s.rnd(6) {
	case 0:
		time.Sleep(time.Duration(s.rnd(300)) * time.Microsecond)
	case 1:
		time.Sleep(time.Duration(s.rnd(3)) * time.Millisecond)
	case 2, 3:
		for i := s.rnd(4); i > 0; i-- {
			runtime.Gosched()
		}
	}
}

func (s *x03Sess) feedIn(side string, c []int) {
	rd := s.cin
	if side == "s" {
		rd = s.sout
	}
	rd.ch <- x03Chunk{s.render(c), c}
}

// noise chunks of a round with a tunnel port wait while the gate is closed (environment assumption ~Window)
func (s *x03Sess) feedNoise(side string, c []int) {
	for {
		s.gateMu.Lock()
		if !s.gate.Load() {
			s.feedIn(side, c)
			if side == "c" {
				s.fedIn = append(s.fedIn, c...)
			}
			s.gateMu.Unlock()
			return
		}
		s.gateMu.Unlock()
		if s.stuck.Load() {
			return
		}
		time.Sleep(200 * time.Microsecond)
	}
}

func (s *x03Sess) runRound(r int) bool {
	rd := &s.plan.Rounds[r-1]
	relay := s.relay
	waitFlush := func() bool {
		return s.wait(fmt.Sprintf("round %d: flush", r), func() bool { return int(s.flushes.Load()) >= r })
	}
	var wg sync.WaitGroup
	tunnel := rd.Kind == "tunnel"
	// ---- in-band server side
	wg.Add(1)
	go func() {
		defer wg.Done()
		for _, c := range rd.Srv {
			if _, ok := x03Has(c, x03TRIGT); ok {
				// close the gate, wait until every in-band client token fed so far has come out, then feed the trigger
				s.gateMu.Lock()
				s.gate.Store(true)
				fed := append([]int(nil), s.fedIn...)
				s.gateMu.Unlock()
				if !s.wait("in-band client tokens before the trigger", func() bool {
					for _, t := range fed {
						if !s.toS.has(t) {
							return false
						}
					}
					return true
				}) {
					return
				}
				s.feedIn("s", c)
				go func() {
					for !s.stuck.Load() && relay.relayStatus.Load() != kRelayHandshaking {
						time.Sleep(50 * time.Microsecond)
					}
					for !s.stuck.Load() && relay.relayStatus.Load() == kRelayHandshaking && !relay.tunnelConnected.Load() {
						time.Sleep(50 * time.Microsecond)
					}
					s.gate.Store(false)
				}()
				continue
			}
			if _, ok := x03Has(c, x03TRIG); ok {
				s.feedIn("s", c)
				continue
			}
			if _, ok := x03Has(c, x03CFG, x03BADCFG); ok {
				if !s.wait("ACT at the server (in-band)", func() bool { return s.toS.has(x03T(x03ACT, r)) }) {
					return
				}
				s.jitter()
				s.feedIn("s", c)
				continue
			}
			if _, ok := x03Has(c, x03END); ok {
				if !waitFlush() || !s.wait("transferring", func() bool { return relay.relayStatus.Load() == kRelayTransferring }) {
					return
				}
				s.jitter()
				s.feedIn("s", c)
				continue
			}
			s.jitter()
			s.feedNoise("s", c)
		}
	}()
	// ---- in-band client side
	wg.Add(1)
	go func() {
		defer wg.Done()
		for _, c := range rd.Cli {
			if _, ok := x03Has(c, x03ACT, x03BADACT); ok {
				if !s.wait("trigger at the client", func() bool {
					return s.toC.has(x03T(x03TRIG, r)) || s.toC.has(x03T(x03TRIGT, r))
				}) {
					return
				}
				s.jitter()
				s.feedIn("c", c)
				continue
			}
			if _, ok := x03Has(c, x03END); ok {
				if !s.wait("CFG at the client (in-band)", func() bool { return s.toC.has(x03T(x03CFG, r)) }) || !waitFlush() {
					return
				}
				s.jitter()
				s.feedIn("c", c)
				continue
			}
			s.jitter()
			s.feedNoise("c", c)
		}
	}()
	// ---- tunnel
	var adopted *x03Pair
	var tun *tunnelRelay
	var second *x03Pair
	var holdLate chan struct{}
	if tunnel {
		if !s.wait("trigger with the relay's port at the client", func() bool { return s.toC.has(x03T(x03TRIGT, r)) && s.port(r) != 0 }) {
			wg.Wait()
			return false
		}
		hold1 := make(chan struct{})
		p1 := s.dial(r, hold1, true)
		if p1.conn == nil {
			s.fail("first dial refused")
			wg.Wait()
			return false
		}
		switch rd.Second {
		case "race", "late":
			// the second client dials once the first handler waits for the server's greeting: the n-th
			// connector call belongs to the n-th dial; both handlers then run towards the CAS together
			if !s.wait("hello2 of pair 1", func() bool { return p1.sc.greeted.Load() }) {
				wg.Wait()
				return false
			}
			hold2 := make(chan struct{})
			second = s.dial(r, hold2, true)
			if second.conn != nil {
				s.wait("hello2 of pair 2", func() bool { return second.sc.greeted.Load() || x03Closed(second.gone) })
			}
			if rd.Second == "late" {
				holdLate = hold2
				close(hold1)
			} else if s.rnd(2) == 0 {
				close(hold1)
				s.jitter()
				close(hold2)
			} else {
				close(hold2)
				s.jitter()
				close(hold1)
			}
		default:
			close(hold1)
		}
		if !s.wait("a tunnel relay is adopted", func() bool { return relay.tunnelRelay.Load() != nil }) {
			wg.Wait()
			return false
		}
		tun = relay.tunnelRelay.Load()
		adopted = p1
		if second != nil && tun != nil && tun.serverConn == net.Conn(second.sc) {
			adopted = second
		}
		if !s.wait("hello4", func() bool { return x03Closed(adopted.hello4) }) {
			wg.Wait()
			return false
		}
		if rd.Second == "race" && second != nil && second.conn != nil {
			// environment assumption ~LateOK: the pair that lost is resolved (closed by the relay on both sides) before the
			// transfer goes on; a handler still on its way to the CAS when a short transfer ends is the `late` scenario
			loser := second
			if adopted == second {
				loser = p1
			}
			deadline := time.Now().Add(20 * time.Second)
			for time.Now().Before(deadline) && !(x03Closed(loser.gone) && loser.sc.relayClosed()) {
				time.Sleep(100 * time.Microsecond)
			}
			if adopted == second {
				second = p1
			}
		}
		if rd.Second == "after" {
			second = s.dial(r, make(chan struct{}), false)
		}
		// the client's tunnel writes
		wg.Add(1)
		go func() {
			defer wg.Done()
			for _, c := range rd.CT {
				if _, ok := x03Has(c, x03END); ok {
					if !s.wait("CFG at the client (tunnel)", func() bool { return adopted.tok.has(x03T(x03CFG, r)) }) || !waitFlush() {
						return
					}
				}
				s.jitter()
				b := s.render(c)
				s.ev(map[string]any{"e": "twrite", "pr": adopted.pr, "u": c}, func() { _, _ = adopted.conn.Write(b) })
			}
		}()
		// the server's tunnel writes
		wg.Add(1)
		go func() {
			defer wg.Done()
			for _, c := range rd.ST {
				if _, ok := x03Has(c, x03CFG, x03BADCFG); ok {
					if !s.wait("ACT at the server (tunnel)", func() bool { return adopted.sc.tok.has(x03T(x03ACTT, r)) }) {
						return
					}
				}
				if _, ok := x03Has(c, x03END); ok {
					if !waitFlush() || !s.wait("transferring", func() bool { return relay.relayStatus.Load() == kRelayTransferring }) {
						return
					}
				}
				s.jitter()
				select {
				case adopted.sc.rd <- x03Chunk{s.render(c), c}:
				case <-adopted.sc.closeCh:
					return
				case <-time.After(20 * time.Second):
					s.fail("server tunnel chunk not taken")
					return
				}
			}
		}()
	}
	var probe *x03Pair
	if rd.Probe {
		// the client dials the port of this trigger once and watches what happens to the connection
		wg.Add(1)
		go func() {
			defer wg.Done()
			if s.wait("trigger with a port (probe)", func() bool { return s.toC.has(x03T(x03TRIGT, r)) && s.port(r) != 0 }) {
				probe = s.dial(r, make(chan struct{}), false)
			}
		}()
	}
	if s.plan.Window && tunnel {
		// an in-band client chunk arrives exactly between recvAction's return and tunnelConnected.Store
		wg.Add(1)
		go func() {
			defer wg.Done()
			select {
			case <-s.winGo:
			case <-time.After(20 * time.Second):
				s.fail("window hook not reached")
				return
			}
			if rd.Confirm {
				s.feedIn("c", []int{127 + 100 + r}) // a payload byte of its own
			} else {
				// refused transfer: in-band server output parked in the window goes to the client's tunnel connection
				s.feedIn("s", []int{127 + 110 + r})
			}
			time.Sleep(3 * time.Millisecond)  // let the pump park it (it blocks on nothing: the worker holds no lock here)
			close(s.winBack)
		}()
	}
	done := make(chan struct{})
	go func() { wg.Wait(); close(done) }()
	select {
	case <-done:
	case <-time.After(60 * time.Second):
		return s.fail(fmt.Sprintf("round %d: feeders", r))
	}
	if s.stuck.Load() {
		return false
	}
	// ---- the end of the round: the handshake worker has finished; a confirmed transfer has seen its end marker
	if !waitFlush() {
		return false
	}
	confirmedOK := rd.Confirm && !rd.BadCfg
	if confirmedOK {
		end := x03T(x03END, r)
		if !s.wait(fmt.Sprintf("round %d: end marker delivered", r), func() bool {
			if tunnel {
				return adopted.sc.tok.has(end) || adopted.tok.has(end)
			}
			return s.toS.has(end) || s.toC.has(end)
		}) {
			return false
		}
		s.wait("standby", func() bool { return relay.relayStatus.Load() == kRelayStandBy })
	}
	for i := 0; i < 500 && !s.atRest(); i++ { // the clears follow the CAS within microseconds; do not insist
		time.Sleep(100 * time.Microsecond)
	}
	if holdLate != nil {
		// the server's greeting for the second pair arrives only now: its handler runs into the CAS after the reset
		close(holdLate)
		deadline := time.Now().Add(2 * time.Second)
		for time.Now().Before(deadline) && !x03Closed(second.hello4) && !x03Closed(second.gone) {
			time.Sleep(200 * time.Microsecond)
		}
		time.Sleep(5 * time.Millisecond)
	}
	s.settle([]*tunnelRelay{tun}, 2)
	s.ev(map[string]any{"e": "quiet", "round": r}, nil)
	if tunnel {
		s.closePair(adopted, tun)
	}
	if holdLate != nil {
		s.late = second // adopted after the reset: dealt with at the end of the session
		second = nil
	}
	if probe != nil {
		second = probe
	}
	for _, p := range []*x03Pair{second} {
		if p != nil && p.conn != nil && p != adopted {
			// a connection that lost (or was refused) must have been closed by the relay
			deadline := time.Now().Add(15 * time.Second)
			for time.Now().Before(deadline) && !x03Closed(p.gone) {
				time.Sleep(200 * time.Microsecond)
			}
			p.self.Store(true)
			_ = p.conn.Close()
		}
	}
	return !s.stuck.Load()
}

// closePair: the ends close their tunnel connections after the transfer; what the relay does with its
// four goroutines and two connections is observed (events rclosed, pumps) and measured (census)
func (s *x03Sess) closePair(p *x03Pair, tun *tunnelRelay) {
	before := x03TakeCensus()
	cliClose := func() {
		s.ev(map[string]any{"e": "tclose", "pr": p.pr, "who": "c"}, func() { _ = p.conn.CloseWrite() })
	}
	srvClose := func() {
		s.ev(map[string]any{"e": "tclose", "pr": p.pr, "who": "s"}, func() { p.sc.peerClose() })
	}
	waitFor := func(cond func() bool, d time.Duration) bool {
		deadline := time.Now().Add(d)
		for !cond() {
			if time.Now().After(deadline) {
				return false
			}
			time.Sleep(200 * time.Microsecond)
		}
		return true
	}
	// strict: the ends wait generously for the relay to finish with the pair; what has not happened by then is judged
	// (RelayTunnelTrace: no end-of-stream step of the pair may still be enabled).  A short wait is an observation only.
	bound := time.Duration(s.plan.CloseWaitMs) * time.Millisecond
	strict := bound == 0
	if strict {
		bound = 15 * time.Second
	}
	switch s.plan.Close {
	case "srv":
		srvClose()
		waitFor(func() bool { return x03Closed(p.gone) }, bound)
		cliClose()
		waitFor(p.sc.relayClosed, bound)
	case "both":
		if s.rnd(2) == 0 {
			cliClose()
			srvClose()
		} else {
			srvClose()
			cliClose()
		}
		waitFor(func() bool { return x03Closed(p.gone) && p.sc.relayClosed() }, bound)
	default:
		cliClose()
		waitFor(p.sc.relayClosed, bound)
		srvClose()
		waitFor(func() bool { return x03Closed(p.gone) }, bound)
	}
	// classify the pair's four goroutines: all of them were alive in `before`; nothing else changes meanwhile
	var c1, c2 x03Census
	for i := 0; i < 40; i++ {
		c1 = x03TakeCensus()
		if c1.TI < before.TI && c1.TO < before.TO && c1.WrS < before.WrS && c1.WrC < before.WrC {
			break
		}
		time.Sleep(5 * time.Millisecond)
	}
	time.Sleep(10 * time.Millisecond)
	c2 = x03TakeCensus()
	c3 := c2
	if !(c2.TI < before.TI && c2.TO < before.TO) {
		// "spin" = seen running / runnable in three samples spread over tens of milliseconds (a goroutine that merely
		// waits for a processor on a busy machine is not spinning)
		time.Sleep(30 * time.Millisecond)
		c3 = x03TakeCensus()
	}
	cls := func(n2, busy1, busy2, busy3, sleep2, n0, busy0, sleep0 int) string {
		switch {
		case n2 < n0:
			return "ended"
		case busy1 > busy0 && busy2 > busy0 && busy3 > busy0:
			return "spin"
		case sleep2 > sleep0:
			return "eofwait"
		default:
			return "read"
		}
	}
	ti := cls(c2.TI, c1.TIBusy, c2.TIBusy, c3.TIBusy, c2.TISleep, before.TI, before.TIBusy, before.TISleep)
	to := cls(c2.TO, c1.TOBusy, c2.TOBusy, c3.TOBusy, c2.TOSleep, before.TO, before.TOBusy, before.TOSleep)
	alive := func(n, n0 int) string {
		if n < n0 {
			return "ended"
		}
		return "alive"
	}
	ev := map[string]any{"e": "pumps", "pr": p.pr, "ti": ti, "to": to, "wrs": alive(c2.WrS, before.WrS), "wrc": alive(c2.WrC, before.WrC), "strict": strict}
	s.ev(ev, nil)
	s.pmu.Lock()
	s.census = append(s.census, map[string]any{"pr": p.pr, "ti": ti, "to": to, "wrs": ev["wrs"], "wrc": ev["wrc"],
		"bad_reads_server_conn": p.sc.badRd.Load(), "client_gone_by": p.goneBy})
	s.pmu.Unlock()
	p.self.Store(true)
	_ = p.conn.Close()
}


func x03RunSession(tr *vTrace, plan *x03Plan) (ok bool, info map[string]any) {
	s := &x03Sess{id: plan.ID, tr: tr, plan: plan, rng: rand.New(rand.NewSource(plan.Seed)), ports: map[int]int{},
		winGo: make(chan struct{}), winBack: make(chan struct{})}
	s.base = ((time.Now().UnixMilli() + int64(plan.ID)*7919) % 1e10) * 1000 // 13 digits, ends in 000: + 100*round keeps the 00 suffix
	confirm := make([]bool, len(plan.Rounds))
	for i, r := range plan.Rounds {
		confirm[i] = r.Confirm
	}
	s.ev(map[string]any{"e": "reset", "confirm": confirm, "srverr": plan.SrvErr}, nil)
	s.winArm.Store(plan.Window)
	verifHook = s.hook
	defer func() { verifHook = nil }()
	s.toS = &x03Tok{inbandServer: true, s: s, seen: map[int]bool{}, emit: func(t []int) { s.ev(map[string]any{"e": "deliver", "to": "s", "u": t}, nil) }}
	s.toC = &x03Tok{s: s, seen: map[int]bool{}, emit: func(t []int) { s.ev(map[string]any{"e": "deliver", "to": "c", "u": t}, nil) }}
	s.cin = &x03Reader{ch: make(chan x03Chunk)}
	s.sout = &x03Reader{ch: make(chan x03Chunk)}
	s.cin.onRead = func(u []int) { s.ev(map[string]any{"e": "feed", "side": "c", "u": u}, nil) }
	s.sout.onRead = func(u []int) { s.ev(map[string]any{"e": "feed", "side": "s", "u": u}, nil) }
	s.relay = NewTrzszRelay(s.cin, s.toC, s.toS, s.sout, TrzszOptions{})
	s.relay.SetTunnelConnector(s.connector)
	ok = true
	for r := 1; r <= len(plan.Rounds); r++ {
		if !s.runRound(r) {
			ok = false
			break
		}
	}
	if ok && s.late != nil && s.late.conn != nil && x03Closed(s.late.hello4) {
		s.closePair(s.late, nil)
	}
	if ok {
		s.settle(nil, 3)
		s.ev(map[string]any{"e": "final"}, nil)
	} else {
		at, _ := s.stuckAt.Load().(string)
		s.ev(map[string]any{"e": "stuck", "at": at}, nil)
	}
	close(s.cin.ch)
	close(s.sout.ch)
	at, _ := s.stuckAt.Load().(string)
	info = map[string]any{"id": plan.ID, "ok": ok, "stuck_at": at, "notes": s.notes, "census": s.census, "plan": plan}
	return ok, info
}

// ---------------------------------------------------------------- plans and drivers

func init() { vRegister("x03_relaytunnel", x03Drive) }

type x03Gen struct {
	r    *rand.Rand
	next int
}

func (g *x03Gen) plain(n int) []int {
	var t []int
	for i := 0; i < n && g.next < 225; i++ {
		t = append(t, g.next)
		g.next++
	}
	return t
}

func (g *x03Gen) chunks(k, maxLen int) [][]int {
	var res [][]int
	for i := 0; i < k; i++ {
		if c := g.plain(1 + g.r.Intn(maxLen)); len(c) > 0 {
			res = append(res, c)
		}
	}
	return res
}

func (g *x03Gen) with(tok, before, after int) []int {
	c := g.plain(g.r.Intn(before + 1))
	c = append(c, tok)
	return append(c, g.plain(g.r.Intn(after+1))...)
}

func (g *x03Gen) round(r int, kind string, light bool) x03Round {
	rd := x03Round{Kind: kind, Confirm: g.r.Intn(6) != 0, EndBy: "cli", EndText: []string{"#EXIT:", "#EXIT:", "#FAIL:", "#fail:"}[g.r.Intn(4)]}
	if rd.Confirm && g.r.Intn(7) == 0 {
		rd.BadCfg = true
	}
	if g.r.Intn(3) == 0 {
		rd.EndBy = "srv"
	}
	k := 3
	if light {
		k = 1
	}
	ok := rd.Confirm && !rd.BadCfg
	if kind == "tunnel" {
		switch g.r.Intn(10) {
		case 0, 1, 2:
			rd.Second = "race"
		case 3:
			rd.Second = "after"
		}
		rd.Srv = append(rd.Srv, g.chunks(g.r.Intn(2), 2)...)
		rd.Srv = append(rd.Srv, g.with(x03T(x03TRIGT, r), 2, 2))
		rd.Srv = append(rd.Srv, g.chunks(g.r.Intn(k), 2)...)
		rd.Cli = append(rd.Cli, g.chunks(g.r.Intn(k+1), 2)...)
		rd.CT = append(rd.CT, g.with(x03T(x03ACTT, r), 0, 2))
		rd.CT = append(rd.CT, g.chunks(g.r.Intn(k+1), 3)...)
		if rd.Confirm {
			cfg := x03CFG
			if rd.BadCfg {
				cfg = x03BADCFG
			}
			rd.ST = append(rd.ST, g.with(x03T(cfg, r), 0, 2))
		}
		rd.ST = append(rd.ST, g.chunks(g.r.Intn(k+1), 3)...)
		if ok && rd.EndBy == "cli" {
			rd.CT = append(rd.CT, g.with(x03T(x03END, r), 2, 0))
			rd.CT = append(rd.CT, g.chunks(g.r.Intn(2), 2)...)
		} else if ok {
			rd.ST = append(rd.ST, g.with(x03T(x03END, r), 2, 0))
			rd.ST = append(rd.ST, g.chunks(g.r.Intn(2), 2)...)
		}
		return rd
	}
	rd.Port = g.r.Intn(2) == 0
	trig := x03TRIG
	if rd.Port {
		trig = x03TRIGT
	}
	rd.Srv = append(rd.Srv, g.chunks(g.r.Intn(2), 2)...)
	rd.Srv = append(rd.Srv, g.with(x03T(trig, r), 2, 2))
	rd.Srv = append(rd.Srv, g.chunks(g.r.Intn(k), 2)...)
	rd.Cli = append(rd.Cli, g.chunks(g.r.Intn(k), 2)...)
	rd.Cli = append(rd.Cli, g.with(x03T(x03ACT, r), 2, 2))
	rd.Cli = append(rd.Cli, g.chunks(g.r.Intn(k), 2)...)
	if rd.Confirm {
		cfg := x03CFG
		if rd.BadCfg {
			cfg = x03BADCFG
		}
		rd.Srv = append(rd.Srv, g.with(x03T(cfg, r), 2, 2))
		rd.Srv = append(rd.Srv, g.chunks(g.r.Intn(k), 2)...)
	}
	if ok && rd.EndBy == "cli" {
		rd.Cli = append(rd.Cli, g.with(x03T(x03END, r), 2, 0))
	} else if ok {
		rd.Srv = append(rd.Srv, g.with(x03T(x03END, r), 2, 0))
	}
	return rd
}

func x03GenPlan(id int, seed int64, mode string) *x03Plan {
	g := &x03Gen{r: rand.New(rand.NewSource(seed*7919 + int64(id))), next: 128}
	p := &x03Plan{ID: id, Seed: seed*104729 + int64(id), SrvErr: "eof", Close: "cli"}
	switch mode {
	case "window":
		p.Window = true
		rd := x03Round{Kind: "tunnel", Confirm: id%3 != 0, EndBy: "cli", EndText: "#EXIT:"}
		rd.Srv = [][]int{g.with(x03T(x03TRIGT, 1), 1, 1)}
		rd.CT = [][]int{g.with(x03T(x03ACTT, 1), 0, 2), g.plain(2)}
		if rd.Confirm {
			rd.ST = [][]int{g.with(x03T(x03CFG, 1), 0, 2)}
			rd.CT = append(rd.CT, g.with(x03T(x03END, 1), 1, 0))
		}
		p.Rounds = []x03Round{rd}
	case "late":
		p.CloseWaitMs = 500
		rd := g.round(1, "tunnel", true)
		for !rd.Confirm || rd.BadCfg {
			rd = g.round(1, "tunnel", true)
		}
		rd.Second = "late"
		p.Rounds = []x03Round{rd}
		if id%2 == 0 {
			r2 := g.round(2, "inband", true)
			for !r2.Confirm || r2.BadCfg {
				r2 = g.round(2, "inband", true)
			}
			if !r2.Port { // the trigger of the second transfer carries a port
				for i, c := range r2.Srv {
					for j, t := range c {
						if t == x03T(x03TRIG, 2) {
							r2.Srv[i][j] = x03T(x03TRIGT, 2)
						}
					}
				}
				r2.Port = true
			}
			r2.Probe = true
			p.Rounds = append(p.Rounds, r2)
		}
	case "pumps":
		p.SrvErr = "closed"
		p.CloseWaitMs = 400
		p.Close = []string{"cli", "srv", "both"}[id%3]
		rd := g.round(1, "tunnel", true)
		rd.Second = ""
		p.Rounds = []x03Round{rd}
	default:
		kinds := [][]string{{"tunnel"}, {"tunnel", "inband"}, {"tunnel", "inband", "tunnel"}, {"inband", "tunnel"}, {"tunnel", "tunnel"}, {"tunnel"}}[g.r.Intn(6)]
		for i, k := range kinds {
			p.Rounds = append(p.Rounds, g.round(i+1, k, len(kinds) > 1))
		}
	}
	return p
}

func x03Drive(d *vCtx) error {
	total := d.pInt("runs", 64)
	shards := d.pInt("shards", 16)
	mode := d.pStr("mode", "mix")
	return vShards(d, shards, func(si, n int) error {
		_ = os.Unsetenv("TMUX")
		_ = os.Setenv("PATH", "/nonexistent") // resetToStandby runs `tmux refresh-client`
		devnull, _ := os.OpenFile(os.DevNull, os.O_WRONLY, 0)
		os.Stdout = devnull
		tr, err := vNewTrace(d.path("trace.ndjson"))
		if err != nil {
			return err
		}
		var infos []map[string]any
		var fixed []*x03Plan
		if f := d.pStr("plans", ""); f != "" {
			b, err := os.ReadFile(f)
			if err != nil {
				return err
			}
			if err := json.Unmarshal(b, &fixed); err != nil {
				return err
			}
			total = len(fixed)
		}
		fd0 := x03OpenFDs()
		for id := si; id < total; id += n {
			var plan *x03Plan
			if fixed != nil {
				plan = fixed[id]
			} else {
				plan = x03GenPlan(id, d.seed, mode)
			}
			ok, info := x03RunSession(tr, plan)
			infos = append(infos, info)
			if ns, _ := info["notes"].([]string); len(ns) > 0 {
				for _, nt := range ns {
					if strings.HasPrefix(nt, "c14:") {
						d.add("c14_notes", 1)
						break
					}
				}
			}
			d.add("runs", 1)
			d.add("rounds", len(plan.Rounds))
			if !ok {
				d.add("stuck", 1)
				break // goroutines of the stuck relay may still fire hooks
			}
		}
		if mode == "pumps" {
			// what is left behind by the sessions of this process: goroutines, descriptors, CPU, allocation
			c := x03TakeCensus()
			var m0, m1 runtime.MemStats
			runtime.ReadMemStats(&m0)
			cpu0, t0 := x03CPU(), time.Now()
			time.Sleep(300 * time.Millisecond)
			cpu1, wall := x03CPU(), time.Since(t0)
			runtime.ReadMemStats(&m1)
			c2 := x03TakeCensus()
			_ = vWriteJSON(d.path("leftover.json"), map[string]any{"sessions": len(infos), "ti_alive": c.TI, "to_alive": c.TO,
				"ti_busy": c2.TIBusy, "to_busy": c2.TOBusy, "writers_alive": c.WrS + c.WrC, "goroutines": c.Total,
				"fds_before": fd0, "fds_after": x03OpenFDs(), "cpu_ms": (cpu1 - cpu0).Milliseconds(), "wall_ms": wall.Milliseconds(),
				"alloc_mb_per_s": float64(m1.TotalAlloc-m0.TotalAlloc) / 1e6 / wall.Seconds(), "gomaxprocs": runtime.GOMAXPROCS(0)})
		}
		if err := tr.Close(); err != nil {
			return err
		}
		return vWriteJSON(d.path("infos.json"), infos)
	})
}
