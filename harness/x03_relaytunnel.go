//go:build verif

package trzsz

// X03 "RelayTunnel": the tunnel path through a real TrzszRelay.
//
//   in-band:  x03Reader (chunk preserving) -> relay.clientIn / relay.serverOut ; relay writes into x03Tok sinks
//   tunnel:   the scripted client dials the relay's real TCP listener (port learnt from the trigger
//             the relay forwards), greets, writes chunks of unique payload bytes around real ACT /
//             EXIT lines; the relay's connector gets an x03SConn (a chunk preserving net.Conn whose
//             Read / Write / Close are events) that plays the server's tunnel connection.
//   hooks:    the 16 vhook points of relay.go are recorded and delayed with seeded random sleeps.
//
// Events (ndjson, one per spec action of RelayTunnelTrace.tla):
//   reset{confirm}  feed{side,u}  deliver{to,u}  hook{p,a}  dial{pr}  dialfail{pr}  connect{pr}
//   hello4{pr}  twrite{pr,u}  tfeed{pr,u}  tdeliver{pr,to,u}  tclose{pr,who}  rclosed{pr,side}
//   quiet{}  pumps{pr,ti,to,wrs,wrc}
// Tokens: payload bytes 128..255 are themselves; protocol lines are negative (see x03* constants),
// items of round r are x - 10*(r-1).

import (
	"bytes"
	"encoding/json"
	"fmt"
	"io"
	"math/rand"
	"net"
	"os"
	"regexp"
	"runtime"
	"strconv"
	"strings"
	"sync"
	"sync/atomic"
	"syscall"
	"time"
)

const (
	x03ACT    = -1
	x03CFG    = -2
	x03TRIG   = -3
	x03END    = -4
	x03FAIL   = -5
	x03BADACT = -6
	x03BADCFG = -7
	x03TRIGT  = -8
	x03ACTT   = -9
	x03UNK    = -99
)

func x03K(t int) int {
	if t >= 0 || t == x03UNK {
		return t
	}
	return -(((-t)-1)%10) - 1
}
func x03R(t int) int    { return ((-t)-1)/10 + 1 }
func x03T(k, r int) int { return k - 10*(r-1) }

type x03Round struct {
	Kind    string  `json:"kind"`    // "tunnel" | "inband"
	Confirm bool    `json:"confirm"` // the ACT confirms
	EndBy   string  `json:"endby"`   // "cli" | "srv": who ends a confirmed transfer
	EndText string  `json:"endtext"` // "#EXIT:" | "#FAIL:" | "#fail:"
	BadCfg  bool    `json:"badcfg"`  // the server's CFG is undecodable
	Port    bool    `json:"port"`    // in-band round whose trigger carries a tunnel port (nobody dials)
	Second  string  `json:"second"`  // "" | "race" | "after" | "late": a second pair of connections
	Cli     [][]int `json:"cli"`     // in-band chunks of the client side
	Srv     [][]int `json:"srv"`     // in-band chunks of the server side (the first one holds the trigger)
	CT      [][]int `json:"ct"`      // tunnel chunks of the client (adopted pair)
	ST      [][]int `json:"st"`      // tunnel chunks of the server (adopted pair)
}

type x03Plan struct {
	ID     int        `json:"id"`
	Seed   int64      `json:"seed"`
	Rounds []x03Round `json:"rounds"`
	SrvErr string     `json:"srverr"` // "eof": the connector's connection reports its own Close as io.EOF; "closed": net.ErrClosed
	Close  string     `json:"close"`  // "cli" | "srv" | "both": who closes first after a tunnel transfer
	Window bool       `json:"window"` // steer an in-band client chunk into the window between hs.act and tunnelConnected.Store
}

// ---------------------------------------------------------------- in-band reader

type x03Chunk struct {
	b []byte
	u []int
}

type x03Reader struct {
	ch     chan x03Chunk
	onRead func(u []int)
}

func (r *x03Reader) Read(p []byte) (int, error) {
	c, ok := <-r.ch
	if !ok {
		return 0, io.EOF
	}
	n := copy(p, c.b)
	if r.onRead != nil {
		r.onRead(c.u)
	}
	return n, nil
}

// ---------------------------------------------------------------- tokenizer sink

type x03Tok struct {
	mu    sync.Mutex
	s     *x03Sess
	carry []byte
	seen  map[int]bool
	emit  func(toks []int)
}

func (w *x03Tok) Close() error { return nil }

func (w *x03Tok) Write(p []byte) (int, error) {
	w.mu.Lock()
	defer w.mu.Unlock()
	data := append(w.carry, p...)
	w.carry = nil
	var toks []int
	i := 0
	for i < len(data) {
		if data[i] >= 0x80 {
			toks = append(toks, int(data[i]))
			i++
			continue
		}
		j := i
		for j < len(data) && data[j] < 0x80 && data[j] != '\n' {
			j++
		}
		if j >= len(data) || data[j] != '\n' {
			if j < len(data) {
				toks = append(toks, w.s.classify(data[i:j]))
				i = j
				continue
			}
			w.carry = append([]byte(nil), data[i:]...)
			break
		}
		toks = append(toks, w.s.classify(data[i:j+1]))
		i = j + 1
	}
	if len(toks) > 0 {
		w.emit(toks)
		for _, t := range toks {
			w.seen[t] = true
		}
	}
	return len(p), nil
}

func (w *x03Tok) has(tok int) bool {
	w.mu.Lock()
	defer w.mu.Unlock()
	return w.seen[tok]
}

// ---------------------------------------------------------------- the server's tunnel connection

type x03Addr string

func (a x03Addr) Network() string { return "x03" }
func (a x03Addr) String() string  { return string(a) }

type x03SConn struct {
	s       *x03Sess
	pr      int
	rd      chan x03Chunk
	closeCh chan struct{} // the relay called Close
	peerCh  chan struct{} // the server end closed
	hold    chan struct{} // hello3 is withheld until this is closed
	once    sync.Once
	ponce   sync.Once
	first   atomic.Bool
	hello2  string
	hello3  string
	tok     *x03Tok
	errEOF  bool
	badRd   atomic.Int64 // Reads answered with an error after the relay's own Close
	greeted atomic.Bool
}

func (c *x03SConn) closedErr() error {
	c.badRd.Add(1)
	if c.errEOF {
		return io.EOF
	}
	return net.ErrClosed
}

func (c *x03SConn) Read(b []byte) (int, error) {
	select {
	case <-c.closeCh:
		return 0, c.closedErr()
	default:
	}
	select {
	case ch := <-c.rd:
		n := copy(b, ch.b)
		if ch.u != nil {
			c.s.ev(map[string]any{"e": "tfeed", "pr": c.pr, "u": ch.u}, nil)
		}
		return n, nil
	case <-c.closeCh:
		return 0, c.closedErr()
	case <-c.peerCh:
		return 0, io.EOF
	}
}

func (c *x03SConn) Write(b []byte) (int, error) {
	select {
	case <-c.closeCh:
		return 0, net.ErrClosed
	default:
	}
	if c.first.CompareAndSwap(false, true) {
		if string(b) != c.hello2 {
			c.s.note("hello2 mismatch: " + string(b))
			return len(b), nil
		}
		c.greeted.Store(true)
		go func() {
			select {
			case <-c.hold:
			case <-c.closeCh:
				return
			}
			select {
			case c.rd <- x03Chunk{[]byte(c.hello3), nil}:
			case <-c.closeCh:
			}
		}()
		return len(b), nil
	}
	return c.tok.Write(b)
}

func (c *x03SConn) Close() error {
	c.once.Do(func() {
		c.s.ev(map[string]any{"e": "rclosed", "pr": c.pr, "side": "s"}, func() { close(c.closeCh) })
	})
	return nil
}
func (c *x03SConn) peerClose()                         { c.ponce.Do(func() { close(c.peerCh) }) }
func (c *x03SConn) LocalAddr() net.Addr                { return x03Addr("relay-side") }
func (c *x03SConn) RemoteAddr() net.Addr               { return x03Addr("server") }
func (c *x03SConn) SetDeadline(t time.Time) error      { return nil }
func (c *x03SConn) SetReadDeadline(t time.Time) error  { return nil }
func (c *x03SConn) SetWriteDeadline(t time.Time) error { return nil }

func (c *x03SConn) relayClosed() bool {
	select {
	case <-c.closeCh:
		return true
	default:
		return false
	}
}

// ---------------------------------------------------------------- rendering / classification

var x03TrigRe = regexp.MustCompile(`::TRZSZ:TRANSFER:[SRD]:1\.1\.(\d+):(\d+)(?::(\d+))?`)

func (s *x03Sess) render(toks []int) []byte {
	var b bytes.Buffer
	for _, t := range toks {
		if t >= 0 {
			b.WriteByte(byte(t))
			continue
		}
		r := x03R(t)
		switch x03K(t) {
		case x03TRIG:
			b.WriteString(fmt.Sprintf("::TRZSZ:TRANSFER:R:1.1.%d:%013d:0\r\n", 7+r, s.base+int64(100*r)))
		case x03TRIGT:
			b.WriteString(fmt.Sprintf("::TRZSZ:TRANSFER:R:1.1.%d:%013d:%d\r\n", 7+r, s.base+int64(100*r), 20000+r))
		case x03ACT, x03ACTT:
			act, _ := json.Marshal(&transferAction{Lang: fmt.Sprintf("go%d", r), Version: "1.1.8", Confirm: s.plan.Rounds[r-1].Confirm,
				Newline: "\n", Protocol: 4, SupportBinary: true, SupportDirectory: true, TunnelConnected: x03K(t) == x03ACTT})
			b.WriteString("#ACT:" + encodeString(string(act)) + "\n")
		case x03CFG:
			b.WriteString("#CFG:" + encodeString(fmt.Sprintf(`{"lang":"go","bufsize":10485760,"timeout":%d,"protocol":4}`, 20+r)) + "\n")
		case x03END:
			b.WriteString(s.plan.Rounds[r-1].EndText + encodeString(fmt.Sprintf("end%d", r)) + "\n")
		case x03BADACT:
			b.WriteString("#ACT:%%%%\n")
		case x03BADCFG:
			b.WriteString("#CFG:%%%%\n")
		}
	}
	return b.Bytes()
}

func (s *x03Sess) classify(line []byte) int {
	payload := func(typ string) []byte {
		i := bytes.Index(line, []byte("#"+typ+":"))
		if i < 0 {
			return nil
		}
		dec, err := decodeString(string(bytes.TrimRight(line[i+len(typ)+2:], "\r\n")))
		if err != nil {
			return nil
		}
		return dec
	}
	num := func(b []byte, key string) int {
		i := bytes.Index(b, []byte(key))
		if i < 0 {
			return 0
		}
		j := i + len(key)
		k := j
		for k < len(b) && b[k] >= '0' && b[k] <= '9' {
			k++
		}
		n, _ := strconv.Atoi(string(b[j:k]))
		return n
	}
	switch {
	case bytes.Contains(line, []byte("::TRZSZ:TRANSFER:")):
		m := x03TrigRe.FindSubmatch(line)
		if m == nil {
			return x03UNK
		}
		patch, _ := strconv.Atoi(string(m[1]))
		r := patch - 7
		port := 0
		if m[3] != nil {
			port, _ = strconv.Atoi(string(m[3]))
		}
		if r < 1 || r > 9 {
			return x03UNK
		}
		if port != 0 {
			s.setPort(r, port)
			return x03T(x03TRIGT, r)
		}
		return x03T(x03TRIG, r)
	case bytes.Contains(line, []byte("#ACT:")):
		p := payload("ACT")
		r := num(p, `"lang":"go`)
		if r < 1 {
			return x03UNK
		}
		if bytes.Contains(p, []byte(`"tunnel":true`)) {
			return x03T(x03ACTT, r)
		}
		return x03T(x03ACT, r)
	case bytes.Contains(line, []byte("#CFG:")):
		r := num(payload("CFG"), `"timeout":`) - 20
		if r < 1 {
			return x03UNK
		}
		return x03T(x03CFG, r)
	case bytes.Contains(line, []byte("#EXIT:")), bytes.Contains(line, []byte("#FAIL:")), bytes.Contains(line, []byte("#fail:")):
		for _, typ := range []string{"EXIT", "FAIL", "fail"} {
			if p := payload(typ); p != nil {
				if r := num(p, "end"); r >= 1 && bytes.HasPrefix(p, []byte("end")) {
					return x03T(x03END, r)
				}
				return x03FAIL
			}
		}
		return x03FAIL
	}
	return x03UNK
}

// ---------------------------------------------------------------- goroutine census

type x03Census struct {
	TI, TO, WrS, WrC       int // goroutines alive in tunnelRelay.wrapInput / wrapOutput / the two writers
	TIBusy, TOBusy         int // ... of which not blocked (running / runnable)
	TISleep, TOSleep       int // ... in time.Sleep (waiting for the reset after io.EOF)
	Handlers, Acceptors    int
	Total                  int
}

func x03TakeCensus() x03Census {
	buf := make([]byte, 1<<20)
	for {
		n := runtime.Stack(buf, true)
		if n < len(buf) {
			buf = buf[:n]
			break
		}
		buf = make([]byte, 2*len(buf))
	}
	var c x03Census
	for _, g := range strings.Split(string(buf), "\n\n") {
		if !strings.HasPrefix(g, "goroutine ") {
			continue
		}
		c.Total++
		head := g
		if i := strings.IndexByte(g, '\n'); i >= 0 {
			head = g[:i]
		}
		busy := strings.Contains(head, "[running") || strings.Contains(head, "[runnable")
		sleep := strings.Contains(head, "[sleep")
		switch {
		case strings.Contains(g, "trzsz.(*tunnelRelay).wrapInput"):
			c.TI++
			if busy {
				c.TIBusy++
			}
			if sleep {
				c.TISleep++
			}
		case strings.Contains(g, "trzsz.(*tunnelRelay).wrapOutput"):
			c.TO++
			if busy {
				c.TOBusy++
			}
			if sleep {
				c.TOSleep++
			}
		case strings.Contains(g, "trzsz.newTunnelRelay.func1"):
			c.WrS++
		case strings.Contains(g, "trzsz.newTunnelRelay.func2"):
			c.WrC++
		case strings.Contains(g, "trzsz.(*TrzszRelay).handleTunnelConn"):
			c.Handlers++
		case strings.Contains(g, "trzsz.(*TrzszRelay).acceptOnTunnel"):
			c.Acceptors++
		}
	}
	return c
}

func x03CPU() time.Duration {
	var ru syscall.Rusage
	if err := syscall.Getrusage(syscall.RUSAGE_SELF, &ru); err != nil {
		return 0
	}
	return time.Duration(ru.Utime.Nano() + ru.Stime.Nano())
}

func x03OpenFDs() int {
	ents, err := os.ReadDir("/proc/self/fd")
	if err != nil {
		return -1
	}
	return len(ents)
}

var _ = rand.Int
