//go:build verif

package trzsz

// C05 drivers: a real TrzszFilter (NewTrzszFilter: real wrapInput / wrapOutput / handleTrzsz,
// real detector, drag detection, zmodem branch, OSC52 scanner, trace logger) on harness pipes.
//
//   serverOut / clientIn  are c05Reader: one queued chunk per Read, block (never EOF) when empty.
//                         A pump calling Read again ends the turn of the chunk it got before:
//                         everything that pump goroutine wrote meanwhile is the chunk's image.
//   clientOut / serverIn  are c05Writer: bytes written by the pump goroutine of that direction
//                         during a turn are appended to the turn's image; bytes written by any
//                         other goroutine (handler, prompt, drag, zmodem) are `other` events.
//
// Events (ndjson, one per spec action of Filter.tla, validated by FilterTrace.tla):
//   reset{drag,zmodem,osc52,tlog,sc} feedOut/feedIn{id,k,n,h} doneOut/doneIn{id,n,h,pre,body,post}
//   other{side,n,h} stop{} mode{idle,why}
// The relation (pre, body, post) between the bytes fed and the bytes that came out is computed
// here (same / none / crlf / other, optional show-cursor prefix, optional hide-cursor suffix);
// which relation is allowed in which state is decided by the specification alone.
//
// Histories are real transfers: the in-process server side is the real role body of trz / tsz
// (recvFiles / sendFiles + serverError), its stdout (serverExit prints there) is a pipe that is
// fed back into the filter's serverOut, like a pty would.

import (
	"bytes"
	"crypto/sha1"
	"encoding/hex"
	"encoding/json"
	"fmt"
	"io"
	"math/rand"
	"os"
	"path/filepath"
	"runtime"
	"strings"
	"sync"
	"sync/atomic"
	"time"
)

const (
	c05Show     = "\x1b[?25h"
	c05Hide     = "\x1b[?25l"
	c05MaxChunk = 16 * 1024
)

func c05Gid() int64 {
	var buf [64]byte
	n := runtime.Stack(buf[:], false)
	var id int64
	for _, c := range buf[10:n] { // "goroutine 123 [running]:"
		if c < '0' || c > '9' {
			break
		}
		id = id*10 + int64(c-'0')
	}
	return id
}

func c05Hash(b []byte) string {
	s := sha1.Sum(b)
	return hex.EncodeToString(s[:6])
}

// c05Rel: relation between the chunk fed and its image.
func c05Rel(fed, got []byte) (pre bool, body string, post bool) {
	for _, pr := range []bool{false, true} {
		for _, po := range []bool{false, true} {
			g := got
			if pr {
				if !bytes.HasPrefix(g, []byte(c05Show)) {
					continue
				}
				g = g[len(c05Show):]
			}
			if po {
				if !bytes.HasSuffix(g, []byte(c05Hide)) {
					continue
				}
				g = g[:len(g)-len(c05Hide)]
			}
			switch {
			case bytes.Equal(g, fed):
				return pr, "same", po
			case len(g) == 0:
				return pr, "none", po
			case string(g) == "\r\n":
				return pr, "crlf", po
			}
		}
	}
	// something else (a rewritten trigger, a trace-log message ...): the cursor sequences around it still count
	pre = bytes.HasPrefix(got, []byte(c05Show)) && !bytes.HasPrefix(fed, []byte(c05Show))
	post = bytes.HasSuffix(got, []byte(c05Hide)) && !bytes.HasSuffix(fed, []byte(c05Hide))
	return pre, "other", post
}

type c05Chunk struct {
	id              int
	side, kind      string
	b               []byte
	img             []byte
	done            chan struct{}
	pre, post       bool
	body            string
}

type c05Queue struct {
	mu     sync.Mutex
	cond   *sync.Cond
	q      []*c05Chunk
	closed bool
}

func c05NewQueue() *c05Queue {
	q := &c05Queue{}
	q.cond = sync.NewCond(&q.mu)
	return q
}

func (q *c05Queue) put(c *c05Chunk) {
	q.mu.Lock()
	q.q = append(q.q, c)
	q.mu.Unlock()
	q.cond.Signal()
}

func (q *c05Queue) close() {
	q.mu.Lock()
	q.closed = true
	q.mu.Unlock()
	q.cond.Broadcast()
}

func (q *c05Queue) get() (*c05Chunk, bool) {
	q.mu.Lock()
	defer q.mu.Unlock()
	for len(q.q) == 0 && !q.closed {
		q.cond.Wait()
	}
	if len(q.q) == 0 {
		return nil, false
	}
	c := q.q[0]
	q.q = q.q[1:]
	return c, true
}

type c05Gate struct {
	sub     []byte
	hit     chan struct{}
	release chan struct{}
	once    atomic.Bool
}

type c05Env struct {
	tr       *vTrace
	mu       sync.Mutex
	q        map[string]*c05Queue // "out" (serverOut), "in" (clientIn)
	gid      map[string]int64
	cur      map[string]*c05Chunk
	nextID   int
	srv      atomic.Pointer[func([]byte)]
	gate     atomic.Pointer[c05Gate]
	srvOther atomic.Int64 // bytes written to serverIn by non-pump goroutines
	cliOther atomic.Int64
	lastSrvOther atomic.Pointer[[]byte]
	f        *TrzszFilter
	opts     TrzszOptions
	rng      *rand.Rand
	dir      string
	stdoutR  *os.File
	trigSeq  *int64
	entered  [2]atomic.Bool // the out / in pump has called Read at least once
	results  []map[string]any
	infra    error
}

type c05Reader struct {
	e    *c05Env
	side string
}

func (r *c05Reader) Read(p []byte) (int, error) {
	e := r.e
	gid := c05Gid()
	e.endTurn(r.side)
	if r.side == "in" {
		e.entered[1].Store(true)
	} else {
		e.entered[0].Store(true)
	}
	c, ok := e.q[r.side].get()
	if !ok {
		if r.side == "in" {
			return 0, io.EOF // wrapInput leaves its loop; wrapOutput would spin on EOF, so it is parked instead
		}
		select {}
	}
	n := copy(p, c.b)
	if n < len(c.b) {
		panic("c05: chunk larger than the pump's buffer")
	}
	ev := "feedOut"
	if r.side == "in" {
		ev = "feedIn"
	}
	e.tr.Emit(map[string]any{"e": ev, "id": c.id, "k": c.kind, "n": len(c.b), "h": c05Hash(c.b)}, func() {
		e.mu.Lock()
		e.cur[r.side] = c
		e.gid[r.side] = gid
		e.mu.Unlock()
	})
	return n, nil
}

func (r *c05Reader) Close() error { return nil }

func (e *c05Env) endTurn(side string) {
	e.mu.Lock()
	c := e.cur[side]
	e.cur[side] = nil
	e.mu.Unlock()
	if c == nil {
		return
	}
	c.pre, c.body, c.post = c05Rel(c.b, c.img)
	ev := "doneOut"
	if side == "in" {
		ev = "doneIn"
	}
	e.tr.Emit(map[string]any{"e": ev, "id": c.id, "n": len(c.img), "h": c05Hash(c.img),
		"pre": c.pre, "body": c.body, "post": c.post}, nil)
	close(c.done)
}

type c05Writer struct {
	e    *c05Env
	side string // "cli" (clientOut, image of the "out" pump) | "srv" (serverIn, image of the "in" pump)
}

func (w *c05Writer) Close() error { return nil }

func (w *c05Writer) Write(p []byte) (int, error) {
	e := w.e
	gid := c05Gid()
	pump := "out"
	if w.side == "srv" {
		pump = "in"
	}
	e.mu.Lock()
	c := e.cur[pump]
	if c != nil && e.gid[pump] == gid {
		c.img = append(c.img, p...)
		e.mu.Unlock()
	} else {
		e.mu.Unlock()
		cp := append([]byte(nil), p...)
		e.tr.Emit(map[string]any{"e": "other", "side": w.side, "n": len(p), "h": c05Hash(p)}, func() {
			if w.side == "srv" {
				e.srvOther.Add(int64(len(p)))
				e.lastSrvOther.Store(&cp)
			} else {
				e.cliOther.Add(int64(len(p)))
			}
		})
	}
	if w.side == "srv" {
		if fn := e.srv.Load(); fn != nil {
			if g := e.gate.Load(); g != nil && bytes.Contains(p, g.sub) && g.once.CompareAndSwap(false, true) {
				close(g.hit)
				<-g.release
			}
			(*fn)(append([]byte(nil), p...))
		}
	}
	return len(p), nil
}

// c05SrvOut is the in-process server's writer: what the server "prints" reaches the filter's
// serverOut as chunks of kind "proto".
type c05SrvOut struct{ e *c05Env }

func (s c05SrvOut) Write(p []byte) (int, error) {
	s.e.enqueue("out", "proto", p)
	return len(p), nil
}

func (e *c05Env) enqueue(side, kind string, b []byte) []*c05Chunk {
	var res []*c05Chunk
	for first := true; first || len(b) > 0; first = false {
		n := len(b)
		if n > c05MaxChunk {
			n = c05MaxChunk
		}
		e.mu.Lock()
		e.nextID++
		c := &c05Chunk{id: e.nextID, side: side, kind: kind, b: append([]byte(nil), b[:n]...), done: make(chan struct{})}
		e.mu.Unlock()
		b = b[n:]
		e.q[side].put(c)
		res = append(res, c)
	}
	return res
}

func (e *c05Env) wait(cs []*c05Chunk) error {
	for _, c := range cs {
		select {
		case <-c.done:
		case <-time.After(60 * time.Second):
			return fmt.Errorf("pump %s did not finish chunk %d (%s) within 60s", c.side, c.id, c.kind)
		}
	}
	return nil
}

// feed one chunk and wait until its pump has finished with it
func (e *c05Env) feed(side, kind string, b []byte) (*c05Chunk, error) {
	cs := e.enqueue(side, kind, b)
	if err := e.wait(cs); err != nil {
		return nil, err
	}
	return cs[0], nil
}

func (e *c05Env) drainStdout() []byte {
	var all []byte
	buf := make([]byte, 32*1024)
	for {
		_ = e.stdoutR.SetReadDeadline(time.Now().Add(15 * time.Millisecond))
		n, err := e.stdoutR.Read(buf)
		all = append(all, buf[:n]...)
		if err != nil || n == 0 {
			return all
		}
	}
}

func c05StackHas(fn string) bool {
	buf := make([]byte, 1<<17)
	for {
		n := runtime.Stack(buf, true)
		if n < len(buf) {
			buf = buf[:n]
			break
		}
		buf = make([]byte, len(buf)*2)
	}
	return bytes.Contains(buf, []byte(fn))
}

func c05HandlerRunning() bool { return c05StackHas("(*TrzszFilter).handleTrzsz") }

func c05DragFlagOn() bool { // the goroutine of wrapInput that switches drag detection on has run
	buf := make([]byte, 1<<16)
	for {
		n := runtime.Stack(buf, true)
		if n < len(buf) {
			buf = buf[:n]
			break
		}
		buf = make([]byte, len(buf)*2)
	}
	return !bytes.Contains(buf, []byte("(*TrzszFilter).wrapInput.func1"))
}

func (e *c05Env) emitMode(idle bool, why string) {
	e.tr.Emit(map[string]any{"e": "mode", "idle": idle, "why": why}, nil)
}

// ---------------------------------------------------------------- reference grammar (independent of the code under test)

// c05GenuineTrigger: "::TRZSZ:TRANSFER:" [SRD] ":" digits "." digits "." digits — what trz/tsz print.
func c05GenuineTrigger(b []byte) bool {
	key := []byte("::TRZSZ:TRANSFER:")
	for off := 0; ; {
		i := bytes.Index(b[off:], key)
		if i < 0 {
			return false
		}
		p := off + i + len(key)
		off = off + i + 1
		if p+1 >= len(b) || !(b[p] == 'S' || b[p] == 'R' || b[p] == 'D') || b[p+1] != ':' {
			continue
		}
		p += 2
		okv := true
		for part := 0; part < 3 && okv; part++ {
			st := p
			for p < len(b) && b[p] >= '0' && b[p] <= '9' {
				p++
			}
			if p == st {
				okv = false
			}
			if part < 2 {
				if p >= len(b) || b[p] != '.' {
					okv = false
				}
				p++
			}
		}
		if okv {
			return true
		}
	}
}

// c05GenuineZmodem: "**" CAN "B0" ("0"|"1") + 12 lowercase hex digits — a ZRQINIT / ZRINIT hex header.
func c05GenuineZmodem(b []byte) bool {
	key := []byte("**\x18B0")
	for off := 0; ; {
		i := bytes.Index(b[off:], key)
		if i < 0 {
			return false
		}
		p := off + i + len(key)
		off = off + i + 1
		if p >= len(b) || (b[p] != '0' && b[p] != '1') {
			continue
		}
		p++
		k := 0
		for p < len(b) && k < 12 && (b[p] >= '0' && b[p] <= '9' || b[p] >= 'a' && b[p] <= 'f') {
			p++
			k++
		}
		if k == 12 {
			return true
		}
	}
}

func c05Special(b []byte) bool {
	return c05GenuineTrigger(b) || c05GenuineZmodem(b) || bytes.Contains(b, []byte("_TRZSZ_TRACE_LOG>"))
}

// ---------------------------------------------------------------- concretiser: kind -> bytes

func (e *c05Env) trigger(mode byte) []byte {
	*e.trigSeq++
	id := (time.Now().UnixMilli()%1e9)*10000 + (*e.trigSeq%100)*100 // 13 digits, suffix 00 like trz/tsz on Linux
	return []byte(fmt.Sprintf("\x1b7\x07::TRZSZ:TRANSFER:%c:%s:%013d:0\r\n", mode, kTrzszVersion, id))
}

func c05RandBytes(rng *rand.Rand, n int) []byte {
	b := make([]byte, n)
	for i := range b {
		b[i] = byte(rng.Intn(256))
	}
	return b
}

var c05EscSeqs = []string{
	"\x1b[31m", "\x1b[0m", "\x1b[2J\x1b[H", "\x1b[?1049h", "\x1b[?25l", "\x1b[?25h", "\x1b]0;title\x07", "\x1b]2;~/x\x1b\\",
	"\x1bP1$r0m\x1b\\", "\x1bPtmux;\x1b\x1b]52;c;QQ==\x07\x1b\\", "\x1b7", "\x1b8\x1b[0J", "\x1b[1;32mSuccess!!\x1b[0m",
	"\x1b[200~", "\x1b[201~", "\x1b[6n", "\x1b[?2004h", "\r\n", "\x07", "\x08\x08", "\x18\x18\x18", "OO\x08\x08",
	"%output %1 hello\r\n", "%extended-output %1 0 : x\r\n", "#CFG:", "Saved", "Cancelled", "Stopped", "Interrupted",
	"#ACT:", "#SUCC:1\n", "#EXIT:", "#fail:", "::TRZSZ", "TRZSZ", "TRZSZGO", ":TRANSFER:", "trz", "tsz -b x\r\n",
}

// outBytes renders an output-chunk kind.  Everything except "trig", "zmhdr" and "tlmark" is by
// construction free of genuine triggers, genuine zmodem headers and trace-log markers
// (checked with the reference grammar; regenerated otherwise).
func (e *c05Env) outBytes(kind string) []byte {
	rng := e.rng
	for try := 0; ; try++ {
		var b []byte
		switch kind {
		case "plain":
			switch rng.Intn(6) {
			case 0:
				b = c05RandBytes(rng, 1+rng.Intn(8))
			case 1:
				b = c05RandBytes(rng, 1+rng.Intn(300))
			case 2:
				b = c05RandBytes(rng, 1+rng.Intn(c05MaxChunk))
			case 3:
				n := 1 + rng.Intn(8)
				for i := 0; i < n; i++ {
					b = append(b, c05EscSeqs[rng.Intn(len(c05EscSeqs))]...)
					if rng.Intn(2) == 0 {
						b = append(b, fmt.Sprintf("text %d ", rng.Intn(1000))...)
					}
				}
			case 4:
				b = []byte(fmt.Sprintf("user@host:~$ ls -l /tmp/%d\r\n", rng.Intn(1e6)))
			default:
				b = bytes.Repeat([]byte{byte(rng.Intn(256))}, 1+rng.Intn(64))
			}
		case "near":
			full := []byte(fmt.Sprintf("\x1b7\x07::TRZSZ:TRANSFER:%c:1.1.8:%013d:%d\r\n", "SRD"[rng.Intn(3)], rng.Int63n(1e13), rng.Intn(65536)))
			switch rng.Intn(10) {
			case 0: // cut before the version is complete
				b = full[:3+17+2+rng.Intn(4)]
			case 1: // cut inside the keyword
				b = full[:3+1+rng.Intn(16)]
			case 2: // wrong mode letter
				b = append([]byte(nil), full...)
				b[3+17] = "XsrdT0"[rng.Intn(6)]
			case 3: // lower case
				b = bytes.ToLower(full)
			case 4: // one keyword byte corrupted
				b = append([]byte(nil), full...)
				b[3+rng.Intn(17)] ^= byte(1 << uint(rng.Intn(7)))
			case 5: // version with two components
				b = bytes.Replace(full, []byte("1.1.8"), []byte("1.1"), 1)
			case 6: // tail only (second half of a trigger split across two reads)
				b = full[3+5+rng.Intn(10):]
			case 7: // separator missing
				b = bytes.Replace(full, []byte("TRANSFER:"), []byte("TRANSFER"), 1)
			case 8: // the locally shown form with a broken version
				b = bytes.Replace(bytes.Replace(full, []byte("TRZSZ"), []byte("TRZSZGO"), 1), []byte("1.1.8"), []byte("1.x.8"), 1)
			default: // garbage between the colons
				b = bytes.Replace(full, []byte("::TRZSZ:"), []byte("::TRZSZ::"), 1)
			}
			if rng.Intn(3) == 0 {
				b = append(c05RandBytes(rng, rng.Intn(40)), b...)
			}
			if rng.Intn(3) == 0 {
				b = append(b, c05RandBytes(rng, rng.Intn(40))...)
			}
		case "cmdlike":
			b = []byte([]string{"trz", "trz\r\n", "\x1b[0mtrz\r\n", "trz -d\r\n", "trz\r", "trz\n"}[rng.Intn(6)])
		case "zmlike":
			hex12 := fmt.Sprintf("%012x", rng.Int63n(1<<48))
			switch rng.Intn(7) {
			case 0:
				b = []byte("**\x18B0" + "01"[rng.Intn(2):][:1] + hex12[:rng.Intn(12)])
			case 1:
				b = []byte("**\x18B00" + strings.ToUpper(hex12[:11]) + "G")
			case 2:
				b = []byte("**\x18B0" + "23456789"[rng.Intn(8):][:1] + hex12)
			case 3:
				b = []byte("*\x18B00" + hex12)
			case 4:
				b = []byte("rz\r**\x18B00" + hex12[:11] + "\r\x8a\x11")
			case 5:
				b = []byte("**\x18B01" + hex12[:6] + " " + hex12[6:])
			default:
				b = []byte("**\x18A00" + hex12)
			}
		case "zmcancel": // a genuine header together with a cancel sequence / sz error text: documented "not a session"
			hex12 := fmt.Sprintf("%012x", rng.Int63n(1<<48))
			if rng.Intn(2) == 0 {
				b = []byte("**\x18B00" + hex12 + "\r\x8a\x11" + "\x18\x18\x18\x18\x18\x18\x18\x18\x18\x18\x08\x08\x08\x08\x08")
			} else {
				b = []byte("sz: cannot open /x: No such file\r\n**\x18B00" + hex12 + "\r\x8a")
			}
		case "zmhdr":
			d := "0"
			if rng.Intn(4) == 0 {
				d = "1"
			}
			b = []byte("rz\r**\x18B0" + d + fmt.Sprintf("%012x", rng.Int63n(1<<48)) + "\r\x8a\x11")
		case "osc52":
			pay := []string{"aGVsbG8=", "QQ==", "!!notbase64!!", "", strings.Repeat("QUJD", 1+rng.Intn(200))}[rng.Intn(5)]
			whole := "\x1b]52;" + "cpx"[rng.Intn(3):][:1] + ";" + pay + []string{"\a", "\x1b\\", ""}[rng.Intn(3)]
			switch rng.Intn(4) {
			case 0:
				b = []byte(whole)
			case 1: // first piece of a split sequence
				b = []byte(whole[:1+rng.Intn(len(whole))])
			case 2: // later piece
				b = []byte(whole[rng.Intn(len(whole)):])
			default:
				b = []byte("x" + whole + "y" + whole)
			}
		case "neartl":
			b = []byte([]string{"<ENABLE_TRZSZ_TRACE_LOG", "<enable_trzsz_trace_log>", "<ENABLE_TRZSZ_TRACE_LOG >", "ENABLE_TRZSZ_TRACE_LOG>",
				"<DISABLE_TRZSZ_TRACE_LOG", "<DISABLE-TRZSZ-TRACE-LOG>", "<ENABLE_TRZSZ_TRACE_LOG\r\n>"}[rng.Intn(7)])
		case "tlmark":
			return []byte("echo\r\n<ENABLE_TRZSZ_TRACE_LOG>\r\n$ ")
		case "tlmarkoff":
			return []byte("<DISABLE_TRZSZ_TRACE_LOG>\r\n")
		case "trig":
			return e.trigger("SRD"[rng.Intn(3)])
		default:
			panic("c05: unknown out kind " + kind)
		}
		if kind == "zmhdr" || kind == "zmcancel" {
			if c05GenuineZmodem(b) && !c05GenuineTrigger(b) {
				return b
			}
			continue
		}
		if len(b) > 0 && !c05Special(b) {
			return b
		}
		if try > 100 {
			panic("c05: cannot render " + kind)
		}
	}
}

func (e *c05Env) existingPaths() (file1, file2, sub string) {
	return filepath.Join(e.dir, "drag", "file1.bin"), filepath.Join(e.dir, "drag", "file 2.txt"), filepath.Join(e.dir, "drag", "sub")
}

func (e *c05Env) inBytes(kind string) []byte {
	rng := e.rng
	f1, f2, sub := e.existingPaths()
	non := fmt.Sprintf("/nonexistent-c05-%d/file%d", rng.Intn(1e6), rng.Intn(100))
	switch kind {
	case "plain":
		switch rng.Intn(6) {
		case 0:
			return []byte{byte(1 + rng.Intn(2)), byte('a' + rng.Intn(26))}[rng.Intn(2):][:1] // never 0x03
		case 1:
			b := c05RandBytes(rng, 1+rng.Intn(200))
			if b[0] == '/' || b[0] == '\'' || (len(b) == 1 && b[0] == 3) {
				b[0] = 'x'
			}
			return b
		case 2:
			return []byte([]string{"\x1b[A", "\x1b[B", "\x1b[Z", "\r", "\t", "q", "j", "k", "\x11", "\x10", "\x0e", "\x1b[200~pasted text\x1b[201~",
				"send -t %1 0x3\r", "send -lt %1 abc;", "ls -l\r", "\x1b[20", "\x1b[200~\x1b[201~"}[rng.Intn(17)])
		case 3:
			b := c05RandBytes(rng, 1+rng.Intn(c05MaxChunk))
			b[0] = 'y'
			return b
		case 4:
			return []byte(fmt.Sprintf("echo %d\r", rng.Intn(1e6)))
		default:
			return []byte{0x03, 0x03}
		}
	case "ctrlc":
		return []byte{0x03}
	case "pathnon":
		return []byte([]string{
			non + " ", "'" + non + "' ", "'/nonexistent dir/with space' ", f1 + " " + non + " ", non + " " + f1 + " ",
			"\x1b[200~" + non + " \x1b[201~", f1, "'" + f2 + "'", f1 + "  ", "'" + f2 + "'x ", "/ /x" + non + " ",
			"'" + f1 + " ", f1 + "\r", "//" + non + " ", "'/' '" + non + "' ",
		}[rng.Intn(15)])
	case "pathexf":
		return []byte([]string{f1 + " ", "'" + f2 + "' ", f1 + " '" + f2 + "' ", "\x1b[200~" + f1 + " \x1b[201~"}[rng.Intn(4)])
	case "pathex":
		return []byte([]string{
			f1 + " ", "'" + f2 + "' ", f1 + " '" + f2 + "' ", "\x1b[200~" + f1 + " \x1b[201~", sub + " ", "'" + f1 + "' " + sub + " ",
		}[rng.Intn(6)])
	}
	panic("c05: unknown in kind " + kind)
}

// ---------------------------------------------------------------- environment

type c05Opts struct {
	Drag   bool `json:"drag"`
	Zmodem bool `json:"zmodem"`
	Osc52  bool `json:"osc52"`
	Tlog   bool `json:"tlog"`
}

type c05Step struct {
	A   string `json:"a"`   // out | in | both | xfer | zsess | drag | special
	K   string `json:"k"`   // chunk kind / special name
	K2  string `json:"k2"`  // both: kind of the input chunk
	How string `json:"how"` // xfer: success | fail | cancel | refused
	Up  bool   `json:"up"`
	V   int    `json:"v"` // variant
	// expectations of the model (MBT only)
	Pre  *bool  `json:"pre,omitempty"`
	Body string `json:"body,omitempty"`
	Post *bool  `json:"post,omitempty"`
}

type c05Scenario struct {
	Name  string    `json:"name"`
	Opts  c05Opts   `json:"opts"`
	Steps []c05Step `json:"steps"`
}

type c05Shared struct {
	tr      *vTrace
	dir     string
	stdoutR *os.File
	trigSeq int64
}

var c05StubOnce sync.Once
var c05ClipCount atomic.Int64

func c05NewEnv(sh *c05Shared, sc *c05Scenario, rng *rand.Rand, si int) *c05Env {
	c05StubOnce.Do(func() {
		writeToClipboard = func(buf []byte) { c05ClipCount.Add(1) }
	})
	e := &c05Env{tr: sh.tr, q: map[string]*c05Queue{"out": c05NewQueue(), "in": c05NewQueue()},
		gid: map[string]int64{}, cur: map[string]*c05Chunk{}, rng: rng, dir: sh.dir, stdoutR: sh.stdoutR, trigSeq: &sh.trigSeq}
	e.opts = TrzszOptions{TerminalColumns: 100, DetectDragFile: sc.Opts.Drag, DetectTraceLog: sc.Opts.Tlog,
		EnableZmodem: sc.Opts.Zmodem, EnableOSC52: sc.Opts.Osc52}
	e.tr.Emit(map[string]any{"e": "reset", "drag": sc.Opts.Drag, "zmodem": sc.Opts.Zmodem, "osc52": sc.Opts.Osc52,
		"tlog": sc.Opts.Tlog, "sc": sc.Name, "si": si}, nil)
	e.f = NewTrzszFilter(&c05Reader{e, "in"}, &c05Writer{e, "cli"}, &c05Writer{e, "srv"}, &c05Reader{e, "out"}, e.opts)
	// steer: both pumps are in their loops; wrapInput's helper goroutine has switched drag detection on
	for i := 0; i < 20000 && !(e.entered[0].Load() && e.entered[1].Load() && (!sc.Opts.Drag || c05DragFlagOn())); i++ {
		time.Sleep(200 * time.Microsecond)
	}
	return e
}

func (e *c05Env) close() {
	e.q["in"].close()
	if e.opts.DetectTraceLog && e.f.logger != nil {
		// stop the trace-log writer goroutine of a logger that was switched on
		if ch := e.f.logger.traceLogChan.Load(); ch != nil {
			if e.f.logger.traceLogChan.CompareAndSwap(ch, nil) {
				close(*ch)
			}
		}
	}
}

func (e *c05Env) result(step int, st c05Step, obs map[string]any) {
	obs["step"] = step
	obs["a"] = st.A
	e.results = append(e.results, obs)
}

func c05Obs(c *c05Chunk) map[string]any {
	return map[string]any{"k": c.kind, "id": c.id, "pre": c.pre, "body": c.body, "post": c.post,
		"fed": c05Show1(c.b), "got": c05Show1(c.img), "n": len(c.b)}
}

func c05Show1(b []byte) string {
	if len(b) > 96 {
		return fmt.Sprintf("%q...(%d bytes, sha1 %s)", b[:96], len(b), c05Hash(b))
	}
	return fmt.Sprintf("%q", b)
}

// waitIdle: the property's "after": the server side has returned and its last words have been
// delivered, the handler goroutine is gone and the filter does not claim to be transferring.
// bound: the client's own timers (cleanTimeout <= 0.5 s after a stop, recv timeout = configured 20 s)
func (e *c05Env) waitIdle(why string) bool {
	deadline := time.Now().Add(45 * time.Second)
	for {
		if !e.f.IsTransferringFiles() && !c05HandlerRunning() {
			e.emitMode(true, why)
			return true
		}
		if time.Now().After(deadline) {
			e.emitMode(false, why)
			return false
		}
		time.Sleep(2 * time.Millisecond)
	}
}

// ---------------------------------------------------------------- histories: real transfers

func (e *c05Env) makeSrc(n int, size int) []string {
	dir := filepath.Join(e.dir, fmt.Sprintf("src-%d", e.rng.Int63()))
	_ = os.MkdirAll(dir, 0755)
	var paths []string
	for i := 0; i < n; i++ {
		p := filepath.Join(dir, fmt.Sprintf("f%d.bin", i))
		_ = os.WriteFile(p, c05RandBytes(e.rng, size), 0644)
		paths = append(paths, p)
	}
	return paths
}

type c05XferRes struct {
	ServerErr string
	Idle      bool
	Note      string
}

// xfer takes the filter through one real transfer that ends the planned way.
func (e *c05Env) xfer(how string, up bool, v int, dragPaths []string) (*c05XferRes, error) {
	res := &c05XferRes{}
	dst := filepath.Join(e.dir, fmt.Sprintf("dst-%d", e.rng.Int63()))
	_ = os.MkdirAll(dst, 0755)
	size := 2000 + e.rng.Intn(30000)
	if how == "cancel" {
		size = 400000
	}
	nfiles := 1 + e.rng.Intn(2)
	if v == 9 {
		nfiles = 1 // a second file would wait in the pause for the prompt's answer
	}
	src := e.makeSrc(nfiles, size)
	quiet := e.rng.Intn(3) != 0 || v == 9
	base := baseArgs{Quiet: quiet, Bufsize: bufferSize{Size: 10240}, Timeout: 20}
	if up {
		if how != "refused" && dragPaths == nil {
			if _, err := e.f.OneTimeUpload(src); err != nil {
				return nil, err
			}
		}
	} else {
		if how == "refused" {
			e.f.SetDefaultDownloadPath("") // chooser -> zenity (fake, exits 1) -> cancelled
		} else {
			e.f.SetDefaultDownloadPath(dst)
		}
	}
	st := newTransfer(c05SrvOut{e}, nil, false, nil)
	deliver := func(b []byte) { st.addReceivedData(b, false) }
	e.srvOther.Store(0)
	var gate *c05Gate
	switch {
	case how == "cancel":
		sub := "#DATA:" // the uploading client is stopped while it writes its first data line,
		if !up {
			sub = "#SUCC:" // the downloading one while it acknowledges the first message
		}
		gate = &c05Gate{sub: []byte(sub), hit: make(chan struct{}), release: make(chan struct{})}
	case how == "success" && v == 9: // Ctrl-C when everything has been sent: the prompt is open while the transfer completes
		gate = &c05Gate{sub: []byte("#MD5:"), hit: make(chan struct{}), release: make(chan struct{})}
	}
	e.gate.Store(gate)
	e.srv.Store(&deliver)
	defer func() {
		e.srv.Store(nil)
		e.gate.Store(nil)
	}()

	mode := byte('S')
	if up {
		mode = 'R'
	}
	serverDone := make(chan error, 1)
	go func() {
		var err error
		func() {
			defer func() {
				if r := recover(); r != nil {
					err = newTrzszError(fmt.Sprintf("%v", r), "panic", true)
				}
			}()
			if how == "fail" {
				err = e.failingServer(st, &base, v, up)
				return
			}
			if up {
				err = recvFiles(st, &trzArgs{baseArgs: base, Path: dst}, noTmuxMode, 0)
			} else {
				var files []*sourceFile
				files, err = checkPathsReadable(src, false)
				if err == nil {
					err = sendFiles(st, files, &tszArgs{baseArgs: base, File: src}, noTmuxMode, 0)
				}
			}
		}()
		if err != nil {
			st.serverError(err)
		}
		st.cleanup()
		serverDone <- err
	}()
	// the server prints its trigger
	tc, err := e.feed("out", "trig", e.trigger(mode))
	if err != nil {
		return nil, err
	}
	if tc.body != "other" {
		// the filter did not take the trigger (recorded: doneOut of a "trig" chunk): no transfer will
		// start; release the server side and give up on this scenario
		st.stopTransferringFiles(false)
		select {
		case <-serverDone:
		case <-time.After(30 * time.Second):
			return nil, fmt.Errorf("server side did not return after being stopped")
		}
		_ = e.drainStdout()
		res.Note = "trigger-not-taken"
		res.Idle = false
		return res, nil
	}

	var srvErr error
	srvReturned := false
	gateHit := gate == nil
	if gate != nil {
		select {
		case <-gate.hit:
			gateHit = true
		case srvErr = <-serverDone: // the transfer ended before it got that far (it is not going as planned)
			srvReturned = true
		case <-time.After(30 * time.Second):
			return nil, fmt.Errorf("transfer (%s) neither reached the gate %q nor ended", how, gate.sub)
		}
	}
	if gate != nil && gateHit {
		if how == "cancel" && v%2 == 0 {
			e.tr.Emit(map[string]any{"e": "stop"}, func() { e.f.StopTransferringFiles(v%4 == 0) })
		} else {
			// Ctrl-C -> the real prompt
			if _, err := e.feed("in", "ctrlc", []byte{3}); err != nil {
				return nil, err
			}
			for i := 0; e.f.promptPipe.Load() == nil; i++ {
				if i > 5000 {
					return nil, fmt.Errorf("stop prompt did not open")
				}
				time.Sleep(time.Millisecond)
			}
			time.Sleep(80 * time.Millisecond) // let the prompt render (progress pause is 50 ms)
			if how == "cancel" {
				// second Ctrl-C = "stop and keep"
				if _, err := e.feed("in", "ctrlc", []byte{3}); err != nil {
					return nil, err
				}
				for i := 0; e.f.promptPipe.Load() != nil; i++ {
					if i > 5000 {
						return nil, fmt.Errorf("stop prompt did not close")
					}
					time.Sleep(time.Millisecond)
				}
			}
		}
		close(gate.release)
	}

	if !srvReturned {
		select {
		case srvErr = <-serverDone:
		case <-time.After(90 * time.Second):
			return nil, fmt.Errorf("server side of history %s did not return within 90s", how)
		}
	}
	if srvErr != nil {
		res.ServerErr = e2eC05First(srvErr.Error())
	}
	// a history planned to succeed (cooperative real server, nothing injected) must deliver the files
	ok, why := true, ""
	if how == "success" {
		switch {
		case srvErr != nil:
			ok, why = false, "server: "+res.ServerErr
		case !gateHit:
			ok, why = false, "ended before all data was sent"
		default:
			from := src
			if dragPaths != nil {
				f1, f2, _ := e.existingPaths()
				from = nil
				for _, p := range []string{f1, f2} {
					if _, err := os.Stat(filepath.Join(dst, filepath.Base(p))); err == nil {
						from = append(from, p)
					}
				}
				if len(from) == 0 {
					ok, why = false, "no dragged file arrived"
				}
			}
			for _, p := range from {
				a, _ := os.ReadFile(p)
				b, err := os.ReadFile(filepath.Join(dst, filepath.Base(p)))
				if err != nil || !bytes.Equal(a, b) {
					ok, why = false, "destination differs from source: "+filepath.Base(p)
				}
			}
		}
	}
	if strings.Contains(strings.ToLower(why), "timeout") {
		return nil, fmt.Errorf("history planned to succeed timed out (%s)", why) // the machine, not the filter
	}
	e.tr.Emit(map[string]any{"e": "xfer", "how": how, "ok": ok, "why": why}, nil)
	res.Note = why
	// last words of the server (serverExit prints to its stdout = our serverOut)
	if b := e.drainStdout(); len(b) > 0 {
		if _, err := e.feed("out", "srvmsg", b); err != nil {
			return nil, err
		}
	}
	res.Idle = e.waitIdle(how)
	if b := e.drainStdout(); len(b) > 0 {
		if _, err := e.feed("out", "srvmsg", b); err != nil {
			return nil, err
		}
	}
	return res, nil
}

func e2eC05First(s string) string {
	if i := strings.IndexByte(s, '\n'); i >= 0 {
		s = s[:i]
	}
	if len(s) > 160 {
		s = s[:160]
	}
	return s
}

// failingServer: a server that breaks the protocol at a seeded point, then says why and exits.
func (e *c05Env) failingServer(st *trzszTransfer, base *baseArgs, v int, up bool) error {
	action, err := st.recvAction()
	if err != nil {
		return err
	}
	switch v % 4 {
	case 0: // fails instead of configuring
		_ = st.sendString("FAIL", "Simulated server failure")
	case 1: // garbage line
		_ = st.writeAll([]byte("xyz-not-a-protocol-line\n"))
	case 2: // configures, then answers the first message with garbage
		if err := st.sendConfig(base, action, nil, noTmuxMode, 0); err != nil {
			return err
		}
		if up { // the uploading client speaks first
			if _, err := st.recvLine("", false, st.getNewTimeout()); err != nil {
				return err
			}
		}
		_ = st.writeAll([]byte("#WHAT:1\n"))
	default: // configures, then a quiet fail
		if err := st.sendConfig(base, action, nil, noTmuxMode, 0); err != nil {
			return err
		}
		_ = st.sendString("fail", "Simulated quiet failure")
	}
	st.serverExit("Simulated server failure")
	return nil
}

// zsession: a zmodem session that starts on a genuine header and ends because no helper can be
// launched (no rz / sz on the private PATH) or the user presses Ctrl-C; then the filter drops it.
func (e *c05Env) zsession(v int) (map[string]any, error) {
	obs := map[string]any{}
	e.f.SetDefaultDownloadPath(filepath.Join(e.dir, "drag"))
	hdr, err := e.feed("out", "zmhdr", e.outBytes("zmhdr"))
	if err != nil {
		return nil, err
	}
	obs["hdr"] = c05Obs(hdr)
	z := e.f.zmodem.Load()
	if z == nil {
		obs["started"] = false
		return obs, nil
	}
	obs["started"] = true
	// The session is published (filter.zmodem) before its goroutine has stored serverIn/clientOut:
	// a Ctrl-C inside that window makes handleZmodemError write to a nil writer and the process
	// dies (zmodem.go:178; C19's topic, reported).  Steer around it: wait for the goroutine.
	for i := 0; z.serverIn == nil; i++ {
		if i > 20000 {
			return nil, fmt.Errorf("zmodem event goroutine did not start")
		}
		time.Sleep(time.Millisecond)
	}
	if v%3 == 1 {
		if _, err := e.feed("in", "ctrlc", []byte{3}); err != nil {
			return nil, err
		}
	}
	if v%3 == 2 {
		if _, err := e.feed("in", "plain", e.inBytes("plain")); err != nil {
			return nil, err
		}
	}
	for i := 0; !z.stopped.Load(); i++ {
		if i > 20000 {
			return nil, fmt.Errorf("zmodem session without helper did not stop")
		}
		time.Sleep(time.Millisecond)
	}
	// the server answers the cancel sequence; that output is swallowed and arms the 500 ms cleanup
	if _, err := e.feed("out", "plain", []byte("\x18\x18\x18\x18\x18\x18\x18\x18\x18\x18\x08\x08\x08\x08\x08\x08\x08\x08\x08\x08")); err != nil {
		return nil, err
	}
	for i := 0; !z.cleaned.Load(); i++ {
		if i > 20000 {
			return nil, fmt.Errorf("zmodem cleanup timer did not fire")
		}
		time.Sleep(time.Millisecond)
	}
	time.Sleep(5 * time.Millisecond) // the timer's "\r" towards the server follows the flag
	e.emitMode(true, "zmodem")
	return obs, nil
}

// dragSession: the user drops existing files (input entirely a list of existing paths).
//  v=0: the server's tty echoes the command, trz starts, the dropped files are uploaded
//  v=1: echo, but no trz on the server: the drag times out after 3 s
//  v=2: a server without echo that prints nothing for 3 s
//  v=3: a keystroke within the 300 ms grace period cancels the drop (uploadDragFiles finds dragging reset)
func (e *c05Env) dragSession(v int) (map[string]any, error) {
	obs := map[string]any{}
	before := e.srvOther.Load()
	kind := "pathex"
	if v == 0 {
		kind = "pathexf" // regular files only: the upload that follows is a plain `trz`
	}
	c, err := e.feed("in", "pathex", e.inBytes(kind))
	if err != nil {
		return nil, err
	}
	obs["drop"] = c05Obs(c)
	if c.body != "none" {
		obs["claimed"] = false
		return obs, nil
	}
	obs["claimed"] = true
	if v == 3 {
		kc, err := e.feed("in", "plain", []byte{byte('a' + e.rng.Intn(26))}) // not a path: resetDragFiles, forwarded
		if err != nil {
			return nil, err
		}
		obs["key"] = c05Obs(kc)
		time.Sleep(350 * time.Millisecond) // the delayed uploadDragFiles has looked at the flag by now
		for i := 0; c05StackHas("(*TrzszFilter).uploadDragFiles") || c05StackHas("(*TrzszFilter).addDragFiles"); i++ {
			if i > 10000 {
				return nil, fmt.Errorf("uploadDragFiles still running 10s after the drop was cancelled")
			}
			time.Sleep(time.Millisecond)
		}
		e.emitMode(true, "drag3")
		return obs, nil
	}
	waitOther := func(n int64, what string) error {
		for i := 0; e.srvOther.Load() < before+n; i++ {
			if i > 20000 {
				return fmt.Errorf("drag upload: %s not written within 20s", what)
			}
			time.Sleep(time.Millisecond)
		}
		return nil
	}
	if err := waitOther(1, "Ctrl-C"); err != nil {
		return nil, err
	}
	if v != 2 {
		if _, err := e.feed("out", "plain", []byte("^C\r\nuser@host:~$ ")); err != nil { // suppressed while interrupting
			return nil, err
		}
	}
	if err := waitOther(2, "upload command"); err != nil {
		return nil, err
	}
	cmdAt := time.Now()
	cmd := "trz"
	if p := e.f.currentUploadCommand.Load(); p != nil {
		cmd = *p
	}
	if v != 2 {
		ec, err := e.feed("out", "cmdlike", []byte(cmd+"\r\n")) // tty echo of the typed command
		if err != nil {
			return nil, err
		}
		obs["echo"] = c05Obs(ec)
	}
	if v == 0 {
		r, err := e.xfer("success", true, 0, []string{"drag"})
		if err != nil {
			return nil, err
		}
		obs["upload_idle"] = r.Idle
		if !r.Idle {
			return obs, nil
		}
	}
	for i := 0; e.f.dragging.Load(); i++ {
		if i > 10000 {
			return nil, fmt.Errorf("drag state not reset after 10s")
		}
		time.Sleep(time.Millisecond)
	}
	// uploadDragFiles sleeps 3 s after the command and then resets the drag state once more: let it
	// finish, so that it cannot cancel a later drop of the same scenario
	_ = cmdAt
	for i := 0; c05StackHas("(*TrzszFilter).uploadDragFiles"); i++ {
		if i > 10000 {
			return nil, fmt.Errorf("uploadDragFiles still running 10s after the drag was reset")
		}
		time.Sleep(time.Millisecond)
	}
	e.emitMode(true, fmt.Sprintf("drag%d", v))
	return obs, nil
}

// ---------------------------------------------------------------- scenario interpreter

func (e *c05Env) run(sc *c05Scenario) error {
	for si, st := range sc.Steps {
		switch st.A {
		case "cmdecho": // exactly the text of the drag upload command, as a tty would echo it
			cmd := "trz"
			if p := e.f.currentUploadCommand.Load(); p != nil {
				cmd = *p
			}
			c, err := e.feed("out", "cmdlike", []byte(cmd+"\r\n"))
			if err != nil {
				return err
			}
			e.result(si, st, c05Obs(c))
		case "out":
			c, err := e.feed("out", st.K, e.outBytes(st.K))
			if err != nil {
				return err
			}
			e.result(si, st, c05Obs(c))
		case "in":
			b := e.inBytes(st.K)
			if st.V >= 100 {
				b = []byte("x") // dedicated scenarios use fixed probes (stable violation keys)
			}
			c, err := e.feed("in", st.K, b)
			if err != nil {
				return err
			}
			e.result(si, st, c05Obs(c))
		case "both": // both directions at the same time
			co := e.enqueue("out", st.K, e.outBytes(st.K))
			ci := e.enqueue("in", st.K2, e.inBytes(st.K2))
			if err := e.wait(append(co, ci...)); err != nil {
				return err
			}
			o := c05Obs(co[0])
			o["in"] = c05Obs(ci[0])
			e.result(si, st, o)
		case "burst": // several chunks queued at once in both directions
			var all []*c05Chunk
			kinds := []string{"plain", "near", "zmlike", "osc52", "neartl", "cmdlike", "zmcancel"}
			ikinds := []string{"plain", "pathnon", "ctrlc"}
			for i := 0; i < 3+e.rng.Intn(8); i++ {
				k := kinds[e.rng.Intn(len(kinds))]
				all = append(all, e.enqueue("out", k, e.outBytes(k))...)
				if e.rng.Intn(2) == 0 {
					k2 := ikinds[e.rng.Intn(len(ikinds))]
					all = append(all, e.enqueue("in", k2, e.inBytes(k2))...)
				}
			}
			if err := e.wait(all); err != nil {
				return err
			}
			e.result(si, st, map[string]any{"chunks": len(all)})
		case "xfer":
			r, err := e.xfer(st.How, st.Up, st.V, nil)
			if err != nil {
				return err
			}
			e.result(si, st, map[string]any{"how": st.How, "up": st.Up, "v": st.V, "idle": r.Idle, "server_err": r.ServerErr, "note": r.Note})
			if !r.Idle {
				// the filter never came back (recorded as mode{idle:false}): nothing after it can be driven
				return nil
			}
		case "zsess":
			o, err := e.zsession(st.V)
			if err != nil {
				return err
			}
			e.result(si, st, o)
		case "drag":
			o, err := e.dragSession(st.V)
			if err != nil {
				return err
			}
			e.result(si, st, o)
			if idle, ok := o["upload_idle"].(bool); ok && !idle {
				return nil
			}
		case "mode":
			e.waitIdle("probe")
		default:
			return fmt.Errorf("unknown step %q", st.A)
		}
	}
	return nil
}

func init() {
	vRegister("c05_tv", c05TV)
	vRegister("c05_mbt", c05MBT)
}

// c05Setup: process-global switches of one shard: private PATH with a fake zenity that exits 1
// (chooser reports "cancelled") and no rz/sz, TMPDIR for trace logs, os.Stdout -> pipe.
func c05Setup(d *vCtx) (*c05Shared, func(), error) {
	dir := d.path("work")
	if err := os.MkdirAll(filepath.Join(dir, "bin"), 0755); err != nil {
		return nil, nil, err
	}
	if err := os.MkdirAll(filepath.Join(dir, "tmp"), 0755); err != nil {
		return nil, nil, err
	}
	if err := os.WriteFile(filepath.Join(dir, "bin", "zenity"), []byte("#!/bin/sh\nexit 1\n"), 0755); err != nil {
		return nil, nil, err
	}
	_ = os.MkdirAll(filepath.Join(dir, "drag", "sub"), 0755)
	_ = os.WriteFile(filepath.Join(dir, "drag", "file1.bin"), bytes.Repeat([]byte("drag1"), 700), 0644)
	_ = os.WriteFile(filepath.Join(dir, "drag", "file 2.txt"), []byte("second dragged file\n"), 0644)
	_ = os.WriteFile(filepath.Join(dir, "drag", "sub", "inner.txt"), []byte("inner\n"), 0644)
	_ = os.Setenv("PATH", filepath.Join(dir, "bin"))
	_ = os.Setenv("TMPDIR", filepath.Join(dir, "tmp"))
	_ = os.Setenv("HOME", dir)
	r, w, err := os.Pipe()
	if err != nil {
		return nil, nil, err
	}
	orig := os.Stdout
	os.Stdout = w
	tr, err := vNewTrace(d.path("trace.ndjson"))
	if err != nil {
		return nil, nil, err
	}
	sh := &c05Shared{tr: tr, dir: dir, stdoutR: r}
	return sh, func() {
		os.Stdout = orig
		_ = tr.Close()
		_ = os.RemoveAll(dir)
	}, nil
}

var c05OutProbeKinds = []string{"plain", "plain", "near", "near", "cmdlike", "zmlike", "zmcancel", "osc52", "neartl"}
var c05InProbeKinds = []string{"plain", "plain", "ctrlc", "pathnon", "pathnon"}

func c05Probes(rng *rand.Rand, o c05Opts, n int) []c05Step {
	var steps []c05Step
	for i := 0; i < n; i++ {
		ko := c05OutProbeKinds[rng.Intn(len(c05OutProbeKinds))]
		ki := c05InProbeKinds[rng.Intn(len(c05InProbeKinds))]
		if !o.Zmodem && rng.Intn(6) == 0 {
			ko = "zmhdr" // without the zmodem option a genuine header is just bytes
		}
		if !o.Tlog && rng.Intn(8) == 0 {
			ko = "tlmark" // without the trace-log option the marker is just bytes
		}
		if !o.Drag && rng.Intn(6) == 0 {
			ki = "pathex" // without drag detection an existing path is just bytes
		}
		switch rng.Intn(4) {
		case 0:
			steps = append(steps, c05Step{A: "out", K: ko})
		case 1:
			steps = append(steps, c05Step{A: "in", K: ki})
		case 2:
			steps = append(steps, c05Step{A: "both", K: ko, K2: ki})
		default:
			steps = append(steps, c05Step{A: "out", K: ko}, c05Step{A: "in", K: ki})
		}
	}
	return steps
}

var c05Hows = []string{"success", "fail", "cancel", "refused"}

// c05Plan: the seeded scenario list of one shard.  Every option set, every history kind and
// both directions are covered by construction (index arithmetic), the rest is seeded.
func c05Plan(rng *rand.Rand, shard, nshards, rounds int, special bool) []*c05Scenario {
	var scs []*c05Scenario
	k := shard
	for r := 0; r < rounds; r++ {
		for fam := 0; fam < 5; fam++ {
			ob := (k*7 + fam*3 + r*5) % 16
			o := c05Opts{Drag: ob&1 != 0, Zmodem: ob&2 != 0, Osc52: ob&4 != 0, Tlog: ob&8 != 0}
			sc := &c05Scenario{Opts: o}
			switch fam {
			case 0: // no history
				sc.Name = "idle"
				sc.Steps = c05Probes(rng, o, 12+rng.Intn(12))
				sc.Steps = append(sc.Steps, c05Step{A: "burst"})
				if o.Tlog { // dedicated: the switch itself, then everything else must still pass unmodified
					sc.Name = "idle-tracelog"
					sc.Steps = append(sc.Steps, c05Step{A: "out", K: "tlmark"})
					sc.Steps = append(sc.Steps, c05Probes(rng, o, 6)...)
					sc.Steps = append(sc.Steps, c05Step{A: "out", K: "tlmarkoff"})
					sc.Steps = append(sc.Steps, c05Probes(rng, o, 3)...)
				}
			case 1, 2: // one or two transfers
				n := fam
				sc.Name = fmt.Sprintf("xfer%d", n)
				for i := 0; i < n; i++ {
					how := c05Hows[(k+r+i*(1+k/4)+fam)%4]
					sc.Name += "-" + how
					sc.Steps = append(sc.Steps, c05Probes(rng, o, 2)...)
					sc.Steps = append(sc.Steps, c05Step{A: "xfer", How: how, Up: (k+r+i+fam)%2 == 0, V: rng.Intn(8)})
					sc.Steps = append(sc.Steps, c05Probes(rng, o, 5+rng.Intn(5))...)
				}
			case 3: // zmodem session (needs the option; otherwise a plain history)
				if o.Zmodem {
					sc.Name = "zsess"
					sc.Steps = append(sc.Steps, c05Probes(rng, o, 2)...)
					sc.Steps = append(sc.Steps, c05Step{A: "zsess", V: rng.Intn(6)})
					sc.Steps = append(sc.Steps, c05Probes(rng, o, 6)...)
				} else {
					how := c05Hows[(k+r)%4]
					sc.Name = "xfer1b-" + how
					sc.Steps = append(sc.Steps, c05Step{A: "xfer", How: how, Up: (k+r)%2 == 1, V: rng.Intn(8)})
					sc.Steps = append(sc.Steps, c05Probes(rng, o, 8)...)
				}
			case 4: // drag upload (needs the option)
				if o.Drag {
					v := []int{0, 1, 3}[(k+r)%3]
					sc.Name = fmt.Sprintf("drag%d", v)
					sc.Steps = append(sc.Steps, c05Probes(rng, o, 2)...)
					sc.Steps = append(sc.Steps, c05Step{A: "drag", V: v})
					sc.Steps = append(sc.Steps, c05Probes(rng, o, 3)...)
					sc.Steps = append(sc.Steps, c05Step{A: "cmdecho"}) // the command's text as ordinary output, after the drag is over
					sc.Steps = append(sc.Steps, c05Probes(rng, o, 3)...)
				} else {
					sc.Name = "idle2"
					sc.Steps = c05Probes(rng, o, 20)
				}
			}
			scs = append(scs, sc)
		}
		k += nshards
	}
	if special {
		// dedicated histories (one shard each): Ctrl-C at the very end of an upload (the prompt is
		// still open when the transfer completes) and a drag upload against a server that stays silent
		switch shard {
		case 0:
			sc := &c05Scenario{Name: "prompt-open-at-end", Opts: c05Opts{}}
			sc.Steps = append(sc.Steps, c05Step{A: "xfer", How: "success", Up: true, V: 9})
			sc.Steps = append(sc.Steps, c05Step{A: "in", K: "plain", V: 100}, c05Step{A: "out", K: "plain"}, c05Step{A: "in", K: "pathnon"})
			scs = append(scs, sc)
		case 1:
			sc := &c05Scenario{Name: "drag-silent-server", Opts: c05Opts{Drag: true}}
			sc.Steps = append(sc.Steps, c05Step{A: "drag", V: 2})
			sc.Steps = append(sc.Steps, c05Step{A: "in", K: "plain", V: 100}, c05Step{A: "cmdecho"}, c05Step{A: "out", K: "plain"})
			scs = append(scs, sc)
		}
	}
	return scs
}

func c05RunAll(d *vCtx, scs []*c05Scenario, stream int64) error {
	sh, cleanup, err := c05Setup(d)
	if err != nil {
		return err
	}
	defer cleanup()
	resf, err := os.Create(d.path("results.ndjson"))
	if err != nil {
		return err
	}
	defer resf.Close()
	enc := json.NewEncoder(resf)
	enc.SetEscapeHTML(false)
	chunks, xfers := 0, 0
	for i, sc := range scs {
		rng := d.rng(stream*100000 + int64(i))
		e := c05NewEnv(sh, sc, rng, i)
		err := e.run(sc)
		e.close()
		chunks += e.nextID
		for _, st := range sc.Steps {
			if st.A == "xfer" || st.A == "drag" || st.A == "zsess" {
				xfers++
			}
		}
		rec := map[string]any{"scenario": i, "name": sc.Name, "opts": sc.Opts, "results": e.results}
		if err != nil {
			rec["infra"] = err.Error()
		}
		_ = enc.Encode(rec)
		if err != nil {
			return fmt.Errorf("scenario %d (%s): %v", i, sc.Name, err)
		}
	}
	d.set("scenarios", len(scs))
	d.set("chunks", chunks)
	d.set("histories", xfers)
	d.set("events", sh.tr.Len())
	d.set("clipboard_calls", int(c05ClipCount.Load()))
	return nil
}

func c05TV(d *vCtx) error {
	shards := d.pInt("shards", 16)
	rounds := d.pInt("rounds", 2)
	special := d.pBool("special", true)
	return vShards(d, shards, func(i, n int) error {
		scs := c05Plan(d.rng(int64(500+i)), i, n, rounds, special)
		return c05RunAll(d, scs, int64(i))
	})
}

// c05MBT replays behaviours exported by TLC from FilterGen.tla (file cases.ndjson: one scenario
// per line, steps with the model's expected relation) on real filters; the same recording is
// made (so the runs can also be trace-validated) and every step's observed relation is compared
// with the model's by the Python side (results.ndjson).
func c05MBT(d *vCtx) error {
	shards := d.pInt("shards", 16)
	cases, err := vReadNDJSON(d.pStr("cases", ""))
	if err != nil {
		return err
	}
	return vShards(d, shards, func(i, n int) error {
		var scs []*c05Scenario
		for ci := i; ci < len(cases); ci += n {
			b, _ := json.Marshal(cases[ci])
			sc := &c05Scenario{}
			if err := json.Unmarshal(b, sc); err != nil {
				return err
			}
			sc.Name = fmt.Sprintf("mbt-%d", ci)
			scs = append(scs, sc)
		}
		return c05RunAll(d, scs, int64(1000+i))
	})
}
