//go:build verif

package trzsz

// Driver e2e_points: real end-to-end transfers in which one pipeline goroutine is held at one of its
// blocking operations while a fault / stop / pause happens (e2ePoint).  The points are the actions of
// spec/Pipeline.tla (sending side) and spec/PipelineRecv.tla (receiving side); the driver visits every
// (point, occurrence, kind) and reports which points the real runs passed.
//   params: kinds = comma separated subset of none,silence,writeerr,stopC,stopCdel,stopV,pause
//           thorough, shards

import (
	"os"
	"sort"
	"strings"
)

func init() { vRegister("e2e_points", e2ePoints) }

func e2ePointBases(seed int64, thorough bool) []*e2eCase {
	var res []*e2eCase
	mk := func(upload, binary bool, proto int, size int64, bufsize int64, overwrite bool) *e2eCase {
		c := &e2eCase{Seed: seed + int64(len(res))*271, NamesFromTops: true, WatchdogMs: 45000}
		c.Opts = e2eOpts{Upload: upload, Binary: binary, Protocol: proto, Overwrite: overwrite, Timeout: 2, Bufsize: bufsize, Compress: 2}
		c.Nodes = []e2eNode{{Rel: e2eName(0, 0), Size: size, Kind: 1}, {Rel: e2eName(0, 1), Size: 700, Kind: 1}}
		c.Bases = []string{"", ""}
		res = append(res, c)
		return c
	}
	// an upload with many small blocks (the acknowledgement window and the 5-slot block channel run full),
	// a download whose blocks grow while the buffer size is probed
	mk(true, true, 4, 600<<10, 2048, false)
	mk(false, false, 4, 5<<20, 10<<20, true)
	// files of a few blocks: everything, the closing block included, has arrived while the first piece is still
	// being written (the receiver waits in its final-acknowledgement loop)
	mk(true, false, 4, 5000, 2048, true).Tag = "few"
	mk(false, true, 4, 5000, 2048, false).Tag = "few"
	if thorough {
		mk(false, true, 3, 600<<10, 4096, false)
		mk(true, false, 2, 3<<20, 1<<20, true)
		c := mk(true, true, 4, 2<<20, 64<<10, false)
		c.Opts.Compress = 1
	}
	return res
}

func e2ePoints(d *vCtx) error {
	thorough := d.pBool("thorough", false)
	shards := d.pInt("shards", 64)
	kinds := strings.Split(d.pStr("kinds", "silence,writeerr"), ",")
	bases := e2ePointBases(d.seed, thorough)
	return vShards(d, shards, func(si, n int) error {
		base := e2eShmBase()
		defer os.RemoveAll(base)
		if err := e2eCaptureStdout(d.out); err != nil {
			return err
		}
		type job struct {
			c    *e2eCase
			plan e2ePlan
		}
		var jobs []job
		names := map[string]bool{}
		var all []string
		for _, p := range append(append([]string{}, e2ePointSender...), e2ePointReceiver...) {
			if !names[p] {
				names[p] = true
				all = append(all, p)
			}
		}
		for _, c := range bases {
			// a destination write that does not come back (pipe.sav.got sits right in front of it) while the user stops
			// (param hold; off in the registered checks: on the unchanged tree five of the six combinations of direction
			// and stopping side wait for the write -- the progress stage is joined, the stopping sender drains while the
			// receiver's final-acknowledgement loop keeps writing -- and C10 does not quantify over stalled destinations)
			for _, k := range kinds {
				if !d.pBool("hold", false) {
					break
				}
				if strings.HasPrefix(k, "stop") {
					for _, nth := range []int{1, 2} {
						jobs = append(jobs, job{c, e2ePlan{Point: &e2ePoint{Name: "pipe.sav.got", Nth: nth, SettleMs: 300, Kind: k, HoldMs: 14000}, CheckLeft: false}})
					}
				}
			}
			// the destination runs full just before the piece that completes the first file is written, and the writer
			// stays there for longer than the final-acknowledgement loop's polling interval
			for _, k := range kinds {
				if k == "dstfull" {
					jobs = append(jobs, job{c, e2ePlan{Point: &e2ePoint{Name: "pipe.sav.got", Total: int(c.Nodes[0].Size), SettleMs: 50, Kind: k, ReleaseMs: 700}, CheckLeft: true}})
					jobs = append(jobs, job{c, e2ePlan{Point: &e2ePoint{Name: "pipe.sav.got", Nth: 2, SettleMs: 50, Kind: k, ReleaseMs: 300}, CheckLeft: true}})
				}
			}
			if c.Tag == "few" {
				continue
			}
			for _, p := range all {
				nths := []int{1, 4}
				if thorough {
					nths = []int{1, 2, 4, 9, 30}
				}
				if strings.HasSuffix(p, ".succ") || strings.HasSuffix(p, ".sum") || strings.HasSuffix(p, ".done") || strings.HasSuffix(p, ".select") {
					nths = []int{1, 2} // once per file
				}
				for _, nth := range nths {
					for _, k := range kinds {
						if k == "dstfull" {
							continue
						}
						pt := &e2ePoint{Name: p, Nth: nth, SettleMs: 150, Kind: k, ReleaseMs: 200}
						switch k {
						case "silence":
							// the stages that read the connection notice the silence themselves: they are let go at
							// once; any other stage stays held until the readers' time-out has fired
							pt.ReleaseMs = c.Opts.Timeout*1000 + 400
							if strings.HasPrefix(p, "pipe.ack.") || p == "pipe.rcv.read" || strings.HasPrefix(p, "pipe.sack.") {
								pt.ReleaseMs = 50
							}
						case "pause":
							pt.ResumeMs = 300
							pt.ReleaseMs = 100
						case "none":
							pt.ReleaseMs = 400
						}
						jobs = append(jobs, job{c, e2ePlan{Point: pt, CheckLeft: true}})
					}
				}
			}
		}
		tr, err := vNewTrace(d.path("obs.ndjson"))
		if err != nil {
			return err
		}
		var details []map[string]any
		for ji := si; ji < len(jobs); ji += n {
			if ji <= vResumeAfter() {
				continue
			}
			j := jobs[ji]
			cc := *j.c
			cc.ID = ji
			cc.Plan = j.plan
			_, detail, err := e2eExec(&cc, e2eWorkDir(base, cc.ID), tr, false)
			if err != nil {
				return err
			}
			details = append(details, map[string]any{"case": &cc, "left_frames": detail["left_frames"],
				"client_err": detail["client_err"], "server_err": detail["server_err"], "hung": detail["hung"],
				"entries": detail["entries"], "extra": detail["extra"], "touched": detail["touched"]})
			os.RemoveAll(e2eWorkDir(base, cc.ID))
			d.add("runs", 1)
			d.add("kind_"+e2ePlanKind(&cc.Plan), 1)
			if e2eTainted {
				vRequestRestart(d, ji)
				break
			}
		}
		d.set("jobs_total", len(jobs))
		e2ePointMu.Lock()
		var seen []string
		for p := range e2ePointSeen {
			seen = append(seen, p)
		}
		sort.Strings(seen)
		for _, p := range seen {
			d.add("passed_"+p, e2ePointSeen[p])
		}
		e2ePointMu.Unlock()
		if err := tr.Close(); err != nil {
			return err
		}
		return vWriteJSON(d.path("details.json"), details)
	})
}
