//go:build verif

package trzsz

// C16 drivers: noisy renderings of protocol lines pushed through the real recvLine / recvCheck
// (tmux framing: transferConfig.TmuxOutputJunk, Windows framing: windowsProtocol) and through the
// relay's recvStringFromBuffer / recvStringForWindows.
//   c16_mbt    cases exported by TLC from spec/NoiseGen.tla, each with the model's chunking, with
//              every chunking (short ones) or all 2-splits / single bytes / random chunkings
//   c16_rand   seeded random in-grammar cases (payloads up to 4 KiB), the captured strings of
//              buffer_test.go / transfer_test.go, and out-of-grammar probes
// A noisy stream is a list of structured items (the alphabet of spec/Noise.tla); the drivers
// render them to bytes, record `case` / `line` events for spec/NoiseTrace.tla, and compare with
// the model's expectation where TLC exported one.

import (
	"bufio"
	"bytes"
	"encoding/json"
	"fmt"
	"sync/atomic"
	"time"
	"math/rand"
	"os"
	"runtime"
	"sort"
	"strings"
	"sync"
)

type c16Item struct {
	K string `json:"k"`
	B []int  `json:"b"`
	A []int  `json:"a"`
	M []int  `json:"m"`
	C []int  `json:"c"`
	W []int  `json:"w"`
	N int    `json:"n"`
}

type c16Want struct {
	Res  string `json:"res"`
	Line []int  `json:"line"`
	Typ  []int  `json:"typ"`
}

type c16Case struct {
	Mode   string    `json:"mode"`
	Etyp   []int     `json:"etyp"`
	Items  []c16Item `json:"items"`
	Bytes  []int     `json:"bytes"`
	Chunks []int     `json:"chunks"`
	Want   []c16Want `json:"want"`
	Name   string    `json:"name,omitempty"`
}

type c16Res struct {
	Res  string `json:"res"`
	Line []int  `json:"line"`
}

func c16I(k string, b ...int) c16Item {
	if b == nil {
		b = []int{}
	}
	return c16Item{K: k, B: b, A: []int{}, M: []int{}, C: []int{}, W: []int{}}
}

func c16Ints(s string) []int { return vInts([]byte(s)) }

func c16Csi(params string, final byte) c16Item {
	it := c16I("csi", c16Ints(params)...)
	it.C = []int{int(final)}
	return it
}

func c16St(a, m, c string, w []int, n int) c16Item {
	it := c16I("st")
	it.A, it.M, it.C = c16Ints(a), c16Ints(m), c16Ints(c)
	if w != nil {
		it.W = w
	}
	it.N = n
	return it
}

func c16B(v []int) []byte {
	r := make([]byte, len(v))
	for i, x := range v {
		r[i] = byte(x)
	}
	return r
}

// c16Render mirrors Render(it, md) of spec/Noise.tla.
func c16Render(it c16Item, mode string) []byte {
	switch it.K {
	case "term":
		if mode == "tmux" {
			return []byte{'\n'}
		}
		return append([]byte{'!'}, c16B(it.B)...)
	case "wrap":
		return []byte{'\r', '\n'}
	case "st":
		full := []byte("\x1bP=")
		full = append(full, c16B(it.A)...)
		full = append(full, "\x1b\\"...)
		full = append(full, c16B(it.M)...)
		full = append(full, "\x1bP="...)
		full = append(full, c16B(it.C)...)
		full = append(full, "\x1b\\"...)
		if it.N > 0 && it.N <= len(full) {
			full = full[:it.N]
		}
		var out []byte
		prev := 0
		for _, o := range it.W {
			if o < prev || o > len(full) {
				continue
			}
			out = append(out, full[prev:o]...)
			out = append(out, '\r', '\n')
			prev = o
		}
		return append(out, full[prev:]...)
	case "csi":
		r := []byte{0x1b, '['}
		r = append(r, c16B(it.B)...)
		return append(r, c16B(it.C)...)
	case "bang":
		return []byte{'!'}
	case "etx":
		return append(c16B(it.B), 3) // B: an unfinished escape sequence the Ctrl-C falls into
	default:
		return c16B(it.B)
	}
}

func c16RenderAll(items []c16Item, mode string) []byte {
	var r []byte
	for _, it := range items {
		r = append(r, c16Render(it, mode)...)
	}
	return r
}

func c16Split(s []byte, lens []int) [][]byte {
	var res [][]byte
	p := 0
	for _, n := range lens {
		if n <= 0 || p+n > len(s) {
			break
		}
		res = append(res, s[p:p+n])
		p += n
	}
	if p < len(s) {
		res = append(res, s[p:])
	}
	return res
}

func c16MaskLens(n int, mask uint64) []int {
	var lens []int
	start := 0
	for i := 0; i < n; i++ {
		if i == n-1 || mask&(1<<uint(i)) != 0 {
			lens = append(lens, i+1-start)
			start = i + 1
		}
	}
	return lens
}

func c16RandLens(n int, rng *rand.Rand, maxc int) []int {
	var lens []int
	for p := 0; p < n; {
		k := 1 + rng.Intn(1+rng.Intn(maxc))
		if p+k > n {
			k = n - p
		}
		lens = append(lens, k)
		p += k
	}
	return lens
}

// Transfers are pooled (newTransfer allocates a 10000-slot channel); a pooled one is put back
// into the state of a new one: empty bufCh, no current chunk.
var c16Pool = map[string]*sync.Pool{"win": {}, "tmux": {}, "relay": {}}

func c16ResetBuffer(b *trzszBuffer) {
	b.drainBuffer()
	b.nextBuf, b.nextIdx = nil, 0
	b.readBuf.Reset()
	b.timeout, b.newTimeout = nil, nil
	select {
	case <-b.stopCh:
	default:
	}
}

func c16NewTransfer(mode string) *trzszTransfer {
	if x := c16Pool[mode].Get(); x != nil {
		t := x.(*trzszTransfer)
		c16ResetBuffer(t.buffer)
		return t
	}
	t := newTransfer(nil, nil, false, nil)
	if mode == "win" {
		t.windowsProtocol = true
	} else {
		t.transferConfig.TmuxOutputJunk = true
	}
	return t
}

func c16NewBuffer() *trzszBuffer {
	if x := c16Pool["relay"].Get(); x != nil {
		b := x.(*trzszBuffer)
		c16ResetBuffer(b)
		return b
	}
	return newTrzszBuffer()
}

// c16Feed pushes the chunks (copies) and then a sentinel chunk holding one Ctrl-C.  A read that
// has consumed everything without returning eats the sentinel: that is how "the reader is still
// waiting" is observed without timers (result "blocked").
func c16Feed(add func([]byte), chunks [][]byte) []byte {
	for _, c := range chunks {
		add(append([]byte(nil), c...))
	}
	sent := []byte{3}
	add(sent)
	return sent
}

func c16SentinelEaten(b *trzszBuffer, sent []byte) bool {
	return len(b.bufCh) == 0 && len(b.nextBuf) == 1 && &b.nextBuf[0] == &sent[0]
}

func c16Class(err error, b *trzszBuffer, sent []byte) string {
	if err == nil {
		return "ok"
	}
	if strings.Contains(err.Error(), "Interrupted") {
		if c16SentinelEaten(b, sent) {
			return "blocked"
		}
		return "int"
	}
	return "err"
}

// c16Guard runs fn; a reader that is still blocked after 5 s (it swallowed even the sentinel Ctrl-C)
// is woken through the buffer's stop channel and the run counts as "hang".
func c16Guard(b *trzszBuffer, fn func()) bool {
	var hung atomic.Bool
	wait := 5 * time.Second
	if c16Hangs.Load() >= 4 {
		wait = 20 * time.Millisecond // the generous wait has established the hang several times already
	}
	tm := time.AfterFunc(wait, func() {
		hung.Store(true)
		b.stopBuffer()
	})
	fn()
	tm.Stop()
	if hung.Load() {
		c16Hangs.Add(1)
	}
	return hung.Load()
}

var c16Hangs atomic.Int32

func c16Hang(res []c16Res) []c16Res {
	if n := len(res); n > 0 && res[n-1].Res != "ok" {
		res[n-1] = c16Res{Res: "hang", Line: []int{}}
		return res
	}
	return append(res, c16Res{Res: "hang", Line: []int{}})
}

// c16ExecLine: nreads calls of the real recvLine on a fresh transfer.
func c16ExecLine(mode, etyp string, chunks [][]byte, nreads int) []c16Res {
	t := c16NewTransfer(mode)
	sent := c16Feed(func(c []byte) { t.addReceivedData(c, false) }, chunks)
	var res []c16Res
	if c16Guard(t.buffer, func() {
		for k := 0; k < nreads; k++ {
			line, err := t.recvLine(etyp, false, nil)
			cl := c16Class(err, t.buffer, sent)
			r := c16Res{Res: cl, Line: []int{}}
			if cl == "ok" {
				r.Line = vInts(line)
			}
			res = append(res, r)
			if cl != "ok" {
				break
			}
		}
	}) {
		return c16Hang(res) // the transfer object is not reused
	}
	c16Pool[mode].Put(t)
	return res
}

// c16ExecCheck: recvCheck; result "ok" carries the payload, "typ:<t>" a line of another type.
func c16ExecCheck(mode, etyp string, chunks [][]byte, nreads int) []c16Res {
	t := c16NewTransfer(mode)
	sent := c16Feed(func(c []byte) { t.addReceivedData(c, false) }, chunks)
	var res []c16Res
	if c16Guard(t.buffer, func() {
		for k := 0; k < nreads; k++ {
			buf, err := t.recvCheck(etyp, false, nil)
			if err == nil {
				res = append(res, c16Res{Res: "ok", Line: c16Ints(buf)})
				continue
			}
			if te, ok := err.(*trzszError); ok && te.errType != "" {
				res = append(res, c16Res{Res: "typ:" + te.errType, Line: []int{}})
				continue
			}
			res = append(res, c16Res{Res: c16Class(err, t.buffer, sent), Line: []int{}})
			break
		}
	}) {
		return c16Hang(res)
	}
	c16Pool[mode].Put(t)
	return res
}

// c16ExecRelay: the relay's line readers on a bare trzszBuffer; the observable is what
// decodeRelayBufferString makes of the recovered line, compared with the same function applied
// to the expected line.
func c16ExecRelay(mode, etyp string, chunks [][]byte, nreads int) []c16Res {
	b := c16NewBuffer()
	sent := c16Feed(b.addBuffer, chunks)
	var res []c16Res
	if c16Guard(b, func() {
		for k := 0; k < nreads; k++ {
			var s string
			var err error
			if mode == "win" {
				s, err = recvStringForWindows(b, etyp)
			} else {
				s, err = recvStringFromBuffer(b, etyp, true)
			}
			if err == nil {
				res = append(res, c16Res{Res: "ok", Line: c16Ints(s)})
				continue
			}
			cl := c16Class(err, b, sent)
			if cl == "err" {
				res = append(res, c16Res{Res: "err:" + c16ErrHead(err), Line: []int{}})
				continue
			}
			res = append(res, c16Res{Res: cl, Line: []int{}})
			break
		}
	}) {
		return c16Hang(res)
	}
	c16Pool["relay"].Put(b)
	return res
}

func c16ErrHead(err error) string {
	s := err.Error()
	if i := strings.IndexByte(s, '\n'); i >= 0 {
		s = s[:i]
	}
	return s
}

func c16RelayWant(etyp string, want []c16Want) []c16Res {
	var res []c16Res
	for _, w := range want {
		if w.Res != "ok" {
			res = append(res, c16Res{Res: w.Res, Line: []int{}})
			break
		}
		s, err := decodeRelayBufferString(etyp, c16B(w.Line))
		if err == nil {
			res = append(res, c16Res{Res: "ok", Line: c16Ints(s)})
		} else {
			res = append(res, c16Res{Res: "err:" + c16ErrHead(err), Line: []int{}})
		}
	}
	return res
}

func c16CheckWant(etyp string, want []c16Want) []c16Res {
	var res []c16Res
	for _, w := range want {
		if w.Res != "ok" {
			res = append(res, c16Res{Res: w.Res, Line: []int{}})
			break
		}
		if string(c16B(w.Typ)) == etyp {
			res = append(res, c16Res{Res: "ok", Line: w.Line[len(w.Typ)+2:]})
		} else {
			res = append(res, c16Res{Res: "typ:" + string(c16B(w.Typ)), Line: []int{}})
		}
	}
	return res
}

func c16LineWant(want []c16Want) []c16Res {
	var res []c16Res
	for _, w := range want {
		r := c16Res{Res: w.Res, Line: []int{}}
		if w.Res == "ok" {
			r.Line = w.Line
		}
		res = append(res, r)
		if w.Res != "ok" {
			break
		}
	}
	return res
}

func c16Same(a, b []c16Res) bool {
	if len(a) != len(b) {
		return false
	}
	for i := range a {
		if a[i].Res != b[i].Res || len(a[i].Line) != len(b[i].Line) {
			return false
		}
		for j := range a[i].Line {
			if a[i].Line[j] != b[i].Line[j] {
				return false
			}
		}
	}
	return true
}

func c16Ltyps(c *c16Case) [][]int {
	var r [][]int
	for _, w := range c.Want {
		r = append(r, w.Typ)
	}
	if len(r) == 0 {
		r = append(r, c.Etyp)
	}
	return r
}

func c16HasKind(c *c16Case, k string) bool {
	for _, it := range c.Items {
		if it.K == k {
			return true
		}
	}
	return false
}

type c16Mismatch struct {
	ID     int      `json:"id"`
	Case   int      `json:"case"`
	Via    string   `json:"via"`
	Chunks []int    `json:"chunks"`
	Want   []c16Res `json:"want"`
	Got    []c16Res `json:"got"`
	Single []c16Res `json:"got_single_bytes"`
	C      *c16Case `json:"c"`
}

// c16Recorder writes case/line events, sharded by id.
type c16Recorder struct {
	mu     sync.Mutex
	traces []*vTrace
	nextID int
	base   int
}

func c16NewRecorder(d *vCtx, prefix string, shards int, base int) (*c16Recorder, error) {
	r := &c16Recorder{nextID: base, base: base}
	for i := 0; i < shards; i++ {
		t, err := vNewTrace(d.path(fmt.Sprintf("%s-%02d.ndjson", prefix, i)))
		if err != nil {
			return nil, err
		}
		r.traces = append(r.traces, t)
	}
	return r, nil
}

func (r *c16Recorder) record(c *c16Case, lens []int, res []c16Res) int {
	r.mu.Lock()
	r.nextID++
	id := r.nextID
	r.mu.Unlock()
	tr := r.traces[id%len(r.traces)]
	ev := map[string]any{"e": "case", "id": id, "mode": c.Mode, "etyp": c.Etyp, "ltyps": c16Ltyps(c),
		"items": c.Items, "bytes": c.Bytes, "chunks": lens, "name": c.Name, "want": c.Want}
	tr.mu.Lock()
	tr.n++
	_ = tr.enc.Encode(ev)
	for _, x := range res {
		tr.n++
		_ = tr.enc.Encode(map[string]any{"e": "line", "id": id, "res": x.Res, "line": x.Line})
	}
	tr.mu.Unlock()
	return id
}

func (r *c16Recorder) close() (int, error) {
	n := 0
	for _, t := range r.traces {
		n += t.Len()
		if err := t.Close(); err != nil {
			return n, err
		}
	}
	return n, nil
}

func c16FullLens(lens []int, n int) []int {
	s := 0
	var r []int
	for _, k := range lens {
		if k <= 0 || s+k > n {
			break
		}
		r = append(r, k)
		s += k
	}
	if s < n {
		r = append(r, n-s)
	}
	return r
}

// c16Chunkings: the case's own chunking, whole, single bytes, every chunking when short,
// otherwise every 2-split plus random ones.
func c16Chunkings(c *c16Case, allMax int, nrand int, rng *rand.Rand) [][]int {
	n := len(c.Bytes)
	res := [][]int{c16FullLens(c.Chunks, n)}
	if n == 0 {
		return res
	}
	if n <= allMax {
		for m := uint64(0); m < 1<<uint(n-1); m++ {
			res = append(res, c16MaskLens(n, m))
		}
		return res
	}
	res = append(res, []int{n})
	ones := make([]int, n)
	for i := range ones {
		ones[i] = 1
	}
	res = append(res, ones)
	if n <= 4*allMax {
		for i := 1; i < n; i++ {
			res = append(res, []int{i, n - i})
		}
	}
	for i := 0; i < nrand; i++ {
		res = append(res, c16RandLens(n, rng, 1+rng.Intn(16)))
	}
	return res
}

func init() {
	vRegister("c16_mbt", c16MBT)
	vRegister("c16_rand", c16Rand)
}

func c16ReadCases(path string) ([]*c16Case, error) {
	f, err := os.ReadFile(path)
	if err != nil {
		return nil, err
	}
	var cases []*c16Case
	for _, ln := range bytes.Split(f, []byte("\n")) {
		if len(bytes.TrimSpace(ln)) == 0 {
			continue
		}
		c := &c16Case{}
		if err := json.Unmarshal(ln, c); err != nil {
			return nil, err
		}
		cases = append(cases, c)
	}
	return cases, nil
}

// c16RunCase executes one case under the given chunkings through the three entry points and
// returns the mismatches against the expectation carried by the case.
func c16RunCase(ci int, c *c16Case, chunkings [][]int, rec *c16Recorder, sample bool, relayToo bool, budget map[string]int, per int) (runs int, mm []c16Mismatch) {
	etyp := string(c16B(c.Etyp))
	raw := c16B(c.Bytes)
	wantLine := c16LineWant(c.Want)
	nreads := len(c.Want)
	if nreads == 0 {
		nreads = 1
	}
	ones := make([]int, len(raw))
	for i := range ones {
		ones[i] = 1
	}
	for k, lens := range chunkings {
		chunks := c16Split(raw, lens)
		got := c16ExecLine(c.Mode, etyp, chunks, nreads)
		runs++
		bad := !c16Same(got, wantLine)
		if bad {
			m := c16Mismatch{Case: ci, Via: "recvLine", Chunks: lens, Want: wantLine, Got: got, C: c,
				Single: c16ExecLine(c.Mode, etyp, c16Split(raw, ones), nreads)}
			// recorded for TLC: at most `per` per (framing, noise kinds) signature and worker, so
			// that a frequent deviation cannot crowd out a rarer one; all are counted
			if sg := c16Sig(c); budget[sg] < per {
				budget[sg]++
				m.ID = rec.record(c, lens, got)
			}
			mm = append(mm, m)
		} else if sample && k == 0 {
			rec.record(c, lens, got)
		}
		if k < 3 || bad {
			// recvCheck and the relay readers: the case's chunking, whole, single bytes
			gc := c16ExecCheck(c.Mode, etyp, chunks, nreads)
			runs++
			if wc := c16CheckWant(etyp, c.Want); !c16Same(gc, wc) && !bad {
				mm = append(mm, c16Mismatch{Case: ci, Via: "recvCheck", Chunks: lens, Want: wc, Got: gc, C: c})
			}
			if relayToo {
				gr := c16ExecRelay(c.Mode, etyp, chunks, nreads)
				runs++
				if wr := c16RelayWant(etyp, c.Want); !c16Same(gr, wr) && !bad {
					mm = append(mm, c16Mismatch{Case: ci, Via: "relay", Chunks: lens, Want: wr, Got: gr, C: c})
				}
			}
		}
		if len(mm) >= 2 {
			break
		}
	}
	return
}

// the relay readers have no status-line strip and no last-'#' fallback: they are only driven
// with lines of the expected type without status blocks
func c16RelayApplies(c *c16Case) bool {
	if c16HasKind(c, "st") {
		return false
	}
	for _, w := range c.Want {
		if string(c16B(w.Typ)) != string(c16B(c.Etyp)) {
			return false
		}
	}
	return true
}

func c16Sig(c *c16Case) string {
	set := map[string]bool{}
	for i := range c.Items {
		if k := c16Kind(&c.Items[i]); k != "let" && k != "term" {
			set[k] = true
		}
	}
	var ks []string
	for k := range set {
		ks = append(ks, k)
	}
	sort.Strings(ks)
	return fmt.Sprintf("%s/%d/%s", c.Mode, len(c.Want), strings.Join(ks, "+"))
}

func c16Kind(it *c16Item) string {
	k := it.K
	switch {
	case k == "csi" && len(it.B) == 1 && it.B[0] == '!':
		return "csi:soft"
	case k == "csi" && len(it.C) == 1 && it.C[0] == 'H' && len(it.B) == 0:
		return "csi:home"
	case k == "csi" && len(it.C) == 1 && it.C[0] == 'H':
		return "csi:pos"
	case k == "csi":
		return "csi:plain"
	case k == "st" && it.N > 0:
		return "st:truncated"
	case k == "st" && len(it.W) > 0:
		return "st:wrapped"
	case k == "st":
		return "st:pair"
	}
	return k
}

func c16MBT(d *vCtx) error {
	f, err := os.Open(d.pStr("cases", d.path("cases.ndjson")))
	if err != nil {
		return err
	}
	defer f.Close()
	allMax := d.pInt("allmax", 10)
	nrand := d.pInt("nrand", 6)
	sampleEvery := d.pInt("sample", 50)
	rec, err := c16NewRecorder(d, "mbt", d.pInt("shards", 16), 1000000)
	if err != nil {
		return err
	}
	type job struct {
		ci   int
		line []byte
	}
	jobs := make(chan job, 256)
	var mu sync.Mutex
	var all []c16Mismatch
	var firstErr error
	runs, drift, ncases, nmism := 0, 0, 0, 0
	kinds := map[string]int{}
	nw := runtime.NumCPU()
	var wg sync.WaitGroup
	for w := 0; w < nw; w++ {
		wg.Add(1)
		go func(w int) {
			defer wg.Done()
			rng := d.rng(int64(1600 + w))
			lr, ld, ln := 0, 0, 0
			lk := map[string]int{}
			budget := map[string]int{}
			per := d.pInt("record_mismatches", 2)
			var lm []c16Mismatch
			for j := range jobs {
				c := &c16Case{}
				if err := json.Unmarshal(j.line, c); err != nil {
					mu.Lock()
					firstErr = err
					mu.Unlock()
					continue
				}
				ln++
				for i := range c.Items {
					lk[c16Kind(&c.Items[i])]++
				}
				if !bytes.Equal(c16RenderAll(c.Items, c.Mode), c16B(c.Bytes)) {
					ld++
					continue
				}
				n, mm := c16RunCase(j.ci, c, c16Chunkings(c, allMax, nrand, rng), rec, j.ci%sampleEvery == 0, c16RelayApplies(c), budget, per)
				lr += n
				if len(lm) < 64 {
					lm = append(lm, mm...)
				}
				mu.Lock()
				nmism += len(mm)
				mu.Unlock()
			}
			mu.Lock()
			runs += lr
			drift += ld
			ncases += ln
			for k, v := range lk {
				kinds[k] += v
			}
			all = append(all, lm...)
			mu.Unlock()
		}(w)
	}
	sc := bufio.NewScanner(f)
	sc.Buffer(make([]byte, 1<<20), 1<<28)
	ci := 0
	for sc.Scan() {
		if len(bytes.TrimSpace(sc.Bytes())) == 0 {
			continue
		}
		jobs <- job{ci, append([]byte(nil), sc.Bytes()...)}
		ci++
	}
	close(jobs)
	wg.Wait()
	if sc.Err() != nil {
		return sc.Err()
	}
	if firstErr != nil {
		return firstErr
	}
	events, err := rec.close()
	if err != nil {
		return err
	}
	sort.Slice(all, func(i, j int) bool { return all[i].Case < all[j].Case })
	d.set("cases", ncases)
	d.set("runs", runs)
	d.set("render_drift", drift)
	d.set("mismatches", nmism)
	d.set("events", events)
	d.set("recorded", rec.nextID-rec.base)
	d.set("item_kinds", kinds)
	if len(all) > 400 {
		all = all[:400]
	}
	return vWriteJSON(d.path("mismatches.json"), all)
}

// ---------------------------------------------------------------- random in-grammar generator

type c16Gen struct {
	rng   *rand.Rand
	mode  string
	items []c16Item
}

func (g *c16Gen) add(it c16Item) { g.items = append(g.items, it) }
func (g *c16Gen) p(pct int) bool { return g.rng.Intn(100) < pct }

func (g *c16Gen) plainCsi() c16Item {
	switch g.rng.Intn(9) {
	case 0:
		return c16Csi("01;32", 'm')
	case 1:
		return c16Csi("00", 'm')
	case 2:
		return c16Csi("", 'm')
	case 3:
		return c16Csi("", 'K')
	case 4:
		return c16Csi(fmt.Sprint(1+g.rng.Intn(250)), 'X')
	case 5:
		return c16Csi(fmt.Sprint(1+g.rng.Intn(250)), 'C')
	case 6:
		return c16Csi("?25h", 0)
	case 7:
		return c16Csi("?25l", 0)
	default:
		return c16Csi("!", 'p')
	}
}

func (g *c16Gen) fixCsi(it c16Item) c16Item {
	// "?25h" style helpers above carry the final letter inside the parameter string
	if len(it.C) == 1 && it.C[0] == 0 {
		it.C = []int{it.B[len(it.B)-1]}
		it.B = it.B[:len(it.B)-1]
	}
	return it
}

func (g *c16Gen) pos() c16Item {
	if g.p(20) {
		return c16Csi(fmt.Sprint(1+g.rng.Intn(60)), 'H')
	}
	return c16Csi(fmt.Sprintf("%d;%d", 1+g.rng.Intn(60), 1+g.rng.Intn(240)), 'H')
}

// etx: a Ctrl-C; in the Windows framing half of them fall into an unfinished escape sequence
func (g *c16Gen) etx() c16Item {
	if g.mode != "win" || g.p(50) {
		return c16I("etx")
	}
	switch g.rng.Intn(4) {
	case 0:
		return c16I("etx", 0x1b)
	case 1:
		return c16I("etx", 0x1b, '[')
	case 2:
		return c16I("etx", append([]int{0x1b, '['}, c16Ints(fmt.Sprintf("%d;%d", 1+g.rng.Intn(60), 1+g.rng.Intn(200)))...)...)
	default:
		return c16I("etx", append([]int{0x1b, '['}, c16Ints(fmt.Sprintf("%d", g.rng.Intn(40)))...)...)
	}
}

func (g *c16Gen) pad() c16Item { return c16I("pad", []int{32, 8, 9}[g.rng.Intn(3)]) }
func (g *c16Gen) nl() c16Item {
	if g.p(70) {
		return c16I("nl", 13, 10)
	}
	return c16I("nl", 10)
}

// harmless noise allowed in every gap state: padding and non-'H' sequences
func (g *c16Gen) plain(max int) {
	for n := g.rng.Intn(max + 1); n > 0; n-- {
		if g.p(35) {
			g.add(g.pad())
		} else {
			g.add(g.fixCsi(g.plainCsi()))
		}
	}
}

func c16RandText(rng *rand.Rand, n int, letters bool) []int {
	const pr = "abcXYZ 019$%&()*,-.;<>?@[]^_{|}~#:+/="
	const lt = "abcXYZ019#:+/=STDAUC"
	src := pr
	if letters {
		src = lt
	}
	r := make([]int, n)
	for i := range r {
		r[i] = int(src[rng.Intn(len(src))])
	}
	return r
}

// winGap emits the noise between two letters of a Windows line; last is the letter in front.
// Returns true when the form is G3 (the next letter overwrites the stray one).
func (g *c16Gen) winGap(last int, beforeTerm bool) {
	switch f := g.rng.Intn(10); {
	case f < 5: // free: padding, sequences, cursor positioning, no newline
		for n := 1 + g.rng.Intn(3); n > 0; n-- {
			if g.p(30) {
				g.add(g.pos())
			} else {
				g.plain(1)
			}
		}
	case f < 7: // G1  nl pos dup
		g.plain(1)
		g.add(g.nl())
		g.plain(1)
		g.add(g.pos())
		g.plain(1)
		g.add(c16I("dup", last))
		g.plain(1)
	case f < 8: // G2  pos nl pos dup
		g.add(g.pos())
		g.plain(1)
		g.add(g.nl())
		g.plain(1)
		g.add(g.pos())
		g.plain(1)
		g.add(c16I("dup", last))
		g.plain(1)
	default: // G3  home stray pos nl <letter>
		if beforeTerm {
			g.plain(2)
			return
		}
		g.plain(2)
		g.add(c16Csi("", 'H'))
		g.plain(1)
		g.add(c16I("stray", c16RandText(g.rng, 1, true)[0]))
		g.plain(1)
		g.add(g.pos())
		g.plain(2)
		g.add(g.nl())
		g.plain(1)
	}
}

func (g *c16Gen) stBlock(trunc bool) c16Item {
	mids := []string{"", "\x1b[?25l\x1b[?12l\x1b[?25h\x1b[5 q", "\x1b[?25l", "\x1b[0m\x1b[5 q"}
	a := fmt.Sprintf("%ds", 1+g.rng.Intn(9))
	c := fmt.Sprintf("%ds", 1+g.rng.Intn(9))
	it := c16St(a, mids[g.rng.Intn(len(mids))], c, nil, 0)
	full := len(c16Render(it, "tmux"))
	n := full
	if trunc {
		it.N = 3 + g.rng.Intn(full-3)
		n = it.N
	}
	if g.p(30) && n > 1 {
		k := 1 + g.rng.Intn(2)
		ws := map[int]bool{}
		for ; k > 0; k-- {
			ws[1+g.rng.Intn(n-1)] = true
		}
		for o := range ws {
			it.W = append(it.W, o)
		}
		sort.Ints(it.W)
	}
	return it
}

// line emits one line `#typ:payload` with noise (density in percent per gap) and returns the
// expectation.  etxAt >= 0 puts a Ctrl-C in front of that letter index and ends the stream.
func (g *c16Gen) line(etyp, ltyp, payload string, density int, etxAt int) c16Want {
	full := "#" + ltyp + ":" + payload
	want := c16Want{Res: "ok", Line: c16Ints(full), Typ: c16Ints(ltyp)}
	marker := len(ltyp) + 2
	// in front of the marker
	if g.mode == "tmux" {
		for n := g.rng.Intn(3); n > 0 && g.p(60); n-- {
			if g.p(30) {
				g.add(c16I("wrap"))
			}
			t := c16RandText(g.rng, 1+g.rng.Intn(12), false)
			if g.p(25) && ltyp == etyp {
				t = append(t, c16Ints("#"+etyp+":")...)
				t = append(t, c16RandText(g.rng, g.rng.Intn(6), true)...)
			}
			if ltyp != etyp && strings.Contains(string(c16B(t)), "#"+etyp+":") {
				continue
			}
			g.add(c16I("txt", t...))
		}
	} else {
		for n := g.rng.Intn(4); n > 0 && g.p(60); n-- {
			switch g.rng.Intn(6) {
			case 0:
				g.add(g.nl())
			case 1:
				g.add(g.pos())
			case 2:
				g.add(c16Csi("", 'H'))
			case 3:
				g.add(c16I("bang"))
			default:
				g.plain(2)
			}
		}
		if g.p(25) {
			t := c16RandText(g.rng, 1+g.rng.Intn(8), true)
			if g.p(40) && ltyp == etyp {
				t = append(t, c16Ints("#"+etyp+":")...)
				t = append(t, c16RandText(g.rng, g.rng.Intn(4), true)...)
			}
			if !(ltyp != etyp && strings.Contains(string(c16B(t)), "#"+etyp+":")) {
				g.add(c16I("txt", t...))
				g.plain(1)
			}
		}
	}
	for i := 0; i < len(full); i++ {
		if i == etxAt {
			g.add(g.etx())
			want.Res = "int"
			return want
		}
		if i > 0 && g.p(density) {
			if g.mode == "tmux" {
				for n := 1 + g.rng.Intn(2); n > 0; n-- {
					if i >= marker && g.p(30) {
						g.add(g.stBlock(false))
					} else {
						g.add(c16I("wrap"))
					}
				}
			} else {
				g.winGap(int(full[i-1]), false)
			}
		}
		g.add(c16I("let", int(full[i])))
	}
	if etxAt >= len(full) {
		g.add(g.etx())
		want.Res = "int"
		return want
	}
	// in front of the terminator
	if g.p(3 * density) {
		if g.mode == "tmux" {
			if g.p(50) {
				g.add(c16I("wrap"))
			}
			if g.p(30) {
				g.add(g.stBlock(false))
			}
			if g.p(30) {
				g.add(g.stBlock(true))
				if g.p(50) {
					g.add(c16I("wrap"))
				}
			}
		} else {
			g.winGap(int(full[len(full)-1]), true)
		}
	}
	if g.mode == "win" && g.p(70) {
		g.add(c16I("term", 10))
	} else {
		g.add(c16I("term"))
	}
	return want
}

// c16ForceFull (set by the single-threaded generator loop) makes the next payload an
// incompressible one of exactly maxRaw bytes: base64 of ~4 KiB for maxRaw = 3000.
var c16ForceFull bool

func c16RandPayload(rng *rand.Rand, maxRaw int) string {
	n := rng.Intn(maxRaw + 1)
	if c16ForceFull {
		n = maxRaw
	}
	raw := make([]byte, n)
	rng.Read(raw)
	if rng.Intn(4) == 0 && !c16ForceFull { // compressible
		for i := range raw {
			raw[i] = "aab"[rng.Intn(3)]
		}
	}
	return encodeBytes(raw)
}

func c16RandCase(rng *rand.Rand, maxRaw int) *c16Case {
	mode := []string{"tmux", "win"}[rng.Intn(2)]
	types := []string{"SUCC", "DATA", "ACT", "CFG", "NUM", "NAME", "SIZE", "MD5"}
	etyp := types[rng.Intn(len(types))]
	g := &c16Gen{rng: rng, mode: mode}
	c := &c16Case{Mode: mode, Etyp: c16Ints(etyp)}
	nlines := 1 + rng.Intn(3)
	density := []int{0, 1, 3, 10, 30}[rng.Intn(5)]
	if maxRaw >= 300 { // long payloads: one line, moderate density (keeps the stream below ~10 KiB)
		nlines = 1
		density = []int{0, 1, 3, 8}[rng.Intn(4)]
	}
	for k := 0; k < nlines; k++ {
		ltyp := etyp
		if rng.Intn(8) == 0 {
			ltyp = []string{"FAIL", "fail", "EXIT", "SUCC", "DATA"}[rng.Intn(5)]
		}
		var payload string
		if rng.Intn(5) == 0 && !c16ForceFull {
			payload = fmt.Sprint(rng.Int63n(1 << 40))
		} else {
			payload = c16RandPayload(rng, maxRaw)
		}
		etxAt := -1
		if rng.Intn(12) == 0 {
			etxAt = rng.Intn(len(payload) + len(ltyp) + 3)
		}
		w := g.line(etyp, ltyp, payload, density, etxAt)
		c.Want = append(c.Want, w)
		if w.Res != "ok" {
			break
		}
	}
	c.Items = g.items
	c.Bytes = vInts(c16RenderAll(c.Items, mode))
	c.Chunks = c16RandLens(len(c.Bytes), rng, 1+rng.Intn(64))
	return c
}
