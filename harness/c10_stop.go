//go:build verif

package trzsz

// C10 driver: the user stops a transfer (client: keep / delete, server: SIGINT-equivalent)
// before / after every protocol message of real end-to-end transfers.

import (
	"os"
)

func init() { vRegister("c10_stop", c10Stop) }

func c10Bases(seed int64, thorough bool) []*e2eCase {
	var res []*e2eCase
	mk := func(upload, binary bool, proto int, dir, overwrite bool, sizes []int64, pre []e2eNode) {
		c := &e2eCase{Seed: seed + int64(len(res))*733, NamesFromTops: true, WatchdogMs: 40000}
		c.Opts = e2eOpts{Upload: upload, Binary: binary, Protocol: proto, Directory: dir, Overwrite: overwrite,
			Timeout: 3, Bufsize: 4096, Compress: 2}
		for i, sz := range sizes {
			rel := e2eName(0, i)
			if dir {
				rel = "tree/" + rel
			}
			c.Nodes = append(c.Nodes, e2eNode{Rel: rel, Size: sz, Kind: 1})
			c.Bases = append(c.Bases, "")
		}
		c.Pre = pre
		res = append(res, c)
	}
	other := []e2eNode{{Rel: "keepme.txt", Size: 100}, {Rel: "olddir/x", Size: 10}}
	mk(true, false, 4, false, false, []int64{3000, 12000}, nil)
	mk(false, true, 4, false, false, []int64{12000, 500}, other)
	mk(true, true, 4, true, false, []int64{9000, 100}, other)   // archive stream
	mk(false, false, 4, true, true, []int64{5000, 7000}, other) // directory, overwrite
	// overwrite with pre-existing files of the same names (had begun to replace; the resume hash exchange)
	mk(true, false, 4, false, true, []int64{6000, 6000}, []e2eNode{{Rel: e2eName(0, 0), Size: 50}, {Rel: "keepme.txt", Size: 100}})
	if thorough {
		mk(true, false, 2, false, false, []int64{9000}, nil)
		mk(false, false, 3, false, false, []int64{9000, 10}, nil)
		mk(true, false, 1, false, false, []int64{2500}, nil)
	}
	return res
}

func c10Stop(d *vCtx) error {
	thorough := d.pBool("thorough", false)
	shards := d.pInt("shards", 96)
	bases := c10Bases(d.seed, thorough)
	layouts, err := e2eLayouts(d, bases)
	if err != nil {
		return err
	}
	return vShards(d, shards, func(si, n int) error {
		base := e2eShmBase()
		defer os.RemoveAll(base)
		if err := e2eCaptureStdout(d.out); err != nil {
			return err
		}
		type job struct {
			base int
			stop e2eStop
		}
		var jobs []job
		for bi, c := range bases {
			_ = c
			w := layouts[bi]
			for g := range w {
				for _, ph := range []string{"before", "after"} {
					jobs = append(jobs, job{bi, e2eStop{G: g, Phase: ph, Role: "C", Delete: false}})
					jobs = append(jobs, job{bi, e2eStop{G: g, Phase: ph, Role: "C", Delete: true}})
					jobs = append(jobs, job{bi, e2eStop{G: g, Phase: ph, Role: "V", Delete: false}})
				}
			}
		}
		tr, err := vNewTrace(d.path("obs.ndjson"))
		if err != nil {
			return err
		}
		var details []map[string]any
		for ji := si; ji < len(jobs); ji += n {
			j := jobs[ji]
			cc := *bases[j.base]
			cc.ID = ji
			st := j.stop
			cc.Plan.Stop = &st
			_, detail, err := e2eExec(&cc, e2eWorkDir(base, cc.ID), tr, false)
			if err != nil {
				return err
			}
			details = append(details, map[string]any{"case": &cc, "entries": detail["entries"], "touched": detail["touched"],
				"client_err": detail["client_err"], "server_err": detail["server_err"], "hung": detail["hung"]})
			os.RemoveAll(e2eWorkDir(base, cc.ID))
			d.add("runs", 1)
		}
		d.set("jobs_total", len(jobs))
		if err := tr.Close(); err != nil {
			return err
		}
		return vWriteJSON(d.path("details.json"), details)
	})
}
