//go:build verif

package trzsz

// C10 driver: the user stops a transfer (client: keep / delete, server: SIGINT-equivalent)
// before / after every protocol message of real end-to-end transfers.

import (
	"io"
	"os"
	"os/exec"
	"path/filepath"
	"strings"
	"sync/atomic"
	"syscall"
	"time"
)

func init() {
	vRegister("c10_stop", c10Stop)
	vRegister("c10_signal", c10Signal)
}

func c10Bases(seed int64, thorough bool) []*e2eCase {
	var res []*e2eCase
	mk := func(upload, binary bool, proto int, dir, overwrite bool, sizes []int64, pre []e2eNode) {
		c := &e2eCase{Seed: seed + int64(len(res))*733, NamesFromTops: true, WatchdogMs: 40000}
		c.Opts = e2eOpts{Upload: upload, Binary: binary, Protocol: proto, Directory: dir, Overwrite: overwrite,
			Timeout: 3, Bufsize: 4096, Compress: 2}
		for i, sz := range sizes {
			rel := e2eName(0, i)
			if dir {
				rel = "tree/" + rel
			}
			c.Nodes = append(c.Nodes, e2eNode{Rel: rel, Size: sz, Kind: 1})
			c.Bases = append(c.Bases, "")
		}
		c.Pre = pre
		res = append(res, c)
	}
	other := []e2eNode{{Rel: "keepme.txt", Size: 100}, {Rel: "olddir/x", Size: 10}}
	mk(true, false, 4, false, false, []int64{3000, 12000}, nil)
	res[len(res)-1].Opts.Progress = true // with the progress display and its goroutine
	mk(false, true, 4, false, false, []int64{12000, 500}, other)
	mk(true, true, 4, true, false, []int64{9000, 100}, other)   // archive stream
	mk(false, false, 4, true, true, []int64{5000, 7000}, other) // directory, overwrite
	// overwrite with pre-existing files of the same names (had begun to replace; the resume hash exchange)
	mk(true, false, 4, false, true, []int64{6000, 6000}, []e2eNode{{Rel: e2eName(0, 0), Size: 50}, {Rel: "keepme.txt", Size: 100}})
	// directory mode with overwrite into a directory that already exists and holds other content
	inside := []e2eNode{{Rel: "tree/keep.txt", Size: 120}, {Rel: "tree/docs/notes.txt", Size: 80}, {Rel: "keepme.txt", Size: 100}}
	mk(true, false, 4, true, true, []int64{6000, 4000}, inside)
	mk(false, true, 3, true, true, []int64{6000}, inside)
	// names that extend each other as strings (report, report.old; data, data.tar.gz): stop-and-delete
	// must remove every one of them
	mk(true, false, 4, false, false, []int64{300, 20000, 500}, other)
	for i, n := range []string{"report", "report.old", "report.old.2"} {
		res[len(res)-1].Nodes[i].Rel = n
	}
	if thorough {
		mk(false, true, 3, false, false, []int64{300, 20000}, other)
		for i, n := range []string{"data", "data.tar.gz"} {
			res[len(res)-1].Nodes[i].Rel = n
		}
		mk(true, false, 2, false, false, []int64{9000}, nil)
		mk(false, false, 3, false, false, []int64{9000, 10}, nil)
		mk(true, false, 1, false, false, []int64{2500}, nil)
		// long transfers: many DATA / ack messages, the ack window full, between files
		mk(true, false, 4, false, false, []int64{40000, 30000, 100}, other)
		mk(false, true, 4, false, true, []int64{25000, 0, 18000}, []e2eNode{{Rel: e2eName(0, 0), Size: 30000}, {Rel: e2eName(0, 2), Size: 9000}})
		mk(false, true, 3, true, false, []int64{20000, 15000}, other)
		mk(true, true, 2, true, true, []int64{8000, 8000, 8000}, other)
		mk(false, false, 1, false, false, []int64{6000, 3000}, nil)
		for i := range res[len(res)-5:] {
			c := res[len(res)-5+i]
			c.Opts.Compress = []int{2, 0, 1, 2, 0}[i] // no / auto / yes
			if i == 3 {
				c.Opts.Escape = true
			}
		}
	}
	return res
}

func c10Stop(d *vCtx) error {
	thorough := d.pBool("thorough", false)
	shards := d.pInt("shards", 96)
	bases := c10Bases(d.seed, thorough)
	layouts, err := e2eLayouts(d, bases)
	if err != nil {
		return err
	}
	return vShards(d, shards, func(si, n int) error {
		base := e2eShmBase()
		defer os.RemoveAll(base)
		if err := e2eCaptureStdout(d.out); err != nil {
			return err
		}
		type job struct {
			base int
			stop e2eStop
		}
		var jobs []job
		for bi, c := range bases {
			_ = c
			w := layouts[bi]
			for g := range w {
				for _, ph := range []string{"before", "after"} {
					// every other client stop the way a user makes it: Ctrl-C pauses, the choice comes later
					pm := 0
					if (g+len(ph))%2 == 0 {
						pm = 120
					}
					jobs = append(jobs, job{bi, e2eStop{G: g, Phase: ph, Role: "C", Delete: false, PromptMs: pm}})
					jobs = append(jobs, job{bi, e2eStop{G: g, Phase: ph, Role: "C", Delete: true, PromptMs: 120 - pm}})
					jobs = append(jobs, job{bi, e2eStop{G: g, Phase: ph, Role: "V", Delete: false}})
				}
			}
		}
		tr, err := vNewTrace(d.path("obs.ndjson"))
		if err != nil {
			return err
		}
		var details []map[string]any
		for ji := si; ji < len(jobs); ji += n {
			if ji <= vResumeAfter() {
				continue
			}
			j := jobs[ji]
			cc := *bases[j.base]
			cc.ID = ji
			st := j.stop
			cc.Plan.Stop = &st
			_, detail, err := e2eExec(&cc, e2eWorkDir(base, cc.ID), tr, false)
			if err != nil {
				return err
			}
			details = append(details, map[string]any{"case": &cc, "entries": detail["entries"], "touched": detail["touched"],
				"client_err": detail["client_err"], "server_err": detail["server_err"], "hung": detail["hung"]})
			os.RemoveAll(e2eWorkDir(base, cc.ID))
			d.add("runs", 1)
			if e2eTainted {
				vRequestRestart(d, ji)
				break
			}
		}
		d.set("jobs_total", len(jobs))
		if err := tr.Close(); err != nil {
			return err
		}
		return vWriteJSON(d.path("details.json"), details)
	})
}

// c10Signal: SIGINT / SIGTERM delivered to the real trz / tsz processes (built from the working
// tree) in the middle of a transfer under a real NewTrzszFilter with its pumps.
func c10Signal(d *vCtx) error {
	bin := d.pStr("bindir", "")
	runs := d.pInt("runs", 8)
	shards := d.pInt("shards", 8)
	return vShards(d, shards, func(si, n int) error {
		base := e2eShmBase()
		defer os.RemoveAll(base)
		tr, err := vNewTrace(d.path("obs.ndjson"))
		if err != nil {
			return err
		}
		var details []map[string]any
		for id := si; id < runs; id += n {
			rid := 930000 + id
			r := d.rng(int64(rid))
			upload := id%2 == 0
			sig := []syscall.Signal{syscall.SIGINT, syscall.SIGTERM}[(id/2)%2]
			work := e2eWorkDir(base, rid)
			srcRoot, dst := filepath.Join(work, "src"), filepath.Join(work, "dst")
			_ = os.MkdirAll(dst, 0755)
			// a first small file that completes, then a big one during which the signal arrives
			nodes := []e2eNode{{Rel: "a_small.bin", Size: 3000, Kind: 1}, {Rel: "b_big.bin", Size: 6 << 20, Kind: 1}}
			tops, err := e2eMakeTree(srcRoot, nodes, d.seed+int64(rid))
			if err != nil {
				return err
			}
			e2eSrcCache = map[string]map[string]e2eEntry{}
			for _, t := range tops {
				if s := e2eSourceSnapshot(t); s != nil {
					e2eSrcCache[t] = s
				}
			}
			args := []string{"-t", "3", "-B", "4K", "-c", "no"}
			var cmd *exec.Cmd
			if upload {
				cmd = exec.Command(filepath.Join(bin, "trz"), append(args, dst)...)
			} else {
				cmd = exec.Command(filepath.Join(bin, "tsz"), append(args, tops...)...)
			}
			cmd.Env = e2eDropEnv(os.Environ(), "TMUX")
			stdin, _ := cmd.StdinPipe()
			stdoutR, _ := cmd.StdoutPipe()
			// count the bytes the server process writes; the signal is sent once enough data has flowed
			counted := &c10CountReader{r: stdoutR}
			clientIn := &e2eChanReader{ch: make(chan []byte)}
			sink := &e2eSink{}
			cw := &c10CountWriter{w: stdin}
			f := NewTrzszFilter(clientIn, sink, cw, counted, TrzszOptions{TerminalColumns: 100})
			var upRes <-chan error
			if upload {
				upRes, _ = f.OneTimeUpload(tops)
			} else {
				f.SetDefaultDownloadPath(dst)
			}
			tr.Emit(map[string]any{"e": "reset", "run": rid, "upload": upload, "proto": 4, "binary": false, "overwrite": false,
				"directory": false, "windows": false, "nfaults": 0, "stop": "V", "stopdel": false, "pause": false, "silence": false,
				"timeout": 3, "fkind": "stop", "prehs": false, "files": []any{}}, nil)
			if err := cmd.Start(); err != nil { // only now: the one-time upload is armed
				return err
			}
			threshold := int64(300000 + r.Intn(2000000))
			done := make(chan error, 1)
			go func() { done <- cmd.Wait() }()
			var sigAt time.Time
			deadline := time.After(60 * time.Second)
			hung := false
		wait:
			for {
				select {
				case <-done:
					break wait
				case <-deadline:
					hung = true
					_ = cmd.Process.Kill()
					break wait
				case <-time.After(2 * time.Millisecond):
					if sigAt.IsZero() && counted.n.Load()+cw.n.Load() > threshold {
						sigAt = time.Now()
						tr.Emit(map[string]any{"e": "stop", "run": rid, "g": -1, "phase": "signal", "role": "V", "del": false}, func() {
							_ = cmd.Process.Signal(sig)
						})
					}
				}
			}
			vend := time.Now()
			// the client side must leave the transfer too
			cend := time.Time{}
			for dl := time.Now().Add(30 * time.Second); time.Now().Before(dl); time.Sleep(5 * time.Millisecond) {
				if !f.IsTransferringFiles() {
					cend = time.Now()
					break
				}
			}
			cok := false
			if upload {
				select {
				case e := <-upRes:
					cok = e == nil
				case <-time.After(time.Second):
				}
			} else {
				cok = strings.Contains(sink.String(), "Saved")
			}
			since := func(t time.Time) int64 {
				if sigAt.IsZero() || t.IsZero() {
					return -1
				}
				if t.Before(sigAt) {
					return 0
				}
				return t.Sub(sigAt).Milliseconds()
			}
			names := []string{"a_small.bin", "b_big.bin"}
			entries, allSame, _ := e2eCompare(tops, names, dst, map[string]e2eEntry{})
			keptok := len(entries) > 0 && entries[0]["got"] == "same" // the completed first file is intact
			nsame := 0
			for _, e := range entries {
				if e["got"] == "same" {
					nsame++
				}
			}
			res := func(b bool) string {
				if b {
					return "ok"
				}
				return "fail"
			}
			tr.Emit(map[string]any{"e": "ret", "run": rid, "role": "C", "res": res(cok), "hung": cend.IsZero(), "ms": 0,
				"since": since(cend), "told": false, "msg": "", "claims": 2}, nil)
			tr.Emit(map[string]any{"e": "ret", "run": rid, "role": "V", "res": res(cmd.ProcessState != nil && cmd.ProcessState.ExitCode() == 0 && allSame), "hung": hung,
				"ms": 0, "since": since(vend), "told": false, "msg": "", "claims": 2}, nil)
			tr.Emit(map[string]any{"e": "fs", "run": rid, "n": len(entries), "nsame": nsame, "allsame": allSame && len(entries) > 0,
				"extra": 0, "touched": 0, "shown": true, "nshown": 2, "ntops": 2, "npresent": 0, "keptok": keptok || sigAt.IsZero(),
				"verified": 1, "claimsame": allSame && len(entries) > 0, "mutapplied": false, "vmgrow": 0, "pdata": 0, "pkeep": 0, "dataafter": 0, "pausems": 0, "npauses": 0}, nil)
			details = append(details, map[string]any{"case": map[string]any{"id": rid, "opts": map[string]any{"upload": upload},
				"plan": map[string]any{"stop": map[string]any{"role": "V", "delete": false, "signal": sig.String(), "after_bytes": threshold}}, "process": true},
				"entries": entries, "server_exit": cmd.ProcessState.String(), "terminal": e2eFirstLine(sink.String())})
			close(clientIn.ch)
			os.RemoveAll(work)
			d.add("runs", 1)
			if !sigAt.IsZero() {
				d.add("signalled", 1)
			}
		}
		if err := tr.Close(); err != nil {
			return err
		}
		return vWriteJSON(d.path("details.json"), details)
	})
}

type c10CountReader struct {
	r io.Reader
	n atomic.Int64
}

func (c *c10CountReader) Read(p []byte) (int, error) {
	n, err := c.r.Read(p)
	c.n.Add(int64(n))
	return n, err
}

type c10CountWriter struct {
	w io.WriteCloser
	n atomic.Int64
}

func (c *c10CountWriter) Write(p []byte) (int, error) {
	c.n.Add(int64(len(p)))
	return c.w.Write(p)
}
func (c *c10CountWriter) Close() error { return c.w.Close() }
