//go:build verif

package trzsz

// C20 drivers: calls of the real textProgressBar recorded for ProgressTrace.tla (c20_tv), the
// catalogue of field lengths the real formatters produce (c20_catalogue) and behaviours
// exported by TLC from ProgressGen.tla replayed on a real textProgressBar (c20_mbt).
//
// The bar is driven deterministically: timeNowFunc is replaced by a clock the driver sets
// before every call, so the 200 ms throttle of showProgress, the speed and the ETA are
// functions of the driver's inputs.  Every call runs under recover(): a panic is an
// observation ({"res":"panic"}), not a harness crash.
//
// What is observed (from outside, through the io.Writer): redraw prefix (none | \r | CSI n D),
// the bar (cells full/empty, recognised by its own characters), the fields to the right of it,
// the percentage text, what is shown of the name, and the display width of the whole line
// (go-runewidth StringWidth after removing the bar's own SGR sequences).  Internals are used
// only to steer (end a run once fileStep/fileSize left the sane range) and to compute the
// lengths of the fields that were dropped from the line (copy of recentSpeed + the code's own
// formatters).

import (
	"encoding/json"
	"fmt"
	"math"
	"math/big"
	"math/rand"
	"os"
	"os/exec"
	"regexp"
	"strconv"
	"strings"
	"sync"
	"syscall"
	"time"
	uc "unicode"

	"github.com/mattn/go-runewidth"
)

func init() {
	vRegister("c20_tv", c20TV)
	vRegister("c20_script", c20Script)
	vRegister("c20_catalogue", c20Catalogue)
	vRegister("c20_mbt", c20MBT)
}

// ---------------------------------------------------------------- clock, writer, numbers

var c20Clock time.Time

func c20InstallClock() func() {
	old := timeNowFunc
	timeNowFunc = func() time.Time { return c20Clock }
	return func() { timeNowFunc = old }
}

var c20Epoch = time.Unix(1646564135, 0)

type c20Writer struct{ buf []byte }

func (w *c20Writer) Write(p []byte) (int, error) { w.buf = append(w.buf, p...); return len(p), nil }
func (w *c20Writer) take() string                 { s := string(w.buf); w.buf = w.buf[:0]; return s }

// c20Num: int64 -> {"s": sign, "m": five 15-bit limbs, little endian} (ProgressNum.tla)
func c20Num(v int64) map[string]any {
	s := 0
	var u uint64
	if v > 0 {
		s, u = 1, uint64(v)
	} else if v < 0 {
		s, u = -1, uint64(-v)
	}
	m := make([]int, 5)
	for i := range m {
		m[i] = int(u & 32767)
		u >>= 15
	}
	return map[string]any{"s": s, "m": m}
}

func c20NumBack(v any) int64 {
	mm, _ := v.(map[string]any)
	arr, _ := mm["m"].([]any)
	var u uint64
	for i := len(arr) - 1; i >= 0; i-- {
		u = u<<15 | uint64(arr[i].(float64))
	}
	if s, _ := mm["s"].(float64); s < 0 {
		return -int64(u)
	}
	return int64(u)
}

// ---------------------------------------------------------------- names as rune codes

// c20Codes: code w + 4 j + 8 s per rune of name.  j (the rune continues the grapheme cluster of
// the rune before it) is inferred from go-runewidth itself (rivo/uniseg cannot be imported
// without go.mod being rewritten): StringWidth of every rune prefix is compared with the prefix
// before it; a zero-width rune is attached to the cluster before it, a rune that adds less than
// its RuneWidth continues a cluster.  ctx is what the code puts in front ("(i/n) " when
// count > 1).  c20CodesOK then verifies the codes against the library on every prefix.
func c20Codes(ctx, name string) []int {
	cr := []rune(ctx)
	rs := append(append([]rune{}, cr...), []rune(name)...)
	var codes []int
	prev := runewidth.StringWidth(ctx)
	for i := len(cr); i < len(rs); i++ {
		r := rs[i]
		w := runewidth.RuneWidth(r)
		sw := runewidth.StringWidth(string(rs[:i+1]))
		c := w
		if i > 0 && (w == 0 || sw-prev != w) {
			c += 4
		}
		if uc.IsSpace(r) {
			c += 8
		}
		codes = append(codes, c)
		prev = sw
	}
	return codes
}

// c20SW is the spec's SW (Progress.tla) on a code sequence.
func c20SW(codes []int) int {
	acc, has := 0, false
	for i, c := range codes {
		w, j := c%4, (c/4)%2
		switch {
		case j == 0 || i == 0:
			acc += w
			has = w > 0
		case !has && w > 0:
			acc += w
			has = true
		}
	}
	return acc
}

// c20CodesOK: the codes reproduce runewidth.StringWidth on left itself and on every
// "prefix + ..." that getEllipsisString can produce, with and without the leading blanks that
// strings.TrimSpace removes.
func c20CodesOK(ctx, name string) bool {
	L := []rune(ctx + name)
	codes := c20Codes("", ctx)
	codes = append(codes, c20Codes(ctx, name)...)
	if len(codes) != len(L) {
		return false
	}
	t0 := 0
	for t0 < len(L) && uc.IsSpace(L[t0]) {
		t0++
	}
	dots := []int{17, 17, 17}
	for k := 0; k <= len(L); k++ {
		for _, t := range []int{0, t0} {
			if t > k {
				continue
			}
			if c20SW(codes[t:k]) != runewidth.StringWidth(string(L[t:k])) {
				return false
			}
			if c20SW(append(append([]int{}, codes[t:k]...), dots...)) != runewidth.StringWidth(string(L[t:k])+"...") {
				return false
			}
		}
	}
	return true
}

func c20RLE(codes []int) [][]int {
	runs := [][]int{}
	for _, c := range codes {
		if n := len(runs); n > 0 && runs[n-1][0] == c {
			runs[n-1][1]++
		} else {
			runs = append(runs, []int{c, 1})
		}
	}
	return runs
}

// families of names: each returns a name of display width (StringWidth) exactly w
type c20Family struct {
	name  string
	units []string // repeated round robin
	pad   string   // width-1 filler
	head  string   // put in front once (may have width)
}

var c20Families = []c20Family{
	{name: "ascii", units: []string{"a", "b", "-", "_", "x", ".", "t"}, pad: "z"},
	{name: "cjk", units: []string{"中", "文", "长", "Ｗ"}, pad: "q"},
	{name: "mixed", units: []string{"a", "中", "b", "😀", ".", "文"}, pad: "z"},
	{name: "emoji", units: []string{"😀", "🚀", "👍🏽", "❤️", "👨‍👩‍👧", "🇨🇳", "🏳️‍🌈"}, pad: "e"},
	{name: "combining", units: []string{"é", "ạ̈", "각", "ô", "ñ", "각"}, pad: "c"},
	{name: "control", units: []string{"a", "\x07", "b", "\x1b", "c", "\u200b", "d", "\x7f", "\u00ad", "e", "\n", "f", "\ufeff"}, pad: "k", head: "\t"},
	{name: "spaces", units: []string{"a", " ", "b", " ", "c", "　", "d"}, pad: "s", head: " "},
	{name: "spaces2", units: []string{"x", "y", " "}, pad: "s", head: "　 "},
	{name: "punct", units: []string{"[", "]", "|", "%", " ", ".", ".", ".", "█", "░", "(", "/", ")"}, pad: "p"},
}

func c20Name(f c20Family, w int, salt int) string {
	var b strings.Builder
	b.WriteString(f.head)
	cur := runewidth.StringWidth(f.head)
	if cur > w {
		return strings.Repeat(f.pad, w)
	}
	for i := salt; cur < w; i++ {
		u := f.units[i%len(f.units)]
		uw := runewidth.StringWidth(b.String()+u) - cur
		if cur+uw > w || uw < 0 {
			u, uw = f.pad, 1
		}
		b.WriteString(u)
		cur += uw
	}
	s := b.String()
	if runewidth.StringWidth(s) != w { // clusters merged differently than unit by unit: fall back
		return strings.Repeat(f.pad, w)
	}
	return s
}

// ---------------------------------------------------------------- observation of one call

var c20CsiD = regexp.MustCompile(`^\x1b\[(\d+)D`)

// c20SgrLen: length of an SGR sequence ESC [ (digit | ;)* m at the end of s, 0 if there is none
func c20SgrLen(s string) int {
	i := len(s) - 2
	for i >= 0 && (s[i] == ';' || (s[i] >= '0' && s[i] <= '9')) {
		i--
	}
	if i >= 1 && s[i] == '[' && s[i-1] == 0x1b {
		return len(s) - (i - 1)
	}
	return 0
}

func c20EmptyObs(res string) map[string]any {
	return map[string]any{"res": res, "nf": 0, "k": 0, "match": "", "bar": false, "total": 0, "full": 0,
		"w": 0, "pct": 0, "pl": 0, "pfx": "", "pn": 0, "ot": 0, "os": 0, "oe": 0, "msg": ""}
}

// c20Observe parses what one call wrote.  L is what the code calls `left` before shortening.
func c20Observe(out string, L string) map[string]any {
	o := c20EmptyObs("rendered")
	if out == "" {
		o["res"] = "silent"
		return o
	}
	s := out
	o["pfx"] = "none"
	if strings.HasPrefix(s, "\r") {
		o["pfx"] = "cr"
		s = s[1:]
	} else if m := c20CsiD.FindStringSubmatch(s); m != nil {
		o["pfx"] = "csi"
		o["pn"], _ = strconv.Atoi(m[1])
		s = s[len(m[0]):]
	}
	// the bar: "[" (SGR | full cell | empty cell)* "]", searched backwards from the last "]"
	leftpart, right, bar := "", s, ""
	full, empty := 0, 0
	if end := strings.LastIndex(s, "]"); end >= 0 {
		pos := end
		f, e := 0, 0
		found := false
		for pos > 0 {
			head := s[:pos]
			switch {
			case strings.HasSuffix(head, "█"):
				f++
				pos -= 3
			case strings.HasSuffix(head, "░"):
				e++
				pos -= 3
			case strings.HasSuffix(head, "m") && c20SgrLen(head) > 0:
				pos -= c20SgrLen(head)
			case strings.HasSuffix(head, "["):
				pos--
				found = true
			default:
				pos = -1
			}
			if found || pos < 0 {
				break
			}
		}
		if found {
			leftpart, right = s[:pos], s[end+1:]
			full, empty = f, e
			bar = "[" + strings.Repeat("█", f) + strings.Repeat("░", e) + "]"
			o["bar"] = true
			o["full"], o["total"] = full, full+empty
		}
	}
	fields := strings.Split(strings.TrimPrefix(right, " "), " | ")
	o["nf"] = len(fields)
	switch len(fields) {
	case 4:
		o["ot"], o["os"], o["oe"] = len(fields[1]), len(fields[2]), len(fields[3])
	case 3:
		o["os"], o["oe"] = len(fields[1]), len(fields[2])
	case 2:
		o["oe"] = len(fields[1])
	}
	pctStr := fields[0]
	o["pl"] = len(pctStr)
	pct := 1000
	if strings.HasSuffix(pctStr, "%") {
		if n, err := strconv.ParseInt(strings.TrimSuffix(pctStr, "%"), 10, 64); err == nil {
			switch {
			case n < 0:
				pct = -1
			case n > 1000:
				pct = 1000
			default:
				pct = int(n)
			}
		}
	}
	o["pct"] = pct
	o["w"] = runewidth.StringWidth(leftpart + bar + right)
	// what is shown of left
	shown := leftpart
	if o["bar"] == true && strings.HasSuffix(shown, " ") {
		shown = shown[:len(shown)-1] // the separator getProgressText adds
	}
	A := strings.TrimLeftFunc(L, uc.IsSpace)
	Lr := []rune(L)
	t0 := len(Lr) - len([]rune(A))
	sr := []rune(shown)
	switch {
	case shown == "":
		o["match"] = "drop"
	case shown == A:
		o["match"], o["k"] = "full", len(Lr)
	case strings.HasSuffix(shown, "...") && t0+len(sr)-3 <= len(Lr) &&
		strings.TrimLeftFunc(string(Lr[:t0+len(sr)-3])+"...", uc.IsSpace) == shown:
		o["match"], o["k"] = "ell", t0+len(sr)-3
	default:
		o["match"] = "none"
	}
	return o
}

// ---------------------------------------------------------------- one recorded run

var c20BadNames int
var c20EtaUnclamped bool // which of the two ETA texts the code under test produces (see render)
var c20NameCache = map[string][][]int{}

// A run is one textProgressBar from newTextProgressBar on.  Its events are buffered and written
// to the trace when the run ends.  Every event carries, besides what ProgressTrace.tla reads,
// what is needed to repeat the call (name text, values as decimal strings, clock advance), so a
// run's event list is also its replay script (c20_script).
type c20Run struct {
	tr      *vTrace
	events  []map[string]any
	w       *c20Writer
	p       *textProgressBar
	count   int
	idx     int
	name    string
	now     time.Time
	adv     time.Duration // clock advance since the previous call
	lastAt  time.Time     // clock at the last call that wrote a line
	hasLast bool
	dead    bool // panic, or step/size left the sane range: the run ends
	probe   map[string]any // a call that is too dangerous to make in this process (see wild)
	noProbe bool
	renders int
	panics  int
	fuzzy   int
	desync  int // present fields whose length differs from the shadow formatter's
	classes map[string]int
}

func c20NewRun(tr *vTrace, cols, pane int, colour bool) *c20Run {
	r := &c20Run{tr: tr, w: &c20Writer{}, now: c20Epoch, classes: map[string]int{}}
	pair := ""
	if colour {
		pair = "00ffff ff00ff"
	}
	c20Clock = r.now
	r.p = newTextProgressBar(r.w, int32(cols), int32(pane), "", pair)
	r.emit(map[string]any{"e": "new", "cols": cols, "pane": pane, "colour": colour})
	return r
}

func (r *c20Run) emit(ev map[string]any) {
	ev["adv"] = strconv.FormatInt(int64(r.adv), 10)
	r.adv = 0
	r.events = append(r.events, ev)
}

func (r *c20Run) flush() {
	if r.tr != nil {
		for _, ev := range r.events {
			r.tr.Emit(ev, nil)
		}
	}
}

func (r *c20Run) left() string {
	if r.count > 1 {
		return fmt.Sprintf("(%d/%d) %s", r.idx, r.count, r.name)
	}
	return r.name
}

func (r *c20Run) advance(d time.Duration) { r.now = r.now.Add(d); r.adv += d; c20Clock = r.now }

func (r *c20Run) call(fn func()) (panicMsg string) {
	defer func() {
		if x := recover(); x != nil {
			panicMsg = fmt.Sprint(x)
			if panicMsg == "" {
				panicMsg = "panic"
			}
		}
	}()
	c20Clock = r.now
	fn()
	return ""
}

func (r *c20Run) simple(ev map[string]any, fn func()) {
	msg := r.call(fn)
	out := r.w.take()
	ev["wrote"] = len(out)
	ev["panic"] = msg
	if msg != "" {
		r.dead = true
		r.panics++
	}
	r.emit(ev)
}

func (r *c20Run) num(n int) {
	r.simple(map[string]any{"e": "num", "n": n}, func() { r.p.onNum(int64(n)) })
	r.count = n
}

func (r *c20Run) setName(name string) {
	r.idx++
	ctx := ""
	if r.count > 1 {
		ctx = fmt.Sprintf("(%d/%d) ", r.idx, r.count)
	}
	// the join flags depend on the context only through its last rune (a blank): cache per name
	key := "-\x00" + name
	if ctx != "" {
		key = "+\x00" + name
	}
	runs, ok := c20NameCache[key]
	if !ok {
		if c20CodesOK(ctx, name) {
			runs = c20RLE(c20Codes(ctx, name))
		}
		c20NameCache[key] = runs
	}
	if runs == nil { // the rune codes would not describe this name: use a plain one of the same width
		c20BadNames++
		name = strings.Repeat("n", runewidth.StringWidth(name))
		runs = c20RLE(c20Codes(ctx, name))
	}
	r.name = name
	r.simple(map[string]any{"e": "name", "rs": runs, "name": name}, func() { r.p.onName(name) })
}

func c20Dec(v int64) string { return strconv.FormatInt(v, 10) }

func (r *c20Run) size(v int64) {
	r.simple(map[string]any{"e": "size", "v": c20Num(v), "vs": c20Dec(v)}, func() { r.p.onSize(v) })
}
func (r *c20Run) preSize(v int64) {
	r.simple(map[string]any{"e": "presize", "v": c20Num(v), "vs": c20Dec(v)}, func() { r.p.setPreSize(v) })
}
func (r *c20Run) cols(c int) {
	r.simple(map[string]any{"e": "cols", "c": c}, func() { r.p.setTerminalColumns(int32(c)) })
}
func (r *c20Run) pause(b bool) {
	r.simple(map[string]any{"e": "pause", "b": b}, func() { r.p.setPause(b) })
}

// near a rounding tie float64 arithmetic may legitimately differ by one from exact arithmetic
func c20NearTie(k int, step, size int64) bool {
	if size == 0 || k <= 0 {
		return false
	}
	x, z := new(big.Int).Abs(big.NewInt(step)), new(big.Int).Abs(big.NewInt(size))
	if z.BitLen() <= 40 {
		return false
	}
	t := new(big.Int).Mul(x, big.NewInt(int64(2*k)))
	z2 := new(big.Int).Lsh(z, 1)
	t.Mod(t, z2)
	d := new(big.Int).Sub(t, z)
	d.Abs(d)
	lim := new(big.Int).Rsh(z, 30)
	return d.Cmp(lim) < 0
}

// wild: the call would draw with |fileStep| > 4 |fileSize| (or a negative size and a large step).
// getProgressBar then asks strings.Repeat / its colour loop for total*ratio cells: gigabytes of
// memory or hours of CPU in *this* process.  Such a call is made in a child process under a
// memory limit and a CPU-time limit (c20Probe) and its outcome (panic | crash | hang | rendered) is the
// observation.
func (r *c20Run) wild(step int64) bool {
	size := r.p.fileSize
	if size == 0 || r.p.pausing.Load() || step <= r.p.fileStep {
		return false
	}
	x, z := new(big.Int).Abs(big.NewInt(step)), new(big.Int).Abs(big.NewInt(size))
	z.Lsh(z, 2)
	if size > 0 {
		return step > size && x.Cmp(z) > 0
	}
	return x.Cmp(z) > 0
}

func (r *c20Run) dtms() int {
	dt := int64(0)
	if r.hasLast {
		ns := int64(r.now.Sub(r.lastAt))
		dt = ns / 1e6
		if ns < 0 && ns%1e6 != 0 {
			dt--
		}
		if dt > 1e9 {
			dt = 1e9
		}
		if dt < -1e9 {
			dt = -1e9
		}
	}
	return int(dt)
}

// render is a step or done call: shadow fields, the call, the observation, the event
func (r *c20Run) render(ev map[string]any, willStep int64, fn func()) map[string]any {
	ev["dt"] = r.dtms()
	if !r.noProbe && r.wild(willStep) {
		ev["lens"] = map[string]any{"t": 0, "s": 0, "e": 0}
		ev["fz"] = false
		r.probe = ev
		r.dead = true
		return c20EmptyObs("probe")
	}
	rs := r.p.recentSpeed // copy (arrays are values)
	msg := r.call(fn)
	out := r.w.take()
	// the fields showProgress computed (total from fileStep, speed from the copy, ETA)
	now := r.now
	// (the project's own formatters give the expected field lengths; should they panic on these values the lengths
	// are unknown and only the call's own outcome is judged)
	total, fmtOK := "", true
	speedStr, etaStr, etaAlt := "--- B/s", "--- ETA", "--- ETA"
	func() {
		defer func() {
			if recover() != nil {
				fmtOK = false
			}
		}()
		total = convertSizeToString(float64(r.p.fileStep))
		speed := rs.getSpeed(r.p.fileStep, &now)
		if speed > 0 {
			speedStr = fmt.Sprintf("%s/s", convertSizeToString(speed))
			left := math.Round(float64(r.p.fileSize-r.p.fileStep) / speed)
			etaStr = fmt.Sprintf("%s ETA", convertTimeToString(math.Max(0, left)))
			etaAlt = fmt.Sprintf("%s ETA", convertTimeToString(left))
		}
	}()
	if c20EtaUnclamped {
		etaStr, etaAlt = etaAlt, etaStr
	}
	// steering: once fileStep / fileSize left the sane range the run ends after this call
	cls := "ok"
	switch {
	case r.p.fileSize < 0:
		cls = "size<0"
	case r.p.fileSize > 0 && r.p.fileStep > r.p.fileSize:
		cls = "step>size"
	case r.p.fileStep < -1:
		cls = "step<0"
	}
	if cls != "ok" {
		r.dead = true
	}
	var o map[string]any
	if msg != "" {
		o = c20EmptyObs("panic")
		o["msg"] = msg
		r.dead = true
		r.panics++
	} else {
		o = c20Observe(out, r.left())
		if o["res"] == "rendered" {
			r.renders++
			r.lastAt, r.hasLast = r.now, true
			nf := o["nf"].(int)
			// in the sane range the fields on the line must have the lengths the copy of the formatters gave
			if nf >= 2 && nf <= 4 && o["oe"] != len(etaStr) && o["oe"] == len(etaAlt) {
				c20EtaUnclamped = !c20EtaUnclamped
				etaStr = etaAlt
			}
			if cls == "ok" && fmtOK && ((nf == 4 && o["ot"] != len(total)) || (nf >= 3 && nf <= 4 && o["os"] != len(speedStr)) ||
				(nf >= 2 && nf <= 4 && o["oe"] != len(etaStr))) {
				r.desync++
			}
		}
	}
	ev["lens"] = map[string]any{"t": len(total), "s": len(speedStr), "e": len(etaStr)}
	fz := false
	if o["res"] == "rendered" {
		fz = c20NearTie(100, r.p.fileStep, r.p.fileSize) || (o["bar"] == true && c20NearTie(o["total"].(int), r.p.fileStep, r.p.fileSize))
		if fz {
			r.fuzzy++
		}
	}
	ev["fz"] = fz
	ev["out"] = o
	r.classes[cls+"/"+o["res"].(string)]++
	r.emit(ev)
	return o
}

func (r *c20Run) step(v int64) map[string]any {
	return r.render(map[string]any{"e": "step", "v": c20Num(v), "vs": c20Dec(v)}, v+r.p.preSize, func() { r.p.onStep(v) })
}
func (r *c20Run) done() map[string]any {
	return r.render(map[string]any{"e": "done", "v": c20Num(0), "vs": "0"}, r.p.fileStep, func() { r.p.onDone() })
}

// c20Replay repeats a run from its event list (the fields name / vs / adv / cols / pane ...).
func c20Replay(tr *vTrace, script []map[string]any, noProbe bool, before func(i int)) *c20Run {
	var r *c20Run
	num := func(v any) int {
		f, _ := v.(float64)
		return int(f)
	}
	i64 := func(v any) int64 {
		s, _ := v.(string)
		n, _ := strconv.ParseInt(s, 10, 64)
		return n
	}
	for ei, ev := range script {
		if ev["e"] == "new" {
			r = c20NewRun(tr, num(ev["cols"]), num(ev["pane"]), ev["colour"] == true)
			r.noProbe = noProbe
			continue
		}
		if r == nil || r.dead {
			break
		}
		if before != nil {
			before(ei)
		}
		r.advance(time.Duration(i64(ev["adv"])))
		switch ev["e"] {
		case "num":
			r.num(num(ev["n"]))
		case "name":
			nm, _ := ev["name"].(string)
			r.setName(nm)
		case "size":
			r.size(i64(ev["vs"]))
		case "presize":
			r.preSize(i64(ev["vs"]))
		case "cols":
			r.cols(num(ev["c"]))
		case "pause":
			r.pause(ev["b"] == true)
		case "step":
			r.step(i64(ev["vs"]))
		case "done":
			r.done()
		}
	}
	return r
}

// c20Script (driver c20_script): replays the scripts of $VERIF_OUT/scripts.ndjson (one run per
// line: {"run":[events]}) into trace-00.ndjson.  With "limit" the address space is capped first:
// this is how a wild call is made in a child process.
func c20Script(d *vCtx) error {
	defer c20InstallClock()()
	if gb := d.pInt("limitgb", 0); gb > 0 {
		lim := syscall.Rlimit{Cur: uint64(gb) << 30, Max: uint64(gb) << 30}
		if err := syscall.Setrlimit(syscall.RLIMIT_AS, &lim); err != nil {
			return err
		}
	}
	lines, err := vReadNDJSON(d.pStr("scripts", d.path("scripts.ndjson")))
	if err != nil {
		return err
	}
	tr, err := vNewTrace(d.path("trace-00.ndjson"))
	if err != nil {
		return err
	}
	runs := 0
	for _, ln := range lines {
		arr, _ := ln["run"].([]any)
		var script []map[string]any
		for _, x := range arr {
			if m, ok := x.(map[string]any); ok {
				script = append(script, m)
			}
		}
		marker := d.pBool("marker", false)
		r := c20Replay(tr, script, d.pBool("noprobe", true), func(i int) {
			if marker && i == len(script)-1 { // the parent tells a slow start from a hanging call by this file
				_ = os.WriteFile(d.path("last-call"), []byte("x"), 0o644)
			}
		})
		if r != nil {
			r.flush()
			_ = tr.w.Flush()
			runs++
		}
	}
	d.set("runs", runs)
	d.set("events", tr.Len())
	return tr.Close()
}

// c20Probe makes the pending wild call of run r in a child process (this test binary, driver
// c20_script, address space capped, killed once the call has used `cpuLimit` of CPU time) and appends the observed event.
// c20ProcCPU: user+system CPU time of a process from /proc/<pid>/stat (clock ticks of 10 ms)
func c20ProcCPU(pid int) time.Duration {
	b, err := os.ReadFile(fmt.Sprintf("/proc/%d/stat", pid))
	if err != nil {
		return 0
	}
	s := string(b)
	if i := strings.LastIndex(s, ")"); i >= 0 {
		f := strings.Fields(s[i+1:])
		if len(f) > 12 {
			u, _ := strconv.ParseInt(f[11], 10, 64)
			k, _ := strconv.ParseInt(f[12], 10, 64)
			return time.Duration(u+k) * 10 * time.Millisecond
		}
	}
	return 0
}

func c20Probe(d *vCtx, r *c20Run, n int, cpuLimit time.Duration) string {
	dir := d.path(fmt.Sprintf("probe-%03d", n))
	_ = os.MkdirAll(dir, 0o755)
	script := append(append([]map[string]any{}, r.events...), r.probe)
	r.probe["adv"] = strconv.FormatInt(int64(r.adv), 10)
	f, err := os.Create(dir + "/scripts.ndjson")
	if err == nil {
		enc := json.NewEncoder(f)
		enc.SetEscapeHTML(false)
		_ = enc.Encode(map[string]any{"run": script})
		f.Close()
	}
	cmd := exec.Command(os.Args[0], "-test.run", "^TestVerifDriver$")
	cmd.Env = append(os.Environ(), "VERIF_DRIVER=c20_script", "VERIF_OUT="+dir, `VERIF_PARAMS={"limitgb":6,"noprobe":true,"marker":true}`)
	var errb strings.Builder
	cmd.Stderr = &errb
	cmd.Stdout = &errb
	res := ""
	if err := cmd.Start(); err != nil {
		res = "unknown"
	} else {
		// "hang" = the last call has burnt `cpuLimit` of CPU time without returning (the machine may
		// be loaded: wall time says nothing); no verdict ("unknown") if the child gets nowhere in 120 s
		done := make(chan error, 1)
		go func() { done <- cmd.Wait() }()
		var cpuAtCall time.Duration = -1
		deadline := time.After(120 * time.Second)
		tick := time.NewTicker(50 * time.Millisecond)
		defer tick.Stop()
	wait:
		for {
			select {
			case <-done:
				break wait
			case <-deadline:
				_ = cmd.Process.Kill()
				<-done
				res = "unknown"
				break wait
			case <-tick.C:
				cpu := c20ProcCPU(cmd.Process.Pid)
				if cpuAtCall < 0 {
					if _, err := os.Stat(dir + "/last-call"); err == nil {
						cpuAtCall = cpu
					}
				} else if cpu-cpuAtCall > cpuLimit {
					_ = cmd.Process.Kill()
					<-done
					res = "hang"
					break wait
				}
			}
		}
	}
	o := c20EmptyObs(res)
	ev := r.probe
	if res == "" {
		evs, _ := vReadNDJSON(dir + "/trace-00.ndjson")
		if len(evs) == len(script) {
			last := evs[len(evs)-1]
			ev["lens"], ev["fz"] = last["lens"], last["fz"]
			if om, ok := last["out"].(map[string]any); ok {
				o = om
				res, _ = om["res"].(string)
			}
		} else {
			res = "crash"
			o = c20EmptyObs(res)
			msg := errb.String()
			for _, ln := range strings.Split(msg, "\n") {
				if strings.HasPrefix(ln, "fatal error:") || strings.HasPrefix(ln, "panic:") || strings.HasPrefix(ln, "runtime:") {
					msg = ln
					break
				}
			}
			if len(msg) > 200 {
				msg = msg[:200]
			}
			o["msg"] = msg
		}
	}
	ev["out"] = o
	ev["child"] = true
	r.events = append(r.events, ev)
	r.probe = nil
	_ = os.RemoveAll(dir)
	return res
}

// ---------------------------------------------------------------- c20_tv

type c20Stats struct {
	runs, events, renders, panics, fuzzy, desync int
	classes                                     map[string]int
	pending                                     []*c20Run // runs that end in a wild call
	probeKeys                                   map[string]bool
	maxProbes, wildSkipped                      int
}

func (s *c20Stats) add(r *c20Run) {
	if r.probe != nil {
		// one child process per kind of wild call
		key := fmt.Sprintf("%v/%v/%v/%v", r.p.colorA != nil, r.p.fileSize < 0, r.p.columns.Load() >= 40, r.probe["e"])
		if s.probeKeys[key] || len(s.pending) >= s.maxProbes {
			s.wildSkipped++
			r.probe = nil
		} else {
			s.probeKeys[key] = true
			s.pending = append(s.pending, r)
		}
	}
	if r.probe == nil {
		r.flush()
	}
	s.runs++
	s.renders += r.renders
	s.panics += r.panics
	s.fuzzy += r.fuzzy
	s.desync += r.desync
	for k, v := range r.classes {
		s.classes[k] += v
	}
}

var c20Gaps = []time.Duration{200 * time.Millisecond, time.Second, 250 * time.Millisecond, 90 * time.Second,
	3 * time.Hour, 200 * time.Millisecond, 2000 * time.Hour, time.Minute, 201 * time.Millisecond, 26 * time.Hour}

func c20TV(d *vCtx) error {
	defer c20InstallClock()()
	shards := d.pInt("shards", 16)
	maxCols := d.pInt("maxcols", 500)
	colStride := d.pInt("colstride", 1) // sweeps visit every colstride-th width (offset varies per sweep)
	nameStride := d.pInt("namestride", 1)
	nrand := d.pInt("random", 300)
	maxNameW := d.pInt("maxnamew", 100)
	traces := make([]*vTrace, shards)
	for i := range traces {
		t, err := vNewTrace(d.path(fmt.Sprintf("trace-%02d.ndjson", i)))
		if err != nil {
			return err
		}
		traces[i] = t
	}
	st := &c20Stats{classes: map[string]int{}, probeKeys: map[string]bool{}, maxProbes: d.pInt("probes", 8)}
	k := 0
	next := func() *vTrace { k++; return traces[k%shards] }
	// the driver is run as `parts` processes (the mocked clock is a package variable, so one
	// process cannot drive bars in parallel); this one takes every run with number = part (mod parts)
	part, parts := d.pInt("part", 0), d.pInt("parts", 1)
	runNo := 0
	mine := func() bool { runNo++; return runNo%parts == part }
	sizes := []int64{1000, 1 << 20, 3, 1 << 62, 0, 1<<53 + 1, 7 << 40, 1}

	// A. ladder sweeps: one name, every terminal width, increasing steps, varying speeds
	sweep := 0
	for fi, f := range c20Families {
		for w := 0; w <= maxNameW; w++ {
			if (w+fi)%nameStride != 0 && !(w >= 17 && w <= 24) && !(w >= 27 && w <= 34) && !(w >= 37 && w <= 44) && !(w >= 47 && w <= 54) {
				continue
			}
			sweep++
			if !mine() {
				continue
			}
			count := []int{1, 12, 1000, 0, 2147483647}[sweep%5]
			size := sizes[sweep%len(sizes)]
			r := c20NewRun(next(), maxCols, 0, sweep%16 == 3)
			r.num(count)
			if sweep%7 == 0 { // a second file: idx 2
				r.setName("first")
			}
			r.setName(c20Name(f, w, sweep))
			r.size(size)
			inc := int64(1)
			if size > 4*int64(maxCols) {
				inc = size / int64(2*maxCols/colStride+3)
			}
			v := int64(0)
			off := sweep % colStride
			for c := 1 + off; c <= maxCols && !r.dead; c += colStride {
				cc := c
				if sweep%2 == 0 {
					cc = maxCols + 1 - c
				}
				r.cols(cc)
				r.advance(c20Gaps[(c+sweep)%len(c20Gaps)])
				if size == 0 || v+inc <= size {
					v += inc
				} else if sweep%3 == 0 {
					r.done()
					r.setName(c20Name(f, w, sweep+c))
					v = 0
					continue
				} else {
					// file complete: carry on with a fresh one of the same name
					r.setName(c20Name(f, w, sweep))
					v = 0
				}
				r.step(v)
			}
			st.add(r)
		}
	}
	// B. tmux pane mode (set at construction only)
	for pane := 0; pane <= maxCols; pane++ {
		if pane > 130 && pane%colStride != 0 {
			continue
		}
		if !mine() {
			continue
		}
		f := c20Families[pane%len(c20Families)]
		r := c20NewRun(next(), 300-pane/2, pane, pane%16 == 0)
		r.num(pane % 3)
		r.setName(c20Name(f, (pane*7)%61, pane))
		r.size(5000)
		for i, v := range []int64{0, 10, 2500, 2600, 4999} {
			if r.dead {
				break
			}
			r.advance(c20Gaps[(pane+i)%len(c20Gaps)])
			r.step(v)
		}
		if !r.dead {
			r.done()
		}
		if !r.dead && pane%2 == 0 { // resize leaves pane mode
			r.cols(pane/2 + 3)
			r.setName("after-resize")
			r.advance(time.Second)
			r.step(1)
		}
		st.add(r)
	}
	// C. call sequences: sizes x step values {-1,0,1,size-1,size,size+1,2^62} in every order of
	// three, repeats, regressions, preSize changes, throttling, pause; steps beyond the size and
	// negative sizes end the run with the observation of what the code did
	seqSizes := []int64{0, 1, 2, 3, 10, 200, 1000, 1 << 31, 1<<53 + 1, 1<<62 - 1, 1 << 62, -1, -5, -(1 << 62)}
	seqCols := []int{4, 5, 6, 11, 16, 17, 18, 29, 30, 31, 40, 60, 80, 100, 120, 200, 500}
	cs := 0
	for _, size := range seqSizes {
		vals := []int64{-1, 0, 1, size - 1, size, size + 1, 1 << 62}
		for a := range vals {
			for b := range vals {
				for c := range vals {
					cs++
					if d.pBool("seqsample", false) && (cs+int(d.seed))%4 != 0 {
						continue
					}
					if !mine() {
						continue
					}
					cols := seqCols[cs%len(seqCols)]
					pane := 0
					if cs%11 == 0 {
						pane = cols
					}
					r := c20NewRun(next(), cols, pane, cs%6 == 0)
					r.num(1 + cs%2)
					r.setName(c20Name(c20Families[cs%len(c20Families)], cs%37, cs))
					pre := int64(0)
					if cs%5 == 1 && size > 0 && size < 1<<61 { // resumed transfer: onSize(S) onStep(m) setPreSize(m) onSize(S-m)
						pre = size / 3
						r.size(size)
						r.advance(300 * time.Millisecond)
						r.step(pre)
						r.preSize(pre)
						r.size(size - pre)
					} else {
						if cs%5 == 2 {
							pre = 1
							r.preSize(pre)
						}
						if size > 1<<61 || size < -(1<<61) {
							pre = 0
						}
						r.size(size - pre)
					}
					for i, vi := range []int{a, b, c} {
						if r.dead {
							break
						}
						if cs%13 == 5 && i == 1 {
							r.pause(true)
						}
						if cs%13 == 5 && i == 2 {
							r.pause(false)
						}
						r.advance([]time.Duration{200 * time.Millisecond, 0, 199 * time.Millisecond, time.Second, 200*time.Millisecond - 1}[(cs+i)%5])
						r.step(vals[vi] - pre)
					}
					if !r.dead {
						r.advance(time.Duration(cs%3) * 100 * time.Millisecond)
						r.done()
					}
					// a second file of the same batch after a resumed one: it starts from offset 0 again
					if !r.dead && pre > 0 {
						size2 := int64(1000 + cs%977)
						r.setName(c20Name(c20Families[(cs+3)%len(c20Families)], (cs+5)%37, cs+1))
						r.size(size2)
						for _, v := range []int64{0, size2 / 10, size2 / 2, size2} {
							if r.dead {
								break
							}
							r.advance(250 * time.Millisecond)
							r.step(v)
						}
						if !r.dead {
							r.done()
						}
					}
					st.add(r)
				}
			}
		}
	}
	// D. random runs
	for i := 0; i < nrand; i++ {
		if !mine() {
			continue
		}
		rng := d.rng(int64(1000 + i))
		cols := 1 + rng.Intn(maxCols)
		if rng.Intn(3) == 0 {
			cols = 1 + rng.Intn(60)
		}
		pane := 0
		if rng.Intn(4) == 0 {
			pane = rng.Intn(maxCols + 1)
		}
		r := c20NewRun(next(), cols, pane, rng.Intn(8) == 0)
		r.num([]int{0, 1, 2, 9, 10, 99, 100, 12345, 2147483647}[rng.Intn(9)])
		files := 1 + rng.Intn(3)
		for fno := 0; fno < files && !r.dead; fno++ {
			f := c20Families[rng.Intn(len(c20Families))]
			r.setName(c20Name(f, rng.Intn(maxNameW+1), rng.Int()))
			var size int64
			switch rng.Intn(6) {
			case 0:
				size = int64(rng.Intn(5))
			case 1:
				size = int64(rng.Intn(100000))
			case 2:
				size = rng.Int63n(1 << 62)
			case 3:
				size = 1 << uint(rng.Intn(63))
			case 4:
				size = int64(1 + rng.Intn(1000))
			default:
				size = rng.Int63n(1<<40) + 1
			}
			if rng.Intn(40) == 0 {
				size = -size
			}
			r.size(size)
			v := int64(0)
			calls := 1 + rng.Intn(12)
			for j := 0; j < calls && !r.dead; j++ {
				switch rng.Intn(12) {
				case 0:
					r.cols(1 + rng.Intn(maxCols))
				case 1:
					r.pause(rng.Intn(2) == 0)
				}
				switch rng.Intn(8) {
				case 0:
					r.advance(time.Duration(rng.Intn(400)) * time.Millisecond)
				case 1:
					r.advance(0)
				case 2:
					r.advance(time.Duration(rng.Int63n(int64(5000 * time.Hour))))
				case 3:
					r.advance(time.Duration(1 + rng.Intn(1000)))
				default:
					r.advance(200*time.Millisecond + time.Duration(rng.Int63n(int64(10*time.Second))))
				}
				switch rng.Intn(10) {
				case 0: // regression / repeat
					if v > 0 {
						r.step(rng.Int63n(v + 1))
					} else {
						r.step(-1)
					}
					continue
				case 1: // beyond the size
					if rng.Intn(6) == 0 && size >= 0 && size < 1<<62 {
						v = size + 1 + rng.Int63n(1<<62-size)
						r.step(v)
						continue
					}
				case 2:
					v = size
					r.step(v)
					continue
				}
				if size > v {
					v += 1 + rng.Int63n(size-v)
				}
				r.step(v)
			}
			if !r.dead && rng.Intn(4) != 0 {
				r.done()
			}
		}
		st.add(r)
	}
	// the wild calls, each in its own child process
	var wg sync.WaitGroup
	var mu sync.Mutex
	probeRes := map[string]int{}
	sem := make(chan struct{}, 8)
	for i, r := range st.pending {
		wg.Add(1)
		go func(i int, r *c20Run) {
			defer wg.Done()
			sem <- struct{}{}
			res := c20Probe(d, r, i, time.Duration(d.pInt("probecpu", 2))*time.Second)
			<-sem
			mu.Lock()
			probeRes[res]++
			mu.Unlock()
		}(i, r)
	}
	wg.Wait()
	for _, r := range st.pending {
		r.flush()
	}
	d.set("probes", probeRes)
	d.set("wild_skipped", st.wildSkipped)
	events := 0
	for _, t := range traces {
		events += t.Len()
		if err := t.Close(); err != nil {
			return err
		}
	}
	d.set("runs", st.runs)
	d.set("events", events)
	d.set("renders", st.renders)
	d.set("panics", st.panics)
	d.set("fuzzy", st.fuzzy)
	d.set("desync", st.desync)
	d.set("classes", st.classes)
	d.set("shards", shards)
	d.set("sweeps", sweep)
	d.set("badnames", c20BadNames)
	d.set("eastasian", os.Getenv("RUNEWIDTH_EASTASIAN"))
	return nil
}

// ---------------------------------------------------------------- c20_catalogue

// Field lengths the real formatters produce, each with the inputs that produce them:
// {id, size, step, el (ms since onName, clipped for TLC), elns (exact ns), lens{t,s,e}}.
// ProgressGen.tla enumerates over these witnesses, c20_mbt replays them.
func c20Catalogue(d *vCtx) error {
	type ent struct {
		size, step int64
		el         time.Duration
	}
	var grid []ent
	els := []time.Duration{0, 200 * time.Millisecond, time.Second, 100 * time.Second, 3 * time.Hour, 9000 * time.Hour}
	for _, size := range []int64{1000, 1 << 20, 1 << 40, 1 << 62, 7, 0} {
		steps := []int64{0, 1, size / 200, size / 20, size / 2, size - 1, size}
		for _, s := range steps {
			if s < 0 || s > size || c20NearTie(100, s, size) {
				continue
			}
			for _, el := range els {
				grid = append(grid, ent{size, s, el})
			}
		}
	}
	// outside the sane range (the model clamps; the code's behaviour is judged on the property only)
	for _, el := range []time.Duration{0, time.Second} {
		grid = append(grid, ent{100, 101, el}, ent{100, 250, el}, ent{3, 1 << 62, el}, ent{-5, 3, el}, ent{-5, 0, el}, ent{-(1 << 62), 1, el})
	}
	seen := map[string]bool{}
	f, err := os.Create(d.path("catalogue.ndjson"))
	if err != nil {
		return err
	}
	defer f.Close()
	enc := json.NewEncoder(f)
	var inClass, outClass []map[string]any
	for _, g := range grid {
		start := c20Epoch
		now := start.Add(g.el)
		var rs recentSpeed
		rs.initFirstStep(&start)
		total, speedStr, etaStr, fmtOK := "", "--- B/s", "--- ETA", true
		func() {
			defer func() {
				if recover() != nil {
					fmtOK = false
				}
			}()
			total = convertSizeToString(float64(g.step))
			speed := rs.getSpeed(g.step, &now)
			if speed > 0 {
				speedStr = fmt.Sprintf("%s/s", convertSizeToString(speed))
				etaStr = fmt.Sprintf("%s ETA", convertTimeToString(math.Max(0, math.Round(float64(g.size-g.step)/speed))))
			}
		}()
		if !fmtOK {
			// the project's own formatter panics on these values: no expected texts; the calls of c20_tv with
			// the same values are where that is observed and judged
			d.add("catalogue_formatter_panics", 1)
			continue
		}
		pct := "100%"
		if g.size != 0 {
			pct = fmt.Sprintf("%.0f%%", math.Round(float64(g.step)*100.0/float64(g.size)))
		}
		cls := "ok"
		if g.size < 0 {
			cls = "neg"
		} else if g.size > 0 && g.step > g.size {
			cls = "over"
		}
		frac := "mid"
		if g.step == 0 {
			frac = "zero"
		} else if g.step == g.size {
			frac = "full"
		}
		key := fmt.Sprintf("%d/%d/%d/%d/%s/%s", len(total), len(speedStr), len(etaStr), len(pct), cls, frac)
		if cls != "ok" {
			key += fmt.Sprintf("/%d/%d/%d", g.size, g.step, g.el)
		}
		if seen[key] {
			continue
		}
		seen[key] = true
		el := int64(g.el / time.Millisecond)
		if el > 1e9 {
			el = 1e9
		}
		w := map[string]any{"size": c20Num(g.size), "step": c20Num(g.step), "el": int(el),
			"elns": strconv.FormatInt(int64(g.el), 10), "lens": map[string]any{"t": len(total), "s": len(speedStr), "e": len(etaStr)},
			"texts": []string{pct, total, speedStr, etaStr}}
		if cls == "ok" {
			inClass = append(inClass, w)
		} else {
			outClass = append(outClass, w)
		}
	}
	// at most maxwit witnesses: all the out-of-range ones, the others evenly thinned (rotated by the seed)
	maxwit := d.pInt("maxwit", 40)
	keep := maxwit - len(outClass)
	if keep < 8 {
		keep = 8
	}
	n := 0
	for i, w := range append(inClass, outClass...) {
		if i < len(inClass) && len(inClass) > keep {
			stride := (len(inClass) + keep - 1) / keep
			if (i+int(d.seed))%stride != 0 {
				continue
			}
		}
		n++
		w["id"] = n
		_ = enc.Encode(w)
	}
	d.set("witnesses_available", len(inClass)+len(outClass))
	d.set("witnesses", n)
	return nil
}

// ---------------------------------------------------------------- c20_mbt

var c20CodeRune = map[int]string{0: "\x07", 1: "a", 2: "中", 4: "\u0301", 6: "👧", 8: "\t", 9: " ", 10: "　"}

// c20MBT replays cases exported by ProgressGen.tla:
//
//	{w: witness id, cols, pane, count, name: runs, pre0: bool, exp: predicted outp}
//
// on a real textProgressBar through the public call sequence newTextProgressBar, onNum, onName,
// onSize, [onStep(0)], onStep(step) and records what the code did; judging is done by the
// caller (python) field by field against exp.
func c20MBT(d *vCtx) error {
	defer c20InstallClock()()
	cases, err := vReadNDJSON(d.pStr("cases", d.path("cases.ndjson")))
	if err != nil {
		return err
	}
	cat, err := vReadNDJSON(d.pStr("catalogue", d.path("catalogue.ndjson")))
	if err != nil {
		return err
	}
	wit := map[int]map[string]any{}
	for _, c := range cat {
		wit[int(c["id"].(float64))] = c
	}
	tr, err := vNewTrace(d.path("mbt-trace.ndjson"))
	if err != nil {
		return err
	}
	var results []map[string]any
	unreal := 0
	for ci, c := range cases {
		w := wit[int(c["w"].(float64))]
		if w == nil {
			return fmt.Errorf("case %d: unknown witness", ci)
		}
		var name strings.Builder
		zw := false
		for _, run := range c["name"].([]any) {
			rr := run.([]any)
			code, n := int(rr[0].(float64)), int(rr[1].(float64))
			u, ok := c20CodeRune[code]
			if !ok {
				return fmt.Errorf("case %d: no rune for code %d", ci, code)
			}
			if code == 6 {
				zw = true
			}
			for i := 0; i < n; i++ {
				name.WriteString(u)
			}
		}
		nm := name.String()
		if zw { // code 4 before a code 6 rune is the zero width joiner, not a combining mark
			nm = strings.ReplaceAll(nm, "\u0301👧", "\u200d👧")
			nm = strings.ReplaceAll(nm, "中\u200d", "👩\u200d")
		}
		count := int(c["count"].(float64))
		ctx := ""
		if count > 1 {
			ctx = fmt.Sprintf("(%d/%d) ", 1, count)
		}
		got := c20RLE(c20Codes(ctx, nm))
		gj, _ := json.Marshal(got)
		wj, _ := json.Marshal(c["name"])
		if string(gj) != string(wj) {
			unreal++
			results = append(results, map[string]any{"case": ci, "unrealised": true, "want": c["name"], "got": got})
			continue
		}
		r := c20NewRun(tr, int(c["cols"].(float64)), int(c["pane"].(float64)), false)
		r.num(count)
		r.setName(nm)
		r.size(c20NumBack(w["size"]))
		if c["pre0"] == true {
			r.step(0)
		}
		elns, _ := strconv.ParseInt(w["elns"].(string), 10, 64)
		r.advance(time.Duration(elns))
		var o map[string]any
		if !r.dead {
			o = r.step(c20NumBack(w["step"]))
		} else {
			o = c20EmptyObs("dead")
		}
		// the lengths must be the witness's
		lens := w["lens"].(map[string]any)
		res := map[string]any{"case": ci, "obs": o, "desync": r.desync, "name": nm, "fz": false}
		if n := len(r.events); n > 0 && r.events[n-1]["fz"] == true {
			res["fz"] = true
		}
		if o["res"] == "rendered" {
			nf := o["nf"].(int)
			if (nf == 4 && o["ot"] != int(lens["t"].(float64))) || (nf >= 3 && nf <= 4 && o["os"] != int(lens["s"].(float64))) ||
				(nf >= 2 && nf <= 4 && o["oe"] != int(lens["e"].(float64))) {
				res["desync"] = 1
			}
		}
		results = append(results, res)
		r.flush()
	}
	_ = tr.Close()
	d.set("replayed", len(cases)-unreal)
	d.set("unrealised", unreal)
	return vWriteJSON(d.path("results.json"), results)
}

var _ = rand.Int
