//go:build verif

package trzsz

// Shared machinery of the C07 and C09 drivers (spec/Dest.tla, spec/DestTrace.tla).
//
// A run happens inside a sandbox   <root>/l1/l2/l3/sb/{src,dst}   (destChain = the names of
// Dest.tla's ChainDef): dst is the destination directory the user chose, src holds the sources,
// every level above carries canary files and directories.  A path of the sandbox is projected
// onto Dest's <<up, down>> form (levels above the destination, then components).  The receive
// itself is the lead's e2eExec (real client path against the real trz/tsz role bodies); what it
// did is observed from outside: snapshots (type, size, SHA-256, mtime in ns, mode) of the
// destination (C07) or of the whole sandbox root (C09) before and after, the NAME messages and
// their replies tapped on the wire, the names shown to the user, the receiver's result.

import (
	"crypto/sha256"
	"encoding/hex"
	"encoding/json"
	"fmt"
	"os"
	"path/filepath"
	"sort"
	"strings"
	"time"
)

var destChain = []string{"l1", "l2", "l3", "sb", "dst"}

type destSandbox struct {
	root string // private root of this run; nothing outside it may ever be named by a case
	work string // root/l1/l2/l3/sb   (e2eExec's work directory: src and dst live here)
	dst  string
	src  string
}

func newDestSandbox(base string, id int) (*destSandbox, error) {
	root := filepath.Join(base, fmt.Sprintf("run-%06d", id))
	work := filepath.Join(append([]string{root}, destChain[:len(destChain)-1]...)...)
	sb := &destSandbox{root: root, work: work, dst: filepath.Join(work, "dst"), src: filepath.Join(work, "src")}
	if err := os.MkdirAll(sb.dst, 0755); err != nil {
		return nil, err
	}
	return sb, os.MkdirAll(sb.src, 0755)
}

// canaries: next to every level of the chain a file, a directory with a file, and a directory
// `abs` (target of "absolute" elements, which are spelled <root>/abs/r so that even a receiver
// that used them as they are would stay inside the private root).
func (sb *destSandbox) plantCanaries() error {
	dir := sb.root
	for lvl := 0; lvl < len(destChain); lvl++ {
		if err := os.WriteFile(filepath.Join(dir, "canary"), []byte(fmt.Sprintf("canary at level %d\n", lvl)), 0644); err != nil {
			return err
		}
		if err := os.MkdirAll(filepath.Join(dir, "cdir"), 0755); err != nil {
			return err
		}
		if err := os.WriteFile(filepath.Join(dir, "cdir", "keep"), []byte("keep\n"), 0644); err != nil {
			return err
		}
		if err := os.MkdirAll(filepath.Join(dir, "abs"), 0755); err != nil {
			return err
		}
		dir = filepath.Join(dir, destChain[lvl])
	}
	// inside the destination: a file x and a directory sub (legitimate targets)
	if err := os.WriteFile(filepath.Join(sb.dst, "x"), []byte("old x\n"), 0644); err != nil {
		return err
	}
	return os.MkdirAll(filepath.Join(sb.dst, "sub"), 0755)
}

// ---------------------------------------------------------------- snapshots

type destEntry struct {
	T    string `json:"t"` // file | dir | link | other
	Size int64  `json:"size"`
	Sum  string `json:"sum"`
	MT   int64  `json:"mt"`
	Mode uint32 `json:"mode"`
}

// destSnapshot: every entry below root (root itself is "."), keyed by slash-separated relative path.
func destSnapshot(root string) map[string]destEntry {
	res := map[string]destEntry{}
	_ = filepath.Walk(root, func(p string, info os.FileInfo, err error) error {
		if err != nil {
			return nil
		}
		rel, _ := filepath.Rel(root, p)
		rel = filepath.ToSlash(rel)
		e := destEntry{MT: info.ModTime().UnixNano(), Mode: uint32(info.Mode().Perm())}
		switch {
		case info.Mode()&os.ModeSymlink != 0:
			e.T = "link"
			tgt, _ := os.Readlink(p)
			e.Sum = "-> " + tgt
		case info.IsDir():
			e.T = "dir"
		case info.Mode().IsRegular():
			e.T = "file"
			e.Size = info.Size()
			if b, err := os.ReadFile(p); err == nil {
				h := sha256.Sum256(b)
				e.Sum = hex.EncodeToString(h[:])
			}
		default:
			e.T = "other"
		}
		res[rel] = e
		return nil
	})
	return res
}

func destSum(b []byte) string {
	h := sha256.Sum256(b)
	return hex.EncodeToString(h[:])
}

type destDelta struct {
	Kind string // made | changed | gone
	Rel  string
	E    destEntry
	What string // for changed: type | content | mtime | mode
}

func destDiff(pre, post map[string]destEntry) []destDelta {
	var res []destDelta
	keys := map[string]bool{}
	for k := range pre {
		keys[k] = true
	}
	for k := range post {
		keys[k] = true
	}
	ks := make([]string, 0, len(keys))
	for k := range keys {
		ks = append(ks, k)
	}
	sort.Strings(ks) // parents before children
	for _, k := range ks {
		a, inPre := pre[k]
		b, inPost := post[k]
		switch {
		case !inPre:
			res = append(res, destDelta{"made", k, b, ""})
		case !inPost:
			res = append(res, destDelta{"gone", k, a, ""})
		case a != b:
			what := "mtime"
			switch {
			case a.T != b.T:
				what = "type"
			case a.Sum != b.Sum || a.Size != b.Size:
				what = "content"
			case a.MT == b.MT:
				what = "mode"
			}
			res = append(res, destDelta{"changed", k, b, what})
		}
	}
	return res
}

// destProject: a path relative to the sandbox root -> (up, down) as in Dest.tla
func destProject(rel string) (int, []string) {
	comps := []string{}
	if rel != "." && rel != "" {
		comps = strings.Split(rel, "/")
	}
	k := 0
	for k < len(comps) && k < len(destChain) && comps[k] == destChain[k] {
		k++
	}
	return len(destChain) - k, append([]string{}, comps[k:]...)
}

// destAtoms: the text of one name element -> its atoms (split at the path separator)
func destAtoms(elem string) []string { return strings.Split(elem, "/") }

func destElems(elems []string) [][]string {
	res := make([][]string, 0, len(elems))
	for _, e := range elems {
		res = append(res, destAtoms(e))
	}
	return res
}

func destContentID(e destEntry) string {
	if e.T == "file" {
		return e.Sum
	}
	if e.T == "link" {
		return e.Sum
	}
	return ""
}

func destType(e destEntry) string {
	if e.T == "dir" {
		return "dir"
	}
	return "file" // links and specials are "not a directory" for the model
}

// ---------------------------------------------------------------- wire: NAME / reply pairs

type destNamePair struct {
	Site   string     `json:"site"`
	Pid    int        `json:"pid"`
	Rel    [][]string `json:"rel"`
	Dir    bool       `json:"dir"`
	OK     bool       `json:"ok"`
	Chosen []string   `json:"chosen"`
	G      int        `json:"g"`
}

// destNamePairs pairs every NAME of the sending direction with the receiver's reply.
func destNamePairs(msgs []*e2eMsg, upload bool) []destNamePair {
	sendDir, recvDir := "s2c", "c2s"
	if upload {
		sendDir, recvDir = "c2s", "s2c"
	}
	var res []destNamePair
	nplain := 0
	for i, m := range msgs {
		if m.Typ != "NAME" || m.Dir != sendDir {
			continue
		}
		np := destNamePair{G: m.G, Chosen: []string{}}
		v := m.value()
		if j, ok := v["j"].(map[string]any); ok && j["path_name"] != nil {
			np.Site = "json"
			if f, ok := j["path_id"].(float64); ok {
				np.Pid = int(f)
			}
			if arr, ok := j["path_name"].([]any); ok {
				for _, x := range arr {
					np.Rel = append(np.Rel, destAtoms(fmt.Sprint(x)))
				}
			}
			np.Dir, _ = j["is_dir"].(bool)
		} else {
			np.Site = "plain"
			np.Pid = nplain
			nplain++
			dec, err := decodeString(string(m.Raw))
			if err != nil {
				continue
			}
			np.Rel = [][]string{destAtoms(string(dec))}
		}
		if np.Rel == nil {
			np.Rel = [][]string{}
		}
		for _, r := range msgs[i+1:] {
			if r.Dir != recvDir {
				continue
			}
			if r.Typ == "SUCC" {
				dec, err := decodeString(string(r.Raw))
				if err == nil {
					name := string(dec)
					rv := r.value()
					if j, ok := rv["j"].(map[string]any); ok && j["name"] != nil {
						name = fmt.Sprint(j["name"])
					}
					np.OK = true
					np.Chosen = destAtoms(name)
				}
			}
			break
		}
		res = append(res, np)
	}
	return res
}

// ---------------------------------------------------------------- events

type destRun struct {
	Run       int
	Overwrite bool
	Directory bool
	Proto     int
	Role      string // receiving role: C (client downloading) | V (server receiving an upload)
	StopDel   bool
	Extra     map[string]any // driver-specific fields of the reset event (site, kind, ...)
}

func destEmitReset(tr *vTrace, r *destRun) {
	ev := map[string]any{"e": "reset", "run": r.Run, "overwrite": r.Overwrite, "directory": r.Directory,
		"proto": r.Proto, "role": r.Role, "stopdel": r.StopDel, "samepre": false}
	for k, v := range r.Extra {
		ev[k] = v
	}
	tr.Emit(ev, nil)
}

// destEmitPre: the snapshot as the `pre` event.  skip(rel) drops entries the model does not track.
func destEmitPre(tr *vTrace, run int, snap map[string]destEntry, base string, skip func(rel string) bool) {
	paths := []map[string]any{}
	ks := make([]string, 0, len(snap))
	for k := range snap {
		ks = append(ks, k)
	}
	sort.Strings(ks)
	for _, k := range ks {
		rel := k
		if base != "" {
			rel = base + "/" + k
			if k == "." {
				rel = base
			}
		}
		if skip != nil && skip(rel) {
			continue
		}
		up, p := destProject(rel)
		e := snap[k]
		paths = append(paths, map[string]any{"up": up, "p": p, "t": destType(e), "c": destContentID(e)})
	}
	// identical snapshots (the C09 sandboxes) are written once per process; checks/c09.py puts the
	// full list back where the previous run of a trace file had a different one
	b, _ := json.Marshal(paths)
	h := destSum(b)[:16]
	if destPreDedup && destPreSeen[h] {
		tr.Emit(map[string]any{"e": "pre", "run": run, "h": h, "ref": true, "paths": []map[string]any{}}, nil)
		return
	}
	destPreSeen[h] = true
	tr.Emit(map[string]any{"e": "pre", "run": run, "h": h, "ref": false, "paths": paths}, nil)
}

var destPreDedup = false
var destPreSeen = map[string]bool{}

func destEmitDeltas(tr *vTrace, run int, deltas []destDelta, base string, skip func(d destDelta, rel string) bool) int {
	n := 0
	for _, d := range deltas {
		rel := d.Rel
		if base != "" {
			rel = base + "/" + d.Rel
			if d.Rel == "." {
				rel = base
			}
		}
		if skip != nil && skip(d, rel) {
			continue
		}
		up, p := destProject(rel)
		ev := map[string]any{"e": d.Kind, "run": run, "up": up, "p": p, "t": destType(d.E), "c": destContentID(d.E), "what": d.What}
		tr.Emit(ev, nil)
		n++
	}
	return n
}

func destEmitNames(tr *vTrace, run int, pairs []destNamePair) {
	for _, np := range pairs {
		tr.Emit(map[string]any{"e": "name", "run": run, "site": np.Site, "pid": np.Pid, "rel": np.Rel, "dir": np.Dir,
			"ok": np.OK, "chosen": np.Chosen}, nil)
	}
}

// destSettle: let the file system clock tick so that a later write is visible in mtime
func destSettle() { time.Sleep(12 * time.Millisecond) }

// destDstBase: the destination relative to the sandbox root
func destDstBase() string { return strings.Join(destChain, "/") }

// destLexUps: how many levels above the destination the lexical cleaning of dst/<elements>
// ever climbs (the drivers refuse to run a case that would leave the private root).
func destLexUps(elems []string) int {
	depth, maxUp := 0, 0
	for _, e := range elems {
		for _, a := range destAtoms(e) {
			switch a {
			case "", ".":
			case "..":
				depth--
			default:
				depth++
			}
			if -depth > maxUp {
				maxUp = -depth
			}
		}
	}
	return maxUp
}
