//go:build verif

package trzsz

// C12 driver: well-formed transcripts in which one field is replaced by a boundary value
// (negative, zero, off-by-one, 2^31, 2^62, non-numeric, oversized, wrong type, truncated
// JSON/base64/zlib) at every protocol stage, against the real roles, with and without a progress
// display, in child processes with a limited address space (a crash or an allocation sized by
// one length field kills the child; the parent attributes it to the marked case).

import (
	"bytes"
	"encoding/base64"
	"encoding/json"
	"fmt"
	"os"
	"strconv"
	"strings"
	"syscall"
	"time"
)

func init() {
	vRegister("c12_adversary", c12Adversary)
	vRegister("c12_streams", c12Streams)
	vRegister("c12_scanners", c12Scanners)
}

func c12Bases(seed int64, thorough bool) []*e2eCase {
	var res []*e2eCase
	mk := func(upload, binary bool, proto int, dir, overwrite, progress bool, sizes []int64, pre []e2eNode) {
		c := &e2eCase{Seed: seed + int64(len(res))*577, NamesFromTops: true, WatchdogMs: 30000}
		c.Opts = e2eOpts{Upload: upload, Binary: binary, Protocol: proto, Directory: dir, Overwrite: overwrite,
			Timeout: 2, Bufsize: 4096, Compress: 0, Progress: progress}
		for i, sz := range sizes {
			rel := e2eName(0, i)
			if dir {
				rel = "tree/" + rel
			}
			c.Nodes = append(c.Nodes, e2eNode{Rel: rel, Size: sz, Kind: 0})
			c.Bases = append(c.Bases, "")
		}
		c.Pre = pre
		res = append(res, c)
	}
	mk(true, true, 4, false, false, true, []int64{9000, 100}, nil)
	mk(false, false, 4, false, false, true, []int64{9000}, nil)
	mk(false, true, 4, true, false, false, []int64{3000, 10}, nil) // archive stream towards the client
	// overwrite with an existing destination file: the prefix-hash exchange
	mk(true, false, 4, false, true, true, []int64{6000}, []e2eNode{{Rel: e2eName(0, 0), Size: 3000, Kind: 0}})
	// incompressible data that fills the first buffers: the sender adapts its buffer size to the peer's configuration
	mk(true, true, 4, false, false, true, []int64{40000}, nil)
	res[len(res)-1].Opts.Bufsize = 10 << 20
	res[len(res)-1].Opts.Compress = 2
	res[len(res)-1].Nodes[0].Kind = 1
	// a directory sent as one uncompressed base64 archive stream, towards either role: the entry
	// headers inside the data are mutated too
	mk(false, false, 4, true, false, false, []int64{3000, 10}, nil)
	res[len(res)-1].Opts.Compress = 2
	mk(true, false, 4, true, false, true, []int64{2000, 700}, nil)
	res[len(res)-1].Opts.Compress = 2
	if thorough {
		mk(true, false, 2, false, false, true, []int64{9000}, nil)
		mk(false, true, 3, false, true, true, []int64{6000}, []e2eNode{{Rel: e2eName(0, 0), Size: 7000, Kind: 0}})
		mk(true, false, 1, false, false, false, []int64{2500}, nil)
		mk(true, true, 4, true, false, true, []int64{3000, 10}, nil)
		mk(false, false, 2, false, false, false, []int64{9000}, nil)
	}
	return res
}

var c12Ints = []string{"-1", "0", "1", "2147483648", "4611686018427387904", "9223372036854775807",
	"99999999999999999999999999", "abc", "", "-9223372036854775808", "1e3", " 5"}

func c12JSON(v any) string {
	b, _ := json.Marshal(v)
	return encodeString(string(b))
}

// c12Mutations lists replacement payloads for one tapped message.
func c12Mutations(m e2eLayoutMsg, raw string, binary bool) []e2eMut {
	var res []e2eMut
	add := func(label, payload string) { res = append(res, e2eMut{G: m.G, New: payload, Label: m.Typ + ":" + label}) }
	addT := func(label, typ, payload string) {
		res = append(res, e2eMut{G: m.G, New: payload, Type: typ, Label: m.Typ + ":" + label})
	}
	num, isNum := strconv.ParseInt(raw, 10, 64)
	switch {
	case m.Typ == "DATA" && binary:
		for _, v := range c12Ints {
			add("len="+v, v)
		}
		if isNum == nil {
			add("len+1", strconv.FormatInt(num+1, 10))
			add("len-1", strconv.FormatInt(num-1, 10))
			add("len=2^40", "1099511627776")
		}
	case m.Typ == "DATA":
		add("empty", "")
		add("badb64", "!!!!")
		add("half", raw[:len(raw)/2])
		add("garbage", "QUJDREVGR0hJSktMTU5PUFFSU1RVVldYWVo=")
		add("keepalive", "=")
		// an archive stream (directory sent as one stream, uncompressed): the entry headers embedded in
		// the data are fields of the peer too
		if dec, err := base64.StdEncoding.DecodeString(raw); err == nil {
			if i, e, j := c12ArchiveHeader(dec); j != nil {
				put := func(label string, hdr string) {
					nd := append(append(append([]byte(nil), dec[:i]...), []byte(hdr)...), dec[i+e:]...)
					add("arch:"+label, base64.StdEncoding.EncodeToString(nd))
				}
				with := func(k string, nv any) string {
					j2 := map[string]any{}
					for kk, vv := range j {
						j2[kk] = vv
					}
					j2[k] = nv
					b, _ := json.Marshal(j2)
					return encodeString(string(b))
				}
				for _, k := range []string{"size", "perm", "path_id"} {
					for _, nv := range []any{-1, 0, float64(1 << 62), -float64(1 << 62), "x", nil} {
						put(fmt.Sprintf("%s=%v", k, nv), with(k, nv))
					}
				}
				for _, pn := range []any{[]any{}, []any{""}, "str", nil, []any{1}} {
					put(fmt.Sprintf("path_name=%v", pn), with("path_name", pn))
				}
				put("is_dir=flip", with("is_dir", !c12Bool(j, "is_dir")))
				b, _ := json.Marshal(j)
				put("truncjson", encodeString(string(b[:len(b)/2])))
				put("nothdr", encodeString("[1,2,3]"))
				put("badb64", "%%%%")
				put("notzlib", "QUJDRA==")
				put("emptyhdr", "")
			}
		}
	case isNum == nil: // NUM SIZE SUCC(int)
		for _, v := range c12Ints {
			add("int="+v, v)
		}
		add("off+1", strconv.FormatInt(num+1, 10))
		add("off-1", strconv.FormatInt(num-1, 10))
	case strings.Contains(raw, "/") && m.Typ == "SUCC": // len/step
		parts := strings.SplitN(raw, "/", 2)
		for _, v := range []string{"-1", "0", "4611686018427387904", "abc", ""} {
			add("step="+v, parts[0]+"/"+v)
			add("len="+v, v+"/"+parts[1])
		}
		add("three", raw+"/7")
		add("one", parts[0])
	case m.Typ == "COMP":
		for _, v := range []string{"yes", "", "TRUE", "1"} {
			add("flag="+v, v)
		}
	default:
		// encoded string payloads: names, JSON documents, digests, exit text
		add("empty", "")
		add("badb64", "%%%")
		add("notzlib", "QUJDRA==")
		if len(raw) > 8 {
			add("trunc", raw[:len(raw)-5])
		}
		dec, err := decodeString(raw)
		var j map[string]any
		if err == nil && len(dec) > 0 && dec[0] == '{' && json.Unmarshal(dec, &j) == nil {
			add("truncjson", encodeString(string(dec[:len(dec)/2])))
			add("array", encodeString("[1,2,3]"))
			add("null", encodeString("null"))
			for k, v := range j {
				for _, nv := range []any{-1, 0, float64(1 << 62), "x", nil, true, []any{}, map[string]any{}} {
					j2 := map[string]any{}
					for kk, vv := range j {
						j2[kk] = vv
					}
					j2[k] = nv
					add(fmt.Sprintf("%s=%v", k, nv), c12JSON(j2))
				}
				if _, ok := v.(float64); ok {
					j2 := map[string]any{}
					for kk, vv := range j {
						j2[kk] = vv
					}
					j2[k] = v.(float64) + 1
					add(k+"+1", c12JSON(j2))
				}
				j3 := map[string]any{}
				for kk, vv := range j {
					if kk != k {
						j3[kk] = vv
					}
				}
				add("no-"+k, c12JSON(j3))
			}
			if _, ok := j["path_name"]; ok {
				for _, pn := range []any{[]any{}, []any{""}, []any{1, 2}, "x", []any{strings.Repeat("n", 300)}} {
					j2 := map[string]any{}
					for kk, vv := range j {
						j2[kk] = vv
					}
					j2["path_name"] = pn
					lb := fmt.Sprintf("path_name=%v", pn)
					if len(lb) > 24 {
						lb = lb[:24]
					}
					add(lb, c12JSON(j2))
				}
			}
		} else if err == nil {
			add("otherstr", encodeString("zzz"))
			add("longstr", encodeString(strings.Repeat("A", 100000)))
			add("bin", encodeString("\x00\x01\x02\xff"))
		}
	}
	addT("type=FAIL", "FAIL", encodeString("forged failure"))
	addT("type=junk", "ZZZZ", raw)
	// damage at the framing level: the head of the line itself is cut or missing
	for _, rl := range [][2]string{{"raw=:tail", ":" + raw}, {"raw=colon", ":"}, {"raw=empty", ""}, {"raw=hash", "#"}, {"raw=hashcolon", "#:" + raw},
		{"raw=nohash", m.Typ + ":" + raw}, {"raw=nocolon", "#" + m.Typ}, {"raw=typeonly", "#" + m.Typ + ":"}} {
		addT(rl[0], "\x00RAW", rl[1])
	}
	return res
}

func c12Adversary(d *vCtx) error {
	thorough := d.pBool("thorough", false)
	shards := d.pInt("shards", 96)
	stride := d.pInt("stride", 1)
	bases := c12Bases(d.seed, thorough)
	layouts, err := e2eLayouts(d, bases)
	if err != nil {
		return err
	}
	return vShards(d, shards, func(si, n int) error {
		// an allocation sized by one peer-supplied length field must fail loudly, not lazily
		var rl syscall.Rlimit
		if err := syscall.Getrlimit(syscall.RLIMIT_AS, &rl); err == nil {
			rl.Cur = 6 << 30
			_ = syscall.Setrlimit(syscall.RLIMIT_AS, &rl)
		}
		base := e2eShmBase()
		defer os.RemoveAll(base)
		if err := e2eCaptureStdout(d.out); err != nil {
			return err
		}
		type job struct {
			base int
			mut  e2eMut
			mut2 *e2eMut
		}
		var jobs []job
		// two fields that only do harm together: a configuration announcing a huge buffer size (which bounds
		// what block lengths the receiver accepts) followed by a block header announcing a huge length
		for bi := range bases {
			var cfg *e2eLayoutMsg
			for mi := range layouts[bi] {
				if layouts[bi][mi].Typ == "CFG" {
					cfg = &layouts[bi][mi]
				}
			}
			if cfg == nil {
				continue
			}
			dec, err := decodeString(cfg.Raw)
			var j map[string]any
			if err != nil || json.Unmarshal(dec, &j) != nil {
				continue
			}
			nd := 0
			for _, m := range layouts[bi] {
				if m.Typ != "DATA" || nd >= 2 {
					continue
				}
				nd++
				for _, bs := range []float64{1 << 61, 1 << 40, 1 << 32, 3 << 30} {
					j2 := map[string]any{}
					for kk, vv := range j {
						j2[kk] = vv
					}
					j2["bufsize"] = bs
					j2["binary"] = true
					for _, ln := range []string{"4611686018427387904", "1099511627776", "4294967296", "2147483649"} {
						jobs = append(jobs, job{bi, e2eMut{G: cfg.G, New: c12JSON(j2), Label: fmt.Sprintf("CFG:bufsize=%g+binary", bs)},
							&e2eMut{G: m.G, New: ln, Label: "DATA:len=" + ln}})
					}
				}
			}
		}
		// a peer that lies consistently: the size it announces is replaced and the echo the honest side sends back is
		// restored, so that the transfer goes on and data arrives for a file of an impossible size
		for bi := range bases {
			for mi, m := range layouts[bi] {
				if m.Typ != "SIZE" {
					continue
				}
				for mj := mi + 1; mj < len(layouts[bi]) && mj <= mi+2; mj++ {
					m2 := layouts[bi][mj]
					if m2.Typ != "SUCC" || m2.Dir == m.Dir {
						continue
					}
					for _, val := range []string{"-5", "-1", "-4611686018427387904", "1", "4611686018427387904"} {
						jobs = append(jobs, job{bi, e2eMut{G: m.G, New: val, Label: "SIZE=" + val + "+echo restored"},
							&e2eMut{G: m2.G, New: m.Raw, Label: "SUCC=original"}})
					}
					break
				}
			}
		}
		d.set("double_mutations", len(jobs))
		for bi := range bases {
			for mi, m := range layouts[bi] {
				if m.Typ == "DATA" && mi%3 != 0 && !thorough && !c12HasArchiveHeader(m.Raw) {
					continue // every third DATA message is enough in the quick tier (chunks with an archive entry header always)
				}
				for ui, mu := range c12Mutations(m, m.Raw, bases[bi].Opts.Binary) {
					if m.G == 0 && !thorough && ui%4 != bi%4 {
						continue // a broken ACT costs the client's 20 s default time-out each time: sample those
					}
					jobs = append(jobs, job{bi, mu, nil})
				}
			}
		}
		tr, err := vNewTrace(d.path("obs.ndjson"))
		if err != nil {
			return err
		}
		resume := vResumeAfter()
		var details []map[string]any
		for ji := si; ji < len(jobs); ji += n {
			if ji <= resume || (ji/n)%stride != 0 {
				continue
			}
			j := jobs[ji]
			cc := *bases[j.base]
			cc.ID = ji
			mu := j.mut
			cc.Plan.Mutate = &mu
			cc.Plan.Mutate2 = j.mut2
			cc.Plan.CheckLeft = false
			vMarkCurrent(d, ji, &cc)
			_, detail, err := e2eExec(&cc, e2eWorkDir(base, cc.ID), tr, false)
			if err != nil {
				return err
			}
			details = append(details, map[string]any{"case": &cc, "client_err": detail["client_err"],
				"server_err": detail["server_err"], "hung": detail["hung"]})
			os.RemoveAll(e2eWorkDir(base, cc.ID))
			d.add("runs", 1)
			_ = vWriteJSON(d.path("details.json"), details)
		}
		_ = os.Remove(d.path("current.json"))
		d.set("jobs_total", len(jobs))
		return tr.Close()
	})
}


func c12Bool(m map[string]any, k string) bool { b, _ := m[k].(bool); return b }

func c12HasArchiveHeader(raw string) bool {
	dec, err := base64.StdEncoding.DecodeString(raw)
	if err != nil {
		return false
	}
	_, _, j := c12ArchiveHeader(dec)
	return j != nil
}

// c12ArchiveHeader finds the first archive entry header (a line holding an encoded JSON document
// with a path_id) in a piece of an archive stream: offset, length (without the newline), fields.
func c12ArchiveHeader(dec []byte) (int, int, map[string]any) {
	off := 0
	for off < len(dec) {
		e := bytes.IndexByte(dec[off:], '\n')
		if e < 0 {
			break
		}
		if e > 8 && e < 4096 {
			if b, err := decodeString(string(dec[off : off+e])); err == nil && len(b) > 0 && b[0] == '{' {
				var j map[string]any
				if json.Unmarshal(b, &j) == nil {
					if _, ok := j["path_id"]; ok {
						return off, e, j
					}
				}
			}
		}
		off += e + 1
	}
	return 0, 0, nil
}

// ---------------------------------------------------------------- streams
// c12_streams: "no sequence of bytes received from the other side can crash the local process", for the
// line readers themselves: streams assembled from the pieces the protocol, tmux and the Windows console
// put on a line (and anything else a byte can be), in random chunkings, read by the real
// recvLine / recvCheck / recvInteger / recvString / recvBinary / recvData in both framings.  The oracle
// is the absence of a panic and a return before the (short) read time-out plus slack; what is
// returned is C03's and C16's subject, not this driver's.
func c12Streams(d *vCtx) error {
	n := d.pInt("streams", 20000)
	shards := d.pInt("shards", 16)
	return vShards(d, shards, func(si, ns int) error {
		pieces := []string{"#", ":", "!", "\n", "\r", "\r\n", "\x1b", "\x1b[", "\x1b[H", "\x1b[25;1H", "\x1b[2;119H", "\x1b[0m", "\x1b[K", "\x1b[!p",
			"\x1b[?25l", ";", "H", "m", "1", "25", "0", "-1", "9223372036854775807", " ", "\b", "\t", "\x03", "\x1bP=", "\x1b\\", "1s", "=",
			"#SUCC:", "#DATA:", "#NUM:", "#SIZE:", "#NAME:", "#MD5:", "#CFG:", "#ACT:", "#EXIT:", "#fail:", "#FAIL:", "SUCC", "DATA",
			"A", "AA", "//", "8", "eJw", "eJwDAAAAAAE=", "QUJD", "\xee", "\xee\xee", "\x00", "\xff", "~", "x", "10240/10240", "{", "}", "\"", ",",
			"\x1b7\x07::TRZSZ:TRANSFER:R:1.1.0:1234567890120:0\r\n", "\x1b[60;238H", "\x1b[29;120H", "\x08\x08"}
		type hit struct {
			Mode   string `json:"mode"`
			Call   string `json:"call"`
			Stream string `json:"stream"`
			Chunks []int  `json:"chunks"`
			Panic  string `json:"panic"`
			Slow   bool   `json:"slow"`
		}
		var hits []hit
		for i := si; i < n; i += ns {
			rng := d.rng(int64(700000 + i))
			var b []byte
			for k := 1 + rng.Intn(24); k > 0; k-- {
				if rng.Intn(12) == 0 {
					b = append(b, byte(rng.Intn(256)))
				} else {
					b = append(b, pieces[rng.Intn(len(pieces))]...)
				}
			}
			mode := []string{"win", "tmux", "plain"}[i%3]
			if rng.Intn(3) > 0 { // most streams end like a line of their framing
				if mode == "win" {
					b = append(b, "!\n"...)
				} else {
					b = append(b, '\n')
				}
			}
			var chunks [][]byte
			var sizes []int
			for rest := b; len(rest) > 0; {
				k := 1 + rng.Intn(len(rest))
				if rng.Intn(2) == 0 && k > 3 {
					k = 1 + rng.Intn(3)
				}
				chunks = append(chunks, append([]byte(nil), rest[:k]...))
				sizes = append(sizes, k)
				rest = rest[k:]
			}
			call := []string{"line", "linejunk", "check", "int", "str", "bin"}[rng.Intn(6)]
			if rng.Intn(40) == 0 {
				call = "data" // recvData waits for its own time-out (1 s at least)
			}
			t := newTransfer(nil, nil, false, nil)
			switch mode {
			case "win":
				t.windowsProtocol = true
				t.transferConfig.Newline = "!\n"
			case "tmux":
				t.transferConfig.TmuxOutputJunk = true
			}
			if call == "data" || rng.Intn(4) == 0 {
				t.transferConfig.Binary = mode != "win" && rng.Intn(2) == 0
			}
			for _, c := range chunks {
				t.addReceivedData(c, false)
			}
			h := hit{Mode: mode, Call: call, Stream: strconv.QuoteToASCII(string(b)), Chunks: sizes}
			t0 := time.Now()
			func() {
				defer func() {
					if r := recover(); r != nil {
						h.Panic = fmt.Sprint(r)
					}
				}()
				for rd := 0; rd < 3; rd++ { // up to three reads: a stream may hold several lines
					to := time.After(4 * time.Millisecond)
					var err error
					switch call {
					case "line":
						_, err = t.recvLine("SUCC", false, to)
					case "linejunk":
						_, err = t.recvLine("SUCC", true, to)
					case "check":
						_, err = t.recvCheck("DATA", rng.Intn(2) == 0, to)
					case "int":
						_, err = t.recvInteger("SUCC", rng.Intn(2) == 0, to)
					case "str":
						_, err = t.recvString("NAME", rng.Intn(2) == 0, to)
					case "bin":
						_, err = t.recvBinary("MD5", false, to)
					case "data":
						t.transferConfig.Timeout = 1
						_, err = t.recvData()
					}
					if err != nil {
						break
					}
				}
			}()
			if el := time.Since(t0); el > 6*time.Second {
				h.Slow = true
			}
			if h.Panic != "" || h.Slow {
				hits = append(hits, h)
			}
			d.add("streams", 1)
		}
		d.add("panics", len(hits))
		return vWriteJSON(d.path("hits.json"), hits)
	})
}

// ---------------------------------------------------------------- scanners
// c12_scanners: the scanners the wrapper runs over terminal output and typed input -- trigger detection
// (client and relay flavour), zmodem headers, OSC 52 clipboard sequences (with their state across
// reads), dragged paths -- fed streams of their own vocabulary cut into reads at every kind of place.
// Crash-only oracle (they run in goroutines without recovery in the real wrapper).
func c12Scanners(d *vCtx) error {
	n := d.pInt("streams", 20000)
	shards := d.pInt("shards", 16)
	return vShards(d, shards, func(si, ns int) error {
		tmp, err := os.MkdirTemp("", "c12scan-")
		if err != nil {
			return err
		}
		defer os.RemoveAll(tmp)
		_ = os.WriteFile(tmp+"/a b.txt", []byte("x"), 0644)
		_ = os.Mkdir(tmp+"/dir", 0755)
		pieces := []string{"\x1b]52;", "\x1b]52;c;", "\x1b]52;p;", "\x1b]52;;", "c", "p", ";", "QUJD", "QUJDRA==", "!!!", "\x07", "\x1b\\", "\x1b", "]", "52", "?",
			"**\x18B00", "**\x18B0100000023be50\r\x8a\x11", "**\x18B0800000000022d\r\x8a", "rz\r", "\x18\x18\x18\x18\x18", "\x08\x08\x08\x08\x08", "cannot open ", "B00", "*", "\x18",
			"\x1b7\x07::TRZSZ:TRANSFER:R:1.1.0:1234567890100:0\r\n", "::TRZSZ:TRANSFER:", "S:", "R:", "D:", "1.1.0", ":", "1234567890120", ":0", ":50000", "#R", "\r\n", "\n", "\r",
			"%output %1 ", "%extended-output %0 5 : ", "\x1bP=1s\x1b\\", "Saved", "Cancelled", "#CFG:", "TRZSZGO",
			tmp + "/a b.txt", "'" + tmp + "/a b.txt'", "\"" + tmp + "/dir\"", tmp + "/dir ", "/nonexistent/x", "C:\\Users\\x\\a.txt", "\x1b[200~", "\x1b[201~", "'", "\"", "\\ ", " ", "~", "/",
			"A", "z", "0", "\x00", "\xff", "\xee"}
		type hit struct {
			Scanner string `json:"scanner"`
			Stream  string `json:"stream"`
			Chunks  []int  `json:"chunks"`
			Panic   string `json:"panic"`
		}
		var hits []hit
		for i := si; i < n; i += ns {
			rng := d.rng(int64(800000 + i))
			var b []byte
			for k := 1 + rng.Intn(16); k > 0; k-- {
				if rng.Intn(14) == 0 {
					b = append(b, byte(rng.Intn(256)))
				} else {
					b = append(b, pieces[rng.Intn(len(pieces))]...)
				}
			}
			var chunks [][]byte
			var sizes []int
			for rest := b; len(rest) > 0; {
				k := 1 + rng.Intn(len(rest))
				if rng.Intn(2) == 0 && k > 2 {
					k = 1 + rng.Intn(2)
				}
				chunks = append(chunks, append([]byte(nil), rest[:k]...))
				sizes = append(sizes, k)
				rest = rest[k:]
			}
			scanner := []string{"osc52", "zmodem", "trigger", "trigger-relay", "drag"}[i%5]
			h := hit{Scanner: scanner, Stream: strconv.QuoteToASCII(string(b)), Chunks: sizes}
			func() {
				defer func() {
					if r := recover(); r != nil {
						h.Panic = fmt.Sprint(r)
					}
				}()
				sink := &e2eSink{}
				f := &TrzszFilter{clientOut: sink, serverIn: e2eWC{sink}, options: TrzszOptions{EnableOSC52: true, EnableZmodem: true, DetectDragFile: true}}
				det := newTrzszDetector(scanner == "trigger-relay", scanner == "trigger-relay")
				for _, c := range chunks {
					switch scanner {
					case "osc52":
						f.detectOSC52(c)
					case "zmodem":
						_ = detectZmodem(c)
					case "trigger", "trigger-relay":
						_, _ = det.detectTrzsz(c, rng.Intn(2) == 0)
					case "drag":
						_, _, _, _ = detectDragFiles(c)
					}
				}
			}()
			if h.Panic != "" {
				hits = append(hits, h)
			}
			d.add("streams", 1)
		}
		d.add("panics", len(hits))
		return vWriteJSON(d.path("hits.json"), hits)
	})
}
