//go:build verif

package trzsz

// C06 harness, part 2: replay of a concretised case through a real TrzszFilter.
//
// The filter is created with NewTrzszFilter on harness pipes: readers that block (never EOF)
// and hand out exactly one chunk per Read, writers that collect.  "A transfer started" is
// observed from outside as one "#ACT:" (or "#fail:"/"#FAIL:") line on the server writer.  The
// handler proceeds without a GUI because a download path is set and upload files are armed
// (the armed upload path is a directory in half of the sessions: trz then answers "Is a
// directory" with #fail:, trz -d answers #ACT: - which makes the mode visible from outside).
// A stub tunnel connector records the port it is asked for, reads the greeting and hangs up.
// After the #ACT: line the transfer is ended with a #fail: line from the "server" and the next
// chunk is fed only when IsTransferringFiles() is false again.

import (
	"bytes"
	"encoding/json"
	"fmt"
	"net"
	"os"
	"path/filepath"
	"runtime"
	"strings"
	"sync"
	"sync/atomic"
	"time"
	"unsafe"
)

type c06Pipe struct {
	ch      chan []byte
	entered atomic.Int64
}

func (p *c06Pipe) Read(b []byte) (int, error) {
	p.entered.Add(1)
	c := <-p.ch
	return copy(b, c), nil
}

type c06Sink struct {
	mu  sync.Mutex
	buf bytes.Buffer
}

func (s *c06Sink) Write(b []byte) (int, error) {
	s.mu.Lock()
	defer s.mu.Unlock()
	return s.buf.Write(b)
}
func (s *c06Sink) Close() error { return nil }
func (s *c06Sink) Len() int {
	s.mu.Lock()
	defer s.mu.Unlock()
	return s.buf.Len()
}
func (s *c06Sink) From(off int) []byte {
	s.mu.Lock()
	defer s.mu.Unlock()
	return append([]byte(nil), s.buf.Bytes()[off:]...)
}

type c06Filter struct {
	f         *TrzszFilter
	srvOut    *c06Pipe
	cliIn     *c06Pipe
	cliOut    *c06Sink
	srvIn     *c06Sink
	upPath    string
	upIsDir   bool
	mu        sync.Mutex
	asked     []int
	hellos    []string
	connector func(int) net.Conn
}

func c06NewFilter(dir string, upIsDir bool) (*c06Filter, error) {
	h := &c06Filter{srvOut: &c06Pipe{ch: make(chan []byte)}, cliIn: &c06Pipe{ch: make(chan []byte)},
		cliOut: &c06Sink{}, srvIn: &c06Sink{}, upIsDir: upIsDir}
	down := filepath.Join(dir, "down")
	updir := filepath.Join(dir, "updir")
	if err := os.MkdirAll(down, 0o755); err != nil {
		return nil, err
	}
	if err := os.MkdirAll(updir, 0o755); err != nil {
		return nil, err
	}
	file := filepath.Join(updir, "a.txt")
	if err := os.WriteFile(file, []byte("hello"), 0o644); err != nil {
		return nil, err
	}
	h.upPath = file
	if upIsDir {
		h.upPath = updir
	}
	h.connector = func(port int) net.Conn {
		c1, c2 := net.Pipe()
		h.mu.Lock()
		h.asked = append(h.asked, port)
		h.mu.Unlock()
		go func() {
			buf := make([]byte, 200)
			_ = c2.SetReadDeadline(time.Now().Add(3 * time.Second))
			n, _ := c2.Read(buf)
			h.mu.Lock()
			h.hellos = append(h.hellos, string(buf[:n]))
			h.mu.Unlock()
			c2.Close()
		}()
		return c1
	}
	h.f = NewTrzszFilter(h.cliIn, h.cliOut, h.srvIn, h.srvOut, TrzszOptions{TerminalColumns: 80})
	h.f.SetDefaultDownloadPath(down)
	return h, nil
}

// c06HandlerAlive reports whether a goroutine is inside handleTrzsz of this very filter.
func c06HandlerAlive(f *TrzszFilter) bool {
	buf := make([]byte, 1<<20)
	for {
		n := runtime.Stack(buf, true)
		if n < len(buf) {
			buf = buf[:n]
			break
		}
		buf = make([]byte, len(buf)*2)
	}
	return bytes.Contains(buf, []byte(fmt.Sprintf("handleTrzsz(%#x", uintptr(unsafe.Pointer(f)))))
}

func c06WaitUntil(d time.Duration, cond func() bool) bool {
	deadline := time.Now().Add(d)
	for i := 0; ; i++ {
		if cond() {
			return true
		}
		if time.Now().After(deadline) {
			return false
		}
		if i < 20 {
			time.Sleep(200 * time.Microsecond)
		} else {
			time.Sleep(2 * time.Millisecond)
		}
	}
}

func c06ProtoLines(b []byte) (acts, fails int, first string) {
	for _, line := range bytes.SplitAfter(b, []byte("\n")) {
		if !bytes.HasSuffix(line, []byte("\n")) {
			continue
		}
		s := string(line)
		switch {
		case strings.HasPrefix(s, "#ACT:"):
			acts++
		case strings.HasPrefix(s, "#fail:"), strings.HasPrefix(s, "#FAIL:"):
			fails++
		default:
			continue
		}
		if first == "" {
			first = s
		}
	}
	return
}

// feed one chunk and wait until wrapOutput is back in Read (the chunk has been dealt with)
func (h *c06Filter) feed(chunk []byte) bool {
	before := h.srvOut.entered.Load()
	if !c06WaitUntil(60*time.Second, func() bool { return h.srvOut.entered.Load() >= 1 }) {
		return false
	}
	before = h.srvOut.entered.Load()
	h.srvOut.ch <- append([]byte(nil), chunk...)
	return c06WaitUntil(60*time.Second, func() bool { return h.srvOut.entered.Load() > before })
}

// step feeds one chunk of server output and reports what the filter did with it.
func (h *c06Filter) step(st *c06Step) c06Obs {
	var o c06Obs
	o.TPort = -2
	f := h.f
	f.oneTimeUploadFiles = []string{h.upPath} // arm (what OneTimeUpload does, without its 10 s watchdog goroutine)
	if st.Tun {
		f.SetTunnelConnector(h.connector)
	} else {
		f.SetTunnelConnector(nil)
	}
	h.mu.Lock()
	asked0, hello0 := len(h.asked), len(h.hellos)
	h.mu.Unlock()
	s0, c0 := h.srvIn.Len(), h.cliOut.Len()
	prev := f.trigger
	if !h.feed(st.Raw) {
		o.Timeout = "chunk not consumed within 60s"
		return o
	}
	shown := h.cliOut.From(c0)
	spawned := f.trigger != prev // steering only: tells the harness whether to wait for the handler
	if spawned {
		// Wait for the first protocol line.  A handler that returned without writing anything (its
		// goroutine is gone: checked on the stack dump by receiver address) is recorded as what it is -
		// no transfer started; a handler still alive after 90 s is an infrastructure problem.
		start := time.Now()
		gone := 0
		for {
			if a, fl, _ := c06ProtoLines(h.srvIn.From(s0)); a+fl > 0 {
				break
			}
			if time.Since(start) > time.Second {
				if c06HandlerAlive(f) {
					gone = 0
				} else if gone++; gone >= 2 {
					break
				}
				time.Sleep(50 * time.Millisecond)
			}
			if time.Since(start) > 90*time.Second {
				o.Timeout = "handler alive but no #ACT:/#fail: line within 90s"
				break
			}
			time.Sleep(time.Millisecond)
		}
		acts, _, _ := c06ProtoLines(h.srvIn.From(s0))
		if acts > 0 {
			// "!\n" ends the line for the Windows line reader (used when the trigger came from a
			// Windows server or the wrapper is in a Windows environment) and for the plain one
			if !h.feed([]byte("#fail:" + encodeString("c06 harness: end of observation") + "!\n")) {
				o.Timeout = "fail line not consumed"
			}
			if !c06WaitUntil(60*time.Second, func() bool { return !f.IsTransferringFiles() }) {
				o.Timeout = "transfer still active 60s after #fail:"
			}
		}
		// the tunnel connector (if any) has been called before the first protocol line;
		// give the handler goroutine a moment to return
		c06WaitUntil(2*time.Second, func() bool { return !f.IsTransferringFiles() })
		time.Sleep(2 * time.Millisecond)
	}
	out := h.srvIn.From(s0)
	acts, fails, first := c06ProtoLines(out)
	o.Acts = acts + fails
	consumed := f.oneTimeUploadFiles == nil
	switch {
	case acts == 1 && fails == 0 && !consumed:
		o.OMode = "S"
	case acts == 1 && fails == 0 && consumed && h.upIsDir:
		o.OMode = "D"
	case acts == 1 && fails == 0 && consumed:
		o.OMode = "RD"
	case acts == 0 && fails == 1 && consumed && h.upIsDir:
		o.OMode = "R"
	case acts+fails == 0:
		o.OMode = ""
	default:
		o.OMode = "?"
	}
	if acts >= 1 && strings.HasPrefix(first, "#ACT:") {
		body := strings.TrimRight(first[5:], "!\n")
		if js, err := decodeString(body); err == nil {
			var act transferAction
			if json.Unmarshal(js, &act) == nil {
				o.Proto2 = act.Protocol == 2
				if !act.Confirm {
					o.OMode = "?"
				}
			}
		} else {
			o.OMode = "?"
		}
	}
	h.mu.Lock()
	if len(h.asked) > asked0 {
		o.TPort = h.asked[asked0]
		if len(h.asked) > asked0+1 {
			o.TPort = -3 // asked more than once
		}
	}
	h.mu.Unlock()
	if o.TPort > -2 {
		c06WaitUntil(4*time.Second, func() bool { h.mu.Lock(); defer h.mu.Unlock(); return len(h.hellos) > hello0 })
		h.mu.Lock()
		if len(h.hellos) > hello0 {
			// ::TRZSZ::CLIENT::HELLO::<id without its last two digits>:<port>
			hello := h.hellos[hello0]
			if strings.HasPrefix(hello, "::TRZSZ::CLIENT::HELLO::") {
				rest := hello[len("::TRZSZ::CLIENT::HELLO::"):]
				if k := strings.LastIndex(rest, ":"); k >= 11 {
					o.Hello = rest[:k]
				}
			} else {
				o.Hello = "?" + hello
			}
		}
		h.mu.Unlock()
	}
	// detector-level view of the same read: the bytes shown locally
	o.Fired = o.Acts > 0
	c06Refire(&o, st.Raw, shown, st.Tun)
	o.Out = shown
	if spawned && f.trigger != nil {
		t := f.trigger
		o.Mode, o.Ver, o.Port = string(t.mode), c06VerString(t.version), t.tunnelPort
		o.Ts, o.Sfx = c06SplitID(t.uniqueID)
	}
	return o
}

// c06RunFilter replays the case through a fresh TrzszFilter.
func c06RunFilter(c *c06Case, dir string, upIsDir bool) ([]c06Obs, error) {
	h, err := c06NewFilter(dir, upIsDir)
	if err != nil {
		return nil, err
	}
	res := make([]c06Obs, len(c.Steps))
	total := 0
	for i := range c.Steps {
		res[i] = h.step(&c.Steps[i])
		total += res[i].Acts
		if res[i].Timeout != "" {
			return res[:i+1], fmt.Errorf("filter step %d: %s", i, res[i].Timeout)
		}
	}
	// nothing may trickle in afterwards: late protocol lines are charged to the last chunk
	time.Sleep(20 * time.Millisecond)
	a, fl, _ := c06ProtoLines(h.srvIn.From(0))
	if a+fl != total && len(res) > 0 {
		res[len(res)-1].Acts += a + fl - total
	}
	return res, nil
}

// ---------------------------------------------------------------- relay level
// c06RunRelay plays the session through the output pump of a real TrzszRelay (NewTrzszRelay with its
// goroutines): whether the relay enters a handshake on a chunk, and what it shows to the client, must
// be what one persistent detector (the det-level run, which the model decides) says.  A handshake
// that was started is ended by a refusing ACT from the client side, so that the relay is in standby
// again for the next chunk.
func c06RunRelay(c *c06Case, det []c06Obs) ([]c06Obs, error) {
	cliIn := &c06Pipe{ch: make(chan []byte, 4)}
	srvOut := &c06Pipe{ch: make(chan []byte, 4)}
	cliOut, srvIn := &c06Sink{}, &c06Sink{}
	r := NewTrzszRelay(cliIn, cliOut, srvIn, srvOut, TrzszOptions{})
	res := make([]c06Obs, len(c.Steps))
	refuse := []byte("#ACT:" + encodeString(`{"lang":"go","version":"1.1.8","confirm":false,"newline":"\n","protocol":4}`) + "\n")
	for i, st := range c.Steps {
		res[i] = det[i]
		off := cliOut.Len()
		srvOut.ch <- append([]byte(nil), st.Raw...)
		want := len(det[i].Out)
		ok := c06WaitUntil(5*time.Second, func() bool {
			return r.relayStatus.Load() == kRelayHandshaking || (cliOut.Len()-off >= want && srvOut.entered.Load() >= int64(i+2))
		})
		fired := r.relayStatus.Load() == kRelayHandshaking
		if !ok && !fired {
			return nil, fmt.Errorf("relay level: step %d: the output pump did not deliver the chunk", i)
		}
		if fired {
			// what was shown arrives right after the status store; then refuse the transfer
			c06WaitUntil(2*time.Second, func() bool { return cliOut.Len()-off >= want })
			if tg := r.trigger; tg != nil && tg.winServer { // a Windows server: the client frames its lines with "!\n"
				cliIn.ch <- append(append([]byte(nil), refuse[:len(refuse)-1]...), '!', '\n')
			} else {
				cliIn.ch <- refuse
			}
			if !c06WaitUntil(10*time.Second, func() bool { return r.relayStatus.Load() == kRelayStandBy }) {
				return nil, fmt.Errorf("relay level: step %d: the relay did not return to standby after a refused handshake", i)
			}
		}
		out := cliOut.From(off)
		if len(out) > want && want >= 0 { // whatever the refused handshake flushed afterwards is not this chunk's image
			out = out[:want]
		}
		res[i].Fired = fired
		res[i].Out = out
		res[i].Shown = c06ShownClass(st.Raw, out)
		if !fired {
			res[i].Mode, res[i].Ver, res[i].Ts, res[i].Sfx, res[i].Port = "", "", "", "", 0
		}
	}
	return res, nil
}
