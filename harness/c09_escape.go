//go:build verif

package trzsz

// C09 driver: a hostile peer supplies names with '..' elements, embedded separators, absolute
// paths, empty / '.' elements and over-long names
//   mode "e2e"     the real sender; the payload of one NAME message (plain name / JSON path_name
//                  list) is replaced in flight (e2ePlan.Mutate) - both receiving roles, protocols
//                  1..4, overwrite on/off, directory mode on/off, optionally followed by
//                  stop-and-delete (e2ePlan.Stop);
//   mode "crafted" archive entry headers: the real sending code (sendFiles of tsz.go / a client
//                  scripted from sendAction, recvConfig, sendFiles, clientExit) is given a
//                  sourceFile list whose archive sub-entry carries the hostile path_name, so the
//                  real archiveFileReader puts it into the DATA stream and the real receiver
//                  (recvFiles of trz.go / the real client filter) unpacks it;
//   mode "direct"  the decode sites themselves, all names x all modes: recvFileName /
//                  recvFileNameV3 fed with one NAME line, archiveFileWriter.Write driven by
//                  writeAll with a crafted stream; optionally followed by deleteCreatedFiles.
// Every job runs in its own sandbox <base>/run-N/l1/l2/l3/sb/{src,dst} with canaries at every
// level; the whole sandbox root is snapshotted before and after.  A name that would lexically
// climb above the private root is not run.  Recorded for spec/DestTrace.tla (Confined).

import (
	"encoding/json"
	"fmt"
	"os"
	"path/filepath"
	"strings"
	"time"
)

func init() { vRegister("c09_escape", c09Escape) }

type c09Job struct {
	ID        int      `json:"id"`
	Mode      string   `json:"mode"`
	Site      string   `json:"site"` // plain | json | archive
	Rel       []string `json:"rel"`  // element texts in model spelling ("LONG", "/abs/r")
	Hp        int      `json:"hp"`
	Hd        bool     `json:"hd"`
	Overwrite bool     `json:"overwrite"`
	Directory bool     `json:"directory"`
	Proto     int      `json:"proto"`
	Role      string   `json:"role"`
	StopDel   bool     `json:"stopdel"`
	Src       string   `json:"src"` // file | dir
	Kind      string   `json:"kind"`
	Binary    bool     `json:"binary"`
	Mbt       bool     `json:"mbt"` // a case exported by TLC from the as-coded variant of Dest
	// Primed: an honest directory entry ["d"] with the same path id is received first, so that the
	// receiver has already chosen (and cached) a local name for that path id
	Primed bool `json:"primed"`
	// Win: the receiving transfer runs with the Windows line protocol (a client whose peer's trigger said
	// "Windows server"); the local platform's separator stays '/'
	Win bool `json:"win"`
}

type c09Result struct {
	Job      *c09Job  `json:"job"`
	Run      int      `json:"run"`
	Res      string   `json:"res"`
	Applied  bool     `json:"applied"`
	Skipped  string   `json:"skipped,omitempty"`
	Reply    string   `json:"reply"`
	Outside  []string `json:"outside"`
	Deltas   []string `json:"deltas"`
	Errs     []string `json:"errs"`
	StopDone bool     `json:"stop_done"`
}

// c09Spell turns the model spelling of the elements into the bytes sent
func c09Spell(sb *destSandbox, rel []string) []string {
	res := make([]string, 0, len(rel))
	for _, e := range rel {
		switch {
		case e == "LONG":
			res = append(res, strings.Repeat("L", 300))
		case strings.HasPrefix(e, "/"):
			res = append(res, sb.root+e)
		default:
			res = append(res, e)
		}
	}
	return res
}

func c09SrcNodes(src string) ([]e2eNode, []string) {
	if src == "dir" {
		return []e2eNode{{Rel: "d", Dir: true}, {Rel: "d/f", Size: 700, Kind: 0}}, []string{"", ""}
	}
	return []e2eNode{{Rel: "f", Size: 700, Kind: 0}}, []string{""}
}

func c09JSONName(pid int, rel []string, isDir, archive bool, size int64) string {
	perm := uint32(0644)
	if isDir {
		perm = 0755
	}
	b, _ := json.Marshal(&sourceFile{PathID: pid, RelPath: rel, IsDir: isDir, Archive: archive, Size: size, Perm: &perm})
	return string(b)
}

// c09Observe: snapshot difference of the whole sandbox root -> events; returns the outside paths
func c09Observe(tr *vTrace, sb *destSandbox, j *c09Job, run int, preSnap, postSnap map[string]destEntry,
	ok bool, chosen []string, res string, r *c09Result) {
	destEmitReset(tr, &destRun{Run: run, Overwrite: j.Overwrite, Directory: j.Directory, Proto: j.Proto, Role: j.Role, StopDel: j.StopDel,
		Extra: map[string]any{"prop": "c09", "site": j.Site, "kind": j.Kind, "mode": j.Mode, "job": j.ID}})
	base := destDstBase()
	srcBase := strings.Join(destChain[:len(destChain)-1], "/") + "/src"
	destEmitPre(tr, run, preSnap, "", nil)
	if chosen == nil {
		chosen = []string{}
	}
	tr.Emit(map[string]any{"e": "name", "run": run, "site": j.Site, "pid": j.Hp, "rel": destElems(j.Rel), "dir": j.Hd, "ok": ok, "chosen": chosen}, nil)
	deltas := destDiff(preSnap, postSnap)
	skip := func(d destDelta, rel string) bool {
		if rel == base && d.Kind == "changed" && d.What == "mtime" {
			return true // entries were added to / removed from the destination directory itself
		}
		if d.Kind == "changed" && d.What == "mtime" && d.E.T == "file" && strings.HasPrefix(rel, srcBase+"/") {
			return true // e2eExec rewrites the source files (same bytes) before the transfer starts
		}
		return false
	}
	destEmitDeltas(tr, run, deltas, "", skip)
	for _, d := range deltas {
		if skip(d, d.Rel) {
			continue
		}
		r.Deltas = append(r.Deltas, d.Kind+" "+d.Rel+" "+d.What)
		if up, p := destProject(d.Rel); up > 0 || len(p) == 0 {
			r.Outside = append(r.Outside, d.Kind+" "+d.Rel+" "+d.What)
		}
	}
	tr.Emit(map[string]any{"e": "reported", "run": run, "names": [][]string{}, "ok": false}, nil)
	tr.Emit(map[string]any{"e": "ret", "run": run, "res": res}, nil)
	tr.Flush()
}

func c09Prepare(base string, j *c09Job, seed int64) (*destSandbox, []string, error) {
	sb, err := newDestSandbox(base, j.ID)
	if err != nil {
		return nil, nil, err
	}
	if err := sb.plantCanaries(); err != nil {
		return nil, nil, err
	}
	nodes, bases := c09SrcNodes(j.Src)
	var tops []string
	for i, n := range nodes {
		ts, err := e2eMakeTree(filepath.Join(sb.src, bases[i]), []e2eNode{n}, seed+int64(i))
		if err != nil {
			return nil, nil, err
		}
		if i == 0 {
			tops = ts
		}
	}
	return sb, tops, nil
}

// ---------------------------------------------------------------- mode e2e

func c09RunE2E(d *vCtx, tr, aux *vTrace, base string, j *c09Job) (*c09Result, error) {
	r := &c09Result{Job: j, Run: j.ID}
	seed := d.seed*7001 + 13
	sb, _, err := c09Prepare(base, j, seed)
	if err != nil {
		return nil, err
	}
	defer os.RemoveAll(sb.root)
	rel := c09Spell(sb, j.Rel)
	nodes, bases := c09SrcNodes(j.Src)
	o := e2eOpts{Upload: j.Role == "V", Binary: j.Binary, Protocol: j.Proto, Directory: j.Directory, Overwrite: j.Overwrite,
		Timeout: 20, Bufsize: 4096, Compress: 0}
	archive := j.Proto == 4 && !j.Overwrite && j.Directory && j.Src == "dir"
	g := 4
	payload := ""
	switch {
	case j.Site == "plain":
		payload = encodeString(rel[0])
	case j.Src == "dir" && !archive:
		g = 6 // the NAME of the entry below the directory
		payload = encodeString(c09JSONName(j.Hp, rel, j.Hd, false, 700))
	case j.Src == "dir":
		payload = encodeString(c09JSONName(j.Hp, rel, true, true, 0)) // the NAME that announces the archive
	default:
		payload = encodeString(c09JSONName(j.Hp, rel, j.Hd, false, 700))
	}
	ec := &e2eCase{ID: j.ID, Seed: seed, Opts: o, Nodes: nodes, Bases: bases, WatchdogMs: 240000}
	ec.Plan.Mutate = &e2eMut{G: g, New: payload, Label: "NAME:" + j.Kind}
	if j.StopDel {
		// the user stops (and asks for deletion) once the receiver has answered the NAME
		ec.Plan.Stop = &e2eStop{G: g + 1, Phase: "after", Role: "C", Delete: true}
	}
	destSettle()
	preSnap := destSnapshot(sb.root)
	var msgs []*e2eMsg
	applied := false
	e2eProbeSink = func(w *e2eWire) {
		w.mu.Lock()
		msgs = append([]*e2eMsg(nil), w.msgs...)
		applied = w.mutApplied
		w.mu.Unlock()
	}
	res, _, err := e2eExec(ec, sb.work, aux, false)
	e2eProbeSink = nil
	if err != nil {
		return nil, err
	}
	postSnap := destSnapshot(sb.root)
	r.Errs = []string{res.ClientErr, res.ServerErr}
	if len(res.Hung) > 0 {
		r.Skipped = "hung:" + strings.Join(res.Hung, ",")
		d.add("hung", 1)
		// what happened on disk is still judged
	}
	r.Applied = applied && g < len(msgs) && msgs[g].Typ == "NAME"
	if !r.Applied {
		r.Skipped = "mutation not applied"
		d.add("unapplied", 1)
		return r, nil
	}
	ok := false
	var chosen []string
	for _, np := range destNamePairs(msgs, o.Upload) {
		if np.G == g {
			ok, chosen = np.OK, np.Chosen
		}
	}
	r.Reply = strings.Join(chosen, "/")
	recvOK := res.ClientOK && res.ServerOK
	r.Res = "failed"
	if recvOK {
		r.Res = "ok"
	}
	for _, m := range msgs {
		if m.Typ == "fail" || m.Typ == "FAIL" {
			if s, _ := m.value()["s"].(string); strings.Contains(s, "Stopped") {
				r.StopDone = true
			}
		}
	}
	c09Observe(tr, sb, j, j.ID, preSnap, postSnap, ok, chosen, r.Res, r)
	return r, nil
}

// ---------------------------------------------------------------- mode crafted (archive entry headers)

func c09RunCrafted(d *vCtx, tr *vTrace, base string, j *c09Job) (*c09Result, error) {
	r := &c09Result{Job: j, Run: j.ID}
	seed := d.seed*7001 + 17
	jj := *j
	jj.Src = "dir"
	sb, tops, err := c09Prepare(base, &jj, seed)
	if err != nil {
		return nil, err
	}
	defer os.RemoveAll(sb.root)
	rel := c09Spell(sb, j.Rel)
	craft := func(files []*sourceFile) ([]*sourceFile, error) {
		if len(files) != 2 || !files[0].IsDir {
			return nil, fmt.Errorf("unexpected source list (%d entries)", len(files))
		}
		top, sub := files[0], files[1]
		sub.RelPath = rel
		sub.PathID = top.PathID + j.Hp
		if j.Hd {
			sub.IsDir = true
			sub.Size = 0
		}
		top.SubFiles = []*sourceFile{sub} // archiveSourceFiles keeps a pre-grouped entry as it is
		return []*sourceFile{top}, nil
	}
	upload := j.Role == "V"
	w := newE2EWire(seed, 0)
	st := newTransfer(w.s2c, nil, false, nil)
	w.c2s.deliver = func(b []byte) { st.addReceivedData(b, false) }
	args := baseArgs{Quiet: true, Overwrite: false, Binary: j.Binary, Directory: true, Bufsize: bufferSize{4096}, Timeout: 20}
	var ct *trzszTransfer
	var f *TrzszFilter
	sink := &e2eSink{}
	if upload {
		ct = newTransfer(w.c2s, nil, false, nil)
		w.s2c.deliver = func(b []byte) { ct.addReceivedData(b, false) }
	} else {
		f = &TrzszFilter{clientOut: sink, serverIn: e2eWC{w.c2s}, options: TrzszOptions{TerminalColumns: 100}}
		f.trigger = &trzszTrigger{mode: 'S', version: &trzszVersion{1, 1, 8}, uniqueID: "1234567890100"}
		f.SetDefaultDownloadPath(sb.dst)
		w.s2c.deliver = func(b []byte) {
			if t := f.transfer.Load(); t != nil {
				t.addReceivedData(b, false)
			}
		}
	}
	sendDir, recvDir := "s2c", "c2s"
	if upload {
		sendDir, recvDir = "c2s", "s2c"
	}
	seenData, stopped := false, false
	if j.StopDel {
		w.onMsg = func(m *e2eMsg, phase string) {
			if m.Dir == sendDir && m.Typ == "DATA" && !m.Keep {
				seenData = true
			}
			if phase == "after" && seenData && !stopped && m.Dir == recvDir && m.Typ == "SUCC" {
				stopped = true
				if upload {
					ct.stopTransferringFiles(true)
				} else {
					f.StopTransferringFiles(true)
				}
			}
		}
	}
	destSettle()
	preSnap := destSnapshot(sb.root)
	serverDone := make(chan error, 1)
	clientDone := make(chan error, 1)
	go func() {
		var err error
		func() {
			defer func() {
				if rc := recover(); rc != nil {
					err = newTrzszError(fmt.Sprintf("%v", rc), "panic", true)
				}
			}()
			if upload {
				err = recvFiles(st, &trzArgs{baseArgs: args, Path: sb.dst}, noTmuxMode, 0)
			} else {
				var files []*sourceFile
				files, err = checkPathsReadable(tops, true)
				if err == nil {
					files, err = craft(files)
				}
				if err == nil {
					err = sendFiles(st, files, &tszArgs{baseArgs: args, File: tops}, noTmuxMode, 0)
				}
			}
		}()
		if err != nil {
			st.serverError(err)
		}
		st.cleanup()
		serverDone <- err
	}()
	go func() {
		var err error
		if upload {
			func() {
				defer func() {
					if rc := recover(); rc != nil {
						err = newTrzszError(fmt.Sprintf("%v", rc), "panic", true)
					}
				}()
				var files []*sourceFile
				files, err = checkPathsReadable(tops, true)
				if err == nil {
					files, err = craft(files)
				}
				if err == nil {
					err = ct.sendAction(true, &trzszVersion{1, 1, 8}, false)
				}
				if err == nil {
					_, err = ct.recvConfig()
				}
				var names []string
				if err == nil {
					names, err = ct.sendFiles(files, nil)
				}
				if err == nil {
					err = ct.clientExit(formatSavedFiles(names, ""))
				}
			}()
			if err != nil {
				ct.clientError(err)
			}
			ct.cleanup()
		} else {
			f.handleTrzsz()
		}
		clientDone <- err
	}()
	var serr, cerr error
	timer := time.NewTimer(240 * time.Second)
	defer timer.Stop()
	gotS, gotC, hung := false, false, false
	for !(gotS && gotC) && !hung {
		select {
		case serr = <-serverDone:
			gotS = true
		case cerr = <-clientDone:
			gotC = true
		case <-timer.C:
			hung = true
		}
	}
	_ = e2eStdoutSince()
	postSnap := destSnapshot(sb.root)
	if hung {
		r.Skipped = "hung"
		d.add("hung", 1)
	}
	w.mu.Lock()
	msgs := append([]*e2eMsg(nil), w.msgs...)
	w.mu.Unlock()
	ndata := 0
	exitSent := false
	for _, m := range msgs {
		if m.Dir == sendDir && m.Typ == "DATA" && !m.Keep {
			ndata++
		}
		if m.Dir == "c2s" && m.Typ == "EXIT" {
			exitSent = true
		}
	}
	r.Applied = ndata > 0 // the archive stream (with the hostile header) was sent
	if !r.Applied {
		r.Skipped = "archive stream not sent"
		d.add("unapplied", 1)
		r.Errs = []string{fmt.Sprint(cerr), fmt.Sprint(serr)}
		return r, nil
	}
	r.Errs = []string{"", ""}
	if cerr != nil {
		r.Errs[0] = e2eFirstLine(cerr.Error())
	}
	if serr != nil {
		r.Errs[1] = e2eFirstLine(serr.Error())
	}
	r.StopDone = stopped
	r.Res = "failed"
	if serr == nil && (upload && cerr == nil || !upload && exitSent) && !hung {
		r.Res = "ok"
	}
	c09Observe(tr, sb, j, j.ID, preSnap, postSnap, false, nil, r.Res, r)
	return r, nil
}

// ---------------------------------------------------------------- mode direct (the decode sites)

func c09RunDirect(d *vCtx, tr *vTrace, base string, j *c09Job) (*c09Result, error) {
	r := &c09Result{Job: j, Run: j.ID, Applied: true, Errs: []string{"", ""}}
	jj := *j
	jj.Src = "file"
	sb, _, err := c09Prepare(base, &jj, 5)
	if err != nil {
		return nil, err
	}
	defer os.RemoveAll(sb.root)
	rel := c09Spell(sb, j.Rel)
	sink := &e2eSink{}
	rt := newTransfer(sink, nil, false, nil)
	rt.windowsProtocol = j.Win
	rt.transferConfig.Overwrite = j.Overwrite
	rt.transferConfig.Directory = j.Directory
	rt.transferConfig.Protocol = j.Proto
	rt.transferConfig.Timeout = 3
	destSettle()
	preSnap := destSnapshot(sb.root)
	var file fileWriter
	var local string
	var rerr error
	func() {
		defer func() {
			if rc := recover(); rc != nil {
				rerr = fmt.Errorf("panic: %v", rc)
			}
		}()
		switch j.Site {
		case "plain", "json":
			if j.Primed && j.Site == "json" {
				prime := "#NAME:" + encodeString(c09JSONName(j.Hp, []string{"d"}, true, false, 0)) + "\n"
				rt.addReceivedData([]byte(prime), false)
				if j.Proto >= 3 {
					_, _, _ = rt.recvFileNameV3(sb.dst, nil)
				} else {
					_, _, _ = rt.recvFileName(sb.dst, nil)
				}
			}
			payload := rel[0]
			if j.Site == "json" {
				payload = c09JSONName(j.Hp, rel, j.Hd, false, 10)
			}
			feed := "#NAME:" + encodeString(payload) + "\n"
			if j.Proto == 3 {
				feed += "#SIZE:10\n"
			}
			if j.Proto >= 3 {
				over, _ := json.Marshal(&prefixHash{Step: 0, Hash: "", Over: true})
				feed += "#HASH:" + encodeString(string(over)) + "\n"
			}
			rt.addReceivedData([]byte(feed), false)
			if j.Proto >= 3 {
				file, local, rerr = rt.recvFileNameV3(sb.dst, nil)
			} else {
				file, local, rerr = rt.recvFileName(sb.dst, nil)
			}
			if file != nil {
				rerr = writeAll(file, []byte("evil data\n"))
				file.Close()
			}
		case "archive":
			top := &sourceFile{PathID: 0, RelPath: []string{"d"}, IsDir: true, Archive: true}
			var aw fileWriter
			aw, local, rerr = rt.createDirOrFile(sb.dst, top, true)
			if rerr != nil || aw == nil {
				return
			}
			hdr := c09JSONName(j.Hp, rel, j.Hd, false, 10)
			stream := encodeString(hdr) + "\n"
			if !j.Hd {
				stream += "evil data\n"
			}
			// a second, honest entry after the hostile one: the writer must stay usable or fail as a whole
			stream += encodeString(c09JSONName(0, []string{"d", "after"}, false, false, 3)) + "\nxyz"
			b := []byte(stream)
			cut := 1 + (j.ID*7)%len(b)
			rerr = writeAll(aw, b[:cut])
			if rerr == nil {
				rerr = writeAll(aw, b[cut:])
			}
			aw.Close()
		}
	}()
	if j.StopDel {
		rt.deleteCreatedFiles()
	}
	postSnap := destSnapshot(sb.root)
	r.Reply = local
	r.Res = "ok"
	if rerr != nil {
		r.Res = "failed"
		r.Errs[0] = e2eFirstLine(rerr.Error())
	}
	var chosen []string
	if rerr == nil && j.Site != "archive" {
		chosen = destAtoms(local)
	}
	c09Observe(tr, sb, j, j.ID, preSnap, postSnap, rerr == nil && j.Site != "archive", chosen, r.Res, r)
	return r, nil
}

// ---------------------------------------------------------------- driver

func c09Escape(d *vCtx) error {
	shards := d.pInt("shards", 64)
	jobsPath := d.pStr("jobs", "")
	inproc := d.pBool("inproc", false)
	body := func(si, n int) error {
		base, err := os.MkdirTemp("/dev/shm", "verif-c09-")
		if err != nil {
			if base, err = os.MkdirTemp("", "verif-c09-"); err != nil {
				return err
			}
		}
		defer os.RemoveAll(base)
		if err := e2eCaptureStdout(d.out); err != nil {
			return err
		}
		destPreDedup = true
		evs, err := vReadNDJSON(jobsPath)
		if err != nil {
			return err
		}
		tr, err := vNewTrace(d.path("dest.ndjson"))
		if err != nil {
			return err
		}
		aux, err := vNewTrace(d.path("e2e.ndjson"))
		if err != nil {
			return err
		}
		var results []*c09Result
		for ji, m := range evs {
			if ji%n != si {
				continue
			}
			b, _ := json.Marshal(m)
			j := &c09Job{}
			if err := json.Unmarshal(b, j); err != nil {
				return err
			}
			if destLexUps(j.Rel) > len(destChain)-1 {
				d.add("skipped_above_root", 1)
				continue
			}
			var r *c09Result
			switch j.Mode {
			case "e2e":
				r, err = c09RunE2E(d, tr, aux, base, j)
			case "crafted":
				r, err = c09RunCrafted(d, tr, base, j)
			default:
				r, err = c09RunDirect(d, tr, base, j)
			}
			if err != nil {
				return err
			}
			results = append(results, r)
			if r.Applied {
				d.add("runs", 1)
				d.add("runs_"+j.Mode, 1)
				if len(r.Outside) > 0 {
					d.add("runs_outside", 1)
				}
				if r.StopDone {
					d.add("stops_done", 1)
				}
			}
		}
		if err := tr.Close(); err != nil {
			return err
		}
		_ = aux.Close()
		return vWriteJSON(d.path("results.json"), results)
	}
	if inproc {
		return body(0, 1)
	}
	return vShards(d, shards, body)
}
