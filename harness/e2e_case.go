//go:build verif

package trzsz

import (
	"encoding/json"
	"fmt"
	"os"
	"path/filepath"
	"strings"
	"sync"
	"time"
)

// e2eCase is one end-to-end execution, fully described (so that it can be replayed).
type e2eCase struct {
	ID    int       `json:"id"`
	Tag   string    `json:"tag,omitempty"`
	Seed  int64     `json:"seed"`
	Opts  e2eOpts   `json:"opts"`
	Nodes []e2eNode `json:"nodes"`
	Bases []string  `json:"bases"` // Bases[i]: sub-directory of the source root that holds node i's top-level path ("" = root)
	Pre   []e2eNode `json:"pre"`   // pre-existing destination content
	Plan  e2ePlan   `json:"plan"`
	// NamesFromTops: map every source top-level path to the destination entry of the same base
	// name (clean destination, distinct base names) instead of to the names shown to the user
	NamesFromTops bool `json:"names_from_tops"`
	WatchdogMs    int  `json:"watchdog_ms"`
}

type e2ePlan struct {
	Faults  []e2eFault `json:"faults,omitempty"`
	Stop    *e2eStop   `json:"stop,omitempty"`
	Pause   *e2ePause  `json:"pause,omitempty"`
	Silence *e2eSil    `json:"silence,omitempty"`
	// WriteErr: the connection of direction Dir returns a write error after its message K
	WriteErr *e2eSil `json:"writeerr,omitempty"`
	// DstErr: destination writes fail (the first destination file is a symlink to /dev/full; needs overwrite)
	DstErr bool `json:"dsterr,omitempty"`
	// Shrink: the first source file is truncated to half once message G (global index) was written
	Shrink *e2eSil `json:"shrink,omitempty"`
	// Mutate: the payload of message G is replaced in flight (adversarial peer)
	Mutate *e2eMut `json:"mutate,omitempty"`
	// Mutate2: a second message of the same run is replaced too (only together with Mutate)
	Mutate2 *e2eMut `json:"mutate2,omitempty"`
	// Hold: message K of direction Dir is delivered Ms late; a slow acknowledgement makes the sender shrink
	// its buffer size
	Hold *e2eHold `json:"hold,omitempty"`
	// CheckLeft: after both roles returned wait timeout+1s and count transfer goroutines still alive
	CheckLeft bool `json:"checkleft,omitempty"`
	// Point: a goroutine of the pipeline is held at one of its blocking operations (vhook points of
	// pipeline.go) while something happens: see e2ePoint
	Point *e2ePoint `json:"point,omitempty"`
}

// e2ePoint: the Nth time a pipeline goroutine reaches the hook point Name it is held there (the stages
// in front of it run full, the stages behind it run dry); SettleMs later Kind happens (none | silence |
// writeerr | stopC | stopCdel | stopV | pause); the goroutine goes on ReleaseMs after that (times to
// return are measured from then).
type e2ePoint struct {
	Name      string `json:"name"`
	Nth       int    `json:"nth"`
	SettleMs  int    `json:"settle_ms"`
	Kind      string `json:"kind"`
	ReleaseMs int    `json:"release_ms"`
	ResumeMs  int    `json:"resume_ms,omitempty"` // Kind pause: the client continues after this long
	// HoldMs > 0: the point stands for an operation outside the program (a destination write that does not come back):
	// the goroutine stays held until the transfer is over (at most this long) and the held time counts, because a
	// stop has to end the transfer without waiting for that operation
	HoldMs int `json:"hold_ms,omitempty"`
	// Total > 0 (instead of Nth): the occurrence at which the running total of the hook's first argument reaches Total
	// (pipe.sav.got: the piece that completes a file of that size)
	Total int `json:"total,omitempty"`
}

type e2eStop struct {
	G      int    `json:"g"`     // global message index (tap order)
	Phase  string `json:"phase"` // before | after
	Role   string `json:"role"`  // C | V
	Delete bool   `json:"delete"`
	// PromptMs > 0 (client only): the way a user stops -- Ctrl-C pauses the transfer and opens the
	// prompt (confirmStopTransfer), the stop choice is made PromptMs later, the pause flag still set
	PromptMs int `json:"prompt_ms,omitempty"`
}

type e2ePause struct {
	G        int    `json:"g"`
	Phase    string `json:"phase"`
	ResumeMs int    `json:"resume_ms"`
	Cycles   int    `json:"cycles"`
	DelayMs  int    `json:"delay_ms,omitempty"` // the pause begins this long after the message
}

type e2eMut struct {
	G     int    `json:"g"`
	New   string `json:"new"`
	Type  string `json:"type,omitempty"`
	Label string `json:"label"`
}

type e2eSil struct {
	Dir string `json:"dir"`
	K   int    `json:"k"`
}

type e2eHold struct {
	Dir string `json:"dir"`
	K   int    `json:"k"`
	Ms  int    `json:"ms"`
}

// e2eExec materialises the case under work (a fresh directory), runs it and emits the
// observable events:  reset{...} ret{role,res,...}x2 fs{...} left{n}.
func e2eExec(c *e2eCase, work string, tr *vTrace, logLines bool) (*e2eResult, map[string]any, error) {
	srcRoot := filepath.Join(work, "src")
	dst := filepath.Join(work, "dst")
	if err := os.MkdirAll(srcRoot, 0755); err != nil {
		return nil, nil, err
	}
	if err := os.MkdirAll(dst, 0755); err != nil {
		return nil, nil, err
	}
	// sources: group nodes by base so that two tops may share a base name
	var tops []string
	seen := map[string]bool{}
	for i, n := range c.Nodes {
		base := ""
		if i < len(c.Bases) {
			base = c.Bases[i]
		}
		root := filepath.Join(srcRoot, base)
		ts, err := e2eMakeTree(root, []e2eNode{n}, c.Seed+int64(i))
		if err != nil {
			return nil, nil, err
		}
		for _, t := range ts {
			if !seen[t] {
				seen[t] = true
				tops = append(tops, t)
			}
		}
	}
	if len(c.Pre) > 0 {
		if _, err := e2eMakeTree(dst, c.Pre, c.Seed+7777); err != nil {
			return nil, nil, err
		}
	}
	for _, n := range c.Pre {
		if n.Like > 0 && n.Like <= len(c.Nodes) && !n.Dir {
			b := e2eContent(n.Size, c.Nodes[n.Like-1].Kind, (c.Seed+int64(n.Like-1))*131)
			if n.DivergeAt > 0 {
				for i := n.DivergeAt; i < int64(len(b)); i++ {
					b[i] ^= 0x55
				}
			}
			if err := os.WriteFile(filepath.Join(dst, n.Rel), b, 0644); err != nil {
				return nil, nil, err
			}
		}
	}
	pre := e2eSnapshot(dst)
	e2eSrcCache = map[string]map[string]e2eEntry{}
	for _, t := range tops {
		if s := e2eSourceSnapshot(t); s != nil {
			e2eSrcCache[t] = s
		}
	}
	o := c.Opts
	o.Src, o.Dst = tops, dst
	if o.Bufsize == 0 {
		o.Bufsize = 10 * 1024 * 1024
	}
	if o.Protocol == 0 {
		o.Protocol = 4
	}
	SetAffectedByWindows(o.Windows)
	defer SetAffectedByWindows(false)

	w := newE2EWire(c.Seed, o.MaxChunk)
	w.tr, w.run, w.logLines = tr, c.ID, logLines
	w.faults = nil
	for i := range c.Plan.Faults {
		f := c.Plan.Faults[i]
		w.faults = append(w.faults, &f)
	}
	if c.Plan.Hold != nil {
		w.holdDir, w.holdK, w.holdMs = c.Plan.Hold.Dir, c.Plan.Hold.K, c.Plan.Hold.Ms
	}
	if c.Plan.Silence != nil {
		w.silenceDir, w.silenceK = c.Plan.Silence.Dir, c.Plan.Silence.K
		if c.Plan.Silence.K < 0 {
			if c.Plan.Silence.Dir == "c2s" {
				w.c2s.silent = true
			} else {
				w.s2c.silent = true
			}
		}
	}
	if c.Plan.Mutate != nil {
		w.mutG, w.mutNew, w.mutType = c.Plan.Mutate.G, c.Plan.Mutate.New, c.Plan.Mutate.Type
		if c.Plan.Mutate2 != nil {
			w.mut2G, w.mut2New = c.Plan.Mutate2.G, c.Plan.Mutate2.New
		}
	}
	if c.Plan.DstErr && len(tops) > 0 {
		_ = os.Symlink("/dev/full", filepath.Join(dst, filepath.Base(tops[0])))
		pre = e2eSnapshot(dst)
	}
	baseline := 0
	if c.Plan.CheckLeft {
		baseline, _ = e2eLeftGoroutines()
	}
	proto := o.Protocol
	if o.OldServer {
		proto = 2
	}
	nfiles := 0
	for _, n := range c.Nodes {
		_ = n
		nfiles++
	}
	reset := map[string]any{"e": "reset", "run": c.ID, "upload": o.Upload, "proto": proto, "binary": o.Binary,
		"overwrite": o.Overwrite, "directory": o.Directory, "windows": o.Windows,
		"nfaults": len(c.Plan.Faults), "stop": "none", "stopdel": false, "pause": c.Plan.Pause != nil || (c.Plan.Point != nil && c.Plan.Point.Kind == "pause"),
		"silence": c.Plan.Silence != nil || c.Plan.WriteErr != nil || c.Plan.DstErr || c.Plan.Shrink != nil || c.Plan.Mutate != nil ||
			(c.Plan.Point != nil && (c.Plan.Point.Kind == "silence" || c.Plan.Point.Kind == "writeerr" || c.Plan.Point.Kind == "dstfull")), "timeout": o.Timeout,
		"fkind": e2ePlanKind(&c.Plan), "prehs": e2ePreHandshake(&c.Plan)}
	{
		fl := []map[string]any{}
		for _, of := range e2eOracleFiles(tops, o, proto) {
			fl = append(fl, map[string]any{"dir": of["dir"], "size": of["size"], "comp": of["comp"]})
		}
		reset["files"] = fl
	}
	if c.Plan.Stop != nil {
		reset["stop"] = c.Plan.Stop.Role
		reset["stopdel"] = c.Plan.Stop.Delete
	}
	if pt := c.Plan.Point; pt != nil && strings.HasPrefix(pt.Kind, "stop") {
		reset["stop"] = pt.Kind[4:5]
		reset["stopdel"] = pt.Kind == "stopCdel"
	}
	var stopAt, resumedAt time.Time
	var pauseMu sync.Mutex
	pauseStarted, pausedNow := false, false
	pauseDelayed := false
	stopPlanned := false
	pData, pKeep, dataAfter, nPauses := 0, 0, 0, 0
	// steering goroutines that outlive the transfer (pause cycles) record nothing once it is over
	var overMu sync.Mutex
	over := false
	emitLive := func(ev map[string]any, do func()) bool {
		overMu.Lock()
		defer overMu.Unlock()
		if over {
			return false
		}
		tr.Emit(ev, do)
		return true
	}
	pointOver := make(chan struct{})
	var pointFired func() bool
	hooks := &e2eHooks{chain: e2eChain, uid: e2eChainUID}
	if c.WatchdogMs > 0 {
		hooks.watchdog = time.Duration(c.WatchdogMs) * time.Millisecond
	}
	hooks.ready = func(w *e2eWire, client func() *trzszTransfer, server *trzszTransfer, f *TrzszFilter) {
		st, pa := c.Plan.Stop, c.Plan.Pause
		sil, we, shr := c.Plan.Silence, c.Plan.WriteErr, c.Plan.Shrink
		if pt := c.Plan.Point; pt != nil {
			dataDir := "s2c"
			if o.Upload {
				dataDir = "c2s"
			}
			e2ePointDst = dst
			pointFired = e2eInstallPoint(pt, c.ID, tr, w, client, server, f, dataDir, emitLive, &stopAt, func() {
				pauseMu.Lock()
				nPauses++
				pauseMu.Unlock()
			}, func(on bool) {
				pauseMu.Lock()
				pausedNow = on
				if !on {
					resumedAt = time.Now()
				}
				pauseMu.Unlock()
			}, pointOver)
		}
		if st == nil && pa == nil && sil == nil && we == nil && shr == nil && c.Plan.Point == nil {
			return
		}
		if c.Plan.DstErr {
			stopAt = time.Now()
		}
		startPause := func(g int) {
		if t := client(); t != nil {
			pauseStarted = true
			pauseMu.Lock()
			nPauses++
			pauseMu.Unlock()
			stopAt = time.Now()
			// "paused" from the moment the pause call has returned: chunks written before that are not
			// chunks written while paused
			tr.Emit(map[string]any{"e": "pause", "run": c.ID, "g": g}, func() {
				t.pauseTransferringFiles()
				pauseMu.Lock()
				pausedNow = true
				pauseMu.Unlock()
			})
			go func() {
				cycles := pa.Cycles
				if cycles < 1 {
					cycles = 1
				}
				for i := 0; i < cycles; i++ {
					time.Sleep(time.Duration(pa.ResumeMs) * time.Millisecond)
					pauseMu.Lock()
					pausedNow = false
					resumedAt = time.Now()
					pauseMu.Unlock()
					if !emitLive(map[string]any{"e": "resume", "run": c.ID}, func() { t.resumeTransferringFiles() }) {
						return
					}
					if i+1 < cycles {
						time.Sleep(30 * time.Millisecond)
						pauseMu.Lock()
						nPauses++
						pauseMu.Unlock()
						if !emitLive(map[string]any{"e": "pause", "run": c.ID, "g": -1}, func() {
							t.pauseTransferringFiles()
							pauseMu.Lock()
							pausedNow = true
							pauseMu.Unlock()
						}) {
							return
						}
					}
				}
			}()
		}
		}
		w.onMsg = func(m *e2eMsg, phase string) {
			if sil != nil && phase == "after" && m.Dir == sil.Dir && m.K == sil.K && stopAt.IsZero() {
				stopAt = time.Now()
			}
			if we != nil && phase == "after" && m.Dir == we.Dir && m.K == we.K && stopAt.IsZero() {
				stopAt = time.Now()
				p := w.c2s
				if we.Dir == "s2c" {
					p = w.s2c
				}
				w.mu.Lock()
				p.writeErr = e2eErr("connection reset by verif harness")
				w.mu.Unlock()
			}
			if shr != nil && phase == "after" && m.G == shr.K && stopAt.IsZero() {
				stopAt = time.Now()
				for _, tp := range tops {
					_ = filepath.Walk(tp, func(pth string, info os.FileInfo, err error) error {
						if err == nil && !info.IsDir() && info.Size() > 1 {
							_ = os.Truncate(pth, info.Size()/2)
						}
						return nil
					})
				}
			}
			if st != nil && m.G == st.G && phase == st.Phase && stopAt.IsZero() && !stopPlanned {
				stopPlanned = true
				apply := func() {
					stopAt = time.Now()
					emitLive(map[string]any{"e": "stop", "run": c.ID, "g": m.G, "phase": phase, "role": st.Role, "del": st.Delete}, func() {
						if st.Role == "C" {
							f.StopTransferringFiles(st.Delete)
						} else {
							server.stopTransferringFiles(false)
						}
					})
				}
				if t := client(); st.Role == "C" && st.PromptMs > 0 && t != nil {
					t.pauseTransferringFiles()
					if pr := f.progress.Load(); pr != nil {
						pr.setPause(true)
					}
					go func() {
						time.Sleep(time.Duration(st.PromptMs) * time.Millisecond)
						apply()
					}()
				} else {
					apply()
				}
			}
			if pa != nil && m.G == pa.G && phase == pa.Phase && !pauseStarted && !pauseDelayed {
				if pa.DelayMs > 0 { // the pause comes DelayMs after this message (e.g. while a read is already pending)
					pauseDelayed = true
					go func() {
						time.Sleep(time.Duration(pa.DelayMs) * time.Millisecond)
						overMu.Lock()
						dead := over
						overMu.Unlock()
						if !dead {
							startPause(-1)
						}
					}()
				} else {
					startPause(m.G)
				}
			}
			// what the paused client writes: file data vs keep-alive lines
			if (pa != nil || (c.Plan.Point != nil && c.Plan.Point.Kind == "pause")) && phase == "before" && m.Dir == "c2s" && m.Typ == "DATA" {
				pauseMu.Lock()
				if pausedNow {
					if m.Keep {
						pKeep++
					} else {
						pData++
					}
				} else if !resumedAt.IsZero() && !m.Keep && len(m.Raw) > 0 {
					dataAfter++
				}
				pauseMu.Unlock()
			}
		}
	}
	tr.Emit(reset, nil)
	tr.Flush()
	runStart := time.Now()
	vm0 := e2eVmPeakMB()
	res := e2eRun(o, w, hooks)
	overMu.Lock()
	over = true
	overMu.Unlock()
	close(pointOver)
	if c.Plan.Point != nil {
		e2ePointWait()
		if pointFired == nil || !pointFired() {
			// the transfer was over before the goroutine came to the point (or the point does not exist any more):
			// nothing was done to this run, it is not judged as a stopped / paused / faulted one
			tr.Emit(map[string]any{"e": "unfired", "run": c.ID}, nil)
		}
	}
	if len(res.Hung) > 0 || res.NoAct {
		e2eTainted = true
	}
	if c.Plan.Mutate != nil && stopAt.IsZero() {
		stopAt = runStart
	}
	if e2eProbeSink != nil {
		e2eProbeSink(w)
	}

	left := 0
	var leftFrames []string
	if c.Plan.CheckLeft {
		grace := time.Duration(o.Timeout)*time.Second + time.Second
		deadline := time.Now().Add(grace)
		for {
			var n int
			n, leftFrames = e2eLeftGoroutines()
			left = n - baseline
			if left <= 0 || time.Now().After(deadline) {
				break
			}
			time.Sleep(100 * time.Millisecond)
		}
		if left < 0 {
			left = 0
		}
	}
	if c.Plan.DstErr && stopAt.IsZero() {
		stopAt = time.Now()
	}
	mutApplied := false
	w.mu.Lock()
	mutApplied = w.mutApplied
	w.mu.Unlock()
	// observable projection
	names := res.Shown
	if c.NamesFromTops {
		names = nil
		for _, t := range tops {
			names = append(names, filepath.Base(t))
		}
	}
	entries, allSame, extra := e2eCompare(tops, names, dst, pre)
	same := make([]bool, 0, len(entries))
	nsame := 0
	for _, e := range entries {
		ok := e["got"] == "same"
		same = append(same, ok)
		if ok {
			nsame++
		}
	}
	// pre-existing entries that changed or disappeared
	post := e2eSnapshot(dst)
	touched := []string{}
	expectedNames := map[string]bool{}
	for _, e := range entries {
		expectedNames[e["rel"].(string)] = true
	}
	for _, k := range e2eSortedKeys(pre) {
		if pv, ok := post[k]; !ok || pv != pre[k] {
			if !expectedNames[k] {
				touched = append(touched, k)
			}
		}
	}
	since := func(end time.Time) int64 {
		if stopAt.IsZero() || end.IsZero() {
			return -1
		}
		d := end.Sub(stopAt).Milliseconds()
		if d < 0 {
			d = 0
		}
		return d
	}
	// files the receiver verified (it acknowledged their MD5) must be intact after a plain stop
	verified := 0
	w.mu.Lock()
	rcvDir := "s2c"
	if !o.Upload {
		rcvDir = "c2s"
	}
	for _, m := range w.msgs {
		if m.Dir == rcvDir && m.Typ == "SUCC" && m.value()["k"] == "bin" {
			verified++
		}
	}
	w.mu.Unlock()
	keptok := true
	{
		oracle := e2eOracleFiles(tops, o, proto)
		k := 0
		got := map[string]string{}
		for _, e := range entries {
			got[e["rel"].(string)] = e["got"].(string)
		}
		for _, of := range oracle {
			if of["dir"].(bool) {
				continue
			}
			if k >= verified {
				break
			}
			k++
			rel, _ := of["rel"].(string)
			if sub, ok := of["subs"].([]string); ok && len(sub) > 0 {
				for _, sr := range sub {
					if got[sr] != "same" {
						keptok = false
					}
				}
			} else if got[rel] != "same" {
				keptok = false
			}
		}
	}
	// entries of this transfer that are (still) at the destination; an entry that existed before
	// and was not touched at all does not count
	npresent := 0
	postNow := e2eSnapshot(dst)
	for _, e := range entries {
		if e["got"] != "missing" && e["got"] != "unnamed" {
			rel := e["rel"].(string)
			if pv, ok := pre[rel]; ok && (pv == postNow[rel] || (pv.Dir && postNow[rel].Dir)) {
				continue // it was there before (a directory that existed is entered, never replaced)
			}
			npresent++
		}
	}
	// what each role's success is a success for: the sender every entry it was given, the receiver
	// the entries it lists as saved / received (all of them when no list could be read)
	claims, claimSame := len(tops), allSame && len(entries) > 0
	if res.ShownOK {
		claims = len(res.Shown)
		switch {
		case claims > len(tops):
			claimSame = false
		case claims == 0:
			claimSame = true
		default:
			_, claimSame, _ = e2eCompare(tops[:claims], res.Shown[:claims], dst, pre)
		}
	}
	cclaims, sclaims := len(tops), claims
	if !c.Opts.Upload {
		cclaims, sclaims = claims, len(tops)
	}
	pauseMu.Lock()
	nPausesSeen := nPauses
	pauseMu.Unlock()
	cres, sres := "fail", "fail"
	if res.ClientOK {
		cres = "ok"
	}
	if res.ServerOK {
		sres = "ok"
	}
	tr.Emit(map[string]any{"e": "ret", "run": c.ID, "role": "C", "res": cres, "hung": containsString(res.Hung, "client"),
		"ms": res.ClientMs, "since": since(res.ClientEnd), "told": res.FailLines["client"] != "", "msg": res.ClientErr, "claims": cclaims}, nil)
	tr.Emit(map[string]any{"e": "ret", "run": c.ID, "role": "V", "res": sres, "hung": containsString(res.Hung, "server"),
		"ms": res.ServerMs, "since": since(res.ServerEnd), "told": res.FailLines["server"] != "", "msg": res.ServerErr, "claims": sclaims}, nil)
	fs := map[string]any{"e": "fs", "run": c.ID, "n": len(entries), "nsame": nsame, "allsame": allSame && len(entries) > 0,
		"extra": len(extra), "touched": len(touched), "shown": res.ShownOK, "nshown": len(names), "ntops": len(tops),
		"npresent": npresent, "keptok": keptok, "verified": verified, "claimsame": claimSame,
		"mutapplied": mutApplied, "vmgrow": e2eVmPeakMB() - vm0,
		"pdata": pData, "pkeep": pKeep, "dataafter": dataAfter, "pausems": e2ePauseMs(&c.Plan), "npauses": nPausesSeen}
	tr.Emit(fs, nil)
	if c.Plan.CheckLeft {
		tr.Emit(map[string]any{"e": "left", "run": c.ID, "n": left}, nil)
	}
	tr.Flush()
	detail := map[string]any{"left_frames": leftFrames, "entries": entries, "extra": extra, "touched": touched, "shown": names,
		"client_err": res.ClientErr, "server_err": res.ServerErr, "hung": res.Hung}
	return res, detail, nil
}

func e2eCaseJSON(c *e2eCase) string {
	b, _ := json.Marshal(c)
	return string(b)
}

func e2eWorkDir(base string, id int) string {
	return filepath.Join(base, fmt.Sprintf("run-%06d", id))
}

func e2eShmBase() string {
	if st, err := os.Stat("/dev/shm"); err == nil && st.IsDir() {
		d, err := os.MkdirTemp("/dev/shm", "verif-e2e-")
		if err == nil {
			return d
		}
	}
	d, _ := os.MkdirTemp("", "verif-e2e-")
	return d
}

func e2eName(kind int, i int) string {
	switch kind % 11 {
	case 7: // legal names that merely contain dots in a row (not the parent reference)
		return fmt.Sprintf("notes..v%d...txt", i)
	case 8:
		return fmt.Sprintf("..lead%d", i)
	case 9:
		return fmt.Sprintf("trail%d..", i)
	case 10:
		return fmt.Sprintf(".#hash:colon~%d", i)
	case 5: // code points whose low byte is '/' or '\\': a name check must not truncate runes
		return fmt.Sprintf("me\u012fl\u0117-\u592f\u5b9e-%d", i)
	case 6:
		return fmt.Sprintf("\u015c\u4e5c [%d]*?.dat", i)
	case 1:
		return fmt.Sprintf("文件 %d.txt", i)
	case 2:
		return fmt.Sprintf("f%d with space & (paren).bin", i)
	case 3:
		return fmt.Sprintf("émoji-😀-%d", i)
	case 4:
		return strings.Repeat("n", 40) + fmt.Sprint(i)
	}
	return fmt.Sprintf("file%d.dat", i)
}

// e2eOracleFiles lists, in sending order, the entries the sender will announce: for each one
// whether it is a directory (no data), its size as announced by SIZE (for an archive entry the
// length of the archive stream) and whether a COMP line precedes its data.
func e2eOracleFiles(tops []string, o e2eOpts, proto int) []map[string]any {
	res := []map[string]any{}
	files, err := checkPathsReadable(tops, o.Directory)
	if err != nil {
		return res
	}
	t := &trzszTransfer{}
	t.transferConfig.Overwrite = o.Overwrite
	t.transferConfig.Protocol = proto
	t.transferConfig.CompressType = compressType(o.Compress)
	t.transferConfig.Binary = o.Binary
	for _, f := range t.archiveSourceFiles(files) {
		if f == nil {
			continue
		}
		e := map[string]any{"dir": f.IsDir, "size": f.Size, "comp": false, "rel": filepath.Join(f.RelPath...)}
		if len(f.SubFiles) > 0 {
			subs := []string{}
			for _, sf := range f.SubFiles {
				if !sf.IsDir {
					subs = append(subs, filepath.Join(sf.RelPath...))
				}
			}
			e["subs"] = subs
			if r, err := t.newArchiveReader(f); err == nil {
				e["dir"] = false
				e["size"] = r.getSize()
			}
		}
		if !e["dir"].(bool) {
			if fixed, _ := t.isCompressFixed(e["size"].(int64)); !fixed {
				e["comp"] = true
			}
		}
		res = append(res, e)
	}
	return res
}

func e2eErr(format string, a ...any) error { return fmt.Errorf(format, a...) }

// e2eProbe runs the case once without any plan and returns the messages of both directions
// (type, direction, offset, length) as tapped.
func e2eProbe(c *e2eCase, work string, tr *vTrace) ([]*e2eMsg, error) {
	cc := *c
	cc.Plan = e2ePlan{}
	var msgs []*e2eMsg
	e2eProbeSink = func(w *e2eWire) { msgs = append([]*e2eMsg(nil), w.msgs...) }
	defer func() { e2eProbeSink = nil }()
	res, _, err := e2eExec(&cc, work, tr, false)
	os.RemoveAll(work)
	if err != nil {
		return nil, err
	}
	if !res.ClientOK || !res.ServerOK {
		return nil, fmt.Errorf("probe run failed: client=%q server=%q", res.ClientErr, res.ServerErr)
	}
	return msgs, nil
}

var e2eProbeSink func(w *e2eWire)

// e2eChain: when set, e2eExec runs the transfer through this chain of real relays
var e2eChain *e2eRelayChain
var e2eChainUID int64

func e2ePlanKind(p *e2ePlan) string {
	switch {
	case p.Silence != nil:
		return "silence-" + p.Silence.Dir
	case p.WriteErr != nil:
		return "writeerr-" + p.WriteErr.Dir
	case p.DstErr:
		return "dsterr"
	case p.Shrink != nil:
		return "shrink"
	case p.Mutate != nil:
		return "mutate"
	case p.Point != nil:
		return "point-" + p.Point.Kind
	case p.Stop != nil:
		return "stop"
	case p.Pause != nil:
		return "pause"
	case len(p.Faults) > 0:
		return "bytes"
	}
	return "none"
}

// e2ePreHandshake: the fault hits before the client has received the configuration (it still
// runs on its default 20 s time-out then)
func e2ePreHandshake(p *e2ePlan) bool {
	if p.Silence != nil && p.Silence.Dir == "s2c" && p.Silence.K < 0 {
		return true
	}
	if p.WriteErr != nil && p.WriteErr.Dir == "s2c" && p.WriteErr.K < 0 {
		return true
	}
	if p.Mutate != nil && p.Mutate.G <= 1 { // ACT or CFG
		return true
	}
	return false
}

type e2eLayoutMsg struct {
	Dir string `json:"dir"`
	K   int    `json:"k"`
	G   int    `json:"g"`
	Typ string `json:"t"`
	Off int    `json:"off"`
	Len int    `json:"len"`
	Raw string `json:"raw"` // payload text (for a binary DATA block: its length)
}

// e2eLayouts gives every shard the same message layout of the base cases: the parent process
// probes each base once (clean run, retried on a loaded machine) and writes layout.json; the
// children read it.
func e2eLayouts(d *vCtx, bases []*e2eCase) ([][]e2eLayoutMsg, error) {
	if os.Getenv("VERIF_SHARD") != "" {
		b, err := os.ReadFile(filepath.Join(filepath.Dir(d.out), "layout.json"))
		if err != nil {
			return nil, err
		}
		var res [][]e2eLayoutMsg
		return res, json.Unmarshal(b, &res)
	}
	base := e2eShmBase()
	defer os.RemoveAll(base)
	if e2eStdoutFile == nil {
		if err := e2eCaptureStdout(d.out); err != nil {
			return nil, err
		}
	}
	ptr, err := vNewTrace(d.path("probe.ndjson"))
	if err != nil {
		return nil, err
	}
	defer ptr.Close()
	var res [][]e2eLayoutMsg
	for bi, c := range bases {
		cc := *c
		cc.ID = 800000 + bi
		var w []*e2eMsg
		var err error
		for try := 0; try < 5; try++ {
			if w, err = e2eProbe(&cc, e2eWorkDir(base, cc.ID), ptr); err == nil {
				break
			}
		}
		if err != nil {
			return nil, err
		}
		var l []e2eLayoutMsg
		for _, m := range w {
			raw := string(m.Raw)
			if m.Typ == "DATA" && c.Opts.Binary && !m.Keep {
				raw = fmt.Sprint(len(m.Raw))
			}
			l = append(l, e2eLayoutMsg{m.Dir, m.K, m.G, m.Typ, m.Off, m.Len, raw})
		}
		res = append(res, l)
	}
	b, _ := json.Marshal(res)
	return res, os.WriteFile(d.path("layout.json"), b, 0644)
}

func e2ePauseMs(p *e2ePlan) int {
	if p.Point != nil && p.Point.Kind == "pause" {
		return p.Point.ResumeMs
	}
	if p.Pause == nil {
		return 0
	}
	return p.Pause.ResumeMs
}

// e2eVmPeakMB: peak virtual memory size of this process in MiB (from /proc/self/status).
func e2eVmPeakMB() int {
	b, err := os.ReadFile("/proc/self/status")
	if err != nil {
		return 0
	}
	for _, l := range strings.Split(string(b), "\n") {
		if strings.HasPrefix(l, "VmPeak:") {
			f := strings.Fields(l)
			if len(f) >= 2 {
				var kb int
				fmt.Sscan(f[1], &kb)
				return kb / 1024
			}
		}
	}
	return 0
}

func e2eDropEnv(env []string, key string) []string {
	var res []string
	for _, e := range env {
		if !strings.HasPrefix(e, key+"=") {
			res = append(res, e)
		}
	}
	return res
}

// e2eTainted: a role of an earlier run in this process did not return and may still be running.
var e2eTainted bool

func init() { vRegister("e2e_replay", e2eReplay) }

// e2eReplay re-executes saved cases (params.cases = path of a json list of e2eCase) and writes
// the recorded events; used by ./check <id> --replay.
func e2eReplay(d *vCtx) error {
	var cases []*e2eCase
	b, err := os.ReadFile(d.pStr("cases", ""))
	if err != nil {
		return err
	}
	if err := json.Unmarshal(b, &cases); err != nil {
		return err
	}
	base := e2eShmBase()
	defer os.RemoveAll(base)
	if err := e2eCaptureStdout(d.out); err != nil {
		return err
	}
	tr, err := vNewTrace(d.path("obs.ndjson"))
	if err != nil {
		return err
	}
	var details []map[string]any
	for _, c := range cases {
		_, detail, err := e2eExec(c, e2eWorkDir(base, c.ID), tr, true)
		if err != nil {
			return err
		}
		detail["case"] = c
		details = append(details, detail)
		fmt.Fprintf(os.Stderr, "replayed case %d: %v\n", c.ID, detail)
	}
	d.set("runs", len(cases))
	if err := tr.Close(); err != nil {
		return err
	}
	return vWriteJSON(filepath.Join(d.out, "details.json"), details)
}

