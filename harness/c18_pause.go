//go:build verif

package trzsz

// C18 driver: the client is paused (pauseTransferringFiles, what the stop/continue question
// does) before / after every protocol message of real transfers and continued after a delay
// below, around or above the time-out; repeated cycles.

import (
	"os"
)

func init() { vRegister("c18_pause", c18Pause) }

func c18Bases(seed int64, thorough bool) []*e2eCase {
	var res []*e2eCase
	mk := func(upload, binary bool, proto int, sizes []int64, bufsize int64) {
		c := &e2eCase{Seed: seed + int64(len(res))*211, NamesFromTops: true, WatchdogMs: 60000}
		c.Opts = e2eOpts{Upload: upload, Binary: binary, Protocol: proto, Timeout: 3, Bufsize: bufsize, Compress: 2}
		for i, sz := range sizes {
			c.Nodes = append(c.Nodes, e2eNode{Rel: e2eName(0, i), Size: sz, Kind: 1})
			c.Bases = append(c.Bases, "")
		}
		res = append(res, c)
	}
	mk(true, false, 4, []int64{30000, 2000}, 4096)
	mk(false, true, 3, []int64{30000}, 4096)
	// compression left at auto and a second file big enough (>= 128 KiB) for the compress-flag line:
	// a pause between the files, before the flag
	mk(true, false, 4, []int64{3000, 300000}, 1<<20)
	res[len(res)-1].Opts.Compress = 0
	mk(true, true, 4, []int64{600000}, 10<<20) // pause inside the buffer-size probing phase
	// one acknowledgement comes 2.3 s late: the sender halves its buffer size and writes the blocks that
	// were encoded at the old size in pieces; a pause may begin between two pieces
	mk(true, false, 4, []int64{900000}, 64<<10)
	res[len(res)-1].Opts.Timeout = 10
	res[len(res)-1].Plan.Hold = &e2eHold{Dir: "s2c", K: 9, Ms: 2300}
	if thorough {
		mk(false, true, 3, []int64{2000, 200000}, 1<<20)
		res[len(res)-1].Opts.Compress = 0
		mk(false, false, 4, []int64{2000, 30000}, 4096)
		mk(true, true, 3, []int64{30000}, 4096)
		mk(false, false, 4, []int64{400000}, 10<<20) // probing phase, download
	}
	return res
}

func c18Pause(d *vCtx) error {
	thorough := d.pBool("thorough", false)
	shards := d.pInt("shards", 96)
	bases := c18Bases(d.seed, thorough)
	layouts, err := e2eLayouts(d, bases)
	if err != nil {
		return err
	}
	return vShards(d, shards, func(si, n int) error {
		base := e2eShmBase()
		defer os.RemoveAll(base)
		if err := e2eCaptureStdout(d.out); err != nil {
			return err
		}
		type job struct {
			base    int
			pause   e2ePause
			silence *e2eSil
		}
		var jobs []job
		for bi := range bases {
			tmo := bases[bi].Opts.Timeout * 1000
			delays := []int{tmo / 5, tmo / 2, tmo * 13 / 10, tmo * 5 / 2}
			// the peer dies (its direction falls silent) and the user pauses and continues while the client's
			// read is already waiting: the pause forgives one time-out, the next one must end the transfer
			if bases[bi].Plan.Hold == nil && bases[bi].Opts.Protocol >= 3 {
				nsil := 0
				for _, m := range layouts[bi] {
					if m.Dir != "s2c" || m.K < 3 || (m.K%3 != 0 && !thorough) || nsil >= 5 {
						continue
					}
					nsil++
					jobs = append(jobs, job{bi, e2ePause{G: m.G, Phase: "after", ResumeMs: 300, Cycles: 1, DelayMs: 400},
						&e2eSil{Dir: "s2c", K: m.K}})
				}
			}
			for g := range layouts[bi] {
				if bases[bi].Plan.Hold != nil {
					// only where pieces are written: data messages of the client after the late acknowledgement
					m := layouts[bi][g]
					if m.Dir != "c2s" || m.Typ != "DATA" || m.K < 12 || (g%2 == 1 && !thorough) {
						continue
					}
					jobs = append(jobs, job{bi, e2ePause{G: g, Phase: "after", ResumeMs: 400, Cycles: 1}, nil})
					continue
				}
				for pi, ph := range []string{"before", "after"} {
					// every message gets the two short delays on alternating phases; long ones are sampled
					jobs = append(jobs, job{bi, e2ePause{G: g, Phase: ph, ResumeMs: delays[pi], Cycles: 1}, nil})
					if (g+pi)%3 == 0 || thorough {
						jobs = append(jobs, job{bi, e2ePause{G: g, Phase: ph, ResumeMs: delays[2+(g+pi)%2], Cycles: 1}, nil})
					}
					if (g+pi)%5 == 0 {
						jobs = append(jobs, job{bi, e2ePause{G: g, Phase: ph, ResumeMs: tmo / 6, Cycles: 3}, nil})
					}
				}
			}
		}
		tr, err := vNewTrace(d.path("obs.ndjson"))
		if err != nil {
			return err
		}
		var details []map[string]any
		for ji := si; ji < len(jobs); ji += n {
			if ji <= vResumeAfter() {
				continue
			}
			j := jobs[ji]
			cc := *bases[j.base]
			cc.ID = ji
			pa := j.pause
			cc.Plan.Pause = &pa
			cc.Plan.Silence = j.silence
			_, detail, err := e2eExec(&cc, e2eWorkDir(base, cc.ID), tr, false)
			if err != nil {
				return err
			}
			details = append(details, map[string]any{"case": &cc, "entries": detail["entries"],
				"client_err": detail["client_err"], "server_err": detail["server_err"], "hung": detail["hung"]})
			os.RemoveAll(e2eWorkDir(base, cc.ID))
			d.add("runs", 1)
			if e2eTainted {
				vRequestRestart(d, ji)
				break
			}
		}
		d.set("jobs_total", len(jobs))
		if err := tr.Close(); err != nil {
			return err
		}
		return vWriteJSON(d.path("details.json"), details)
	})
}
