//go:build verif

package trzsz

// C13 driver: a real TrzszRelay on harness pipes, chunk streams of unique payload bytes around
// a real handshake (trigger, ACT, CFG, end marker), seeded random delays at every hook point of
// relay.go (vhook) to perturb the interleaving of wrapInput / wrapOutput / handshake; records
// feed / hook / deliver / quiet events for RelayTrace.tla.

import (
	"bytes"
	"encoding/json"
	"fmt"
	"io"
	"math/rand"
	"os"
	"runtime"
	"sync"
	"sync/atomic"
	"time"
)

func init() { vRegister("c13_relay", c13Relay) }

const (
	c13ACT  = -1
	c13CFG  = -2
	c13TRIG = -3
	c13END  = -4
	c13FAIL = -5
	c13BADACT = -6
	c13BADCFG = -7
)

// chanReader: Read blocks until the driver hands a chunk over; chunk boundaries are preserved.
type c13Chunk struct {
	b []byte
	u []int
}

type c13Reader struct {
	ch     chan c13Chunk
	onRead func(u []int)
}

func (r *c13Reader) Read(p []byte) (int, error) {
	c, ok := <-r.ch
	if !ok {
		return 0, io.EOF
	}
	n := copy(p, c.b)
	if r.onRead != nil {
		r.onRead(c.u)
	}
	return n, nil
}

type c13Writer struct {
	gate  atomic.Pointer[chan struct{}] // when set: Write blocks until the channel is closed (a slow drain)
	mu    sync.Mutex
	to    string
	carry []byte
	emit  func(to string, toks []int)
	seen  map[int]bool
	cond  *sync.Cond
}

func (w *c13Writer) Close() error { return nil }

// Write tokenises what the relay delivers: payload bytes (>= 0x80) are tokens themselves, an
// ASCII run up to '\n' is classified as trigger / ACT / CFG / EXIT / FAIL line.
func (w *c13Writer) Write(p []byte) (int, error) {
	if g := w.gate.Load(); g != nil {
		<-*g
	}
	w.mu.Lock()
	defer w.mu.Unlock()
	data := append(w.carry, p...)
	w.carry = nil
	var toks []int
	i := 0
	for i < len(data) {
		if data[i] >= 0x80 {
			toks = append(toks, int(data[i]))
			i++
			continue
		}
		j := i
		for j < len(data) && data[j] < 0x80 && data[j] != '\n' {
			j++
		}
		if j >= len(data) || data[j] != '\n' {
			if j < len(data) { // a payload byte inside an unterminated ASCII run: emit the run as unknown
				toks = append(toks, c13Classify(data[i:j]))
				i = j
				continue
			}
			w.carry = append([]byte(nil), data[i:]...)
			break
		}
		toks = append(toks, c13Classify(data[i:j+1]))
		i = j + 1
	}
	if len(toks) > 0 {
		w.emit(w.to, toks)
		for _, t := range toks {
			w.seen[t] = true
		}
		w.cond.Broadcast()
	}
	return len(p), nil
}

// c13Classify maps a delivered ASCII line to its token; round 2 items are token - 10.  The round is
// read from what survives the relay's rewriting: the trigger's id, the ACT's "lang", the CFG's
// "timeout", the EXIT text.
func c13Classify(line []byte) int {
	round := func(second bool, tok int) int {
		if second {
			return tok - 10
		}
		return tok
	}
	payload := func(typ string) []byte {
		i := bytes.Index(line, []byte("#"+typ+":"))
		if i < 0 {
			return nil
		}
		dec, err := decodeString(string(bytes.TrimRight(line[i+len(typ)+2:], "\r\n")))
		if err != nil {
			return nil
		}
		return dec
	}
	switch {
	case bytes.Contains(line, []byte("::TRZSZ:TRANSFER:")):
		return round(bytes.Contains(line, []byte(":R:1.1.9:")), c13TRIG)
	case bytes.Contains(line, []byte("#ACT:")):
		return round(bytes.Contains(payload("ACT"), []byte(`"lang":"go2"`)), c13ACT)
	case bytes.Contains(line, []byte("#CFG:")):
		return round(bytes.Contains(payload("CFG"), []byte(`"timeout":21`)), c13CFG)
	case bytes.Contains(line, []byte("#EXIT:")):
		return round(bytes.Contains(payload("EXIT"), []byte("bye2")), c13END)
	case bytes.Contains(line, []byte("#FAIL:")) || bytes.Contains(line, []byte("#fail:")):
		return c13FAIL
	}
	return -9
}

func c13Render(toks []int, uid int64, confirm bool) []byte {
	var b bytes.Buffer
	for _, t := range toks {
		second := t <= -11
		k := t
		if second {
			k = t + 10
		}
		switch k {
		case c13TRIG:
			ver := "1.1.8"
			if second {
				ver = "1.1.9"
			}
			b.WriteString(fmt.Sprintf("::TRZSZ:TRANSFER:R:%s:%013d:0\r\n", ver, uid+map[bool]int64{false: 0, true: 100}[second]))
		case c13ACT:
			lang := "go"
			if second {
				lang = "go2"
			}
			act, _ := json.Marshal(&transferAction{Lang: lang, Version: "1.1.8", Confirm: confirm, Newline: "\n", Protocol: 4,
				SupportBinary: true, SupportDirectory: true})
			b.WriteString("#ACT:" + encodeString(string(act)) + "\n")
		case c13CFG:
			tmo := 20
			if second {
				tmo = 21
			}
			b.WriteString("#CFG:" + encodeString(fmt.Sprintf(`{"lang":"go","bufsize":10485760,"timeout":%d,"protocol":4}`, tmo)) + "\n")
		case c13END:
			txt := "bye"
			if second {
				txt = "bye2"
			}
			b.WriteString("#EXIT:" + encodeString(txt) + "\n")
		case c13BADACT:
			b.WriteString("#ACT:%%%%\n")
		case c13BADCFG:
			b.WriteString("#CFG:%%%%\n")
		default:
			b.WriteByte(byte(t))
		}
	}
	return b.Bytes()
}

type c13Scenario struct {
	Cli     [][]int `json:"cli"`
	Srv     [][]int `json:"srv"`
	Confirm bool    `json:"confirm"`
	// Stale: both ends write an end marker for the first transfer; the server side drains slowly, so that
	// the relay's input reader (status "transferring" loaded, chunk with the end marker in hand) is held up
	// in front of its reset until the second transfer's handshake is under way
	Stale bool `json:"stale,omitempty"`
}

// c13Gen draws a scenario: plain chunks before / racing / straddling / after the ACT and CFG lines.
func c13Gen(r *rand.Rand) c13Scenario {
	next := 128
	plain := func(n int) []int {
		var t []int
		for i := 0; i < n && next < 250; i++ {
			t = append(t, next)
			next++
		}
		return t
	}
	chunks := func(k, maxLen int) [][]int {
		var res [][]int
		for i := 0; i < k; i++ {
			if c := plain(1 + r.Intn(maxLen)); len(c) > 0 {
				res = append(res, c)
			}
		}
		return res
	}
	with := func(tok int) []int {
		c := plain(r.Intn(3))
		c = append(c, tok)
		return append(c, plain(r.Intn(3))...)
	}
	s := c13Scenario{Confirm: r.Intn(6) != 0}
	outcome := "ok"
	if s.Confirm {
		switch r.Intn(8) {
		case 0:
			outcome = "badact"
		case 1, 2:
			outcome = "badcfg"
		}
	}
	act := c13ACT
	if outcome == "badact" {
		act = c13BADACT
	}
	s.Cli = append(s.Cli, chunks(r.Intn(4), 3)...)
	s.Cli = append(s.Cli, with(act))
	s.Cli = append(s.Cli, chunks(r.Intn(4), 3)...)
	s.Srv = append(s.Srv, chunks(r.Intn(3), 3)...)
	s.Srv = append(s.Srv, with(c13TRIG))
	s.Srv = append(s.Srv, chunks(r.Intn(3), 3)...)
	if s.Confirm && outcome != "badact" {
		cfg := c13CFG
		if outcome == "badcfg" {
			cfg = c13BADCFG
		}
		s.Srv = append(s.Srv, with(cfg))
		s.Srv = append(s.Srv, chunks(r.Intn(4), 3)...)
	}
	if s.Confirm && outcome == "ok" {
		s.Cli = append(s.Cli, with(c13END))
		s.Cli = append(s.Cli, chunks(r.Intn(2), 2)...)
		if r.Intn(3) == 0 { // a second transfer through the same relay
			if r.Intn(2) == 0 && next < 225 {
				s.Stale = true
				// eleven one-token chunks in front of the END chunk: enough to fill the relay's channel towards
				// the (held) server writer, so that the END chunk's hand-over blocks
				ei := -1
				for i := len(s.Cli) - 1; i >= 0 && ei < 0; i-- {
					for _, t := range s.Cli[i] {
						if t == c13END {
							ei = i
						}
					}
				}
				var fill [][]int
				for i := 0; i < 11; i++ {
					fill = append(fill, plain(1))
				}
				s.Cli = append(append(append([][]int(nil), s.Cli[:ei]...), fill...), s.Cli[ei:]...)
				s.Srv = append(s.Srv, with(c13END)) // the server's own end marker for the first transfer
			}
			s.Srv = append(s.Srv, with(c13TRIG-10))
			if s.Stale {
				s.Srv = append(s.Srv, plain(1)) // parked while the held-up reset is still to come
			}
			s.Cli = append(s.Cli, with(c13ACT-10))
			s.Srv = append(s.Srv, with(c13CFG-10))
			s.Srv = append(s.Srv, chunks(r.Intn(2), 2)...)
			s.Cli = append(s.Cli, with(c13END-10))
			s.Cli = append(s.Cli, chunks(r.Intn(2), 2)...)
		}
	}
	return s
}

// c13LineAt: index of the first transfer's well-formed ACT (client side) / CFG (server side) token in the chunk, or -1
func c13LineAt(c []int, side string) int {
	want := c13ACT
	if side == "s" {
		want = c13CFG
	}
	for i, t := range c {
		if t == want {
			return i
		}
	}
	return -1
}

var splitLines atomic.Int64

func c13Run(tr *vTrace, id int, sc c13Scenario, seed int64) (ok bool) {
	rng := rand.New(rand.NewSource(seed))
	var rmu sync.Mutex
	rnd := func(n int) int {
		rmu.Lock()
		defer rmu.Unlock()
		return rng.Intn(n)
	}
	uid := (time.Now().UnixMilli()%1e10)*100 + int64(id%100)*1 + 0 // 13 digits ending in 00..99
	uid = uid / 100 * 100                                           // suffix 00: a plain (non-tmux, non-Windows) server
	tr.Emit(map[string]any{"e": "reset", "run": id, "confirm": sc.Confirm}, nil)

	var flushes atomic.Int32
	verifHook = func(point string, args ...int) {
		if point == "relay.flush.done" {
			defer flushes.Add(1)
		}
		a := make([]int, len(args))
		copy(a, args)
		if len(a) == 0 {
			a = []int{-1}
		}
		tr.Emit(map[string]any{"e": "hook", "run": id, "p": point, "a": a}, nil)
		switch rnd(6) {
		case 0:
			time.Sleep(time.Duration(rnd(300)) * time.Microsecond)
		case 1:
			time.Sleep(time.Duration(rnd(3)) * time.Millisecond)
		case 2, 3:
			for i := rnd(4); i > 0; i-- {
				runtime.Gosched()
			}
		}
	}
	defer func() { verifHook = nil }()

	var mu sync.Mutex
	cond := sync.NewCond(&mu)
	seenS, seenC := map[int]bool{}, map[int]bool{}
	emit := func(to string, toks []int) {
		tr.Emit(map[string]any{"e": "deliver", "run": id, "to": to, "u": toks}, nil)
	}
	toServer := &c13Writer{to: "s", emit: emit, seen: seenS, cond: cond}
	toClient := &c13Writer{to: "c", emit: emit, seen: seenC, cond: cond}
	cin := &c13Reader{ch: make(chan c13Chunk)}
	sout := &c13Reader{ch: make(chan c13Chunk)}
	// the feed event is emitted when the relay's Read takes the chunk
	cin.onRead = func(u []int) {
		tr.Emit(map[string]any{"e": "feed", "run": id, "side": "c", "u": u}, nil)
	}
	sout.onRead = func(u []int) {
		tr.Emit(map[string]any{"e": "feed", "run": id, "side": "s", "u": u}, nil)
	}
	relay := NewTrzszRelay(cin, toClient, toServer, sout, TrzszOptions{})
	waitFlush := func(n int) bool {
		for deadline := time.Now().Add(10 * time.Second); time.Now().Before(deadline); time.Sleep(200 * time.Microsecond) {
			if int(flushes.Load()) >= n {
				return true
			}
		}
		return false
	}
	waitStandby := func() bool {
		for deadline := time.Now().Add(10 * time.Second); time.Now().Before(deadline); time.Sleep(200 * time.Microsecond) {
			if relay.relayStatus.Load() == kRelayStandBy {
				return true
			}
		}
		return false
	}

	waitSeen := func(w *c13Writer, tok int, d time.Duration) bool {
		deadline := time.Now().Add(d)
		for {
			w.mu.Lock()
			ok := w.seen[tok]
			w.mu.Unlock()
			if ok {
				return true
			}
			if time.Now().After(deadline) {
				return false
			}
			time.Sleep(200 * time.Microsecond)
		}
	}
	has := func(c []int, tok int) bool {
		for _, t := range c {
			if t == tok {
				return true
			}
		}
		return false
	}
	// the stale-reset schedule (sc.Stale): see c13Scenario
	staleFrom, staleOpenAfter := -1, -1
	var gate chan struct{}
	var gateOnce sync.Once
	openGate := func() {
		gateOnce.Do(func() {
			if gate != nil {
				close(gate)
				toServer.gate.Store(nil)
			}
		})
	}
	defer openGate()
	var endRead, staleGiveUp atomic.Bool
	if sc.Stale {
		for i, c := range sc.Cli {
			if has(c, c13END) {
				staleFrom = i - 11
			}
		}
		for i, c := range sc.Srv {
			if has(c, c13TRIG-10) {
				staleOpenAfter = i + 1
			}
		}
		prev := cin.onRead
		cin.onRead = func(u []int) {
			prev(u)
			if has(u, c13END) {
				endRead.Store(true)
			}
		}
	}
	var wg sync.WaitGroup
	feed := func(side string, rd *c13Reader, chunks [][]int) {
		defer wg.Done()
		for ci, c := range chunks {
			if sc.Stale && side == "c" && ci == staleFrom {
				// the first transfer is running (handshake flushed) before the server starts to drain slowly
				if !(waitSeen(toClient, c13CFG, 5*time.Second) && waitFlush(1)) {
					return
				}
				// everything the client fed so far has reached the server: the writer is idle, so that exactly
				// the eleven fillers fit (one in the writer's hands, ten in the channel)
				drained := true
				lastTok, afterAct := -1, false
				for _, pc := range chunks[:ci] {
					for _, t := range pc {
						if t == c13ACT {
							afterAct = true
						} else if t >= 128 && afterAct {
							lastTok = t // what precedes the ACT line may be consumed as junk and never come out
						}
					}
				}
				if lastTok >= 0 {
					drained = waitSeen(toServer, lastTok, 3*time.Second)
				}
				time.Sleep(time.Millisecond)
				if drained {
					gate = make(chan struct{})
					toServer.gate.Store(&gate)
				}
			}
			// causality: the client answers the trigger it saw; the server answers the ACT it received;
			// a transfer ends (and a second one starts) only after the handshake worker has finished
			for _, t := range c {
				second := t <= -11
				k := t
				off := 0
				if second {
					k, off = t+10, -10
				}
				ok := true
				switch k {
				case c13ACT, c13BADACT:
					ok = waitSeen(toClient, c13TRIG+off, 5*time.Second)
				case c13CFG, c13BADCFG:
					ok = waitSeen(toServer, c13ACT+off, 5*time.Second)
				case c13END:
					ok = waitSeen(toClient, c13CFG+off, 5*time.Second) && waitFlush(1+map[bool]int{false: 0, true: 1}[second])
					if ok && sc.Stale && side == "s" && !second {
						// the server's marker comes while the client's is held up inside the relay's input reader
						for dl := time.Now().Add(3 * time.Second); !endRead.Load() && time.Now().Before(dl); {
							time.Sleep(200 * time.Microsecond)
						}
						if !endRead.Load() { // the schedule did not come about: carry on as an ordinary two-transfer run
							openGate()
							staleGiveUp.Store(true)
							ok = waitSeen(toServer, c13END, 5*time.Second)
						}
						time.Sleep(3 * time.Millisecond)
					}
				case c13TRIG:
					if second && sc.Stale && !staleGiveUp.Load() {
						ok = waitStandby()
					} else if second {
						ok = waitSeen(toServer, c13END, 5*time.Second) && waitStandby()
					}
				}
				if !ok {
					return
				}
			}
			switch rnd(5) {
			case 0:
				time.Sleep(time.Duration(rnd(500)) * time.Microsecond)
			case 1:
				time.Sleep(time.Duration(rnd(2)) * time.Millisecond)
			}
			// now and then the transport cuts the ACT / CFG line right in front of its line feed: the model's chunks are
			// [tokens in front of the line] and [line, tokens behind it]; the bytes of the line lie across both reads
			if ai := c13LineAt(c, side); ai > 0 && ai < len(c)-1 && !sc.Stale && rnd(3) == 0 {
				line := c13Render(c[ai:ai+1], uid, sc.Confirm)
				a := append(c13Render(c[:ai], uid, sc.Confirm), line[:len(line)-1]...)
				b := append([]byte("\n"), c13Render(c[ai+1:], uid, sc.Confirm)...)
				rd.ch <- c13Chunk{a, c[:ai]}
				rd.ch <- c13Chunk{b, c[ai:]}
				splitLines.Add(1)
			} else {
				rd.ch <- c13Chunk{c13Render(c, uid, sc.Confirm), c}
			}
			if sc.Stale && side == "s" && ci == staleOpenAfter {
				time.Sleep(30 * time.Millisecond) // the chunk behind the second trigger is parked by now
				openGate()
			}
		}
	}
	wg.Add(2)
	go feed("c", cin, sc.Cli)
	go feed("s", sout, sc.Srv)
	done := make(chan struct{})
	go func() { wg.Wait(); close(done) }()
	select {
	case <-done:
	case <-time.After(20 * time.Second):
		tr.Emit(map[string]any{"e": "stuck", "run": id}, nil)
		return false
	}
	// wait until the last fed payload tokens came out (or 3 s), then declare the run quiet
	last := func(chunks [][]int) int {
		for i := len(chunks) - 1; i >= 0; i-- {
			for j := len(chunks[i]) - 1; j >= 0; j-- {
				return chunks[i][j]
			}
		}
		return 0
	}
	lc, ls := last(sc.Cli), last(sc.Srv)
	// the handshake worker has finished its flush (resetToStandby may spend a while in tmux refresh-client)
	nhs := 1
	for _, c := range sc.Srv {
		if has(c, c13TRIG-10) {
			nhs = 2
		}
	}
	waitFlush(nhs)
	waitSeen(toServer, lc, 3*time.Second)
	waitSeen(toClient, ls, 3*time.Second)
	time.Sleep(3 * time.Millisecond)
	tr.Emit(map[string]any{"e": "quiet", "run": id}, nil)
	close(cin.ch)
	close(sout.ch)
	return true
}

func c13Relay(d *vCtx) error {
	total := d.pInt("runs", 600)
	shards := d.pInt("shards", 32)
	return vShards(d, shards, func(si, n int) error {
		_ = os.Unsetenv("TMUX")
		devnull, _ := os.OpenFile(os.DevNull, os.O_WRONLY, 0)
		os.Stdout = devnull
		tr, err := vNewTrace(d.path("trace.ndjson"))
		if err != nil {
			return err
		}
		var scs []map[string]any
		for id := si; id < total; id += n {
			r := rand.New(rand.NewSource(d.seed*7919 + int64(id)))
			sc := c13Gen(r)
			ok := c13Run(tr, id, sc, d.seed*104729+int64(id))
			scs = append(scs, map[string]any{"id": id, "scenario": sc, "ok": ok})
			d.add("runs", 1)
			if !ok {
				d.add("stuck", 1)
				break // goroutines of the stuck relay may still fire hooks: do not record further runs here
			}
		}
		d.add("lines_cut_before_lf", int(splitLines.Load()))
		if err := tr.Close(); err != nil {
			return err
		}
		return vWriteJSON(d.path("scenarios.json"), scs)
	})
}
