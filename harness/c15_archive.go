//go:build verif

package trzsz

// C15 drivers: a directory sent as one archive stream (archive.go).
//   c15_tv   real executions of checkPathsReadable -> archiveSourceFiles -> newArchiveReader.Read
//            -> bytes -> archiveFileWriter.Write driven by the real writeAll, recorded as ndjson for
//            spec/ArchiveTrace.tla (small boundary-biased trees, random large trees, many-entry
//            trees for descriptor growth, source files changing length).
//   c15_mbt  behaviours exported by TLC from spec/ArchiveGen.tla materialised on disk and replayed
//            call by call (read sizes / write segments mapped onto the real header lengths).
// The drivers record what the code did; ArchiveTrace / the comparison with the exported behaviour
// decide.  Trees live under /dev/shm and are removed after every run.

import (
	"bufio"
	"bytes"
	"crypto/sha256"
	"encoding/json"
	"fmt"
	"io"
	"math/rand"
	"os"
	"path/filepath"
	"runtime"
	"runtime/debug"
	"sort"
	"strings"
	"syscall"
	"time"
)

func init() {
	vRegister("c15_tv", c15TV)
	vRegister("c15_mbt", c15MBT)
	vRegister("c15_replay", c15Replay)
	vRegister("c15_limits", c15Limits)
}

// ---------------------------------------------------------------- trees

type c15Node struct {
	Dir     bool
	Name    string
	Parent  int // index into Nodes, -1 = the archive root directory
	Content []byte
}

type c15Tree struct {
	Top   string
	Nodes []c15Node // parents before children
}

func (t *c15Tree) rel(i int) []string {
	var r []string
	for j := i; j >= 0; j = t.Nodes[j].Parent {
		r = append([]string{t.Nodes[j].Name}, r...)
	}
	return append([]string{t.Top}, r...)
}

var c15Names = []string{"a", "b.txt", "中文", "文件2", "ünï cödé", "emoji😀", " sp ace ", "-dash", "q\"uo\\te", "li\nne",
	"Ω", "файл", "ファイル", "x.tar.gz", "#hash", "~tilde", "per%cent", "tab\there", "한글", "עברית",
	// code points whose low byte is '/' (0x2F), '\\' (0x5C), '.' (0x2E) or NUL: a name check must work on
	// the encoded name, not on truncated runes
	"me\u012fl\u0117", "\u592f\u5b9e", "\u4e2f", "\u015c\u015d", "\u4e5c", "\u012e\u022e", "\u0100\u0200"}

func c15Name(rng *rand.Rand, i int) string {
	return fmt.Sprintf("%s%d", c15Names[rng.Intn(len(c15Names))], i)
}

func c15Content(rng *rand.Rand, n int) []byte {
	b := make([]byte, n)
	mode := rng.Intn(3)
	for i := range b {
		switch {
		case mode == 0 || rng.Intn(4) == 0:
			b[i] = '\n'
		case mode == 1:
			b[i] = byte(rng.Intn(256))
		default:
			b[i] = "AQz=/+{}\":,0\r"[rng.Intn(13)]
		}
	}
	if mode == 1 && n > 0 {
		rng.Read(b)
		b[0] = '\n'
		b[n-1] = '\n'
	}
	return b
}

func c15Materialise(srcBase string, t *c15Tree) (string, error) {
	root := filepath.Join(srcBase, t.Top)
	if err := os.MkdirAll(root, 0755); err != nil {
		return "", err
	}
	for i, nd := range t.Nodes {
		p := filepath.Join(append([]string{srcBase}, t.rel(i)...)...)
		if nd.Dir {
			if err := os.Mkdir(p, 0755); err != nil {
				return "", err
			}
		} else if err := os.WriteFile(p, nd.Content, 0644); err != nil {
			return "", err
		}
	}
	return root, nil
}

// ---------------------------------------------------------------- descriptors

// c15Fds counts the descriptors of this process that refer to regular files below the source
// tree (producer side) and below the destination (consumer side).  Directory handles (the scan
// leaves those to the garbage collector) are not entry files and are counted separately.
//
// The listing itself must not need a fresh descriptor (the process may have none left): one handle
// on /proc/self/fd is opened at first use and rewound for every listing.
var c15FdDir *os.File

func c15Fds(srcBase, dstBase string) (r, w, dirs int) {
	if c15FdDir == nil {
		f, err := os.Open("/proc/self/fd")
		if err != nil {
			return -1, -1, -1
		}
		c15FdDir = f
	}
	if _, err := c15FdDir.Seek(0, 0); err != nil {
		return -1, -1, -1
	}
	names, err := c15FdDir.Readdirnames(-1)
	if err != nil {
		return -1, -1, -1
	}
	for _, name := range names {
		tgt, err := os.Readlink("/proc/self/fd/" + name)
		if err != nil {
			continue
		}
		tgt = strings.TrimSuffix(tgt, " (deleted)")
		isSrc := strings.HasPrefix(tgt, srcBase+"/")
		isDst := strings.HasPrefix(tgt, dstBase+"/")
		if !isSrc && !isDst {
			continue
		}
		if st, err := os.Lstat(tgt); err == nil && st.IsDir() {
			dirs++
			continue
		}
		if isSrc {
			r++
		} else {
			w++
		}
	}
	return
}

// ---------------------------------------------------------------- one session on the real code

type c15Call struct {
	Len, N     int
	Err        string
	RFds, WFds int
}

// c15LogWriter sits between writeAll and the archive writer and records every Write call.  With
// a gate installed (MBT replay of pipelined behaviours) each call waits for the replayer's
// go-ahead and is reported back on done, so that the model's interleaving of Write calls with the
// producer's calls is the one that happens.
type c15LogWriter struct {
	s     *c15Sess
	inner io.Writer
	calls []c15Call
	zero  int
	gate  chan bool // false = give up
	done  chan c15Call
}

func (l *c15LogWriter) Write(p []byte) (int, error) {
	if l.gate != nil {
		if !<-l.gate {
			return 0, fmt.Errorf("c15: replay abandoned")
		}
	}
	n, err := l.write(p)
	if l.done != nil {
		l.done <- l.calls[len(l.calls)-1]
	}
	return n, err
}

func (l *c15LogWriter) write(p []byte) (int, error) {
	n, err := l.inner.Write(p)
	c := c15Call{Len: len(p), N: n}
	if err != nil {
		c.Err = err.Error()
	}
	c.RFds, c.WFds, _ = c15Fds(l.s.srcBase, l.s.dstBase)
	l.calls = append(l.calls, c)
	if n == 0 && err == nil {
		l.zero++
		if l.zero > 1000 {
			return 0, fmt.Errorf("c15: Write made no progress in 1000 calls")
		}
	} else {
		l.zero = 0
	}
	return n, err
}

type c15Sess struct {
	base, srcBase, dstBase, root string
	tree                         *c15Tree
	st, rt                       *trzszTransfer
	arch                         *sourceFile
	subs                         []*sourceFile
	node                         []int // node index of subs[i]
	parent                       []int // 1-based index into subs of the parent, 0 = root
	hdrLen                       []int
	starts                       []int64 // stream position of each entry's header; [len] = total
	canon                        []byte
	reader                       fileReader
	writer                       fileWriter
	lw                           *c15LogWriter
	local                        string
	produced                     []byte
	wpos                         int
	scanDirFds                   int
}

func (s *c15Sess) payStart(i int) int64 { return s.starts[i] + int64(s.hdrLen[i]) + 1 }
func (s *c15Sess) end(i int) int64      { return s.starts[i+1] }

// c15Open materialises the tree, scans it with the real checkPathsReadable, groups it with the
// real archiveSourceFiles and creates the real reader and writer.  order (optional) lists node
// indices: the scan result is permuted into that (pre-)order; nil keeps the scan's own order.
func c15Open(base string, tree *c15Tree, order []int) (*c15Sess, error) {
	s := &c15Sess{base: base, srcBase: filepath.Join(base, "src"), dstBase: filepath.Join(base, "dst"), tree: tree}
	if err := os.MkdirAll(s.dstBase, 0755); err != nil {
		return nil, err
	}
	root, err := c15Materialise(s.srcBase, tree)
	if err != nil {
		return nil, err
	}
	s.root = root
	list, err := checkPathsReadable([]string{root}, true)
	if err != nil {
		return nil, fmt.Errorf("checkPathsReadable: %v", err)
	}
	_, _, s.scanDirFds = c15Fds(s.srcBase, s.dstBase)
	s.st = newTransfer(nil, nil, false, nil)
	s.st.transferConfig.Overwrite = false
	s.st.transferConfig.Protocol = kProtocolVersion4
	arch := s.st.archiveSourceFiles(list)
	if len(arch) != 1 || len(arch[0].SubFiles) != len(tree.Nodes) {
		return nil, fmt.Errorf("archiveSourceFiles: %d archives, %d sub files, want 1 and %d", len(arch), len(arch[0].SubFiles), len(tree.Nodes))
	}
	s.arch = arch[0]
	byRel := map[string]int{}
	for i := range tree.Nodes {
		byRel[strings.Join(tree.rel(i), "\x00")] = i
	}
	subOf := map[int]*sourceFile{}
	for _, f := range s.arch.SubFiles {
		i, ok := byRel[strings.Join(f.RelPath, "\x00")]
		if !ok {
			return nil, fmt.Errorf("scan returned unknown path %q", f.RelPath)
		}
		subOf[i] = f
	}
	if order != nil {
		subs := make([]*sourceFile, 0, len(order))
		for _, i := range order {
			subs = append(subs, subOf[i])
		}
		s.arch.SubFiles = subs
	}
	s.subs = s.arch.SubFiles
	pos1 := map[int]int{}
	for k, f := range s.subs {
		i := byRel[strings.Join(f.RelPath, "\x00")]
		s.node = append(s.node, i)
		pos1[i] = k + 1
	}
	for _, i := range s.node {
		p := tree.Nodes[i].Parent
		if p < 0 {
			s.parent = append(s.parent, 0)
		} else {
			s.parent = append(s.parent, pos1[p])
		}
	}
	s.reader, err = s.st.newArchiveReader(s.arch)
	if err != nil {
		return nil, fmt.Errorf("newArchiveReader: %v", err)
	}
	var canon bytes.Buffer
	for k, f := range s.subs {
		s.starts = append(s.starts, int64(canon.Len()))
		s.hdrLen = append(s.hdrLen, len(f.Header))
		canon.WriteString(f.Header)
		canon.WriteByte('\n')
		if !f.IsDir {
			canon.Write(tree.Nodes[s.node[k]].Content)
		}
	}
	s.starts = append(s.starts, int64(canon.Len()))
	s.canon = canon.Bytes()
	// receiver side, as recvFileName does: the archive's own header line creates the writer
	src, err := s.arch.marshalSourceFile()
	if err != nil {
		return nil, err
	}
	rsrc, err := unmarshalSourceFile(src)
	if err != nil {
		return nil, err
	}
	s.rt = newTransfer(nil, nil, false, nil)
	s.rt.transferConfig.Overwrite = false
	s.rt.transferConfig.Protocol = kProtocolVersion4
	s.writer, s.local, err = s.rt.createDirOrFile(s.dstBase, rsrc, true)
	if err != nil {
		return nil, fmt.Errorf("createDirOrFile(archive): %v", err)
	}
	if _, ok := s.writer.(*archiveFileWriter); !ok {
		return nil, fmt.Errorf("createDirOrFile returned %T, want *archiveFileWriter", s.writer)
	}
	s.lw = &c15LogWriter{s: s, inner: s.writer}
	return s, nil
}

type c15RdRes struct {
	got int
	res string // ok | eof | err | hang
	msg string
}

// read calls the real Read once (watchdog: a Read of at most a few buffers from tmpfs that does not
// return within 30 s is recorded as "hang").
func (s *c15Sess) read(n int) c15RdRes {
	buf := make([]byte, n)
	ch := make(chan c15RdRes, 1)
	go func() {
		got, err := s.reader.Read(buf)
		r := c15RdRes{got: got, res: "ok"}
		if err == io.EOF {
			r.res = "eof"
		} else if err != nil {
			r.res, r.msg = "err", err.Error()
		}
		ch <- r
	}()
	select {
	case r := <-ch:
		if r.got > 0 && r.got <= n {
			s.produced = append(s.produced, buf[:r.got]...)
		}
		return r
	case <-time.After(30 * time.Second):
		return c15RdRes{res: "hang"}
	}
}

// writeSeg hands produced[wpos:wpos+n] to the real writeAll over the logging writer.
func (s *c15Sess) writeSeg(n int) ([]c15Call, error) {
	s.lw.calls = nil
	s.lw.zero = 0
	err := writeAll(s.lw, s.produced[s.wpos:s.wpos+n])
	s.wpos += n
	return s.lw.calls, err
}

func (s *c15Sess) badBytes() int {
	bad := 0
	for i, b := range s.produced {
		if i >= len(s.canon) || s.canon[i] != b {
			bad++
		}
	}
	return bad
}

func c15ErrClass(msg string) string {
	switch {
	case msg == "":
		return ""
	case strings.Contains(msg, "too many open files"):
		return "emfile"
	case strings.Contains(msg, "EOF but left"):
		return "eof-left"
	case strings.Contains(msg, "Open ["):
		return "open"
	case strings.Contains(msg, "Decode archive header"):
		return "decode"
	case strings.Contains(msg, "no progress"):
		return "no-progress"
	default:
		return "other"
	}
}

type c15Diff struct {
	Missing, Extra, Kind, Size, Sha int
	First                           string
}

func (d *c15Diff) note(what, p string) {
	if d.First == "" {
		d.First = what + ": " + p
	}
}

// diff compares the destination with the tree as it was scanned; limit[k] >= 0 (per entry of
// subs) restricts the expectation for that entry to "file holding the first limit[k] bytes",
// kinds[k] == "none" to "does not exist" (used for partial transfers).
func (s *c15Sess) diff(kinds []string, lens []int) c15Diff {
	var d c15Diff
	droot := filepath.Join(s.dstBase, s.local)
	want := map[string]bool{droot: true}
	for k := range s.subs {
		nd := s.tree.Nodes[s.node[k]]
		p := filepath.Join(append([]string{s.dstBase, s.local}, s.tree.rel(s.node[k])[1:]...)...)
		kind := "file"
		if nd.Dir {
			kind = "dir"
		}
		content := nd.Content
		if kinds != nil {
			if kinds[k] == "none" {
				continue
			}
			if kinds[k] != kind {
				d.Kind++
				d.note("model kind", p)
				continue
			}
			if !nd.Dir {
				content = content[:lens[k]]
			}
		}
		want[p] = true
		st, err := os.Lstat(p)
		if err != nil {
			d.Missing++
			d.note("missing", p)
			continue
		}
		if st.IsDir() != nd.Dir || (!nd.Dir && !st.Mode().IsRegular()) {
			d.Kind++
			d.note("kind", p)
			continue
		}
		if nd.Dir {
			continue
		}
		if st.Size() != int64(len(content)) {
			d.Size++
			d.note(fmt.Sprintf("size %d want %d", st.Size(), len(content)), p)
			continue
		}
		got, err := os.ReadFile(p)
		if err != nil || sha256.Sum256(got) != sha256.Sum256(content) {
			d.Sha++
			d.note("content", p)
		}
	}
	_ = filepath.Walk(s.dstBase, func(p string, info os.FileInfo, err error) error {
		if err == nil && p != s.dstBase && !want[p] {
			d.Extra++
			d.note("extra", p)
		}
		return nil
	})
	return d
}

func (s *c15Sess) cleanup() {
	if s.reader != nil {
		s.reader.Close()
	}
	if s.writer != nil {
		s.writer.Close()
	}
	_ = os.RemoveAll(s.base)
}

// ---------------------------------------------------------------- recorded runs (impl -> spec)

type c15Resize struct {
	ent    int   // 0-based index into subs
	at     int64 // applied before the first Read call with produced >= at
	newLen int64
}

type c15Plan struct {
	kind      string
	pipelined bool
	maxRead   int
	maxWrite  int
	bias      bool                         // aim reads / cuts at structure boundaries
	resizes   func(s *c15Sess) []c15Resize // decided once the layout of the real stream is known
}

// marks: stream positions around which the state machines change mode
func (s *c15Sess) marks() []int64 {
	var m []int64
	for k := range s.subs {
		st, ps, en := s.starts[k], s.payStart(k), s.end(k)
		for _, x := range []int64{st, st + 1, ps - 2, ps - 1, ps, ps + 1, en - 1} {
			if x > 0 {
				m = append(m, x)
			}
		}
	}
	m = append(m, int64(len(s.canon)))
	sort.Slice(m, func(i, j int) bool { return m[i] < m[j] })
	return m
}

func c15PickLen(rng *rand.Rand, pos int64, marks []int64, max int, bias bool) int {
	if bias && rng.Intn(2) == 0 {
		i := sort.Search(len(marks), func(i int) bool { return marks[i] > pos })
		i += rng.Intn(3)
		if i < len(marks) && marks[i]-pos <= int64(max)*4 {
			return int(marks[i] - pos)
		}
	}
	if rng.Intn(4) == 0 {
		return 1 + rng.Intn(8)
	}
	return 1 + rng.Intn(max)
}

// c15Rec records the calls made on one session as events of ArchiveTrace.
type c15Rec struct {
	tr           *vTrace
	s            *c15Sess
	stats        map[string]int
	rstate       string // run | eof | err | hang
	werr         error
	peakW, peakR int
}

func (r *c15Rec) fds() (int, int) {
	rf, wf, _ := c15Fds(r.s.srcBase, r.s.dstBase)
	if wf > r.peakW {
		r.peakW = wf
	}
	if rf > r.peakR {
		r.peakR = rf
	}
	return rf, wf
}

func (r *c15Rec) begin(run int, kind string, pipelined bool) {
	s := r.s
	r.rstate = "run"
	r.tr.Emit(map[string]any{"e": "reset", "run": run, "kind": kind, "entries": len(s.subs), "pipelined": pipelined, "top": s.tree.Top}, nil)
	r.tr.Emit(map[string]any{"e": "scan", "res": "ok", "cls": "", "dirfds": s.scanDirFds}, nil)
	for k, f := range s.subs {
		nd := s.tree.Nodes[s.node[k]]
		ev := map[string]any{"e": "entry", "dir": f.IsDir, "hdr": s.hdrLen[k], "size": int(f.Size), "parent": s.parent[k], "name": nd.Name}
		if !nd.Dir && len(nd.Content) <= 32 {
			ev["content"] = vInts(nd.Content)
		}
		r.tr.Emit(ev, nil)
	}
	r.tr.Emit(map[string]any{"e": "newreader", "announced": int(s.reader.getSize()), "canon": len(s.canon)}, nil)
}

func (r *c15Rec) resize(ent int, newLen int64) error {
	if err := os.Truncate(r.s.subs[ent].AbsPath, newLen); err != nil {
		return err
	}
	r.tr.Emit(map[string]any{"e": "resize", "ent": ent + 1, "len": int(newLen)}, nil)
	r.stats["resizes"]++
	return nil
}

func (r *c15Rec) read(n int) {
	res := r.s.read(n)
	rf, wf := r.fds()
	r.tr.Emit(map[string]any{"e": "rd", "n": n, "got": res.got, "res": res.res, "cls": c15ErrClass(res.msg), "rfds": rf, "wfds": wf}, nil)
	r.stats["rd_calls"]++
	if res.res == "ok" {
		return
	}
	r.rstate = res.res
	switch res.res {
	case "eof":
		r.tr.Emit(map[string]any{"e": "eof", "total": len(r.s.produced), "badbytes": r.s.badBytes()}, nil)
		r.stats["eof_runs"]++
	case "err":
		r.tr.Emit(map[string]any{"e": "abort", "total": len(r.s.produced), "badbytes": r.s.badBytes()}, nil)
		r.stats["err_runs"]++
	}
}

func (r *c15Rec) rclose() {
	_ = r.s.reader.Close()
	rf, wf := r.fds()
	r.tr.Emit(map[string]any{"e": "rclose", "rfds": rf, "wfds": wf}, nil)
}

// write hands the next n produced bytes to writeAll and records every Write call it makes.
func (r *c15Rec) write(n int) {
	r.tr.Emit(map[string]any{"e": "wa", "len": n}, nil)
	calls, err := r.s.writeSeg(n)
	for _, c := range calls {
		res := "ok"
		if c.Err != "" {
			res = "err"
		}
		if c.WFds > r.peakW {
			r.peakW = c.WFds
		}
		r.tr.Emit(map[string]any{"e": "wr", "len": c.Len, "c": c.N, "res": res, "cls": c15ErrClass(c.Err), "rfds": c.RFds, "wfds": c.WFds}, nil)
		r.stats["wr_calls"]++
		if c.N < c.Len {
			r.stats["wr_short"]++
		}
	}
	r.werr = err
}

func (r *c15Rec) wclose() {
	_ = r.s.writer.Close()
	rf, wf := r.fds()
	r.tr.Emit(map[string]any{"e": "wclose", "rfds": rf, "wfds": wf}, nil)
	if r.rstate == "eof" && r.werr == nil && r.s.wpos == len(r.s.produced) {
		d := r.s.diff(nil, nil)
		r.tr.Emit(map[string]any{"e": "treediff", "missing": d.Missing, "extra": d.Extra, "kind": d.Kind, "size": d.Size, "sha": d.Sha, "first": d.First}, nil)
	}
}

// c15Record runs one session to the end under the plan and records it.  An error is a failure
// of the harness itself (never of the code under test).
func c15Record(tr *vTrace, run int, base string, tree *c15Tree, plan c15Plan, rng *rand.Rand, stats map[string]int) error {
	s, err := c15Open(base, tree, nil)
	if err != nil {
		_ = os.RemoveAll(base)
		if c15RealCodeRefusal(err) { // recorded: the trace specification has no such step, the run is rejected
			tr.Emit(map[string]any{"e": "reset", "run": run, "kind": plan.kind, "entries": len(tree.Nodes), "pipelined": plan.pipelined, "top": tree.Top}, nil)
			tr.Emit(map[string]any{"e": "refused", "msg": strings.SplitN(err.Error(), "\n", 2)[0]}, nil)
			return nil
		}
		return err
	}
	defer s.cleanup()
	r := &c15Rec{tr: tr, s: s, stats: stats}
	r.begin(run, plan.kind, plan.pipelined)
	marks := s.marks()
	var resizes []c15Resize
	if plan.resizes != nil {
		resizes = plan.resizes(s)
	}
	doWrites := func(all bool) {
		for s.wpos < len(s.produced) && r.werr == nil {
			avail := len(s.produced) - s.wpos
			n := c15PickLen(rng, int64(s.wpos), marks, plan.maxWrite, plan.bias)
			if n > avail {
				if !all && rng.Intn(2) == 0 {
					return
				}
				n = avail
			}
			r.write(n)
			if !all && rng.Intn(3) == 0 {
				return
			}
		}
	}
	for r.rstate == "run" {
		// source files changing under the producer
		for i := 0; i < len(resizes); i++ {
			rz := resizes[i]
			p := int64(len(s.produced))
			if p < rz.at {
				continue
			}
			// the producer has not finished this file (Archive!SourceResize)
			if p <= s.starts[rz.ent] || (s.subs[rz.ent].Size > 0 && p < s.end(rz.ent)) {
				if err := r.resize(rz.ent, rz.newLen); err != nil {
					return err
				}
			}
			resizes = append(resizes[:i], resizes[i+1:]...)
			i--
		}
		r.read(c15PickLen(rng, int64(len(s.produced)), marks, plan.maxRead, plan.bias))
		if r.rstate == "hang" {
			return nil // the reader goroutine is lost; the trace ends here and is rejected
		}
		if plan.pipelined && rng.Intn(2) == 0 {
			doWrites(false)
		}
	}
	r.rclose()
	doWrites(true)
	if r.werr != nil {
		return nil // the failing Write call is in the trace
	}
	_, beforeClose := r.fds()
	r.wclose()
	if plan.kind == "many" {
		// how much of the excess does the garbage collector give back
		_, afterClose, _ := c15Fds(s.srcBase, s.dstBase)
		runtime.GC()
		time.Sleep(20 * time.Millisecond)
		runtime.GC()
		time.Sleep(20 * time.Millisecond)
		_, afterGC, _ := c15Fds(s.srcBase, s.dstBase)
		files := 0
		for _, f := range s.subs {
			if !f.IsDir {
				files++
			}
		}
		pre := fmt.Sprintf("many%d_", len(s.subs))
		stats[pre+"files"] = files
		stats[pre+"wfds_peak"] = r.peakW
		stats[pre+"wfds_before_close"] = beforeClose
		stats[pre+"wfds_after_close"] = afterClose
		stats[pre+"wfds_after_close_and_gc"] = afterGC
		stats[pre+"rfds_peak"] = r.peakR
		stats[pre+"scan_dir_fds"] = s.scanDirFds
	}
	stats["bytes"] += len(s.produced)
	return nil
}

// c15Replay re-executes the calls of one recorded run (the events of a replay file): the same
// tree (names, kinds, sizes, entry order), the same Read sizes, writeAll segments and resizes in
// the same order, and records what the code does now.
func c15Replay(d *vCtx) error {
	evs, err := vReadNDJSON(d.pStr("run", d.path("run.ndjson")))
	if err != nil {
		return err
	}
	rng := d.rng(17)
	tree := &c15Tree{Top: "replay"}
	for _, ev := range evs {
		switch ev["e"] {
		case "reset":
			if t, ok := ev["top"].(string); ok && t != "" {
				tree.Top = t
			}
		case "entry":
			nd := c15Node{Dir: ev["dir"].(bool), Parent: c15Int(ev["parent"]) - 1}
			nd.Name, _ = ev["name"].(string)
			if nd.Name == "" {
				nd.Name = fmt.Sprintf("e%d", len(tree.Nodes))
			}
			if !nd.Dir {
				if c, ok := ev["content"]; ok {
					nd.Content = vBytes(c)
				} else {
					nd.Content = c15Content(rng, c15Int(ev["size"]))
				}
			}
			tree.Nodes = append(tree.Nodes, nd)
		}
	}
	if len(tree.Nodes) == 0 && len(evs) > 0 && evs[0]["kind"] == "limit-scan" {
		for i := 0; i < c15Int(evs[0]["entries"]); i++ {
			tree.Nodes = append(tree.Nodes, c15Node{Dir: true, Name: fmt.Sprintf("d%d", i), Parent: -1})
		}
	}
	if len(tree.Nodes) == 0 {
		return fmt.Errorf("no entry events in the run")
	}
	root, err := os.MkdirTemp("/dev/shm", "c15rp-")
	if err != nil {
		return err
	}
	defer os.RemoveAll(root)
	tr, err := vNewTrace(d.path("trace-00.ndjson"))
	if err != nil {
		return err
	}
	order := make([]int, len(tree.Nodes))
	for i := range order {
		order[i] = i
	}
	if d.pBool("gcoff", false) {
		defer debug.SetGCPercent(debug.SetGCPercent(-1))
	}
	if nofile := d.pInt("nofile", 0); nofile > 0 {
		var lim syscall.Rlimit
		if err := syscall.Getrlimit(syscall.RLIMIT_NOFILE, &lim); err != nil {
			return err
		}
		orig := lim
		lim.Cur = uint64(nofile)
		if err := syscall.Setrlimit(syscall.RLIMIT_NOFILE, &lim); err != nil {
			return err
		}
		defer syscall.Setrlimit(syscall.RLIMIT_NOFILE, &orig)
	}
	s, err := c15Open(filepath.Join(root, "run"), tree, order)
	if err != nil {
		if strings.HasPrefix(err.Error(), "checkPathsReadable:") {
			msg := strings.SplitN(err.Error(), "\n", 2)[0]
			tr.Emit(map[string]any{"e": "reset", "run": 1, "kind": "replay", "entries": len(tree.Nodes), "pipelined": false, "top": tree.Top}, nil)
			tr.Emit(map[string]any{"e": "scan", "res": "err", "cls": c15ErrClass(msg), "dirfds": -1, "msg": msg}, nil)
			d.set("events", tr.Len())
			return tr.Close()
		}
		return err
	}
	defer s.cleanup()
	stats := map[string]int{}
	r := &c15Rec{tr: tr, s: s, stats: stats}
	r.begin(1, "replay", true)
	rclosed, wclosed := false, false
	for _, ev := range evs {
		switch ev["e"] {
		case "resize":
			if err := r.resize(c15Int(ev["ent"])-1, int64(c15Int(ev["len"]))); err != nil {
				return err
			}
		case "rd":
			if r.rstate == "run" {
				r.read(c15Int(ev["n"]))
			}
		case "rclose":
			if r.rstate != "run" && r.rstate != "hang" && !rclosed {
				r.rclose()
				rclosed = true
			}
		case "wa":
			n := c15Int(ev["len"])
			if avail := len(s.produced) - s.wpos; n > avail {
				n = avail
			}
			if n > 0 && r.werr == nil && !wclosed {
				r.write(n)
			}
		case "wclose":
			if r.werr == nil && !wclosed && r.rstate != "run" && s.wpos == len(s.produced) {
				r.wclose()
				wclosed = true
			}
		}
	}
	for k, v := range stats {
		d.set(k, v)
	}
	d.set("wfds_peak", r.peakW)
	d.set("rfds_peak", r.peakR)
	d.set("events", tr.Len())
	return tr.Close()
}

// random tree: depth <= maxDepth, fan-out <= maxFan, at most maxEntries entries; bushy = wide and
// deep (every second entry a directory, the root full), else sparse
func c15RandomTree(rng *rand.Rand, maxDepth, maxFan, maxEntries int, size func() int, bushy bool) *c15Tree {
	t := &c15Tree{Top: c15Name(rng, rng.Intn(100))}
	var grow func(parent, depth int)
	grow = func(parent, depth int) {
		fan := rng.Intn(maxFan + 1)
		if parent < 0 && (fan == 0 || bushy) {
			fan = maxFan
		}
		for i := 0; i < fan && len(t.Nodes) < maxEntries; i++ {
			idx := len(t.Nodes)
			if depth < maxDepth && ((bushy && rng.Intn(2) == 0) || (!bushy && rng.Intn(3) == 0)) {
				t.Nodes = append(t.Nodes, c15Node{Dir: true, Name: c15Name(rng, idx), Parent: parent})
				grow(idx, depth+1)
			} else {
				t.Nodes = append(t.Nodes, c15Node{Name: c15Name(rng, idx), Parent: parent, Content: c15Content(rng, size())})
			}
		}
	}
	grow(-1, 1)
	return t
}

func c15ManyTree(rng *rand.Rand, n int) *c15Tree {
	t := &c15Tree{Top: fmt.Sprintf("many%d", n)}
	dir := -1
	for i := 0; i < n; i++ {
		if i%25 == 24 {
			t.Nodes = append(t.Nodes, c15Node{Dir: true, Name: fmt.Sprintf("d%d", i), Parent: -1})
			dir = i
		} else {
			t.Nodes = append(t.Nodes, c15Node{Name: fmt.Sprintf("f%d", i), Parent: dir, Content: c15Content(rng, rng.Intn(40))})
		}
	}
	return t
}

// c15TV splits the work over child processes (descriptor counts are per process); every child
// records its share of the runs into its own trace files.
func c15TV(d *vCtx) error {
	return vShards(d, d.pInt("procs", 8), func(i, n int) error { return c15TVShard(d, i, n) })
}

func c15TVShard(d *vCtx, shard, nshards int) error {
	shards := d.pInt("shards", 2)
	share := func(total int) int {
		k := total / nshards
		if shard < total%nshards {
			k++
		}
		return k
	}
	nSmall := share(d.pInt("small", 1200))
	nLarge := share(d.pInt("large", 10))
	nShrink := share(d.pInt("shrink", 300))
	var many []int
	for k, m := range []int{50, 100, 300} {
		if k%nshards == shard {
			many = append(many, m)
		}
	}
	root, err := os.MkdirTemp("/dev/shm", "c15tv-")
	if err != nil {
		root, err = os.MkdirTemp("", "c15tv-")
		if err != nil {
			return err
		}
	}
	defer os.RemoveAll(root)
	traces := make([]*vTrace, shards)
	for i := range traces {
		t, err := vNewTrace(d.path(fmt.Sprintf("trace-%02d.ndjson", i)))
		if err != nil {
			return err
		}
		traces[i] = t
	}
	rng := d.rng(15 + 1000*int64(shard))
	defer debug.SetGCPercent(debug.SetGCPercent(400)) // the zlib writers of encodeString are the only garbage
	stats := map[string]int{}
	run := 0
	next := func() (*vTrace, string) {
		run++
		return traces[run%shards], filepath.Join(root, fmt.Sprintf("run-%d", run))
	}
	smallSize := func() int {
		switch rng.Intn(6) {
		case 0:
			return 0
		case 1:
			return 1
		default:
			return rng.Intn(7)
		}
	}
	// 1. small trees, reads and cuts aimed at the boundaries of the real headers
	for i := 0; i < nSmall; i++ {
		tree := c15RandomTree(rng, 3, 3, 1+rng.Intn(6), smallSize, false)
		plan := c15Plan{kind: "small", pipelined: i%2 == 0, maxRead: []int{1, 3, 7, 60, 150, 150, 400, 400}[rng.Intn(8)],
			maxWrite: []int{1, 3, 7, 60, 150, 150, 400, 2000}[rng.Intn(8)], bias: true}
		if len(tree.Nodes) > 2 { // keep the number of recorded calls bounded
			if plan.maxRead < 60 {
				plan.maxRead = 60
			}
			if plan.maxWrite < 60 {
				plan.maxWrite = 150
			}
		}
		tr, base := next()
		if err := c15Record(tr, run, base, tree, plan, rng, stats); err != nil {
			return fmt.Errorf("small run %d: %v", run, err)
		}
	}
	// 2. random large trees: depth <= 5, fan-out <= 8, files of 1 byte and of several 32 KiB buffers
	bigSize := func() int {
		switch rng.Intn(8) {
		case 0:
			return 0
		case 1:
			return 1
		case 2:
			return 32*1024*(1+rng.Intn(4)) + rng.Intn(3) - 1
		case 3:
			return 32 * 1024
		default:
			return rng.Intn(3000)
		}
	}
	for i := 0; i < nLarge; i++ {
		tree := c15RandomTree(rng, 5, 8, 60+rng.Intn(340), bigSize, true)
		plan := c15Plan{kind: "large", pipelined: i%2 == 0, maxRead: []int{4096, 32 * 1024, 32 * 1024, 100000}[rng.Intn(4)],
			maxWrite: []int{4096, 32 * 1024, 100000}[rng.Intn(3)], bias: true}
		tr, base := next()
		if err := c15Record(tr, run, base, tree, plan, rng, stats); err != nil {
			return fmt.Errorf("large run %d: %v", run, err)
		}
		stats["large_entries"] += len(tree.Nodes)
	}
	// 3. many entries: descriptors in use must not grow with the entry count.  The collector is
	// switched off so that only explicit Close calls release descriptors.
	old := debug.SetGCPercent(-1)
	for _, n := range many {
		tree := c15ManyTree(rng, n)
		plan := c15Plan{kind: "many", maxRead: 4096, maxWrite: 4096}
		tr, base := next()
		if err := c15Record(tr, run, base, tree, plan, rng, stats); err != nil {
			debug.SetGCPercent(old)
			return fmt.Errorf("many run %d: %v", run, err)
		}
	}
	debug.SetGCPercent(old)
	// 4. source files changing length between scan and read / between two reads
	for i := 0; i < nShrink; i++ {
		tree := c15RandomTree(rng, 3, 4, 2+rng.Intn(8), func() int {
			if rng.Intn(4) == 0 {
				return 40000 + rng.Intn(40000)
			}
			return rng.Intn(9)
		}, false)
		var files []int
		for k, nd := range tree.Nodes {
			if !nd.Dir {
				files = append(files, k)
			}
		}
		if len(files) == 0 {
			continue
		}
		victim := files[rng.Intn(len(files))]
		mode := i
		plan := c15Plan{kind: "resize", pipelined: i%2 == 0, maxRead: []int{1, 3, 200, 32 * 1024}[rng.Intn(4)], maxWrite: 4096, bias: rng.Intn(2) == 0}
		total := 0
		for _, nd := range tree.Nodes {
			total += len(nd.Content)
		}
		if total > 4000 { // keep the number of recorded calls bounded
			plan.maxRead = []int{3000, 32 * 1024}[rng.Intn(2)]
		}
		plan.resizes = func(s *c15Sess) []c15Resize {
			ent := -1
			for k, nidx := range s.node {
				if nidx == victim {
					ent = k
				}
			}
			st, ps, en := s.starts[ent], s.payStart(ent), s.end(ent)
			size := int64(len(tree.Nodes[victim].Content))
			var at, newLen int64
			switch mode % 4 {
			case 0: // between scan and first read
				at = 0
			case 1: // while the entries before it are being sent
				at = rng.Int63n(st + 1)
			case 2: // between two reads of the file itself
				at = ps
				if en > ps {
					at = ps + rng.Int63n(en-ps)
				}
			default: // while its header is being sent
				at = st + 1 + rng.Int63n(ps-st)
			}
			switch {
			case size == 0 || rng.Intn(5) == 0:
				newLen = size + 1 + rng.Int63n(5) // grows
			case rng.Intn(3) == 0:
				newLen = 0
			default:
				newLen = rng.Int63n(size)
			}
			return []c15Resize{{ent: ent, at: at, newLen: newLen}}
		}
		tr, base := next()
		if err := c15Record(tr, run, base, tree, plan, rng, stats); err != nil {
			return fmt.Errorf("resize run %d: %v", run, err)
		}
	}
	events := 0
	for _, t := range traces {
		events += t.Len()
		if err := t.Close(); err != nil {
			return err
		}
	}
	for k, v := range stats {
		d.set(k, v)
	}
	d.set("runs", run)
	d.set("events", events)
	return nil
}

// ---------------------------------------------------------------- MBT replay (spec -> impl)

type c15Mism struct {
	Case int    `json:"case"`
	Step int    `json:"step"`
	Cls  string `json:"cls"`
	Want any    `json:"want"`
	Got  any    `json:"got"`
	Msg  string `json:"msg"`
}

func c15Int(v any) int {
	f, _ := v.(float64)
	return int(f)
}

// c15Phi maps a position of the model's stream onto the real stream: entry boundaries, the first
// header byte, the LF and the payload are mapped exactly, the inside of a header (1..3 opaque
// bytes in the model, a base64 string here) onto the positions 1, H/2 and H of the real header.
type c15Phi struct {
	mStart, mHdr, mEnd []int
	s                  *c15Sess
}

func (p *c15Phi) at(pos int) int {
	n := len(p.mStart)
	if n == 0 || pos >= p.mEnd[n-1] {
		return len(p.s.canon) + (pos - p.mEnd[n-1])
	}
	e := sort.Search(n, func(i int) bool { return p.mEnd[i] > pos })
	j := pos - p.mStart[e]
	h, H := p.mHdr[e], p.s.hdrLen[e]
	rs := int(p.s.starts[e])
	switch {
	case j == 0:
		return rs
	case j == h:
		return rs + H
	case j > h:
		return rs + H + 1 + (j - h - 1)
	case j == 1:
		return rs + 1
	default:
		return rs + H/2
	}
}

func c15MBT(d *vCtx) error {
	return vShards(d, d.pInt("procs", 8), func(i, n int) error { return c15MBTShard(d, i, n) })
}

func c15MBTShard(d *vCtx, shard, nshards int) error {
	// only this shard's lines are decoded (the file holds every case)
	cf, err := os.Open(d.pStr("cases", d.path("cases.ndjson")))
	if err != nil {
		return err
	}
	cases := map[int]map[string]any{}
	ncases := 0
	sc := bufio.NewScanner(cf)
	sc.Buffer(make([]byte, 1<<20), 1<<28)
	for sc.Scan() {
		if len(sc.Bytes()) == 0 {
			continue
		}
		if ncases%nshards == shard {
			var m map[string]any
			if err := json.Unmarshal(sc.Bytes(), &m); err != nil {
				cf.Close()
				return err
			}
			cases[ncases] = m
		}
		ncases++
	}
	cf.Close()
	if err := sc.Err(); err != nil {
		return err
	}
	root, err := os.MkdirTemp("/dev/shm", "c15mbt-")
	if err != nil {
		root, err = os.MkdirTemp("", "c15mbt-")
		if err != nil {
			return err
		}
	}
	defer os.RemoveAll(root)
	rng := d.rng(16)
	defer debug.SetGCPercent(debug.SetGCPercent(400))
	var mism []c15Mism
	replayed, steps := 0, 0
	fdExcessCases, fdExcessMax, fdExcessCase := 0, 0, -1
	for ci := 0; ci < ncases; ci++ {
		c, ok := cases[ci]
		if !ok {
			continue
		}
		delete(cases, ci)
		ents, _ := c["entries"].([]any)
		tree := &c15Tree{Top: c15Name(rng, ci%50)}
		phi := &c15Phi{}
		for i, ev := range ents {
			e := ev.(map[string]any)
			nd := c15Node{Dir: e["dir"].(bool), Name: c15Name(rng, i), Parent: c15Int(e["parent"]) - 1}
			if !nd.Dir {
				nd.Content = c15Content(rng, c15Int(e["size"]))
			}
			tree.Nodes = append(tree.Nodes, nd)
			phi.mStart = append(phi.mStart, c15Int(e["start"]))
			phi.mHdr = append(phi.mHdr, c15Int(e["hdr"]))
			end := c15Int(e["start"]) + c15Int(e["hdr"]) + 1
			if !nd.Dir {
				end += c15Int(e["size"])
			}
			phi.mEnd = append(phi.mEnd, end)
		}
		order := make([]int, len(tree.Nodes))
		for i := range order {
			order[i] = i
		}
		s, err := c15Open(filepath.Join(root, fmt.Sprintf("case-%d", ci)), tree, order)
		if err != nil {
			if c15RealCodeRefusal(err) { // the code under test refuses a legitimate tree: a divergence, not a harness problem
				mism = append(mism, c15Mism{ci, -1, "refused", "reconstructed", err.Error(), "the real code refuses a legitimate tree"})
				continue
			}
			return fmt.Errorf("case %d: %v", ci, err)
		}
		phi.s = s
		bad := func(si int, cls string, want, got any, msg string) {
			mism = append(mism, c15Mism{ci, si, cls, want, got, msg})
		}
		caseExcess := 0
		func() {
			defer s.cleanup()
			if got, want := int(s.reader.getSize()), phi.at(c15Int(c["announced"])); got != want || got != len(s.canon) {
				bad(-1, "announced", want, got, fmt.Sprintf("getSize() differs from the announced size of the model (canonical stream has %d bytes)", len(s.canon)))
				return
			}
			mr, mw := 0, 0 // model positions of the producer and the consumer
			segEnd := 0
			var waDone chan error
			defer func() {
				if waDone != nil { // a writeAll is still parked at the gate: let it go
					close(s.lw.gate)
				}
			}()
			sts, _ := c["steps"].([]any)
			for si, sv := range sts {
				st := sv.(map[string]any)
				steps++
				ro, wo := c15Int(st["ro"]), c15Int(st["wo"])
				// On a consumer step the model's producer may be in the middle of a Read call
				// (file of the next entry already opened): its descriptors are compared on
				// producer steps only.
				checkFds := func(rf, wf int) bool {
					if rf != ro && st["a"] != "wr" && st["a"] != "wclose" {
						bad(si, "fds-reader", ro, rf, "producer-side descriptors differ from the model")
						return false
					}
					if wf < wo {
						bad(si, "fds-writer-low", wo, wf, "consumer holds fewer descriptors than the model")
						return false
					}
					if wf-wo > caseExcess {
						caseExcess = wf - wo
					}
					return true
				}
				switch st["a"] {
				case "resize":
					ent := c15Int(st["ent"]) - 1
					if err := os.Truncate(s.subs[ent].AbsPath, int64(c15Int(st["len"]))); err != nil {
						bad(si, "harness", nil, err.Error(), "truncate")
						return
					}
				case "rd":
					n, got, res := c15Int(st["n"]), c15Int(st["got"]), st["res"].(string)
					rp := phi.at(mr)
					wantGot := phi.at(mr+got) - rp
					rn := wantGot + (n - got)
					r := s.read(rn)
					rf, wf, _ := c15Fds(s.srcBase, s.dstBase)
					if r.got != wantGot || r.res != res {
						bad(si, "rd", map[string]any{"n": rn, "got": wantGot, "res": res, "at": rp},
							map[string]any{"got": r.got, "res": r.res, "msg": r.msg}, "Read returns differ from the model")
						return
					}
					mr += got
					if !bytes.Equal(s.produced, s.canon[:len(s.produced)]) {
						bad(si, "stream", nil, nil, "produced bytes differ from header+LF+content of the entries")
						return
					}
					if !checkFds(rf, wf) {
						return
					}
				case "rclose":
					_ = s.reader.Close()
					rf, wf, _ := c15Fds(s.srcBase, s.dstBase)
					if !checkFds(rf, wf) {
						return
					}
				case "wa":
					n := c15Int(st["len"])
					segEnd = mw + n
					rn := phi.at(segEnd) - phi.at(mw)
					if s.wpos != phi.at(mw) || s.wpos+rn > len(s.produced) {
						bad(si, "harness", phi.at(mw), s.wpos, "position bookkeeping")
						return
					}
					data := append([]byte(nil), s.produced[s.wpos:s.wpos+rn]...)
					s.wpos += rn
					s.lw.calls, s.lw.zero = nil, 0
					s.lw.gate, s.lw.done = make(chan bool), make(chan c15Call, 1)
					waDone = make(chan error, 1)
					go func(lw *c15LogWriter, ch chan error) { ch <- writeAll(lw, data) }(s.lw, waDone)
				case "wr":
					wantLen := phi.at(segEnd) - phi.at(mw)
					wantC := phi.at(mw+c15Int(st["c"])) - phi.at(mw)
					var cl c15Call
					select {
					case s.lw.gate <- true:
						select {
						case cl = <-s.lw.done:
						case <-time.After(30 * time.Second):
							bad(si, "wr", map[string]any{"len": wantLen, "c": wantC}, "Write did not return within 30s", "hang")
							return
						}
					case err := <-waDone:
						waDone = nil
						bad(si, "wr", map[string]any{"len": wantLen, "c": wantC}, fmt.Sprint("writeAll returned: ", err), "writeAll made fewer Write calls than the model")
						return
					}
					res := "ok"
					if cl.Err != "" {
						res = "err"
					}
					if cl.Len != wantLen || cl.N != wantC || res != st["res"].(string) {
						bad(si, "wr", map[string]any{"len": wantLen, "c": wantC, "res": st["res"], "at": phi.at(mw)},
							map[string]any{"len": cl.Len, "c": cl.N, "err": cl.Err}, "Write returns differ from the model")
						return
					}
					mw += c15Int(st["c"])
					if !checkFds(cl.RFds, cl.WFds) {
						return
					}
					if mw == segEnd || res == "err" {
						select {
						case err := <-waDone:
							waDone = nil
							if (err != nil) != (res == "err") {
								bad(si, "wr", "writeAll result", fmt.Sprint(err), "writeAll's result differs from the model")
								return
							}
						case <-time.After(10 * time.Second):
							bad(si, "wr", "segment consumed", "writeAll still calling Write", "writeAll made more Write calls than the model")
							return
						}
					}
				case "wclose":
					_ = s.writer.Close()
					rf, wf, _ := c15Fds(s.srcBase, s.dstBase)
					if !checkFds(rf, wf) {
						return
					}
				}
			}
			if want := phi.at(c15Int(c["total"])); len(s.produced) != want {
				bad(len(sts), "stream", want, len(s.produced), "bytes produced")
				return
			}
			fs, _ := c["fs"].([]any)
			kinds := make([]string, len(fs))
			lens := make([]int, len(fs))
			for k, fv := range fs {
				f := fv.(map[string]any)
				kinds[k], lens[k] = f["kind"].(string), c15Int(f["len"])
			}
			if df := s.diff(kinds, lens); df.Missing+df.Extra+df.Kind+df.Size+df.Sha > 0 {
				bad(len(sts), "tree", "destination = what the model's consumer built", df, "reconstructed tree differs: "+df.First)
			}
		}()
		if caseExcess > 0 {
			fdExcessCases++
			if caseExcess > fdExcessMax {
				fdExcessMax, fdExcessCase = caseExcess, ci
			}
		}
		replayed++
	}
	d.set("replayed", replayed)
	d.set("steps", steps)
	d.set("mismatches", len(mism))
	d.set("fd_writer_excess_cases", fdExcessCases)
	d.set("fd_writer_excess", map[string]any{"max": fdExcessMax, "case": fdExcessCase})
	if len(mism) > 200 {
		mism = mism[:200]
	}
	return vWriteJSON(d.path("mismatches.json"), mism)
}

// c15Limits: trees with more entries than the process may hold open files.  RLIMIT_NOFILE is
// lowered to `nofile` (default 64) for this process; a flat tree of `n` directories is scanned,
// then a tree of `n` entries is sent and received.  Recorded like every other run.
func c15Limits(d *vCtx) error {
	n := d.pInt("n", 300)
	root, err := os.MkdirTemp("/dev/shm", "c15lim-")
	if err != nil {
		return err
	}
	defer os.RemoveAll(root)
	tr, err := vNewTrace(d.path("trace-00.ndjson"))
	if err != nil {
		return err
	}
	tr2, err := vNewTrace(d.path("trace-01.ndjson"))
	if err != nil {
		return err
	}
	rng := d.rng(18)
	flat := &c15Tree{Top: "dirs"}
	for i := 0; i < n; i++ {
		flat.Nodes = append(flat.Nodes, c15Node{Dir: true, Name: fmt.Sprintf("d%d", i), Parent: -1})
	}
	srcBase := filepath.Join(root, "scan", "src")
	top, err := c15Materialise(srcBase, flat)
	if err != nil {
		return err
	}
	many := c15ManyTree(rng, n)
	var lim syscall.Rlimit
	if err := syscall.Getrlimit(syscall.RLIMIT_NOFILE, &lim); err != nil {
		return err
	}
	orig := lim
	lim.Cur = uint64(d.pInt("nofile", 64))
	if err := syscall.Setrlimit(syscall.RLIMIT_NOFILE, &lim); err != nil {
		return err
	}
	restore := func() { _ = syscall.Setrlimit(syscall.RLIMIT_NOFILE, &orig) }
	defer restore()
	// 1. the scan alone
	list, serr := checkPathsReadable([]string{top}, true)
	_, _, dirfds := c15Fds(srcBase, filepath.Join(root, "scan", "dst"))
	restore()
	tr.Emit(map[string]any{"e": "reset", "run": 1, "kind": "limit-scan", "entries": n, "pipelined": false, "top": flat.Top}, nil)
	if serr != nil {
		msg := strings.SplitN(serr.Error(), "\n", 2)[0]
		tr.Emit(map[string]any{"e": "scan", "res": "err", "cls": c15ErrClass(msg), "dirfds": dirfds, "msg": msg}, nil)
		d.set("scan_err", msg)
	} else {
		tr.Emit(map[string]any{"e": "scan", "res": "ok", "cls": "", "dirfds": dirfds}, nil)
	}
	d.set("scan_entries", len(list))
	d.set("scan_dirfds", dirfds)
	list = nil
	// 1b. a chain of nested directories deeper than the limit: the scan may hold a few handles at a time, not one
	// per level
	{
		deep := &c15Tree{Top: "chain"}
		depth := n / 2
		for i := 0; i < depth; i++ {
			deep.Nodes = append(deep.Nodes, c15Node{Dir: true, Name: fmt.Sprintf("n%d", i), Parent: i - 1})
		}
		deepBase := filepath.Join(root, "deep", "src")
		dtop, err := c15Materialise(deepBase, deep)
		if err != nil {
			return err
		}
		runtime.GC()
		time.Sleep(20 * time.Millisecond)
		if err := syscall.Setrlimit(syscall.RLIMIT_NOFILE, &lim); err != nil {
			return err
		}
		dlist, derr := checkPathsReadable([]string{dtop}, true)
		_, _, dfds := c15Fds(deepBase, filepath.Join(root, "deep", "dst"))
		restore()
		tr.Emit(map[string]any{"e": "reset", "run": 3, "kind": "limit-scan", "entries": depth, "pipelined": false, "top": deep.Top}, nil)
		if derr != nil {
			msg := strings.SplitN(derr.Error(), "\n", 2)[0]
			tr.Emit(map[string]any{"e": "scan", "res": "err", "cls": c15ErrClass(msg), "dirfds": dfds, "msg": msg}, nil)
			d.set("deep_scan_err", msg)
		} else {
			tr.Emit(map[string]any{"e": "scan", "res": "ok", "cls": "", "dirfds": dfds}, nil)
		}
		d.set("deep_scan_entries", len(dlist))
		d.set("deep_scan_depth", depth)
	}
	runtime.GC() // the handles the scan left behind must not disturb the second part
	time.Sleep(20 * time.Millisecond)
	runtime.GC()
	time.Sleep(20 * time.Millisecond)
	// 2. a whole archive
	if err := syscall.Setrlimit(syscall.RLIMIT_NOFILE, &lim); err != nil {
		return err
	}
	stats := map[string]int{}
	old := debug.SetGCPercent(-1)
	err = c15Record(tr2, 2, filepath.Join(root, "xfer"), many, c15Plan{kind: "limit", maxRead: 4096, maxWrite: 4096}, rng, stats)
	debug.SetGCPercent(old)
	restore()
	if err != nil {
		// the harness could not even set the run up (the scan fails under the limit)
		msg := strings.SplitN(err.Error(), "\n", 2)[0]
		tr2.Emit(map[string]any{"e": "reset", "run": 2, "kind": "limit", "entries": n, "pipelined": false, "top": many.Top}, nil)
		tr2.Emit(map[string]any{"e": "scan", "res": "err", "cls": c15ErrClass(msg), "dirfds": -1, "msg": msg}, nil)
		d.set("xfer_setup_err", msg)
	}
	// 3. a tree whose entry headers are long and repetitive (a chain of equally named directories, names of one
	// repeated character): a header may deflate to a small fraction of its length
	{
		rep := &c15Tree{Top: "node_modules"}
		parent := -1
		for i := 0; i < 40; i++ {
			rep.Nodes = append(rep.Nodes, c15Node{Dir: true, Name: "node_modules", Parent: parent})
			parent = len(rep.Nodes) - 1
			rep.Nodes = append(rep.Nodes, c15Node{Name: "index.js", Parent: parent, Content: c15Content(rng, 1+rng.Intn(300))})
			if i%8 == 3 {
				rep.Nodes = append(rep.Nodes, c15Node{Name: strings.Repeat("a", 200) + fmt.Sprint(i), Parent: parent, Content: c15Content(rng, 10)})
			}
		}
		if err := c15Record(tr2, 4, filepath.Join(root, "rep"), rep, c15Plan{kind: "repetitive", maxRead: 4096, maxWrite: 4096}, rng, stats); err != nil {
			return err
		}
	}
	for k, v := range stats {
		d.set(k, v)
	}
	d.set("nofile", int(lim.Cur))
	d.set("events", tr.Len()+tr2.Len())
	d.set("runs", 4)
	if err := tr.Close(); err != nil {
		return err
	}
	return tr2.Close()
}

// c15RealCodeRefusal: errors of the code under test (not of the harness's own file handling) when a
// session is set up on a legitimate tree.
func c15RealCodeRefusal(err error) bool {
	m := err.Error()
	return strings.Contains(m, "Invalid source file") || strings.HasPrefix(m, "createDirOrFile") || strings.Contains(m, "Invalid file name")
}
