//go:build verif

package trzsz

import (
	"bytes"
	"fmt"
	"io"
	"os"
	"path/filepath"
	"regexp"
	"runtime"
	"strings"
	"sync"
	"time"
)

type e2eOpts struct {
	Upload    bool   `json:"upload"`
	Binary    bool   `json:"binary"`
	Escape    bool   `json:"escape"`
	Overwrite bool   `json:"overwrite"`
	Directory bool   `json:"directory"`
	Quiet     bool   `json:"quiet"`
	Compress  int    `json:"compress"` // 0 auto 1 yes 2 no
	Protocol  int    `json:"protocol"` // 4 = untouched; 1..3 = older client emulated by rewriting ACT in flight
	OldServer bool   `json:"old_server"` // trigger advertises 1.1.3: the client itself chooses protocol 2
	Bufsize   int64  `json:"bufsize"`
	Timeout   int    `json:"timeout"`
	Windows   bool   `json:"windows"` // trigger.winServer: "!\n" framing, no binary
	MaxChunk  int    `json:"maxchunk"`
	Progress  bool   `json:"progress"`
	TmuxJunk  bool   `json:"tmuxjunk"`
	// NoDirClient: the client's ACT is rewritten in flight to one of a client without directory support
	// (a server started with -d / -r refuses it after the action, before any configuration)
	NoDirClient bool     `json:"no_dir_client,omitempty"`
	Src       []string `json:"-"`
	Dst       string   `json:"-"`
}

type e2eSink struct {
	mu  sync.Mutex
	buf bytes.Buffer
}

func (s *e2eSink) Write(p []byte) (int, error) {
	s.mu.Lock()
	defer s.mu.Unlock()
	if s.buf.Len() < 1<<20 {
		s.buf.Write(p)
	}
	return len(p), nil
}
func (s *e2eSink) Close() error { return nil }
func (s *e2eSink) String() string {
	s.mu.Lock()
	defer s.mu.Unlock()
	return s.buf.String()
}

type e2eWC struct{ io.Writer }

func (e2eWC) Close() error { return nil }

type e2eResult struct {
	ClientOK   bool
	ClientErr  string
	ServerOK   bool
	ServerErr  string
	ClientMs   int64
	ServerMs   int64
	ClientEnd  time.Time
	ServerEnd  time.Time
	Shown      []string // names shown to the user (parsed from the "Saved ..." text)
	ShownOK    bool
	ExitSent   bool
	FailLines  map[string]string // role -> type of fail line it wrote ("fail"/"FAIL")
	Hung       []string          // roles that did not return within the watchdog
	NoAct      bool              // the server did not return: it is still waiting for the (first) action
	TriggerSeen  bool
	TriggerShown string
	ActAtServer  map[string]any // the action as it reached the server (through the relays)
	CfgAtClient  map[string]any // the configuration as it reached the client
	ActSent      map[string]any
	CfgSent      map[string]any
	Stdout     string
	ClientOut  string
	Dropped    int
	Client     *trzszTransfer
	Server     *trzszTransfer
	Filter     *TrzszFilter
}

var e2eStdoutMu sync.Mutex
var e2eStdoutFile *os.File
var e2eStdoutPos int64

// e2eCaptureStdout redirects os.Stdout (where serverExit/resetTerm print) into a file.
func e2eCaptureStdout(dir string) error {
	f, err := os.OpenFile(filepath.Join(dir, fmt.Sprintf("stdout-%d.txt", os.Getpid())), os.O_CREATE|os.O_RDWR|os.O_APPEND, 0600)
	if err != nil {
		return err
	}
	e2eStdoutFile = f
	os.Stdout = f
	return nil
}

func e2eStdoutSince() string {
	if e2eStdoutFile == nil {
		return ""
	}
	st, err := e2eStdoutFile.Stat()
	if err != nil {
		return ""
	}
	n := st.Size() - e2eStdoutPos
	if n <= 0 {
		return ""
	}
	b := make([]byte, n)
	_, _ = e2eStdoutFile.ReadAt(b, e2eStdoutPos)
	e2eStdoutPos = st.Size()
	return string(b)
}

var e2eSavedRe = regexp.MustCompile(`Saved (\d+) (?:file/directory|files/directories)(?: to ([^\r\n]*))?((?:\r\n- [^\r\n]*)*)`)

// e2eParseSaved parses the text the user sees back into the names it lists.
func e2eParseSaved(text string) ([]string, bool) {
	m := e2eSavedRe.FindStringSubmatch(text)
	if m == nil {
		return nil, false
	}
	var names []string
	for _, l := range strings.Split(m[3], "\r\n- ") {
		if l != "" {
			names = append(names, l)
		}
	}
	return names, fmt.Sprint(len(names)) == m[1]
}

type e2eHooks struct {
	// called once both transfers exist, before the client starts
	ready func(w *e2eWire, client func() *trzszTransfer, server *trzszTransfer, f *TrzszFilter)
	// watchdog for each role (default 30 s)
	watchdog time.Duration
	// chain: real relays between client and server (nil = direct); uid: the trigger's unique id
	chain *e2eRelayChain
	uid   int64
}

// e2eRun performs one transfer between the real client path and the real server path.
func e2eRun(o e2eOpts, w *e2eWire, h *e2eHooks) *e2eResult {
	res := &e2eResult{FailLines: map[string]string{}}
	if h == nil {
		h = &e2eHooks{}
	}
	wd := h.watchdog
	if wd == 0 {
		wd = 30 * time.Second
	}
	if o.Protocol >= 1 && o.Protocol <= 3 {
		w.actProt = o.Protocol
		if o.Protocol == 1 {
			w.actProt = 0
		}
	}
	w.winNL = o.Windows
	w.actNoDir = o.NoDirClient
	if o.NoDirClient && w.actProt < 0 {
		w.actProt = 4
	}
	sink := &e2eSink{}
	cols := int32(0)
	f := &TrzszFilter{clientOut: sink, serverIn: e2eWC{w.c2s}, options: TrzszOptions{TerminalColumns: 100}}
	_ = cols
	ver := &trzszVersion{1, 1, 8}
	if o.OldServer {
		ver = &trzszVersion{1, 1, 3}
	}
	mode := byte('S')
	if o.Upload {
		mode = 'R'
		if o.Directory {
			mode = 'D'
		}
	}
	f.trigger = &trzszTrigger{mode: mode, version: ver, uniqueID: "1234567890100", winServer: o.Windows}
	var clientRes chan error
	if o.Upload {
		f.oneTimeUploadFiles = o.Src
		clientRes = make(chan error, 1)
		f.oneTimeUploadResult = clientRes
	} else {
		f.SetDefaultDownloadPath(o.Dst)
	}
	res.Filter = f

	st := newTransfer(w.s2c, nil, false, nil)
	res.Server = st
	w.c2s.deliver = func(b []byte) { st.addReceivedData(b, false) }
	w.s2c.deliver = func(b []byte) {
		if t := f.transfer.Load(); t != nil {
			t.addReceivedData(b, false)
		} else {
			res.Dropped += len(b)
		}
	}
	if h.chain != nil {
		h.chain.attach(w.s2c.deliver, w.c2s.deliver)
		w.c2s.deliver = h.chain.fromClient
		w.s2c.deliver = h.chain.fromServer
		// the server prints its trigger first; the client answers once it has come through the relays
		trig := fmt.Sprintf("\x1b7\x07::TRZSZ:TRANSFER:%c:%s:%013d:0\r\n", mode, "1.1.8", h.uid)
		h.chain.fromServer([]byte(trig))
		res.TriggerSeen = h.chain.waitClient([]byte("::TRZSZ:TRANSFER:"), 5*time.Second)
		if res.TriggerSeen {
			h.chain.mu.Lock()
			res.TriggerShown = h.chain.gotClient.String()
			h.chain.mu.Unlock()
		}
	}
	if h.ready != nil {
		h.ready(w, func() *trzszTransfer { return f.transfer.Load() }, st, f)
	}

	base := baseArgs{Quiet: o.Quiet || !o.Progress, Overwrite: o.Overwrite, Binary: o.Binary, Escape: o.Escape,
		Directory: o.Directory, Bufsize: bufferSize{o.Bufsize}, Timeout: o.Timeout, Compress: compressType(o.Compress)}
	tmux := tmuxModeType(noTmuxMode)
	if o.TmuxJunk {
		tmux = tmuxNormalMode
	}
	serverDone := make(chan error, 1)
	t0 := time.Now()
	go func() {
		var err error
		func() {
			defer func() {
				if r := recover(); r != nil {
					err = newTrzszError(fmt.Sprintf("%v", r), "panic", true)
				}
			}()
			if o.Upload {
				err = recvFiles(st, &trzArgs{baseArgs: base, Path: o.Dst}, tmux, 0)
			} else {
				var files []*sourceFile
				files, err = checkPathsReadable(o.Src, o.Directory)
				if err == nil && o.Overwrite {
					err = checkDuplicateNames(files)
				}
				if err == nil {
					err = sendFiles(st, files, &tszArgs{baseArgs: base, File: o.Src}, tmux, 0)
				}
			}
		}()
		if err != nil {
			st.serverError(err)
		}
		st.cleanup()
		res.ServerMs = time.Since(t0).Milliseconds()
		res.ServerEnd = time.Now()
		serverDone <- err
	}()
	clientDone := make(chan struct{})
	go func() {
		defer close(clientDone)
		f.handleTrzsz()
		res.ClientMs = time.Since(t0).Milliseconds()
		res.ClientEnd = time.Now()
	}()

	timer := time.NewTimer(wd)
	defer timer.Stop()
	lastAct := int64(-1)
	var serr error
	gotS, gotC := false, false
	for !(gotS && gotC) {
		select {
		case serr = <-serverDone:
			gotS = true
		case <-clientDone:
			gotC = true
		case <-timer.C:
			// the watchdog fires after wd without any write on the wire (at most 20 x wd in all):
			// a long transfer on a loaded machine is slow, not hung
			if a := w.act.Load(); a != lastAct && time.Since(t0) < 20*wd {
				lastAct = a
				timer.Reset(wd)
				continue
			}
			if !gotS {
				// a server that has not yet received a complete action has not begun a transfer: it waits
				// without a time-out by design (the user's Ctrl-C ends it), which is not a hung transfer
				if e2eServerWaitsForAction() {
					res.NoAct = true
				} else {
					res.Hung = append(res.Hung, "server")
				}
			}
			if !gotC {
				res.Hung = append(res.Hung, "client")
			}
			gotS, gotC = true, true
		}
	}
	res.ServerOK = serr == nil && !containsString(res.Hung, "server") && !res.NoAct
	if res.NoAct {
		res.ServerErr = "still waiting for the action (no time-out by design)"
	}
	if serr != nil {
		res.ServerErr = e2eFirstLine(serr.Error())
	}
	// client outcome: upload -> the one-time-upload result; download -> an EXIT line was written
	w.mu.Lock()
	for _, m := range w.msgs {
		if m.Dir == "c2s" && m.Typ == "EXIT" {
			res.ExitSent = true
		}
		if m.Typ == "fail" || m.Typ == "FAIL" {
			role := "client"
			if m.Dir == "s2c" {
				role = "server"
			}
			res.FailLines[role] = m.Typ
		}
	}
	w.mu.Unlock()
	if o.Upload && !containsString(res.Hung, "client") {
		select {
		case cerr := <-clientRes:
			res.ClientOK = cerr == nil
			if cerr != nil {
				res.ClientErr = e2eFirstLine(cerr.Error())
			}
		default:
			res.ClientErr = "no upload result"
		}
	} else {
		res.ClientOK = res.ExitSent && !containsString(res.Hung, "client")
		if !res.ClientOK {
			res.ClientErr = "no EXIT sent"
			w.mu.Lock()
			for _, m := range w.msgs {
				if m.Dir == "c2s" && (m.Typ == "fail" || m.Typ == "FAIL") {
					if s, ok := m.value()["s"].(string); ok {
						res.ClientErr = e2eFirstLine(s)
					}
				}
			}
			w.mu.Unlock()
		}
	}
	w.mu.Lock()
	for _, m := range w.msgs {
		if m.Typ == "ACT" && res.ActSent == nil {
			res.ActSent, _ = m.value()["j"].(map[string]any)
		}
		if m.Typ == "CFG" && res.CfgSent == nil {
			res.CfgSent, _ = m.value()["j"].(map[string]any)
		}
	}
	w.mu.Unlock()
	if h.chain != nil {
		h.chain.mu.Lock()
		res.ActAtServer = e2eFindLine(h.chain.gotServer.Bytes(), "ACT")
		res.CfgAtClient = e2eFindLine(h.chain.gotClient.Bytes(), "CFG")
		h.chain.mu.Unlock()
	}
	res.Client = nil
	res.ClientOut = sink.String()
	res.Stdout = e2eStdoutSince()
	// names shown to the user
	if o.Upload {
		res.Shown, res.ShownOK = e2eParseSaved(res.Stdout)
	} else {
		w.mu.Lock()
		for _, m := range w.msgs {
			if m.Dir == "c2s" && m.Typ == "EXIT" {
				if s, ok := m.value()["s"].(string); ok {
					res.Shown, res.ShownOK = e2eParseSaved(s)
				}
			}
		}
		w.mu.Unlock()
	}
	return res
}

func e2eFirstLine(s string) string {
	if i := strings.IndexByte(s, '\n'); i >= 0 {
		s = s[:i]
	}
	if len(s) > 200 {
		s = s[:200]
	}
	return s
}

// e2eServerWaitsForAction: some goroutine is inside (*trzszTransfer).recvAction.
func e2eServerWaitsForAction() bool {
	buf := make([]byte, 1<<20)
	n := runtime.Stack(buf, true)
	for _, g := range bytes.Split(buf[:n], []byte("\n\n")) {
		// the server role's own goroutine (not a relay's handshake worker)
		if bytes.Contains(g, []byte("trzsz.(*trzszTransfer).recvAction")) &&
			(bytes.Contains(g, []byte("trzsz.recvFiles(")) || bytes.Contains(g, []byte("trzsz.sendFiles("))) {
			return true
		}
	}
	return false
}

// e2eLeftGoroutines returns the number of goroutines that still have a frame of the transfer
// machinery on their stack (workers of a finished transfer that were left running).
func e2eLeftGoroutines() (int, []string) {
	buf := make([]byte, 1<<20)
	n := runtime.Stack(buf, true)
	buf = buf[:n]
	cnt := 0
	var frames []string
	for _, g := range bytes.Split(buf, []byte("\n\n")) {
		if bytes.Contains(g, []byte("trzsz.(*trzszTransfer).")) || bytes.Contains(g, []byte("trzsz.(*sendDataWriter)")) ||
			bytes.Contains(g, []byte("trzsz.(*recvDataReader)")) {
			if bytes.Contains(g, []byte("e2eLeftGoroutines")) {
				continue
			}
			cnt++
			lines := strings.Split(string(g), "\n")
			top := ""
			for _, l := range lines[1:] {
				if strings.Contains(l, "trzsz.(") {
					top = strings.TrimSpace(l)
					if i := strings.Index(top, "("); i > 0 {
						top = top[strings.LastIndex(top[:strings.Index(top, "(0x")+1], "/")+1:]
					}
					break
				}
			}
			frames = append(frames, lines[0]+" "+top)
		}
	}
	return cnt, frames
}

// ---------------------------------------------------------------- source trees

type e2eNode struct {
	Rel  string `json:"rel"` // path relative to the sources' parent directory; first element = top-level name
	Dir  bool   `json:"dir"`
	Size int64  `json:"size"`
	Kind int    `json:"kind"`
	// pre-existing destination entries only: Like = i > 0 makes the content the same byte stream as
	// source node i (1-based) -- a prefix of it when shorter, the source plus a continuation when
	// longer; DivergeAt > 0 makes it differ from that stream from this offset on
	Like      int   `json:"like,omitempty"`
	DivergeAt int64 `json:"diverge_at,omitempty"`
}

// e2eMakeTree writes the nodes under root (parents are created) and returns the top-level paths
// in first-appearance order.
func e2eMakeTree(root string, nodes []e2eNode, seed int64) ([]string, error) {
	var tops []string
	seen := map[string]bool{}
	for i, n := range nodes {
		p := filepath.Join(root, n.Rel)
		top := strings.Split(filepath.ToSlash(n.Rel), "/")[0]
		if !seen[top] {
			seen[top] = true
			tops = append(tops, filepath.Join(root, top))
		}
		if n.Dir {
			if err := os.MkdirAll(p, 0755); err != nil {
				return nil, err
			}
			continue
		}
		if err := os.MkdirAll(filepath.Dir(p), 0755); err != nil {
			return nil, err
		}
		if err := os.WriteFile(p, e2eContent(n.Size, n.Kind, seed*131+int64(i)), 0644); err != nil {
			return nil, err
		}
	}
	return tops, nil
}

// e2eCompare projects the destination against the sources.  tops[i] (a source top-level path)
// is expected under dst/names[i].  Returns per-entry verdicts and the list of unexpected paths.
// e2eSourceSnapshot: the entries below (and including) a source top-level path, keyed by the
// path relative to the top's parent.  Snapshots taken before the run are cached so that the
// comparison is against what the sources were when the transfer started.
var e2eSrcCache = map[string]map[string]e2eEntry{}

func e2eSourceSnapshot(top string) map[string]e2eEntry {
	if s, ok := e2eSrcCache[top]; ok {
		return s
	}
	src := map[string]e2eEntry{}
	info, err := os.Stat(top)
	if err != nil {
		return nil
	}
	if info.IsDir() {
		src[filepath.Base(top)] = e2eEntry{Rel: filepath.Base(top), Dir: true}
		for k, v := range e2eSnapshot(top) {
			src[filepath.Join(filepath.Base(top), k)] = v
		}
	} else {
		s := e2eSnapshot(filepath.Dir(top))
		src[filepath.Base(top)] = s[filepath.Base(top)]
	}
	return src
}

func e2eCompare(tops []string, names []string, dst string, pre map[string]e2eEntry) (entries []map[string]any, allSame bool, extra []string) {
	allSame = true
	post := e2eSnapshot(dst)
	expected := map[string]bool{}
	for i, top := range tops {
		if i >= len(names) {
			entries = append(entries, map[string]any{"rel": filepath.Base(top), "got": "unnamed"})
			allSame = false
			continue
		}
		src := e2eSourceSnapshot(top)
		if src == nil {
			continue
		}
		for _, k := range e2eSortedKeys(src) {
			sv := src[k]
			parts := strings.Split(filepath.ToSlash(k), "/")
			parts[0] = names[i]
			drel := filepath.Join(parts...)
			expected[drel] = true
			got := "same"
			dv, ok := post[drel]
			switch {
			case !ok:
				got = "missing"
			case dv.Dir != sv.Dir:
				got = "type"
			case !sv.Dir && (dv.Size != sv.Size || dv.Sum != sv.Sum):
				got = "diff"
			}
			if got != "same" {
				allSame = false
			}
			entries = append(entries, map[string]any{"rel": drel, "dir": sv.Dir, "size": sv.Size, "got": got})
		}
	}
	for _, k := range e2eSortedKeys(post) {
		if expected[k] {
			continue
		}
		if pv, ok := pre[k]; ok && pv == post[k] {
			continue
		}
		extra = append(extra, k)
	}
	return
}

// e2eFindLine decodes the first "#TYP:<payload>\n" line of a byte stream as a JSON object.
func e2eFindLine(stream []byte, typ string) map[string]any {
	i := bytes.Index(stream, []byte("#"+typ+":"))
	if i < 0 {
		return nil
	}
	j := bytes.IndexByte(stream[i:], '\n')
	if j < 0 {
		return nil
	}
	payload := stream[i+len(typ)+2 : i+j]
	payload = bytes.TrimSuffix(payload, []byte("!"))
	m := &e2eMsg{Typ: typ, Raw: payload}
	j2, _ := m.value()["j"].(map[string]any)
	return j2
}
