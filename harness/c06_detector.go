//go:build verif

package trzsz

// C06 harness, part 1: token concretiser and detector-level replay.
//
// A case is one session {role, win, steps:[{ctl, tun, toks:[token...]}]} at the token level of
// spec/Detector.tla (abstract: version *class*, timestamp *index*).  c06Concretise renders
// every token with seeded concrete parameters; c06RunDetector feeds the rendered chunks to a
// real trzszDetector and records, per chunk, what the real code did (observables only:
// trigger returned + its fields, bytes passed on, what a fresh client-mode detector makes of
// those bytes).  Part 2 (c06_filter.go) does the same through a real TrzszFilter.

import (
	"bytes"
	"encoding/base64"
	"fmt"
	"math/rand"
	"regexp"
	"sort"
	"strconv"
	"strings"
)

type c06Tok struct {
	T      string // junk | trig | part | fin | ctl
	Mode   string
	VerAbs string // version class: zero | p2 | new | max
	Ver    string // concrete
	Shape  string // none | short | s00 | s10 | s20 | d15
	TsAbs  int
	Ts     string // concrete digits (id = Ts + Sfx)
	Sfx    string
	Port   int // -1 absent
	K      string
	Marker string
	Place  string
	Kind   string // ctl kind
}

type c06Step struct {
	Ctl   string
	Tun   bool
	Toks  []c06Tok // without ctl tokens
	Raw   []byte
	fixed bool // Raw given (replay of recorded bytes)
	// expectation exported by TLC (MBT only)
	Want map[string]any
}

type c06Case struct {
	Role    string
	Win     bool
	Steps   []c06Step
	Filter  bool
	Class   string // generator class (tv): "" | "lookahead"
	WantMem []any
	verMap  map[string]string // class -> concrete
	verRev  map[string]string
	tsMap   map[int]string
	tsRev   map[string]int
}

func c06Str(m map[string]any, k string) string {
	if s, ok := m[k].(string); ok {
		return s
	}
	return ""
}

func c06Int(m map[string]any, k string, def int) int {
	if f, ok := m[k].(float64); ok {
		return int(f)
	}
	return def
}

func c06ParseTok(m map[string]any) c06Tok {
	t := c06Tok{T: c06Str(m, "t"), Port: -1}
	switch t.T {
	case "trig":
		t.Mode, t.VerAbs, t.Shape, t.Sfx = c06Str(m, "mode"), c06Str(m, "ver"), c06Str(m, "shape"), c06Str(m, "sfx")
		t.TsAbs, t.Port = c06Int(m, "ts", 0), c06Int(m, "port", -1)
		if _, concrete := m["vclass"]; concrete { // a token of a recorded event: concrete values
			t.Ver, t.Ts, t.VerAbs = c06Str(m, "ver"), c06Str(m, "ts"), ""
		}
	case "part":
		t.K = c06Str(m, "k")
	case "fin":
		t.Marker, t.Place = c06Str(m, "marker"), c06Str(m, "place")
	case "ctl":
		t.Kind = c06Str(m, "kind")
	}
	return t
}

// c06ParseCase decodes one case as exported by DetectorGen (ctl tokens are folded into Ctl).
func c06ParseCase(m map[string]any) *c06Case {
	c := &c06Case{Role: c06Str(m, "role")}
	c.Win, _ = m["win"].(bool)
	c.Filter, _ = m["filter"].(bool)
	c.WantMem, _ = m["mem"].([]any)
	steps, _ := m["steps"].([]any)
	for _, s := range steps {
		sm := s.(map[string]any)
		st := c06Step{Ctl: c06Str(sm, "ctl"), Want: sm}
		st.Tun, _ = sm["tun"].(bool)
		if r := c06Str(sm, "raw"); r != "" { // exact bytes of a recorded run
			st.Raw, _ = base64.StdEncoding.DecodeString(r)
			st.fixed = true
		}
		toks, _ := sm["toks"].([]any)
		for _, t := range toks {
			tok := c06ParseTok(t.(map[string]any))
			if tok.T == "ctl" {
				continue
			}
			st.Toks = append(st.Toks, tok)
		}
		c.Steps = append(c.Steps, st)
	}
	return c
}

// ---------------------------------------------------------------- concretiser

var c06Forbidden = [][]byte{[]byte("TRZSZ"), []byte("#CFG:"), []byte("Saved"), []byte("Cancelled"), []byte("Stopped"),
	[]byte("Interrupted"), []byte("%output"), []byte("%extended-output"), []byte("#R")}

var c06Digits7 = regexp.MustCompile(`\d{7,}`)

// c06Junk: arbitrary bytes that contain no token themselves: none of the marker words, no
// framing, no long digit run; first and last byte are neutral (cannot extend a neighbour).
func c06Junk(rng *rand.Rand, min, max int, newline bool) []byte {
	n := min
	if max > min {
		n += rng.Intn(max - min + 1)
	}
	b := make([]byte, n)
	nearMiss := []string{"::TRZ", "TRANSFER:", "#CFG", "Save", "Cancel", "Stoppe", "%out", ":R:1.0.0", "::", "\x1b7\x07", "\x1b8\x1b[0J", "#ACT:", "\r\n"}
	for i := 0; i < n; {
		switch rng.Intn(12) {
		case 0:
			s := nearMiss[rng.Intn(len(nearMiss))]
			i += copy(b[i:], s)
		case 1, 2, 3:
			b[i] = byte(rng.Intn(256))
			i++
		default:
			b[i] = byte(32 + rng.Intn(95))
			i++
		}
	}
	for {
		changed := false
		for _, f := range c06Forbidden {
			for {
				k := bytes.Index(b, f)
				if k < 0 {
					break
				}
				b[k+1] = '_'
				changed = true
			}
		}
		for _, loc := range c06Digits7.FindAllIndex(b, -1) {
			b[loc[0]+3] = 'x'
			changed = true
		}
		if !changed {
			break
		}
	}
	if !newline {
		for i := range b {
			if b[i] == '\n' {
				b[i] = ' '
			}
		}
	}
	if n > 0 {
		b[0] = " \t~|xyz"[rng.Intn(7)]
		b[n-1] = " \t~|xyz"[rng.Intn(7)]
	}
	return b
}

func (c *c06Case) concreteVer(rng *rand.Rand, class string) string {
	if v, ok := c.verMap[class]; ok {
		return v
	}
	var v string
	for {
		switch class {
		case "zero":
			v = "0.0.0"
		case "p2":
			v = fmt.Sprintf("1.1.%d", rng.Intn(4))
		case "max":
			v = fmt.Sprintf("4294967295.%d.%d", rng.Uint32(), rng.Uint32())
		default: // "new": anything outside [1.1.0, 1.1.3]
			v = []string{"1.1.4", "1.1.8", "1.2.0", "2.0.0", "1.0.9", "0.9.12", "10.20.30", "1.1.10", "001.1.4"}[rng.Intn(9)]
		}
		if _, dup := c.verRev[c06NormVer(v)]; !dup {
			break
		}
	}
	c.verMap[class], c.verRev[c06NormVer(v)] = v, class
	return v
}

func (c *c06Case) concreteTs(rng *rand.Rand, abs int, d15 bool) string {
	base, ok := c.tsMap[abs]
	if !ok {
		for {
			base = fmt.Sprintf("%011d", rng.Int63n(100000000000))
			if _, dup := c.tsRev[base]; !dup {
				break
			}
		}
		c.tsMap[abs], c.tsRev[base] = base, abs
	}
	if d15 {
		return "91" + base
	}
	return base
}

var c06Modes = "SRD"

func c06RenderTrig(t *c06Tok, rng *rand.Rand, first, last bool) []byte {
	var b bytes.Buffer
	if !(first && rng.Intn(4) == 0) {
		b.WriteString("\x1b7\x07")
	}
	b.WriteString("::TRZSZ:TRANSFER:" + t.Mode + ":" + t.Ver)
	if t.Shape != "none" {
		b.WriteString(":" + t.Ts + t.Sfx)
		if t.Port >= 0 {
			b.WriteString(":" + strconv.Itoa(t.Port))
		}
	}
	if last && rng.Intn(3) == 0 {
		return b.Bytes() // the read ends right behind the trigger; its line end comes with the next read
	}
	b.WriteString("\r\n")
	return b.Bytes()
}

func c06RenderPart(k string, rng *rand.Rand) []byte {
	full := "::TRZSZ:TRANSFER:"
	mode := string(c06Modes[rng.Intn(3)])
	id := fmt.Sprintf("%011d%s", rng.Int63n(100000000000), []string{"00", "10", "20"}[rng.Intn(3)])
	pre := "\x1b7\x07"
	switch k {
	case "inmarker": // cut inside the marker
		return []byte(pre + full[:2+rng.Intn(len(full)-2)])
	case "marker": // cut right behind the marker
		return []byte(pre + full)
	case "mode": // cut behind the mode
		return []byte(pre + full + mode + []string{"", ":"}[rng.Intn(2)])
	case "ver2": // cut inside the version
		return []byte(pre + full + mode + ":" + []string{"1", "1.", "1.1", "1.1.", "4294967295.0"}[rng.Intn(5)])
	case "badmode": // corrupted mode letter, otherwise a whole line
		return []byte(pre + full + []string{"X", "s", "r", "d", "T", "", "RR"}[rng.Intn(7)] + ":1.1.8:" + id + ":0\r\n")
	case "gover": // the locally shown form of some other wrapper
		return []byte(pre + "::TRZSZGO:TRANSFER:" + mode + ":1.1.8:" + id + ":0\r\n")
	case "lower": // corrupted marker
		return []byte(pre + []string{"::trzsz:transfer:", ":TRZSZ:TRANSFER:", "::TRZSZ:TRANSFER ", "::TRZSZ::TRANSFER:", "::TRZSZ:TRANSFER;"}[rng.Intn(5)] + mode + ":1.1.8:" + id + ":0\r\n")
	}
	return []byte(pre + full)
}

func c06RenderFin(t *c06Tok, rng *rand.Rand) []byte {
	var b bytes.Buffer
	if t.Place == "far" {
		b.Write(c06Junk(rng, 40, 120, true))
	}
	switch t.Marker {
	case "CFG":
		b.WriteString("#CFG:eJyrVspJzEtXslJQKqhU0lFQSipNK85MBQkYGQABSKQkMzcVJGBoYGBQCwDLrgvB\n")
	case "Saved":
		b.WriteString("\x1b8\x1b[0J" + []string{"Saved 1 file to /tmp/\r\n- a.txt\r\n", "Saved 2 files/directories\r\n- x\r\n- y\r\n"}[rng.Intn(2)])
	case "Cancelled":
		b.WriteString("\x1b8\x1b[0JCancelled\r\n")
	case "Stopped":
		b.WriteString("\x1b8\x1b[0J" + []string{"Stopped\r\n", "Stopped and deleted:\r\n- a.txt\r\n"}[rng.Intn(2)])
	case "Interrupted":
		b.WriteString("\x1b8\x1b[0JInterrupted\r\n")
	}
	return b.Bytes()
}

func c06RenderCtl(kind string, rng *rand.Rand) []byte {
	var s string
	switch kind {
	case "out":
		s = fmt.Sprintf("%%output %%%d ", rng.Intn(100))
	case "ext":
		s = fmt.Sprintf("%%extended-output %%%d %d : ", rng.Intn(100), rng.Intn(1000))
	case "fake":
		s = []string{"%output %x ", "%output 1 ", "%output % ", "output %1 ", "%extended-output %a 0 : ", "%extended-output %0 b : ",
			"extended-output %0 0 : ", "%extended-output 0 0 : ", "%extended-output %0 0 ", "%begin 1 2 0 "}[rng.Intn(10)]
	}
	if rng.Intn(3) == 0 {
		return append([]byte(s), c06Junk(rng, 1, 12, false)...)
	}
	return []byte(s)
}

// c06Concretise renders every step of the case (same abstract version class / timestamp index
// -> same concrete value throughout the case).
func c06Concretise(c *c06Case, rng *rand.Rand) {
	c.verMap, c.verRev, c.tsMap, c.tsRev = map[string]string{}, map[string]string{}, map[int]string{}, map[string]int{}
	for si := range c.Steps {
		st := &c.Steps[si]
		if st.fixed {
			continue
		}
		var b bytes.Buffer
		for ti := range st.Toks {
			t := &st.Toks[ti]
			if st.Ctl != "none" && st.Ctl != "" && (t.T == "trig" || t.T == "part") {
				if b.Len() > 0 && !bytes.HasSuffix(b.Bytes(), []byte("\n")) {
					b.WriteString("\r\n")
				}
				b.Write(c06RenderCtl(st.Ctl, rng))
			}
			switch t.T {
			case "junk":
				b.Write(c06Junk(rng, 1, 160, true))
			case "trig":
				if t.Ver == "" {
					t.Ver = c.concreteVer(rng, t.VerAbs)
				}
				switch t.Shape {
				case "none":
					t.Ts, t.Sfx = "", ""
				case "short":
					if t.Ts == "" {
						t.Ts = []string{"0", "1", "7", "12", "123", "999999", strconv.Itoa(rng.Intn(1000000))}[rng.Intn(7)]
					}
					t.Sfx = ""
				case "p11":
					// 10, 11 or 12 digits, always the same for one abstract timestamp of the case
					if t.Ts == "" {
						base := c.concreteTs(rng, t.TsAbs, false)
						switch {
						case base[10] <= '3':
							t.Ts = "1" + base[2:]
						case base[10] <= '6':
							t.Ts = base
						default:
							t.Ts = "5" + base
						}
					}
					t.Sfx = ""
				default:
					if t.Ts == "" {
						t.Ts = c.concreteTs(rng, t.TsAbs, t.Shape == "d15")
					}
				}
				b.Write(c06RenderTrig(t, rng, ti == 0, ti == len(st.Toks)-1))
			case "part":
				b.Write(c06RenderPart(t.K, rng))
				if ti+1 < len(st.Toks) && (st.Toks[ti+1].T == "junk" || st.Toks[ti+1].T == "fin") && !bytes.HasSuffix(b.Bytes(), []byte("\n")) {
					b.WriteByte(" \t~|"[rng.Intn(4)]) // keep the cut a cut
				}
			case "fin":
				b.Write(c06RenderFin(t, rng))
			}
		}
		st.Raw = b.Bytes()
	}
}

// ---------------------------------------------------------------- observations

type c06Obs struct {
	Fired  bool
	Mode   string
	Ver    string
	Ts     string
	Sfx    string
	Port   int
	Shown  string // same | retag | changed
	Refire bool
	RMode  string
	RVer   string
	RTs    string
	RSfx   string
	RPort  int
	RMark  bool
	// filter level
	Acts    int
	OMode   string
	Proto2  bool
	TPort   int
	Hello   string
	Timeout string
	Out     []byte
	MemLen  int
}

func c06SplitID(id string) (string, string) {
	if len(id) >= 13 {
		return id[:len(id)-2], id[len(id)-2:]
	}
	return id, ""
}

func c06VerString(v *trzszVersion) string {
	if v == nil {
		return ""
	}
	return fmt.Sprintf("%d.%d.%d", v[0], v[1], v[2])
}

func c06NormVer(s string) string {
	// "001.1.4" is advertised as 1.1.4
	parts := strings.Split(s, ".")
	for i, p := range parts {
		if n, err := strconv.ParseUint(p, 10, 64); err == nil {
			parts[i] = strconv.FormatUint(n, 10)
		}
	}
	return strings.Join(parts, ".")
}

func c06ShownClass(in, out []byte) string {
	if bytes.Equal(in, out) {
		return "same"
	}
	if len(in) != len(out) {
		return "changed"
	}
	for i := range in {
		if in[i] != out[i] {
			if !(in[i] == '0' && out[i] == '2' && i+1 < len(in) && in[i+1] == '0' && i >= 11) {
				return "changed"
			}
			for j := i - 11; j < i; j++ {
				if in[j] < '0' || in[j] > '9' {
					return "changed"
				}
			}
		}
	}
	return "retag"
}

func c06FillTrigger(o *c06Obs, trig *trzszTrigger) {
	o.Fired = trig != nil
	if trig != nil {
		o.Mode, o.Ver, o.Port = string(trig.mode), c06VerString(trig.version), trig.tunnelPort
		o.Ts, o.Sfx = c06SplitID(trig.uniqueID)
	}
}

func c06Refire(o *c06Obs, in, out []byte, tun bool) {
	o.Shown = c06ShownClass(in, out)
	_, t2 := newTrzszDetector(false, false).detectTrzsz(append([]byte(nil), out...), tun)
	o.Refire = t2 != nil
	if t2 != nil {
		o.RMode, o.RVer, o.RPort = string(t2.mode), c06VerString(t2.version), t2.tunnelPort
		o.RTs, o.RSfx = c06SplitID(t2.uniqueID)
	}
	o.RMark = bytes.Count(out, []byte("#R")) == bytes.Count(in, []byte("#R"))+1
}

// c06RunDetector replays the case into a real trzszDetector.
func c06RunDetector(c *c06Case) ([]c06Obs, *trzszDetector) {
	det := newTrzszDetector(c.Role != "client", c.Role == "relaytmux")
	res := make([]c06Obs, len(c.Steps))
	for i, st := range c.Steps {
		in := append([]byte(nil), st.Raw...)
		out, trig := det.detectTrzsz(in, st.Tun)
		o := &res[i]
		o.Acts, o.TPort = -1, -2
		c06FillTrigger(o, trig)
		c06Refire(o, st.Raw, out, st.Tun)
		o.Out = out
		o.MemLen = len(det.uniqueIDMap)
	}
	return res, det
}

func c06MemOrdered(det *trzszDetector) []string {
	ids := make([]string, 0, len(det.uniqueIDMap))
	for k := range det.uniqueIDMap {
		ids = append(ids, k)
	}
	sort.Slice(ids, func(a, b int) bool { return det.uniqueIDMap[ids[a]] < det.uniqueIDMap[ids[b]] })
	return ids
}

func c06TokEvent(t *c06Tok) map[string]any {
	switch t.T {
	case "trig":
		vclass := "other"
		if v, err := parseTrzszVersion(t.Ver); err == nil && v.compare(&trzszVersion{1, 1, 0}) >= 0 && v.compare(&trzszVersion{1, 1, 3}) <= 0 {
			vclass = "p2"
		}
		return map[string]any{"t": "trig", "mode": t.Mode, "ver": c06NormVer(t.Ver), "vclass": vclass, "shape": t.Shape, "ts": t.Ts, "sfx": t.Sfx, "port": t.Port}
	case "part":
		return map[string]any{"t": "part", "k": t.K}
	case "fin":
		return map[string]any{"t": "fin", "marker": t.Marker, "place": t.Place}
	}
	return map[string]any{"t": "junk"}
}

func c06ChunkEvent(level string, st *c06Step, o *c06Obs) map[string]any {
	toks := make([]any, len(st.Toks))
	for i := range st.Toks {
		toks[i] = c06TokEvent(&st.Toks[i])
	}
	ctl := st.Ctl
	if ctl == "" {
		ctl = "none"
	}
	return map[string]any{"e": "chunk", "level": level, "ctl": ctl, "tun": st.Tun, "toks": toks,
		"fired": o.Fired, "mode": o.Mode, "ver": o.Ver, "ts": o.Ts, "sfx": o.Sfx, "port": o.Port,
		"shown": o.Shown, "refire": o.Refire, "rmode": o.RMode, "rver": o.RVer, "rts": o.RTs, "rsfx": o.RSfx, "rport": o.RPort,
		"rmark": o.RMark, "acts": o.Acts, "omode": o.OMode, "proto2": o.Proto2, "tport": o.TPort, "hello": o.Hello}
}
