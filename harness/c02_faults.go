//go:build verif

package trzsz

// C02 driver: byte-level faults (flip, deletion, duplication, insertion, tail truncation) at
// chosen offsets of either direction of real end-to-end transfers.

import (
	"math/rand"
	"os"
)

func init() { vRegister("c02_faults", c02Faults) }

// c02Bases: the base transfers into which faults are injected.
func c02Bases(seed int64, thorough bool) []*e2eCase {
	var res []*e2eCase
	mk := func(upload, binary bool, proto int, dir bool, comp int, sizes []int64) {
		c := &e2eCase{Seed: seed + int64(len(res))*977, NamesFromTops: true, WatchdogMs: 20000}
		c.Opts = e2eOpts{Upload: upload, Binary: binary, Protocol: proto, Directory: dir, Compress: comp,
			Timeout: 2, Bufsize: 4096, Overwrite: false}
		for i, sz := range sizes {
			rel := e2eName(0, i)
			if dir {
				rel = "tree/" + rel
			}
			c.Nodes = append(c.Nodes, e2eNode{Rel: rel, Size: sz, Kind: i % 3})
			c.Bases = append(c.Bases, "")
		}
		res = append(res, c)
	}
	mk(true, false, 4, false, 0, []int64{700, 9000})
	mk(false, true, 4, false, 0, []int64{9000, 300})
	mk(true, true, 4, false, 2, []int64{6000})
	mk(false, false, 4, false, 1, []int64{5000, 0})
	mk(false, false, 4, false, 2, []int64{4000})
	// overwrite onto existing files whose beginning matches the source: the resume hash exchange
	// (prefix shorter than the source; previous file longer than the source)
	mk(true, false, 4, false, 2, []int64{9000, 3000})
	res[len(res)-1].Opts.Overwrite = true
	res[len(res)-1].Pre = []e2eNode{{Rel: e2eName(0, 0), Size: 5000, Like: 1}, {Rel: e2eName(0, 1), Size: 4500, Like: 2}}
	mk(false, true, 3, false, 2, []int64{7000})
	res[len(res)-1].Opts.Overwrite = true
	res[len(res)-1].Pre = []e2eNode{{Rel: e2eName(0, 0), Size: 7000, Like: 1, DivergeAt: 6000}}
	// an older peer (protocol 2: no resume, the existing file is truncated and rewritten) over a longer existing file
	mk(true, false, 2, false, 0, []int64{1200})
	res[len(res)-1].Opts.Overwrite = true
	res[len(res)-1].Pre = []e2eNode{{Rel: e2eName(0, 0), Size: 6400, Kind: 2}}
	// a resume over several hash steps (10 MiB each): the first step matches, the second differs
	mk(true, true, 4, false, 2, []int64{25 << 20})
	res[len(res)-1].Opts.Overwrite = true
	res[len(res)-1].Opts.Bufsize = 10 << 20
	res[len(res)-1].Opts.Timeout = 5
	res[len(res)-1].WatchdogMs = 60000
	res[len(res)-1].Nodes[0].Kind = 1
	res[len(res)-1].Pre = []e2eNode{{Rel: e2eName(0, 0), Size: 25 << 20, Like: 1, DivergeAt: 12 << 20}}
	if thorough {
		mk(true, false, 1, false, 0, []int64{3000, 100})
		mk(false, false, 2, false, 0, []int64{6000})
		mk(true, true, 3, false, 0, []int64{9000})
		mk(false, true, 4, true, 0, []int64{2000, 50})
		mk(true, false, 4, true, 0, []int64{4000, 1})
		mk(true, true, 4, false, 1, []int64{200000})
	}
	return res
}

type c02Job struct {
	base   int
	faults []e2eFault
	label  string
}

func c02Faults(d *vCtx) error {
	thorough := d.pBool("thorough", false)
	shards := d.pInt("shards", 64)
	per := d.pInt("per_message", 3) // offsets per message: first / middle / last
	random2 := d.pInt("random_double", 0)
	bases := c02Bases(d.seed, thorough)
	layouts, err := e2eLayouts(d, bases)
	if err != nil {
		return err
	}
	return vShards(d, shards, func(si, n int) error {
		base := e2eShmBase()
		defer os.RemoveAll(base)
		if err := e2eCaptureStdout(d.out); err != nil {
			return err
		}
		var jobs []c02Job
		kinds := []string{"flip", "del", "dup", "ins", "trunc"}
		rng := rand.New(rand.NewSource(d.seed*7 + 11))
		for bi, c := range bases {
			_ = c
			w := layouts[bi]
			bigResume := len(c.Nodes) == 1 && c.Nodes[0].Size >= 20<<20
			// whole protocol lines dropped / delivered twice, in the phases before the file data (names,
			// sizes, the resume hash exchange) of transfers that overwrite an existing file
			if c.Opts.Overwrite || thorough {
				seenData := 0
				for _, m := range w {
					if m.Typ == "DATA" {
						seenData++
					}
					if m.G == 0 || (seenData > 0 && m.Typ == "DATA") || (bigResume && seenData > 2) {
						continue
					}
					for _, k := range []string{"linedel", "linedup"} {
						jobs = append(jobs, c02Job{bi, []e2eFault{{Dir: m.Dir, Off: m.Off, Kind: k}}, "line"})
					}
				}
			}
			// whole data lines dropped / delivered twice (every base): the first block, and the last blocks with the
			// end-of-data marker -- the stream then ends short or long with every frame still well formed
			if !bigResume {
				var datas []e2eLayoutMsg
				for _, m := range w {
					if m.Typ == "DATA" {
						datas = append(datas, m)
					}
				}
				for i, m := range datas {
					if i == 0 || i >= len(datas)-3 || (thorough && i%3 == 1) {
						for _, k := range []string{"linedel", "linedup"} {
							jobs = append(jobs, c02Job{bi, []e2eFault{{Dir: m.Dir, Off: m.Off, Kind: k}}, "dataline"})
						}
					}
				}
			}
			if bigResume {
				continue // 25 MiB per run: no per-byte matrix here
			}
			for _, m := range w {
				var offs []int
				switch {
				case m.Len <= 2 || per == 1:
					offs = []int{m.Off}
				case per >= m.Len:
					for o := 0; o < m.Len; o++ {
						offs = append(offs, m.Off+o)
					}
				default:
					offs = []int{m.Off, m.Off + m.Len/2, m.Off + m.Len - 1}
					for k := 3; k < per; k++ {
						offs = append(offs, m.Off+rng.Intn(m.Len))
					}
				}
				for _, o := range offs {
					for _, k := range kinds {
						val := byte(1 << uint(rng.Intn(8)))
						if k == "ins" {
							val = []byte{'\n', '#', ':', '0', '9', 0xee, 'A', '=', '/', '!'}[rng.Intn(10)]
						}
						jobs = append(jobs, c02Job{bi, []e2eFault{{Dir: m.Dir, Off: o, Kind: k, Val: val}}, m.Typ})
					}
				}
			}
			// targeted count faults: a digit of a numeric line becomes another digit ("#NUM:1" -> "#NUM:0",
			// a size or an acknowledged length changes): the line stays well-formed
			for _, m := range w {
				if m.Typ != "NUM" && m.Typ != "SIZE" && !(m.Typ == "SUCC" && m.Len <= 16) {
					continue
				}
				first := m.Off + len(m.Typ) + 2
				last := m.Off + m.Len - 2
				for _, o := range []int{first, last} {
					if o < first || o >= m.Off+m.Len {
						continue
					}
					for _, mask := range []byte{0x01, 0x02, 0x08} {
						jobs = append(jobs, c02Job{bi, []e2eFault{{Dir: m.Dir, Off: o, Kind: "flip", Val: mask}}, "digit"})
					}
					if o == last && first == last {
						break
					}
				}
			}
			// targeted double faults: payload damage that may still decode, together with damage to
			// the digest line of the same file (a digest that cannot be decoded must not be skipped)
			if c.Opts.Compress == 2 {
				var datas, md5s []e2eLayoutMsg
				for _, m := range w {
					if m.Typ == "DATA" && m.Len > 40 {
						datas = append(datas, m)
					}
					if m.Typ == "MD5" {
						md5s = append(md5s, m)
					}
				}
				for di, dm := range datas {
					if di >= 2 && !thorough {
						break
					}
					var md *e2eLayoutMsg
					for i := range md5s {
						if md5s[i].Dir == dm.Dir && md5s[i].G > dm.G {
							md = &md5s[i]
							break
						}
					}
					if md == nil {
						continue
					}
					for _, mask := range []byte{0x01, 0x02, 0x04} {
						for mi, mk := range []string{"flip", "del", "ins"} {
							off := dm.Off + dm.Len/2 + int(mask)
							jobs = append(jobs, c02Job{bi, []e2eFault{
								{Dir: dm.Dir, Off: off, Kind: "flip", Val: mask},
								{Dir: md.Dir, Off: md.Off + 5 + md.Len/2 + mi, Kind: mk, Val: byte('A' + mask)},
							}, "data+md5"})
						}
					}
				}
			}
			for k := 0; k < random2; k++ {
				var fs []e2eFault
				for j := 0; j < 2; j++ {
					m := w[rng.Intn(len(w))]
					kind := kinds[rng.Intn(4)]
					fs = append(fs, e2eFault{Dir: m.Dir, Off: m.Off + rng.Intn(m.Len), Kind: kind, Val: byte(1 << uint(rng.Intn(8)))})
				}
				jobs = append(jobs, c02Job{bi, fs, "double"})
			}
		}
		tr, err := vNewTrace(d.path("obs.ndjson"))
		if err != nil {
			return err
		}
		var details []map[string]any
		for ji := si; ji < len(jobs); ji += n {
			if ji <= vResumeAfter() {
				continue
			}
			j := jobs[ji]
			cc := *bases[j.base]
			cc.ID = ji
			cc.Plan.Faults = j.faults
			_, detail, err := e2eExec(&cc, e2eWorkDir(base, cc.ID), tr, false)
			if err != nil {
				return err
			}
			detail["case"] = &cc
			detail["label"] = j.label
			// keep details only for runs where somebody reported success with a wrong tree (small output)
			details = append(details, map[string]any{"case": &cc, "label": j.label, "entries": detail["entries"],
				"client_err": detail["client_err"], "server_err": detail["server_err"], "hung": detail["hung"]})
			os.RemoveAll(e2eWorkDir(base, cc.ID))
			d.add("runs", 1)
			d.add("kind_"+j.faults[0].Kind, 1)
			if e2eTainted {
				vRequestRestart(d, ji)
				break
			}
		}
		d.set("jobs_total", len(jobs))
		if err := tr.Close(); err != nil {
			return err
		}
		return vWriteJSON(d.path("details.json"), details)
	})
}
