//go:build verif

package trzsz

// X05 "ErrorPaths" drivers: how a transfer ends with an error -- what each side writes to the
// other (fail / FAIL / EXIT lines), what it shows the user (the server's final message on
// stdout, the error the client hands to its caller), what deleteCreatedFiles removes and
// reports, how often the terminal is reset, how long cleanInput drains.
//
//   x05_paths   real client path (handleTrzsz -> uploadFiles/downloadFiles -> clientError, with
//               its deferred recover) against the real server role bodies (recvFiles/sendFiles of
//               trz.go/tsz.go, then serverError, with the deferred recover of TrzMain/TszMain),
//               joined by the e2e wire; a plan provokes errors at chosen protocol positions:
//               user stop (keep/delete) on either side, write errors, silence, a panic in the
//               role's own goroutine, forged fail/FAIL/EXIT/garbage lines from the "peer",
//               several of these at once (crossing fail lines).
//   x05_term    resetTerm / serverExit / serverError / the background path called on a real
//               trzszTransfer in chosen orders and concurrently (termReseted CAS).
//   x05_drain   cleanInput / clientError against a peer that keeps sending.
//   x05_replay  re-runs saved cases.
// Events (ndjson, judged by spec/ErrorPathsTrace.tla):
//   reset{run,upload,mode,pre[]} create{role,f} stop{role,kind} break{role,how}
//   inject{to,t,x,tb,fl[]} bg err{role,cls,x,tb,trace,remote,fl[],src} tell{role,t,x,tb,fl[],lost}
//   shown{role,known,ok,x,tb,fl[],resets,prints} fs{left[]} time{role,ms,bound}

import (
	"encoding/json"
	"fmt"
	"math/rand"
	"os"
	"path/filepath"
	"runtime"
	"sort"
	"strings"
	"sync"
	"time"
)

func init() {
	vRegister("x05_paths", x05Paths)
	vRegister("x05_term", x05Term)
	vRegister("x05_drain", x05Drain)
	vRegister("x05_replay", x05Replay)
}

// ---------------------------------------------------------------- plans

type x05Trig struct {
	Dir   string `json:"dir"`   // direction of the message that triggers
	Typ   string `json:"typ"`   // its type
	Nth   int    `json:"nth"`   // n-th message of that type in that direction (0-based)
	Phase string `json:"phase"` // before | after delivery
}

type x05Act struct {
	At     x05Trig `json:"at"`
	Do     string  `json:"do"`     // stop | dead | mute | panic | inject
	Role   string  `json:"role"`   // stop: whose; dead/mute: whose output; inject: to whom
	Delete bool    `json:"delete"` // stop and delete
	T      string  `json:"t"`      // inject: line type (fail FAIL EXIT JUNK, or the expected type)
	Text   string  `json:"text"`   // inject: decoded text (raw payload when Raw)
	Raw    bool    `json:"raw"`    // inject: Text is the payload as is (not encoded)
}

type x05Plan struct {
	Label string   `json:"label"`
	Acts  []x05Act `json:"acts"`
}

type x05Case struct {
	ID    int       `json:"id"`
	Seed  int64     `json:"seed"`
	Base  int       `json:"base"`
	Opts  e2eOpts   `json:"opts"`
	Nodes []e2eNode `json:"nodes"`
	Pre   []e2eNode `json:"pre"`
	Plan  x05Plan   `json:"plan"`
}

const x05FakeStack = "\ngoroutine 1 [running]:\nruntime/debug.Stack()\n\t/forged/by/verif.go:1 +0x1\n"
const x05BgMsg = "Switch to transfer in background."

// ---------------------------------------------------------------- text decomposition

// x05Split decomposes a message text into header, number of stack traces and the listed paths
// ("<header>:\r\n- <abs path>\r\n- <abs path>", as written by joinFileNames).
func x05Split(text string) (hdr string, tb int, files []string) {
	tb = strings.Count(text, "runtime/debug.Stack()")
	if i := strings.Index(text, ":\r\n- /"); i >= 0 {
		for _, p := range strings.Split(text[i+5:], "\r\n- ") {
			files = append(files, p)
		}
		text = text[:i]
	}
	if i := strings.Index(text, "\ngoroutine "); i >= 0 {
		text = text[:i]
	}
	return text, tb, files
}

type x05Ids struct {
	texts map[string]int
	files map[string]int
}

func newX05Ids() *x05Ids {
	return &x05Ids{texts: map[string]int{"Stopped": 1, "Stopped and deleted": 2}, files: map[string]int{}}
}

func (t *x05Ids) text(s string) int {
	if id, ok := t.texts[s]; ok {
		return id
	}
	id := len(t.texts) + 1
	t.texts[s] = id
	return id
}

// file ids: known (created) paths have ids 1..; a path never seen as created gets an id >= 100
func (t *x05Ids) file(p string, create bool) int {
	if id, ok := t.files[p]; ok {
		return id
	}
	if !create {
		id := 100 + len(t.files)
		t.files[p] = id
		return id
	}
	n := 0
	for _, v := range t.files {
		if v < 100 {
			n++
		}
	}
	t.files[p] = n + 1
	return n + 1
}

func (t *x05Ids) txt(text string) (int, int, []int) {
	h, tb, fl := x05Split(text)
	ids := []int{}
	for _, p := range fl {
		ids = append(ids, t.file(p, false))
	}
	sort.Ints(ids)
	return t.text(h), tb, ids
}

// x05Classify: the attributes of an error value as clientError / serverError look at them.
func x05Classify(err error) (cls string, trace bool, remote string) {
	e, ok := err.(*trzszError)
	if !ok {
		return "io", true, "no"
	}
	switch {
	case e.isRemoteFail() || e.isRemoteExit():
		return "remote", e.isTraceBack(), e.errType
	case e == errStopped || e == errStoppedAndDeleted:
		return "stop", e.isTraceBack(), "no"
	case e == errReceiveDataTimeout:
		return "timeout", e.isTraceBack(), "no"
	case e.errType == "panic":
		return "panic", e.isTraceBack(), "no"
	case e.isTraceBack():
		return "proto", true, "no"
	}
	return "simple", false, "no"
}

// ---------------------------------------------------------------- stdout of the server

// x05ParseStdout: the terminal resets and the messages the server printed.
//   resetTerm winning the CAS:  ESC 8 ESC [0J <msg> CR LF ESC [?25h
//   resetTerm losing it:        ESC 7 CR LF <msg> CR LF ESC 8
func x05ParseStdout(s string) (resets int, msgs []string) {
	const rs, re = "\x1b8\x1b[0J", "\r\n\x1b[?25h"
	const ws, we = "\x1b7\r\n", "\r\n\x1b8"
	for len(s) > 0 {
		i, j := strings.Index(s, rs), strings.Index(s, ws)
		switch {
		case i >= 0 && (j < 0 || i < j):
			resets++
			s = s[i+len(rs):]
			if k := strings.Index(s, re); k >= 0 {
				msgs = append(msgs, s[:k])
				s = s[k+len(re):]
			} else {
				msgs = append(msgs, s)
				s = ""
			}
		case j >= 0:
			s = s[j+len(ws):]
			if k := strings.Index(s, we); k >= 0 {
				msgs = append(msgs, s[:k])
				s = s[k+len(we):]
			} else {
				msgs = append(msgs, s)
				s = ""
			}
		default:
			s = ""
		}
	}
	return
}

// ---------------------------------------------------------------- one end-to-end run

type x05Raw struct {
	kind  string // create stop break inject line bg
	role  string
	t     string
	text  string
	lost  bool
	path  string
	extra string
	at    time.Time
}

type x05Out struct {
	Events  []map[string]any
	Detail  map[string]any
	Hung    []string
	Skipped string
}

func x05OnOwnGoroutine(marker string) bool {
	buf := make([]byte, 1<<16)
	n := runtime.Stack(buf, false)
	return strings.Contains(string(buf[:n]), marker)
}

// x05ServerBody is what TrzMain / TszMain run: the role body, serverError on error, and the
// deferred recover -> serverError(panic).
func x05ServerBody(st *trzszTransfer, o e2eOpts, base baseArgs) (err error) {
	defer func() {
		if r := recover(); r != nil {
			err = newTrzszError(fmt.Sprintf("%v", r), "panic", true)
			st.serverError(err)
		}
	}()
	if o.Upload {
		err = recvFiles(st, &trzArgs{baseArgs: base, Path: o.Dst}, noTmuxMode, 0)
	} else {
		var files []*sourceFile
		files, err = checkPathsReadable(o.Src, o.Directory)
		if err == nil && o.Overwrite {
			err = checkDuplicateNames(files)
		}
		if err == nil {
			err = sendFiles(st, files, &tszArgs{baseArgs: base, File: o.Src}, noTmuxMode, 0)
		}
	}
	if err != nil {
		st.serverError(err)
	}
	return err
}

func x05Run(c *x05Case, work string) (*x05Out, error) {
	srcRoot, dst := filepath.Join(work, "src"), filepath.Join(work, "dst")
	if err := os.MkdirAll(dst, 0755); err != nil {
		return nil, err
	}
	tops, err := e2eMakeTree(srcRoot, c.Nodes, c.Seed)
	if err != nil {
		return nil, err
	}
	if len(c.Pre) > 0 {
		if _, err := e2eMakeTree(dst, c.Pre, c.Seed+7777); err != nil {
			return nil, err
		}
	}
	pre := e2eSnapshot(dst)
	o := c.Opts
	o.Src, o.Dst = tops, dst
	if o.Bufsize == 0 {
		o.Bufsize = 4096
	}
	if o.Timeout == 0 {
		o.Timeout = 2
	}
	w := newE2EWire(c.Seed, 0)
	if o.Protocol >= 1 && o.Protocol <= 3 {
		w.actProt = o.Protocol
		if o.Protocol == 1 {
			w.actProt = 0
		}
	}
	sink := &e2eSink{}
	f := &TrzszFilter{clientOut: sink, serverIn: e2eWC{w.c2s}, options: TrzszOptions{TerminalColumns: 100}}
	mode := byte('S')
	if o.Upload {
		mode = 'R'
		if o.Directory {
			mode = 'D'
		}
	}
	f.trigger = &trzszTrigger{mode: mode, version: &trzszVersion{1, 1, 8}, uniqueID: "1234567890100"}
	var clientRes chan error
	if o.Upload {
		f.oneTimeUploadFiles = o.Src
		clientRes = make(chan error, 1)
		f.oneTimeUploadResult = clientRes
	} else {
		f.SetDefaultDownloadPath(o.Dst)
	}
	st := newTransfer(w.s2c, nil, false, nil)

	var mu sync.Mutex
	var raw []x05Raw
	lastIn := map[string]time.Time{}
	var trigAt time.Time
	preHS := false
	rec := func(e x05Raw) {
		e.at = time.Now()
		mu.Lock()
		raw = append(raw, e)
		mu.Unlock()
	}
	dropped := 0
	w.c2s.deliver = func(b []byte) {
		mu.Lock()
		lastIn["V"] = time.Now()
		mu.Unlock()
		st.addReceivedData(b, false)
	}
	w.s2c.deliver = func(b []byte) {
		mu.Lock()
		lastIn["C"] = time.Now()
		mu.Unlock()
		if t := f.transfer.Load(); t != nil {
			t.addReceivedData(b, false)
		} else {
			dropped += len(b)
		}
	}
	rcvDir, sndDir := "s2c", "c2s" // direction in which the receiving role writes / the sending role writes
	rcvRole := "V"
	if !o.Upload {
		rcvDir, sndDir, rcvRole = "c2s", "s2c", "C"
	}
	roleOf := func(dir string) string {
		if dir == "c2s" {
			return "C"
		}
		return "V"
	}
	pipeOf := func(role string) *e2ePipe {
		if role == "C" {
			return w.c2s
		}
		return w.s2c
	}
	seen := map[string]int{}  // dir+typ -> count
	lastTyp := map[string]string{}
	created := map[string]bool{}
	fired := make([]bool, len(c.Plan.Acts))
	skipped := ""
	w.onMsg = func(m *e2eMsg, phase string) {
		key := m.Dir + ":" + m.Typ
		mu.Lock()
		nth := seen[key]
		if phase == "after" {
			seen[key] = nth + 1
		}
		mu.Unlock()
		if phase == "before" {
			p := pipeOf(roleOf(m.Dir))
			if m.Typ == "fail" || m.Typ == "FAIL" || m.Typ == "EXIT" {
				text := ""
				if b, err := decodeString(string(m.Raw)); err == nil {
					text = string(b)
				} else {
					text = "undecodable:" + string(m.Raw)
				}
				rec(x05Raw{kind: "line", role: roleOf(m.Dir), t: m.Typ, text: text, lost: p.isSilent()})
			}
			// the receiving role acknowledges a NAME with the local name it created
			if m.Dir == rcvDir && m.Typ == "SUCC" {
				mu.Lock()
				isName := lastTyp[sndDir] == "NAME"
				mu.Unlock()
				fl := m.flat()
				name := ""
				if fl["k"] == "jtarget" {
					name, _ = fl["s"].(string)
				} else if isName && fl["k"] == "str" {
					name, _ = fl["s"].(string)
				}
				if name != "" {
					pth := filepath.Join(dst, name)
					mu.Lock()
					first := !created[pth]
					created[pth] = true
					mu.Unlock()
					if first {
						rec(x05Raw{kind: "create", role: rcvRole, path: pth})
					}
				}
			}
			mu.Lock()
			lastTyp[m.Dir] = m.Typ
			mu.Unlock()
		}
		for i := range c.Plan.Acts {
			a := &c.Plan.Acts[i]
			if a.At.Dir != m.Dir || a.At.Typ != m.Typ || a.At.Nth != nth || a.At.Phase != phase {
				continue
			}
			mu.Lock()
			done := fired[i]
			fired[i] = true
			if trigAt.IsZero() {
				trigAt = time.Now()
				preHS = seen["s2c:CFG"] == 0 // the client still runs on its default 20 s time-out
			}
			mu.Unlock()
			if done {
				continue
			}
			switch a.Do {
			case "stop":
				if a.Role == "C" {
					if f.transfer.Load() == nil {
						continue
					}
					kind := "keep"
					if a.Delete {
						kind = "del"
					}
					rec(x05Raw{kind: "stop", role: "C", extra: kind})
					f.StopTransferringFiles(a.Delete)
				} else {
					rec(x05Raw{kind: "stop", role: "V", extra: "keep"})
					st.stopTransferringFiles(false) // handleServerSignal
				}
			case "dead":
				rec(x05Raw{kind: "break", role: a.Role, extra: "dead"})
				w.mu.Lock()
				pipeOf(a.Role).writeErr = e2eErr("connection reset by verif harness")
				w.mu.Unlock()
			case "mute":
				rec(x05Raw{kind: "break", role: a.Role, extra: "mute"})
				w.mu.Lock()
				pipeOf(a.Role).silent = true
				w.mu.Unlock()
			case "inject":
				// a forged line arrives in front of message m (same direction)
				if phase != "before" || m.Typ == "fail" || m.Typ == "FAIL" {
					continue
				}
				p := pipeOf(roleOf(m.Dir))
				if p.isSilent() {
					continue
				}
				payload := a.Text
				if !a.Raw {
					payload = encodeString(a.Text)
				}
				to := "V"
				if m.Dir == "s2c" {
					to = "C"
				}
				t := a.T
				if t == "same" {
					t = m.Typ
				}
				rec(x05Raw{kind: "inject", role: to, t: t, text: a.Text, extra: fmt.Sprint(a.Raw)})
				p.deliver([]byte("#" + t + ":" + payload + "\n"))
			case "panic":
				marker := "handleTrzsz"
				if m.Dir == "s2c" {
					marker = "x05ServerBody"
				}
				if phase == "before" && x05OnOwnGoroutine(marker) {
					panic("x05 injected panic at " + m.Typ)
				}
			}
		}
	}

	e2eStdoutSince()
	base := baseArgs{Quiet: true, Overwrite: o.Overwrite, Binary: o.Binary, Escape: o.Escape,
		Directory: o.Directory, Bufsize: bufferSize{o.Bufsize}, Timeout: o.Timeout, Compress: compressType(o.Compress)}
	type ret struct {
		err error
		at  time.Time
	}
	serverDone := make(chan ret, 1)
	go func() {
		err := x05ServerBody(st, o, base)
		st.cleanup()
		serverDone <- ret{err, time.Now()}
	}()
	clientDone := make(chan ret, 1)
	go func() {
		f.handleTrzsz()
		clientDone <- ret{nil, time.Now()}
	}()
	wd := 45 * time.Second
	timer := time.NewTimer(wd)
	defer timer.Stop()
	var sret, cret ret
	gotS, gotC := false, false
	var hung []string
	lastAct := int64(-1)
	t0 := time.Now()
	for !(gotS && gotC) {
		select {
		case sret = <-serverDone:
			gotS = true
		case cret = <-clientDone:
			gotC = true
		case <-timer.C:
			if a := w.act.Load(); a != lastAct && time.Since(t0) < 10*wd {
				lastAct = a
				timer.Reset(wd)
				continue
			}
			if !gotS {
				hung = append(hung, "server")
			}
			if !gotC {
				hung = append(hung, "client")
			}
			gotS, gotC = true, true
		}
	}
	out := &x05Out{Hung: hung, Skipped: skipped}
	if len(hung) > 0 {
		e2eTainted = true
		out.Skipped = "hung"
		return out, nil
	}
	time.Sleep(5 * time.Millisecond)
	stdout := e2eStdoutSince()
	var cerr error
	cknown := false
	if o.Upload {
		select {
		case cerr = <-clientRes:
			cknown = true
		default: // a panic skips setOneTimeUploadResult
		}
	}
	mu.Lock()
	evs := append([]x05Raw(nil), raw...)
	lin := map[string]time.Time{"C": lastIn["C"], "V": lastIn["V"]}
	trig := trigAt
	pre0 := preHS
	mu.Unlock()

	// ---- projection onto spec events
	ids := newX05Ids()
	post := e2eSnapshot(dst)
	// created entries: acknowledged names, plus top-level entries that appeared or changed, plus
	// top-level paths a deleted-files list names
	var creates []string
	for _, e := range evs {
		if e.kind == "create" {
			creates = append(creates, e.path)
		}
	}
	var late []string
	addLate := func(pth string) {
		if filepath.Dir(pth) != dst || containsString(creates, pth) || containsString(late, pth) {
			return
		}
		late = append(late, pth)
	}
	for _, k := range e2eSortedKeys(post) {
		if !strings.Contains(k, string(filepath.Separator)) {
			if pv, ok := pre[k]; !ok || pv != post[k] {
				addLate(filepath.Join(dst, k))
			}
		}
	}
	scanList := func(text string) {
		_, _, fl := x05Split(text)
		for _, p := range fl {
			addLate(p)
		}
	}
	for _, e := range evs {
		if e.kind == "line" && e.role == rcvRole {
			scanList(e.text)
		}
	}
	resets, msgs := x05ParseStdout(stdout)
	var finals []string
	bgPrints := 0
	for _, m := range msgs {
		if m == x05BgMsg {
			bgPrints++
		} else {
			finals = append(finals, m)
		}
	}
	if rcvRole == "V" {
		for _, m := range finals {
			scanList(m)
		}
	}
	preIDs := []int{}
	for _, p := range append(append([]string(nil), creates...), late...) {
		id := ids.file(p, true)
		rel, _ := filepath.Rel(dst, p)
		if _, ok := pre[rel]; ok {
			preIDs = append(preIDs, id)
		}
	}
	sort.Ints(preIDs)
	mk := func(e string) map[string]any { return map[string]any{"e": e, "run": c.ID} }
	var res []map[string]any
	r0 := mk("reset")
	r0["upload"], r0["mode"], r0["pre"], r0["label"], r0["base"] = o.Upload, "e2e", preIDs, c.Plan.Label, c.Base
	res = append(res, r0)
	errEv := func(role string, err error, line *x05Raw) map[string]any {
		m := mk("err")
		m["role"] = role
		if err != nil {
			cls, trace, remote := x05Classify(err)
			x, tb, fl := ids.txt(err.Error())
			m["cls"], m["trace"], m["remote"], m["x"], m["tb"], m["fl"], m["src"] = cls, trace, remote, x, tb, fl, "obj"
			return m
		}
		if line != nil {
			// no error value is observable (download, or a recovered panic): what the line implies
			x, tb, fl := ids.txt(line.text)
			cls, trace := "simple", line.t == "FAIL"
			switch {
			case x <= 2:
				cls = "stop"
			case strings.HasPrefix(line.text, "[TrzszError] panic:"):
				cls = "panic"
			case trace && tb > 0:
				cls = "proto"
			case trace:
				cls = "io"
			case strings.HasPrefix(line.text, "Receive data timeout"):
				cls = "timeout"
			}
			if len(fl) > 0 { // the stop-and-delete report is `fail` whatever the error was
				trace = tb > 0
			}
			m["cls"], m["trace"], m["remote"], m["x"], m["tb"], m["fl"], m["src"] = cls, trace, "no", x, tb, []int{}, "line"
			return m
		}
		m["cls"], m["trace"], m["remote"], m["x"], m["tb"], m["fl"], m["src"] = "quiet", false, "no", 0, 0, []int{}, "none"
		return m
	}
	clientFailed := !o.Upload || cerr != nil || !cknown
	exitSent := false
	var cLine, vLine *x05Raw
	for i := range evs {
		e := &evs[i]
		if e.kind == "line" && e.t != "EXIT" {
			if e.role == "C" && cLine == nil {
				cLine = e
			}
			if e.role == "V" && vLine == nil {
				vLine = e
			}
		}
		if e.kind == "line" && e.t == "EXIT" && e.role == "C" {
			exitSent = true
		}
	}
	if exitSent && (!o.Upload || (cknown && cerr == nil)) {
		clientFailed = false
	}
	lateDone := false
	emitLate := func() {
		if lateDone {
			return
		}
		lateDone = true
		for _, p := range late {
			m := mk("create")
			m["role"], m["f"] = rcvRole, ids.file(p, true)
			res = append(res, m)
		}
	}
	cErrDone, vErrDone := !clientFailed, sret.err == nil
	for i := range evs {
		e := &evs[i]
		switch e.kind {
		case "create":
			m := mk("create")
			m["role"], m["f"] = e.role, ids.file(e.path, true)
			res = append(res, m)
		case "stop":
			m := mk("stop")
			m["role"], m["kind"] = e.role, e.extra
			res = append(res, m)
		case "break":
			m := mk("break")
			m["role"], m["how"] = e.role, e.extra
			res = append(res, m)
		case "inject":
			m := mk("inject")
			t := e.t
			x, tb, fl := 0, 0, []int{}
			if t == "fail" || t == "FAIL" || t == "EXIT" {
				x, tb, fl = ids.txt(e.text)
			} else {
				t = "junk"
			}
			m["to"], m["t"], m["x"], m["tb"], m["fl"] = e.role, t, x, tb, fl
			res = append(res, m)
		case "line":
			if e.t != "EXIT" {
				if e.role == rcvRole {
					emitLate()
				}
				if e.role == "C" && !cErrDone {
					cErrDone = true
					res = append(res, errEv("C", cerr, cLine))
				}
				if e.role == "V" && !vErrDone {
					vErrDone = true
					res = append(res, errEv("V", sret.err, vLine))
				}
			}
			m := mk("tell")
			x, tb, fl := ids.txt(e.text)
			m["role"], m["t"], m["x"], m["tb"], m["fl"], m["lost"] = e.role, e.t, x, tb, fl, e.lost
			res = append(res, m)
		}
	}
	emitLate()
	if !cErrDone {
		res = append(res, errEv("C", cerr, nil))
	}
	if !vErrDone {
		res = append(res, errEv("V", sret.err, nil))
	}
	// what each side shows
	sc := mk("shown")
	sc["role"], sc["known"], sc["ok"], sc["x"], sc["tb"], sc["fl"], sc["resets"], sc["prints"] = "C", cknown, cknown && cerr == nil, 0, 0, []int{}, 0, 0
	if cknown && cerr != nil {
		sc["x"], sc["tb"], sc["fl"] = ids.txt(cerr.Error())
	}
	res = append(res, sc)
	sv := mk("shown")
	sv["role"], sv["known"], sv["ok"], sv["x"], sv["tb"], sv["fl"], sv["resets"], sv["prints"] = "V", true, sret.err == nil, 0, 0, []int{}, resets, len(finals)
	if len(finals) > 0 {
		sv["x"], sv["tb"], sv["fl"] = ids.txt(finals[len(finals)-1])
	}
	res = append(res, sv)
	// which created entries are still there
	left := []int{}
	for p, id := range ids.files {
		if id >= 100 {
			continue
		}
		rel, _ := filepath.Rel(dst, p)
		if _, ok := post[rel]; ok {
			left = append(left, id)
		}
	}
	sort.Ints(left)
	fs := mk("fs")
	fs["left"] = left
	res = append(res, fs)
	// time from the later of (first provocation, last input delivered to the role) to its return
	bound := int64(o.Timeout)*1000 + 1500 + 8000
	for _, role := range []string{"C", "V"} {
		end := cret.at
		if role == "V" {
			end = sret.at
		}
		from := trig
		if lin[role].After(from) {
			from = lin[role]
		}
		ms := int64(0)
		if !trig.IsZero() && end.After(from) {
			ms = end.Sub(from).Milliseconds()
		}
		tm := mk("time")
		if role == "C" && pre0 {
			tm["role"], tm["ms"], tm["bound"] = role, ms, int64(20000+1500+8000)
			res = append(res, tm)
			continue
		}
		tm["role"], tm["ms"], tm["bound"] = role, ms, bound
		res = append(res, tm)
	}
	out.Events = res
	texts := map[string]string{}
	for s, id := range ids.texts {
		if len(s) > 300 {
			s = s[:300]
		}
		texts[fmt.Sprint(id)] = s
	}
	files := map[string]string{}
	for p, id := range ids.files {
		files[fmt.Sprint(id)] = p
	}
	errText := func(e error) string {
		if e == nil {
			return ""
		}
		s := e.Error()
		if len(s) > 400 {
			s = s[:400]
		}
		return s
	}
	so := stdout
	if len(so) > 1500 {
		so = so[:1500]
	}
	out.Detail = map[string]any{"case": c, "texts": texts, "files": files, "client_err": errText(cerr), "server_err": errText(sret.err),
		"stdout": so, "client_sink": len(sink.String()), "dropped": dropped, "bg_prints": bgPrints}
	return out, nil
}

// ---------------------------------------------------------------- bases and plans

func x05Bases(seed int64, thorough bool) []*x05Case {
	var res []*x05Case
	mk := func(upload, binary bool, proto int, dir, overwrite bool, sizes []int64, pre []e2eNode) {
		c := &x05Case{Seed: seed + int64(len(res))*977, Base: len(res)}
		c.Opts = e2eOpts{Upload: upload, Binary: binary, Protocol: proto, Directory: dir, Overwrite: overwrite,
			Timeout: 2, Bufsize: 4096, Compress: 2}
		for i, sz := range sizes {
			rel := e2eName(0, i)
			if dir {
				rel = "tree/" + rel
			}
			c.Nodes = append(c.Nodes, e2eNode{Rel: rel, Size: sz, Kind: 1})
		}
		c.Pre = pre
		res = append(res, c)
	}
	other := []e2eNode{{Rel: "keepme.txt", Size: 100}}
	mk(true, false, 4, false, false, []int64{3000, 9000}, other)
	mk(false, false, 4, false, false, []int64{9000, 500}, other)
	mk(true, false, 4, true, true, []int64{2000, 100}, other) // a directory entry by entry: nested createdFiles
	mk(false, false, 2, false, false, []int64{6000}, nil)
	// overwrite with a same-named destination file: an entry this transfer did not create
	mk(true, false, 4, false, true, []int64{5000, 300}, []e2eNode{{Rel: e2eName(0, 0), Size: 50}, {Rel: "keepme.txt", Size: 100}})
	mk(false, false, 4, false, true, []int64{5000, 300}, []e2eNode{{Rel: e2eName(0, 1), Size: 50}})
	if thorough {
		mk(true, true, 4, false, false, []int64{9000}, nil)
		mk(false, false, 3, false, false, []int64{4000, 10}, nil)
		mk(true, false, 1, false, false, []int64{2500}, nil)
		mk(false, false, 4, true, false, []int64{3000, 100}, other) // archive stream towards the client
	}
	return res
}

// x05Positions: trigger points along a transfer (by message type and count, either direction).
func x05Positions(c *x05Case, thorough bool) []x05Trig {
	snd, rcv := "c2s", "s2c"
	if !c.Opts.Upload {
		snd, rcv = "s2c", "c2s"
	}
	ps := []x05Trig{
		{"s2c", "CFG", 0, "after"},
		{snd, "NUM", 0, "before"},
		{snd, "NAME", 0, "after"},
		{rcv, "SUCC", 1, "after"}, // the acknowledged first name: the entry exists
		{snd, "SIZE", 0, "before"},
		{snd, "DATA", 0, "before"},
		{rcv, "SUCC", 3, "before"},
		{snd, "MD5", 0, "before"},
		{snd, "NAME", 1, "after"},
		{rcv, "SUCC", 6, "after"},
		{"c2s", "EXIT", 0, "before"},
	}
	if thorough {
		ps = append(ps, x05Trig{"c2s", "ACT", 0, "after"}, x05Trig{snd, "DATA", 1, "after"}, x05Trig{snd, "MD5", 1, "after"},
			x05Trig{rcv, "SUCC", 2, "after"}, x05Trig{snd, "SIZE", 1, "after"})
	}
	return ps
}

func x05Plans(c *x05Case, thorough bool) []x05Plan {
	var res []x05Plan
	snd := "C"
	if !c.Opts.Upload {
		snd = "V"
	}
	mainTyp := func(t x05Trig) bool { // written by the role's own goroutine (the one with the deferred recover)
		switch t.Typ {
		case "ACT", "CFG", "NUM", "NAME", "SIZE", "MD5": // (not EXIT: the tap would show a line that never left)
			return true
		}
		return false
	}
	for _, p := range x05Positions(c, thorough) {
		pos := fmt.Sprintf("%s%d%s", p.Typ, p.Nth, p.Phase[:1])
		add := func(label string, acts ...x05Act) {
			for i := range acts {
				acts[i].At = p
			}
			res = append(res, x05Plan{Label: label + "@" + pos, Acts: acts})
		}
		add("stopC", x05Act{Do: "stop", Role: "C"})
		add("stopCdel", x05Act{Do: "stop", Role: "C", Delete: true})
		add("stopV", x05Act{Do: "stop", Role: "V"})
		add("deadC", x05Act{Do: "dead", Role: "C"})
		add("deadV", x05Act{Do: "dead", Role: "V"})
		if p.Nth == 0 && (p.Typ == "NAME" || p.Typ == "DATA" || thorough) {
			add("muteC", x05Act{Do: "mute", Role: "C"})
			add("muteV", x05Act{Do: "mute", Role: "V"})
		}
		if p.Phase == "before" {
			add("fail", x05Act{Do: "inject", T: "fail", Text: "forged failure " + pos})
			add("failStopDel", x05Act{Do: "inject", T: "fail", Text: "Stopped and deleted"})
			add("FAIL", x05Act{Do: "inject", T: "FAIL", Text: "forged FAILURE " + pos + x05FakeStack})
			add("EXIT", x05Act{Do: "inject", T: "EXIT", Text: "forged exit " + pos})
			add("junk", x05Act{Do: "inject", T: "JUNK", Text: "zzz", Raw: true})
			add("undecodable", x05Act{Do: "inject", T: "same", Text: "!!!!", Raw: true})
			if mainTyp(p) {
				add("panic", x05Act{Do: "panic"})
			}
			// both sides at once
			add("stopC+stopV", x05Act{Do: "stop", Role: "C"}, x05Act{Do: "stop", Role: "V"})
			add("stopCdel+junk", x05Act{Do: "stop", Role: "C", Delete: true}, x05Act{Do: "inject", T: "JUNK", Text: "zzz", Raw: true})
			add("fail+stop"+snd, x05Act{Do: "inject", T: "fail", Text: "forged failure " + pos}, x05Act{Do: "stop", Role: snd})
			add("stopCdel+deadC", x05Act{Do: "stop", Role: "C", Delete: true}, x05Act{Do: "dead", Role: "C"})
		} else {
			add("stopCdel+stopV", x05Act{Do: "stop", Role: "C", Delete: true}, x05Act{Do: "stop", Role: "V"})
			add("deadC+deadV", x05Act{Do: "dead", Role: "C"}, x05Act{Do: "dead", Role: "V"})
		}
	}
	// crossing lines: garbage towards both sides in the same exchange
	res = append(res, x05Plan{Label: "junk-both", Acts: []x05Act{
		{At: x05Trig{"c2s", "NUM", 0, "before"}, Do: "inject", T: "JUNK", Text: "zzz", Raw: true},
		{At: x05Trig{"s2c", "CFG", 0, "before"}, Do: "inject", T: "JUNK", Text: "zzz", Raw: true}}})
	res = append(res, x05Plan{Label: "junk-both-data", Acts: []x05Act{
		{At: x05Trig{"c2s", "SUCC", 2, "before"}, Do: "inject", T: "JUNK", Text: "zzz", Raw: true},
		{At: x05Trig{"s2c", "SUCC", 2, "before"}, Do: "inject", T: "JUNK", Text: "zzz", Raw: true},
		{At: x05Trig{"c2s", "DATA", 0, "before"}, Do: "inject", T: "JUNK", Text: "zzz", Raw: true},
		{At: x05Trig{"s2c", "DATA", 0, "before"}, Do: "inject", T: "JUNK", Text: "zzz", Raw: true}}})
	res = append(res, x05Plan{Label: "clean"})
	return res
}

func x05Jobs(seed int64, thorough bool, limit int) []*x05Case {
	var all []*x05Case
	for _, b := range x05Bases(seed, thorough) {
		for _, p := range x05Plans(b, thorough) {
			cc := *b
			cc.Plan = p
			all = append(all, &cc)
		}
	}
	if limit > 0 && len(all) > limit {
		// a seeded sample: round-robin over the plan kinds, a seeded pick inside each kind
		r := rand.New(rand.NewSource(seed*7919 + 5))
		groups := map[string][]*x05Case{}
		var kinds []string
		for _, c := range all {
			k := strings.SplitN(c.Plan.Label, "@", 2)[0]
			if _, ok := groups[k]; !ok {
				kinds = append(kinds, k)
			}
			groups[k] = append(groups[k], c)
		}
		for _, k := range kinds {
			g := groups[k]
			r.Shuffle(len(g), func(i, j int) { g[i], g[j] = g[j], g[i] })
		}
		var pick []*x05Case
		for len(pick) < limit {
			n := 0
			for _, k := range kinds {
				if g := groups[k]; len(g) > 0 && len(pick) < limit {
					pick = append(pick, g[0])
					groups[k] = g[1:]
					n++
				}
			}
			if n == 0 {
				break
			}
		}
		all = pick
	}
	for i, c := range all {
		c.ID = i
	}
	return all
}

func x05Paths(d *vCtx) error {
	thorough := d.pBool("thorough", false)
	shards := d.pInt("shards", 48)
	jobs := x05Jobs(d.seed, thorough, d.pInt("limit", 0))
	for _, c := range jobs {
		c.Opts.Timeout = d.pInt("timeout", 2)
	}
	return vShards(d, shards, func(si, n int) error {
		return x05RunJobs(d, jobs, si, n)
	})
}

func x05RunJobs(d *vCtx, jobs []*x05Case, si, n int) error {
	base := e2eShmBase()
	defer os.RemoveAll(base)
	if err := e2eCaptureStdout(d.out); err != nil {
		return err
	}
	tr, err := vNewTrace(d.path("obs.ndjson"))
	if err != nil {
		return err
	}
	var details []map[string]any
	for ji := si; ji < len(jobs); ji += n {
		if ji <= vResumeAfter() {
			continue
		}
		c := jobs[ji]
		vMarkCurrent(d, ji, c)
		work := e2eWorkDir(base, c.ID)
		out, err := x05Run(c, work)
		os.RemoveAll(work)
		if err != nil {
			return err
		}
		if out.Skipped != "" {
			d.add("skipped_"+out.Skipped, 1)
		} else {
			for _, e := range out.Events {
				tr.Emit(e, nil)
			}
			tr.Flush()
			details = append(details, out.Detail)
			d.add("runs", 1)
			d.add("plan_"+strings.SplitN(c.Plan.Label, "@", 2)[0], 1)
		}
		if e2eTainted {
			vRequestRestart(d, ji)
			break
		}
	}
	d.set("jobs_total", len(jobs))
	if err := tr.Close(); err != nil {
		return err
	}
	return vWriteJSON(d.path("details.json"), details)
}

func x05Replay(d *vCtx) error {
	var cases []*x05Case
	b, err := os.ReadFile(d.pStr("cases", ""))
	if err != nil {
		return err
	}
	if err := json.Unmarshal(b, &cases); err != nil {
		return err
	}
	return x05RunJobs(d, cases, 0, 1)
}

// ---------------------------------------------------------------- resetTerm / serverExit combinations

type x05TermCase struct {
	ID    int    `json:"id"`
	Exit  string `json:"exit"`  // ok | local | localtrace | rfail | rFAIL | rEXIT | stopdel
	Bg    string `json:"bg"`    // none | before | after | race
	Sig   bool   `json:"sig"`   // the signal handler's stopTransferringFiles(false) fires as well
	Files int    `json:"files"` // created files (stopdel)
}

type x05NullWriter struct {
	mu    sync.Mutex
	lines []string
}

func (w *x05NullWriter) Write(p []byte) (int, error) {
	w.mu.Lock()
	w.lines = append(w.lines, string(p))
	w.mu.Unlock()
	return len(p), nil
}

func x05TermRun(c *x05TermCase, work string) ([]map[string]any, map[string]any) {
	_ = os.MkdirAll(work, 0755)
	wr := &x05NullWriter{}
	st := newTransfer(wr, nil, false, nil)
	ids := newX05Ids()
	mk := func(e string) map[string]any { return map[string]any{"e": e, "run": c.ID} }
	var res []map[string]any
	r0 := mk("reset")
	r0["upload"], r0["mode"], r0["pre"], r0["label"], r0["base"] = true, "term", []int{}, c.Exit+"/"+c.Bg, -1
	res = append(res, r0)
	for i := 0; i < c.Files; i++ {
		p := filepath.Join(work, fmt.Sprintf("made%d", i))
		if fw, err := st.doCreateFile(p, true, nil); err == nil {
			fw.Close()
		}
		m := mk("create")
		m["role"], m["f"] = "V", ids.file(p, true)
		res = append(res, m)
	}
	var err error
	var inj map[string]any
	forge := func(t, text string) {
		err = newTrzszError(encodeString(text), t, true) // what recvCheck builds from "#t:<payload>"
		inj = mk("inject")
		x, tb, fl := ids.txt(text)
		inj["to"], inj["t"], inj["x"], inj["tb"], inj["fl"] = "V", t, x, tb, fl
	}
	okMsg := fmt.Sprintf("Saved 1 file/directory to /x05/%d", c.ID)
	switch c.Exit {
	case "local":
		err = simpleTrzszError("x05 local error %d", c.ID)
	case "localtrace":
		err = newTrzszError(fmt.Sprintf("x05 traced error %d", c.ID), "x05", true)
	case "rfail":
		forge("fail", fmt.Sprintf("x05 remote failure %d", c.ID))
	case "rFAIL":
		forge("FAIL", fmt.Sprintf("x05 remote FAILURE %d", c.ID)+x05FakeStack)
	case "rEXIT":
		forge("EXIT", fmt.Sprintf("x05 remote exit %d", c.ID))
	case "stopdel":
		forge("fail", "Stopped and deleted")
	case "ok":
		inj = mk("inject")
		x, tb, fl := ids.txt(okMsg)
		inj["to"], inj["t"], inj["x"], inj["tb"], inj["fl"] = "V", "EXIT", x, tb, fl
	}
	if inj != nil {
		res = append(res, inj)
	}
	e2eStdoutSince()
	bg := func() { st.resetTerm(x05BgMsg, true) } // switchToBackground's goroutine, without closing stdin / stderr
	exit := func() {
		if c.Sig {
			st.stopTransferringFiles(false)
		}
		if err != nil {
			st.serverError(err)
		} else {
			st.serverExit(okMsg)
		}
	}
	if c.Sig {
		m := mk("stop")
		m["role"], m["kind"] = "V", "keep"
		res = append(res, m)
	}
	bgev := mk("bg")
	switch c.Bg {
	case "before":
		bg()
		res = append(res, bgev)
		exit()
	case "after":
		exit()
		bg()
	case "race":
		var wg sync.WaitGroup
		wg.Add(1)
		go func() {
			defer wg.Done()
			time.Sleep(time.Duration(595+c.ID%10) * time.Millisecond) // around the end of serverExit's drain
			bg()
		}()
		exit()
		wg.Wait()
	default:
		exit()
	}
	time.Sleep(2 * time.Millisecond)
	stdout := e2eStdoutSince()
	if err != nil {
		m := mk("err")
		cls, trace, remote := x05Classify(err)
		x, tb, fl := ids.txt(err.Error())
		m["role"], m["cls"], m["trace"], m["remote"], m["x"], m["tb"], m["fl"], m["src"] = "V", cls, trace, remote, x, tb, fl, "obj"
		res = append(res, m)
	}
	wr.mu.Lock()
	for _, l := range wr.lines {
		l = strings.TrimRight(l, "\n")
		if i := strings.IndexByte(l, ':'); i > 1 && l[0] == '#' {
			text := "undecodable"
			if b, e := decodeString(l[i+1:]); e == nil {
				text = string(b)
			}
			m := mk("tell")
			x, tb, fl := ids.txt(text)
			m["role"], m["t"], m["x"], m["tb"], m["fl"], m["lost"] = "V", l[1:i], x, tb, fl, false
			res = append(res, m)
		}
	}
	wr.mu.Unlock()
	if c.Bg == "after" || c.Bg == "race" {
		res = append(res, bgev)
	}
	resets, msgs := x05ParseStdout(stdout)
	var finals []string
	for _, m := range msgs {
		if m != x05BgMsg {
			finals = append(finals, m)
		}
	}
	for _, m := range finals {
		_, _, fl := x05Split(m)
		for _, p := range fl {
			ids.file(p, false)
		}
	}
	sv := mk("shown")
	sv["role"], sv["known"], sv["ok"], sv["x"], sv["tb"], sv["fl"], sv["resets"], sv["prints"] = "V", true, err == nil, 0, 0, []int{}, resets, len(finals)
	if len(finals) > 0 {
		sv["x"], sv["tb"], sv["fl"] = ids.txt(finals[len(finals)-1])
	}
	res = append(res, sv)
	left := []int{}
	for p, id := range ids.files {
		if _, e := os.Stat(p); e == nil && id < 100 {
			left = append(left, id)
		}
	}
	sort.Ints(left)
	fs := mk("fs")
	fs["left"] = left
	res = append(res, fs)
	so := stdout
	if len(so) > 1000 {
		so = so[:1000]
	}
	return res, map[string]any{"case": c, "stdout": so}
}

func x05TermCases(thorough bool) []*x05TermCase {
	var res []*x05TermCase
	for _, ex := range []string{"ok", "local", "localtrace", "rfail", "rFAIL", "rEXIT", "stopdel"} {
		for _, bg := range []string{"none", "before", "after", "race"} {
			reps := 1
			if bg == "race" {
				reps = 3
				if thorough {
					reps = 10
				}
			}
			for r := 0; r < reps; r++ {
				c := &x05TermCase{Exit: ex, Bg: bg, Sig: r%2 == 1}
				if ex == "stopdel" {
					c.Files = 2
				}
				res = append(res, c)
			}
		}
	}
	for i, c := range res {
		c.ID = 500000 + i
	}
	return res
}

func x05Term(d *vCtx) error {
	cases := x05TermCases(d.pBool("thorough", false))
	if p := d.pStr("cases", ""); p != "" {
		b, err := os.ReadFile(p)
		if err != nil {
			return err
		}
		cases = nil
		if err := json.Unmarshal(b, &cases); err != nil {
			return err
		}
	}
	return vShards(d, d.pInt("shards", 16), func(si, n int) error {
		base := e2eShmBase()
		defer os.RemoveAll(base)
		if err := e2eCaptureStdout(d.out); err != nil {
			return err
		}
		tr, err := vNewTrace(d.path("obs.ndjson"))
		if err != nil {
			return err
		}
		var details []map[string]any
		for i := si; i < len(cases); i += n {
			evs, det := x05TermRun(cases[i], e2eWorkDir(base, cases[i].ID))
			for _, e := range evs {
				tr.Emit(e, nil)
			}
			details = append(details, det)
			d.add("runs", 1)
		}
		if err := tr.Close(); err != nil {
			return err
		}
		return vWriteJSON(d.path("details.json"), details)
	})
}

// ---------------------------------------------------------------- cleanInput against a sending peer

// x05Drain measures cleanInput / clientError on a real trzszTransfer while a peer keeps
// delivering input every `gap` ms for `dur` ms: when does the error path return, was the fail
// line written.
func x05Drain(d *vCtx) error {
	type probe struct{ gapMs, durMs, cleanMs int }
	probes := []probe{{0, 0, 100}, {10, 400, 100}, {10, 1500, 100}, {40, 1200, 100}, {150, 1200, 100}, {100, 2500, 500}}
	var rows []map[string]any
	for _, p := range probes {
		wr := &x05NullWriter{}
		t := newTransfer(wr, nil, false, nil)
		t.cleanTimeout = time.Duration(p.cleanMs) * time.Millisecond
		stop := make(chan struct{})
		var wg sync.WaitGroup
		if p.durMs > 0 {
			wg.Add(1)
			go func() {
				defer wg.Done()
				end := time.Now().Add(time.Duration(p.durMs) * time.Millisecond)
				for time.Now().Before(end) {
					select {
					case <-stop:
						return
					default:
					}
					t.addReceivedData([]byte("#DATA:AAAA\n"), false)
					time.Sleep(time.Duration(p.gapMs) * time.Millisecond)
				}
			}()
		}
		t0 := time.Now()
		done := make(chan struct{})
		go func() {
			t.clientError(simpleTrzszError("x05 drain probe"))
			close(done)
		}()
		returned := true
		select {
		case <-done:
		case <-time.After(20 * time.Second):
			returned = false
		}
		ms := time.Since(t0).Milliseconds()
		close(stop)
		wg.Wait()
		wr.mu.Lock()
		told := len(wr.lines)
		wr.mu.Unlock()
		rows = append(rows, map[string]any{"gap_ms": p.gapMs, "peer_sends_ms": p.durMs, "clean_ms": p.cleanMs,
			"returned": returned, "ms": ms, "told": told})
	}
	d.set("probes", len(rows))
	return vWriteJSON(d.path("drain.json"), rows)
}
