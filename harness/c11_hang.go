//go:build verif

package trzsz

// C11 driver: the peer falls silent / the connection breaks / a local read or write fails at
// every message index of real end-to-end transfers; both roles must return in time, with an
// error unless complete, tell the peer, and leave no worker behind.

import (
	"os"
)

func init() { vRegister("c11_hang", c11Hang) }

func c11Bases(seed int64, thorough bool) []*e2eCase {
	var res []*e2eCase
	mk := func(upload, binary bool, proto int, overwrite bool, sizes []int64, kind int, bufsize int64) {
		c := &e2eCase{Seed: seed + int64(len(res))*389, NamesFromTops: true, WatchdogMs: 45000}
		c.Opts = e2eOpts{Upload: upload, Binary: binary, Protocol: proto, Overwrite: overwrite,
			Timeout: 2, Bufsize: bufsize, Compress: 2}
		for i, sz := range sizes {
			c.Nodes = append(c.Nodes, e2eNode{Rel: e2eName(0, i), Size: sz, Kind: kind})
			c.Bases = append(c.Bases, "")
		}
		res = append(res, c)
	}
	mk(true, true, 4, true, []int64{20000, 300}, 1, 4096)
	// the first file overwrites an existing, shorter file with the same beginning: the resume hash exchange runs
	res[len(res)-1].Pre = []e2eNode{{Rel: e2eName(0, 0), Size: 5000, Like: 1}}
	mk(false, false, 2, false, []int64{15000}, 1, 4096)
	// a directory sent as one archive stream (protocol 4, no overwrite): sub files that shrink
	mk(true, true, 4, false, []int64{60000, 300}, 1, 4096)
	res[len(res)-1].Opts.Directory = true
	for i := range res[len(res)-1].Nodes {
		res[len(res)-1].Nodes[i].Rel = "tree/" + res[len(res)-1].Nodes[i].Rel
	}
	if thorough {
		mk(false, true, 4, true, []int64{9000, 9000}, 1, 4096)
		res[len(res)-1].Pre = []e2eNode{{Rel: e2eName(0, 1), Size: 9000, Like: 2, DivergeAt: 4000}}
		mk(true, false, 3, false, []int64{15000}, 0, 4096)
		mk(true, false, 1, false, []int64{3000}, 1, 4096)
		mk(false, false, 4, false, []int64{100, 30000}, 2, 1024)
		// longer transfers, compression, escape table, several files, archive-mode download
		mk(true, false, 4, true, []int64{30000, 0, 12000}, 1, 2048)
		res[len(res)-1].Opts.Compress = 1
		mk(false, true, 4, false, []int64{24000, 2000}, 1, 4096)
		res[len(res)-1].Opts.Escape = true
		mk(false, true, 4, false, []int64{40000, 300}, 1, 4096)
		res[len(res)-1].Opts.Directory = true
		for i := range res[len(res)-1].Nodes {
			res[len(res)-1].Nodes[i].Rel = "tree/" + res[len(res)-1].Nodes[i].Rel
		}
		mk(true, false, 2, true, []int64{8000, 8000}, 0, 4096)
		res[len(res)-1].Opts.Compress = 0
	}
	return res
}

func c11Hang(d *vCtx) error {
	thorough := d.pBool("thorough", false)
	shards := d.pInt("shards", 96)
	bases := c11Bases(d.seed, thorough)
	// the buffer-size probing scenario: a large incompressible upload whose acks stop early
	big := &e2eCase{Seed: d.seed + 99, NamesFromTops: true, WatchdogMs: 45000}
	big.Opts = e2eOpts{Upload: true, Binary: true, Protocol: 4, Timeout: 2, Bufsize: 10 << 20, Compress: 2}
	big.Nodes = []e2eNode{{Rel: "big.bin", Size: 4 << 20, Kind: 1}}
	big.Bases = []string{""}
	bigDown := *big
	bigDown.Opts.Upload = false
	layouts, err := e2eLayouts(d, bases)
	if err != nil {
		return err
	}
	return vShards(d, shards, func(si, n int) error {
		base := e2eShmBase()
		defer os.RemoveAll(base)
		if err := e2eCaptureStdout(d.out); err != nil {
			return err
		}
		type job struct {
			c    *e2eCase
			plan e2ePlan
		}
		var jobs []job
		for bi, c := range bases {
			w := layouts[bi]
			kmax := map[string]int{}
			for _, m := range w {
				if m.K > kmax[m.Dir] {
					kmax[m.Dir] = m.K
				}
			}
			for _, dir := range []string{"c2s", "s2c"} {
				for k := 0; k <= kmax[dir]; k++ {
					jobs = append(jobs, job{c, e2ePlan{Silence: &e2eSil{Dir: dir, K: k}, CheckLeft: true}})
					if k%2 == 0 || thorough {
						jobs = append(jobs, job{c, e2ePlan{WriteErr: &e2eSil{Dir: dir, K: k}, CheckLeft: true}})
					}
				}
			}
			for _, m := range w {
				// the source shrinks after the scan: at the name / size announcement (before it is read) and mid-data
				if m.Typ == "NAME" || m.Typ == "NUM" || (m.Typ == "DATA" && (m.K%2 == 1 || thorough)) {
					jobs = append(jobs, job{c, e2ePlan{Shrink: &e2eSil{Dir: m.Dir, K: m.G}, CheckLeft: true}})
				}
			}
			if c.Opts.Overwrite {
				jobs = append(jobs, job{c, e2ePlan{DstErr: true, CheckLeft: true}})
			}
			// the peer falls silent and the user pauses and continues while the read is pending: one
			// time-out is forgiven, the next one must end the transfer (protocol >= 3)
			if c.Opts.Protocol >= 3 {
				n := 0
				for _, m := range w {
					if m.K < 3 || (m.K%4 != 3 && !thorough) || n >= 6 {
						continue
					}
					n++
					jobs = append(jobs, job{c, e2ePlan{Silence: &e2eSil{Dir: m.Dir, K: m.K}, CheckLeft: true,
						Pause: &e2ePause{G: m.G, Phase: "after", ResumeMs: 300, Cycles: 1, DelayMs: 400}}})
				}
			}
			if thorough && bi == 0 {
				jobs = append(jobs, job{c, e2ePlan{Silence: &e2eSil{Dir: "s2c", K: -1}, CheckLeft: true}})
			}
		}
		// acks go silent when the probing is long over and the ack window is full: many small chunks
		// (buffer size fixed at 1 KiB) of an incompressible file are in flight when the peer falls silent
		for _, proto := range []int{4, 2} {
			for _, up := range []bool{true, false} {
				long := &e2eCase{Seed: d.seed + 177, NamesFromTops: true, WatchdogMs: 45000}
				long.Opts = e2eOpts{Upload: up, Binary: proto == 4, Protocol: proto, Timeout: 2, Bufsize: 1024, Compress: 2}
				long.Nodes = []e2eNode{{Rel: "long.bin", Size: 200 << 10, Kind: 1}}
				long.Bases = []string{""}
				dir := "s2c"
				if !up {
					dir = "c2s"
				}
				for _, k := range []int{14, 40} {
					if k == 40 && !thorough && proto == 2 {
						continue
					}
					jobs = append(jobs, job{long, e2ePlan{Silence: &e2eSil{Dir: dir, K: k}, CheckLeft: true}})
				}
			}
		}
		// the user pauses and continues while the buffer size is still being probed; nothing else goes wrong:
		// every worker must get going again and both sides must return
		for _, g := range []int{8, 9, 10, 12} {
			jobs = append(jobs, job{big, e2ePlan{Pause: &e2ePause{G: g, Phase: "after", ResumeMs: 300, Cycles: 1}, CheckLeft: true}})
			if thorough || g%2 == 0 {
				jobs = append(jobs, job{&bigDown, e2ePlan{Pause: &e2ePause{G: g, Phase: "after", ResumeMs: 300, Cycles: 1}, CheckLeft: true}})
			}
		}
		// acks go silent while the buffer size is still being probed (known scenario), both directions
		for _, k := range []int{3, 5, 6, 8} {
			jobs = append(jobs, job{big, e2ePlan{Silence: &e2eSil{Dir: "s2c", K: k}, CheckLeft: true}})
			jobs = append(jobs, job{&bigDown, e2ePlan{Silence: &e2eSil{Dir: "c2s", K: k}, CheckLeft: true}})
		}
		tr, err := vNewTrace(d.path("obs.ndjson"))
		if err != nil {
			return err
		}
		var details []map[string]any
		for ji := si; ji < len(jobs); ji += n {
			if ji <= vResumeAfter() {
				continue
			}
			j := jobs[ji]
			cc := *j.c
			cc.ID = ji
			cc.Plan = j.plan
			_, detail, err := e2eExec(&cc, e2eWorkDir(base, cc.ID), tr, false)
			if err != nil {
				return err
			}
			details = append(details, map[string]any{"case": &cc, "left_frames": detail["left_frames"],
				"client_err": detail["client_err"], "server_err": detail["server_err"], "hung": detail["hung"]})
			os.RemoveAll(e2eWorkDir(base, cc.ID))
			d.add("runs", 1)
			d.add("kind_"+e2ePlanKind(&cc.Plan), 1)
			if e2eTainted {
				vRequestRestart(d, ji)
				break
			}
		}
		d.set("jobs_total", len(jobs))
		if err := tr.Close(); err != nil {
			return err
		}
		return vWriteJSON(d.path("details.json"), details)
	})
}
