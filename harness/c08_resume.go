//go:build verif

package trzsz

// C08 driver: overwrite (-y) onto whatever is at the destination.  Each case comes from
// ResumeGen (spec -> impl): a source and an old destination file as sequences of units, three
// units per comparison block = {first byte, middle, last byte} of a REAL kPrefixHashStep block.
// The driver materialises both files (seeded incompressible stream; a "different" unit differs
// in one byte at a seeded offset inside the unit), runs one real transfer between the real
// client path and the real trz/tsz role bodies (harness/e2e_run.go), and projects the wire tap
// onto Resume's actions (impl -> spec, judged by ResumeTrace):
//   reset name target presize hash* ack* over size payload done
// plus what is observable afterwards: destination bytes vs source bytes, the other entries of
// the destination directory (bytes and mtimes), the source itself.

import (
	"bytes"
	"crypto/sha256"
	"encoding/json"
	"fmt"
	"io"
	"math/rand"
	"os"
	"path/filepath"
	"sort"
	"strings"
	"time"
)

func init() { vRegister("c08_resume", c08Resume) }

type c08File struct {
	Proto int   `json:"proto"`
	Src   []int `json:"src"`
	Old   []int `json:"old"`
	Ex    bool  `json:"ex"`
	Kind  string `json:"kind"`
	Stuck bool  `json:"stuck"` // Resume with AsCoded = TRUE (the code before the empty-source fix) cannot finish this one
	Match int   `json:"match"`
	Rest  int   `json:"rest"`
	Mid   int64 `json:"mid"` // bytes of a partial middle unit (0 = whole middle)
}

type c08Job struct {
	ID      int       `json:"id"`
	Upload  bool      `json:"upload"`
	Binary  bool      `json:"binary"`
	Proto   int       `json:"proto"`
	Seed    int64     `json:"seed"`
	Timeout int       `json:"timeout"`
	Files   []c08File `json:"files"`
	Dir     bool      `json:"dirmode"`
}

// ---------------------------------------------------------------- geometry (units <-> bytes)

const c08B = int64(kPrefixHashStep)

func c08Mid(mid int64) int64 {
	if mid <= 0 || mid > c08B-2 {
		return c08B - 2
	}
	return mid
}

// c08End: byte offset of the end of unit u (1-based) in a file of n units.
func c08End(u, n int, mid int64) int64 {
	if u <= 0 {
		return 0
	}
	k, j := int64((u-1)/3), (u-1)%3
	switch j {
	case 0:
		return k*c08B + 1
	case 1:
		if u == n {
			return k*c08B + 1 + c08Mid(mid)
		}
		return k*c08B + c08B - 1
	}
	return (k + 1) * c08B
}

func c08Start(u, n int, mid int64) int64 { return c08End(u-1, n, mid) }

// c08Units: the unit count that byte offset p stands for in this case (-2: not on a boundary)
func c08Units(p int64, f *c08File) int {
	if p == 0 {
		return 0
	}
	for u := 1; u <= len(f.Src); u++ {
		if c08End(u, len(f.Src), f.Mid) == p {
			return u
		}
	}
	for u := 1; u <= len(f.Old); u++ {
		if c08End(u, len(f.Old), f.Mid) == p {
			return u
		}
	}
	return -2
}

func c08Stream(n int64, seed int64) []byte {
	b := make([]byte, n)
	_, _ = rand.New(rand.NewSource(seed)).Read(b)
	return b
}

// c08Materialise writes the source and (when it exists) the old destination file.
func c08Materialise(f *c08File, srcPath, dstPath string, seed int64) (srcLen, oldLen int64, err error) {
	n, m := len(f.Src), len(f.Old)
	srcLen = c08End(n, n, f.Mid)
	src := c08Stream(srcLen, seed*2+1)
	if err = os.WriteFile(srcPath, src, 0644); err != nil {
		return
	}
	if !f.Ex {
		return srcLen, -1, nil
	}
	oldLen = c08End(m, m, f.Mid)
	old := c08Stream(oldLen, seed*2+2)
	copy(old, src) // equal wherever both exist ...
	r := rand.New(rand.NewSource(seed*31 + 7))
	for u := 1; u <= m && u <= n; u++ {
		if f.Old[u-1] > 0 {
			continue
		}
		// ... except in the units marked different: one byte at a seeded offset inside the part of
		// the unit that both files have
		lo := c08Start(u, n, f.Mid)
		hi := c08End(u, n, f.Mid)
		if e := c08End(u, m, f.Mid); e < hi {
			hi = e
		}
		off := lo
		if hi-lo > 1 {
			switch r.Intn(4) {
			case 0:
				off = lo
			case 1:
				off = hi - 1
			default:
				off = lo + r.Int63n(hi-lo)
			}
		}
		old[off] ^= 0x5a
	}
	err = os.WriteFile(dstPath, old, 0644)
	return
}

// c08CommonPrefix: length of the common prefix of two files (measured, not assumed)
func c08CommonPrefix(a, b string) (int64, bool, error) {
	fa, err := os.Open(a)
	if err != nil {
		return 0, false, err
	}
	defer fa.Close()
	fb, err := os.Open(b)
	if err != nil {
		return 0, false, err
	}
	defer fb.Close()
	ba, bb := make([]byte, 1<<20), make([]byte, 1<<20)
	var off int64
	for {
		na, ea := io.ReadFull(fa, ba)
		nb, eb := io.ReadFull(fb, bb)
		k := na
		if nb < k {
			k = nb
		}
		for i := 0; i < k; i++ {
			if ba[i] != bb[i] {
				return off + int64(i), false, nil
			}
		}
		off += int64(k)
		if na != nb {
			return off, false, nil
		}
		if ea != nil || eb != nil {
			return off, true, nil // both ended together: identical
		}
	}
}

type c08Entry struct {
	Size int64
	Sum  string
	MT   int64
	Dir  bool
}

// c08Others: every entry below root except the given top-level names
func c08Others(root string, skip map[string]bool) map[string]c08Entry {
	res := map[string]c08Entry{}
	_ = filepath.Walk(root, func(p string, info os.FileInfo, err error) error {
		if err != nil || p == root {
			return nil
		}
		rel, _ := filepath.Rel(root, p)
		if skip[rel] {
			return nil
		}
		e := c08Entry{Dir: info.IsDir(), MT: info.ModTime().UnixNano()}
		if info.Mode().IsRegular() {
			e.Size = info.Size()
			if b, err := os.ReadFile(p); err == nil {
				h := sha256.Sum256(b)
				e.Sum = fmt.Sprintf("%x", h[:8])
			}
		}
		res[rel] = e
		return nil
	})
	return res
}

// ---------------------------------------------------------------- one real transfer

type c08Run struct {
	res      *e2eResult
	msgs     []*e2eMsg
	srcPaths []string
	dstPaths []string
	srcLen   []int64
	oldLen   []int64
	cpl      []int64
	same     []bool
	dstLen   []int64
	srcSame  []bool
	touched  []string
	extra    []string
	timedOut bool
}

func c08IsTimeout(res *e2eResult) bool {
	if len(res.Hung) > 0 {
		return true
	}
	return strings.Contains(res.ClientErr, "timeout") || strings.Contains(res.ServerErr, "timeout") ||
		strings.Contains(res.ClientErr, "Timeout") || strings.Contains(res.ServerErr, "Timeout")
}

func c08Exec(j *c08Job, work string) (*c08Run, error) {
	srcRoot := filepath.Join(work, "src")
	dst := filepath.Join(work, "dst")
	for _, p := range []string{srcRoot, filepath.Join(dst, "sub")} {
		if err := os.MkdirAll(p, 0755); err != nil {
			return nil, err
		}
	}
	r := &c08Run{}
	names := map[string]bool{}
	for i := range j.Files {
		name := fmt.Sprintf("f%d.bin", i)
		names[name] = true
		sp, dp := filepath.Join(srcRoot, name), filepath.Join(dst, name)
		sl, ol, err := c08Materialise(&j.Files[i], sp, dp, j.Seed*977+int64(i))
		if err != nil {
			return nil, err
		}
		r.srcPaths, r.dstPaths = append(r.srcPaths, sp), append(r.dstPaths, dp)
		r.srcLen, r.oldLen = append(r.srcLen, sl), append(r.oldLen, ol)
		cpl := int64(0)
		if j.Files[i].Ex {
			if cpl, _, err = c08CommonPrefix(sp, dp); err != nil {
				return nil, err
			}
		}
		r.cpl = append(r.cpl, cpl)
	}
	// entries that are not transferred: a neighbour, the name a run without -y would pick, a file of
	// the same name one level down, an empty directory
	others := map[string]int64{"other.bin": 4097, "f0.bin.0": 33, "sub/f0.bin": 1500, "f0": 7, "f0.bin.tmp": 0}
	k := int64(0)
	for rel, sz := range others {
		k++
		if err := os.WriteFile(filepath.Join(dst, rel), e2eContent(sz, 1, j.Seed+k), 0644); err != nil {
			return nil, err
		}
	}
	_ = os.MkdirAll(filepath.Join(dst, "emptydir"), 0755)
	old := time.Now().Add(-48 * time.Hour)
	for rel := range others {
		_ = os.Chtimes(filepath.Join(dst, rel), old, old)
	}
	_ = os.Chtimes(filepath.Join(dst, "emptydir"), old, old)
	_ = os.Chtimes(filepath.Join(dst, "sub"), old, old)
	pre := c08Others(dst, names)
	srcPre := c08Others(srcRoot, nil)

	o := e2eOpts{Upload: j.Upload, Binary: j.Binary, Overwrite: true, Directory: j.Dir, Protocol: j.Proto, Compress: []int{2, 0}[j.ID%2], // auto compression probes the file (isCompressionProfitable) on half of the runs
		Bufsize: 1 << 20, Timeout: j.Timeout, Src: r.srcPaths, Dst: dst}
	w := newE2EWire(j.Seed, 0)
	w.run = j.ID
	hooks := &e2eHooks{watchdog: time.Duration(j.Timeout)*time.Second*4 + 120*time.Second}
	r.res = e2eRun(o, w, hooks)
	w.mu.Lock()
	r.msgs = append([]*e2eMsg(nil), w.msgs...)
	w.mu.Unlock()
	r.timedOut = c08IsTimeout(r.res)

	for i := range j.Files {
		st, err := os.Stat(r.dstPaths[i])
		if err != nil {
			r.same, r.dstLen = append(r.same, false), append(r.dstLen, -1)
		} else {
			_, same, err := c08CommonPrefix(r.srcPaths[i], r.dstPaths[i])
			r.same, r.dstLen = append(r.same, err == nil && same), append(r.dstLen, st.Size())
		}
	}
	post := c08Others(dst, names)
	for rel, pv := range pre {
		if qv, ok := post[rel]; !ok || qv != pv {
			r.touched = append(r.touched, rel)
		}
	}
	for rel := range post {
		if _, ok := pre[rel]; !ok {
			r.extra = append(r.extra, rel)
		}
	}
	sort.Strings(r.touched)
	sort.Strings(r.extra)
	srcPost := c08Others(srcRoot, nil)
	for i := range j.Files {
		rel := filepath.Base(r.srcPaths[i])
		r.srcSame = append(r.srcSame, srcPre[rel] == srcPost[rel])
	}
	if len(srcPost) != len(srcPre) {
		r.extra = append(r.extra, "src:+")
	}
	return r, nil
}

// c08Project: the recorded lines of file fi of the transfer as Resume events
func c08Project(j *c08Job, r *c08Run, fi int, run int) []map[string]any {
	f := &j.Files[fi]
	sd, rd := "c2s", "s2c"
	if !j.Upload {
		sd, rd = "s2c", "c2s"
	}
	// the messages of file fi: from its NAME line up to the next NAME / EXIT
	var seg []*e2eMsg
	idx := -1
	for _, m := range r.msgs {
		if m.Dir == sd && m.Typ == "NAME" {
			idx++
		}
		if m.Typ == "EXIT" {
			idx = 1 << 30
		}
		if idx == fi {
			seg = append(seg, m)
		}
	}
	ev := []map[string]any{}
	add := func(e string, kv map[string]any) {
		x := map[string]any{"e": e, "run": run}
		for k, v := range kv {
			x[k] = v
		}
		ev = append(ev, x)
	}
	hasHashAfter := func(i int) bool {
		for _, m := range seg[i+1:] {
			if m.Dir == sd && m.Typ == "HASH" {
				return true
			}
		}
		return false
	}
	gotTarget := false
	var ints []int64
	wire := 0
	sized := false
	for i, m := range seg {
		fl := m.flat()
		a, _ := fl["a"].(int64)
		b, _ := fl["b"].(int64)
		switch {
		case m.Dir == sd && m.Typ == "NAME":
			add("name", nil)
		case m.Dir == rd && m.Typ == "SUCC" && !gotTarget:
			gotTarget = true
			if fl["k"] == "jtarget" {
				add("target", map[string]any{"a": c08Units(a, f), "bytes": a})
			} else {
				add("target", map[string]any{"a": -1, "bytes": -1})
			}
		case m.Dir == sd && m.Typ == "SIZE":
			if hasHashAfter(i) {
				add("presize", map[string]any{"a": c08Units(a, f), "bytes": a})
			} else {
				sized = true
				add("size", map[string]any{"skip": c08Units(r.srcLen[fi]-a, f), "bytes": a})
			}
		case m.Dir == sd && m.Typ == "HASH":
			if b == 1 {
				add("over", nil)
			} else {
				add("hash", map[string]any{"a": c08Units(a, f), "bytes": a})
			}
		case m.Dir == rd && m.Typ == "SUCC" && fl["k"] == "jhashack":
			add("ack", map[string]any{"a": c08Units(a, f), "b": b, "bytes": a})
		case m.Dir == rd && m.Typ == "SUCC" && fl["k"] == "int" && sized:
			ints = append(ints, a)
		case m.Dir == sd && m.Typ == "DATA" && !m.Keep:
			wire += len(m.Raw)
		case m.Dir == sd && m.Typ == "MD5":
			// the receiver's acknowledgements: the first answers SIZE, the last says how much is on disk
			if len(ints) >= 2 {
				saved := ints[len(ints)-1]
				add("payload", map[string]any{"skip": c08Units(r.srcLen[fi]-saved, f), "bytes": saved, "wire": wire})
			} else {
				add("payload", map[string]any{"skip": -2, "bytes": -1, "wire": wire})
			}
		}
	}
	return ev
}

func c08Emit(tr *vTrace, j *c08Job, r *c08Run) {
	cres, sres := "fail", "fail"
	if r.res.ClientOK {
		cres = "ok"
	}
	if r.res.ServerOK {
		sres = "ok"
	}
	for fi := range j.Files {
		f := &j.Files[fi]
		run := j.ID*10 + fi
		cplU := 0
		for u := 1; u <= len(f.Src) && u <= len(f.Old); u++ {
			e := c08End(u, len(f.Src), f.Mid)
			if e2 := c08End(u, len(f.Old), f.Mid); e2 < e {
				e = e2
			}
			if e <= r.cpl[fi] {
				cplU = u
			}
		}
		src, old := f.Src, f.Old
		if src == nil {
			src = []int{}
		}
		if old == nil {
			old = []int{}
		}
		tr.Emit(map[string]any{"e": "reset", "run": run, "proto": j.Proto, "src": src, "old": old, "ex": f.Ex, "kind": f.Kind,
			"cpl": cplU, "cplbytes": r.cpl[fi], "srcbytes": r.srcLen[fi], "oldbytes": r.oldLen[fi], "upload": j.Upload,
			"binary": j.Binary, "nfiles": len(j.Files), "stuck": f.Stuck}, nil)
		for _, e := range c08Project(j, r, fi, run) {
			tr.Emit(e, nil)
		}
		dl := -1
		if r.dstLen[fi] >= 0 {
			dl = c08Units(r.dstLen[fi], f)
			if dl < 0 {
				dl = -1
			}
		}
		tr.Emit(map[string]any{"e": "done", "run": run, "cres": cres, "sres": sres, "same": r.same[fi], "dstlen": dl,
			"dstbytes": r.dstLen[fi], "touched": len(r.touched), "extra": len(r.extra), "srcsame": r.srcSame[fi],
			"timeout": r.timedOut, "cerr": r.res.ClientErr, "serr": r.res.ServerErr}, nil)
	}
	tr.Flush()
}

// ---------------------------------------------------------------- driver

func c08Base(d *vCtx) string {
	// big files: /dev/shm when the machine has memory to spare, the disk otherwise
	root := d.pStr("scratch", "")
	if root == "" {
		root = os.TempDir()
	}
	dir, err := os.MkdirTemp(root, "verif-c08-")
	if err != nil {
		dir, _ = os.MkdirTemp("", "verif-c08-")
	}
	return dir
}

func c08Resume(d *vCtx) error {
	b, err := os.ReadFile(d.pStr("cases", ""))
	if err != nil {
		return err
	}
	var jobs []*c08Job
	dec := json.NewDecoder(bytes.NewReader(b))
	for dec.More() {
		var j c08Job
		if err := dec.Decode(&j); err != nil {
			return err
		}
		jobs = append(jobs, &j)
	}
	shards := d.pInt("shards", 8)
	retries := d.pInt("retries", 2)
	return vShards(d, shards, func(si, n int) error {
		base := c08Base(d)
		defer os.RemoveAll(base)
		if err := e2eCaptureStdout(d.out); err != nil {
			return err
		}
		tr, err := vNewTrace(d.path("obs.ndjson"))
		if err != nil {
			return err
		}
		var details []map[string]any
		for ji := si; ji < len(jobs); ji += n {
			if ji <= vResumeAfter() {
				continue // attempted by an earlier incarnation of this shard (the last one killed it)
			}
			j := jobs[ji]
			vMarkCurrent(d, ji, j)
			predicted := false
			for _, f := range j.Files {
				predicted = predicted || f.Stuck
			}
			var r *c08Run
			t0 := time.Now()
			tries := 0
			for {
				work := e2eWorkDir(base, j.ID)
				r, err = c08Exec(j, work)
				os.RemoveAll(work)
				if err != nil {
					return err
				}
				tries++
				// a time-out says little on a loaded machine: run again
				if r.timedOut && tries <= retries {
					d.add("retried_timeouts", 1)
					continue
				}
				break
			}
			det := map[string]any{"case": j, "client_err": r.res.ClientErr, "server_err": r.res.ServerErr, "hung": r.res.Hung,
				"touched": r.touched, "extra": r.extra, "same": r.same, "dstbytes": r.dstLen, "srcbytes": r.srcLen,
				"oldbytes": r.oldLen, "cplbytes": r.cpl, "ms": time.Since(t0).Milliseconds(), "tries": tries}
			if r.timedOut && !predicted {
				// inconclusive: recorded, not judged (a case the pre-fix model predicts to sit still for
				// ever is emitted: the check accepts it as a finding only when the recorded lines end in
				// exactly that state)
				det["inconclusive"] = true
				d.add("inconclusive", 1)
			} else {
				c08Emit(tr, j, r)
				d.add("runs", 1)
				d.add("files", len(j.Files))
			}
			details = append(details, det)
			r = nil
		}
		if err := tr.Close(); err != nil {
			return err
		}
		return vWriteJSON(d.path("details.json"), details)
	})
}
