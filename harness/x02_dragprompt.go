//go:build verif

package trzsz

// X02 "DragPrompt" drivers: the two input-side sub-machines of the wrapper that Filter.tla
// abstracts (drag path scanning, stop prompt key translation), run on the real code.
//
//   x02_scan    the real detectDragFiles on (platform, file system, input) cases: the cases
//               exported by spec/DragScanGen.tla (param cases) plus random token lists (param
//               random).  The abstract file systems L1 / W1 of DragScan.tla are materialised:
//               the root macro is a real directory /tmp/x02-xxx (12 bytes, like RootLen), the
//               Windows names (C:\a ...) are files of exactly that name in the working directory
//               (that is what os.Stat makes of them on this machine), so all five scanners are
//               executable here; the platform is chosen through the package's own variables
//               linuxRuntime / macosRuntime / windowsRuntime.  isWarpTerminal() is a constant of
//               the build: the Warp branch is not executable here.
//               With filter=true the real TrzszFilter.sendInput is run on drag scenarios
//               (result in filter.json, every chunk also recorded as a scan event).
//   x02_keys    the real transformPromptInput on exported key streams x chunkings, a pipe
//               reader on the other end; with prompt=true a real confirmStopTransfer (promptui
//               on a pipe) driven through sendInput for a sample of key sequences.
// Events (ndjson): scan{os,fs,input[],drag,files[][],hasDir,ignore,isWin,after[]}  (DragScanTrace)
//                  keys{chunk[],got[]} reset in{chunk[],fwd[]} choice{effect} ended state{open,xfer} (PromptTrace)

import (
	"bytes"
	"encoding/json"
	"fmt"
	"io"
	"math/rand"
	"os"
	"path/filepath"
	"strings"
	"sync"
	"sync/atomic"
	"syscall"
	"time"
)

func init() {
	vRegister("x02_scan", x02Scan)
	vRegister("x02_keys", x02Keys)
}

var x02Sym = map[string]byte{"SP": ' ', "BS": '\\', "SQ": '\'', "DQ": '"', "SL": '/', "CO": ':', "CR": '\r', "LF": '\n',
	"ESC": 0x1b, "LB": '[', "TI": '~', "OT": '#', "ETX": 3, "TAB": 9, "SO": 0x0e, "DLE": 0x10, "VT": 0x0b, "DC1": 0x11}
var x02Rev = func() map[byte]string {
	m := map[byte]string{}
	for k, v := range x02Sym {
		m[v] = k
	}
	return m
}()

const x02RootLen = 12

func x02Byte(n string) byte {
	if b, ok := x02Sym[n]; ok {
		return b
	}
	return n[0]
}

// promptMode: '[' is the byte "[" of Prompt.tla (LB in DragScan.tla)
func x02Name(b byte, promptMode bool) string {
	if promptMode && b == '[' {
		return "["
	}
	if n, ok := x02Rev[b]; ok {
		return n
	}
	if b > 32 && b < 127 {
		return string([]byte{b})
	}
	return fmt.Sprintf("?%d", b)
}

func x02Concrete(names []string, root string) []byte {
	var out []byte
	for i := 0; i < len(names); i++ {
		if names[i] == "SL" && root != "" && i+x02RootLen <= len(names) {
			all := true
			for j := 1; j < x02RootLen; j++ {
				if names[i+j] != "z" {
					all = false
					break
				}
			}
			if all {
				out = append(out, root...)
				i += x02RootLen - 1
				continue
			}
		}
		out = append(out, x02Byte(names[i]))
	}
	return out
}

func x02Abstract(b []byte, roots []string, promptMode bool) []string {
	out := []string{}
	for i := 0; i < len(b); {
		hit := false
		for _, r := range roots {
			if r != "" && bytes.HasPrefix(b[i:], []byte(r)) {
				out = append(out, "SL")
				for j := 1; j < x02RootLen; j++ {
					out = append(out, "z")
				}
				i += len(r)
				hit = true
				break
			}
		}
		if !hit {
			out = append(out, x02Name(b[i], promptMode))
			i++
		}
	}
	return out
}

func x02Strs(v any) []string {
	arr, _ := v.([]any)
	r := make([]string, 0, len(arr))
	for _, x := range arr {
		s, _ := x.(string)
		r = append(r, s)
	}
	return r
}

type x02World struct {
	root, ghost  string
	cwdL, cwdW   string
	cwdEmpty     string
	origLinux    bool
	origMac      bool
	origWin      bool
	origCwd      string
}

func x02Touch(p string) error { return os.WriteFile(p, []byte("x"), 0600) }

func x02Setup(d *vCtx) (*x02World, error) {
	w := &x02World{origLinux: linuxRuntime, origMac: macosRuntime, origWin: windowsRuntime, ghost: "/tmp/x02-~~~"}
	w.origCwd, _ = os.Getwd()
	rng := d.rng(7)
	const al = "abcdefghijklmnopqrstuvwxy0123456789" // no 'z'
	for try := 0; ; try++ {
		name := []byte("/tmp/x02-...")
		for i := 9; i < 12; i++ {
			name[i] = al[rng.Intn(len(al))]
		}
		if err := os.Mkdir(string(name), 0700); err == nil {
			w.root = string(name)
			break
		} else if try > 200 {
			return nil, err
		}
	}
	if len(w.root) != x02RootLen || len(w.ghost) != x02RootLen {
		return nil, fmt.Errorf("root length")
	}
	w.cwdL, w.cwdW, w.cwdEmpty = d.path("cwdL"), d.path("cwdW"), d.path("cwdE")
	for _, p := range []string{w.cwdL, w.cwdW, w.cwdEmpty, filepath.Join(w.root, "d"), filepath.Join(w.cwdW, `C:\`), filepath.Join(w.cwdW, `c:\`)} {
		if err := os.MkdirAll(p, 0700); err != nil {
			return nil, err
		}
	}
	for _, p := range []string{filepath.Join(w.root, "a"), filepath.Join(w.root, "a a"), filepath.Join(w.root, `a\`), filepath.Join(w.root, "a'a"),
		filepath.Join(w.cwdL, "a"), filepath.Join(w.cwdW, `C:\a`), filepath.Join(w.cwdW, `C:\a a`), filepath.Join(w.cwdW, `c:\a`),
		filepath.Join(w.cwdW, `c:\a a`), filepath.Join(w.cwdW, `C:\aa`), filepath.Join(w.cwdW, `c:\d\a`)} {
		if err := x02Touch(p); err != nil {
			return nil, err
		}
	}
	if err := syscall.Mkfifo(filepath.Join(w.root, "b"), 0600); err != nil {
		return nil, err
	}
	return w, nil
}

func (w *x02World) close() {
	linuxRuntime, macosRuntime, windowsRuntime = w.origLinux, w.origMac, w.origWin
	_ = os.Chdir(w.origCwd)
	if strings.HasPrefix(w.root, "/tmp/x02-") {
		_ = os.RemoveAll(w.root)
	}
}

// enter selects platform and file system; returns the root the macro stands for
func (w *x02World) enter(osn, fs string) (string, error) {
	linuxRuntime, macosRuntime, windowsRuntime = osn == "linux", osn == "macos", osn == "win"
	var cwd, root string
	switch fs {
	case "L1":
		cwd, root = w.cwdL, w.root
	case "W1":
		cwd, root = w.cwdW, w.ghost
	default:
		cwd, root = w.cwdEmpty, w.ghost
	}
	return root, os.Chdir(cwd)
}

func (w *x02World) scan(tr *vTrace, osn, fs string, names []string) (map[string]any, []byte, error) {
	root, err := w.enter(osn, fs)
	if err != nil {
		return nil, nil, err
	}
	roots := []string{w.root, w.ghost}
	in := x02Concrete(names, root)
	buf := make([]byte, len(in), len(in)+8)
	copy(buf, in)
	files, hasDir, ignore, isWin := detectDragFiles(buf)
	fl := [][]string{}
	for _, f := range files {
		fl = append(fl, x02Abstract([]byte(f), roots, false))
	}
	ev := map[string]any{"e": "scan", "os": osn, "fs": fs, "input": x02Abstract(in, roots, false), "drag": files != nil, "files": fl,
		"hasDir": hasDir, "ignore": ignore, "isWin": isWin, "after": x02Abstract(buf, roots, false)}
	tr.Emit(ev, nil)
	return ev, in, nil
}

var x02Lib = map[string][]string{
	"linux": {"@/a ", "'@/a a' ", "@/d ", "@ ", "/ ", "@/e ", "'@/a' ", "'@/a'a' ", "@/b ", "a ", "'@/a", "@/a", " ", "\x1b[200~", "\x1b[201~",
		"\x1b[20", "@/a\\ ", "\r", "'@/d' ", "@/a a ", "'/ ", "@/ ", "@//a ", "@/a/ ", "@/d/ ", "'", "#"},
	"macos": {"@/a ", "@/a\\ a ", "@/d ", "@/a\\\\ ", "a ", "@/e ", "\\ ", "/ ", "@/a'a ", "@/a\\'a ", "@ ", "@/a", "\\", " ", "@/b ", "\x1b[200~",
		"\x1b[201~", "\\@/a ", "@/a\\", "@//a ", "@/d/ ", "#"},
	"win": {"C:\\a ", "\"C:\\a a\" ", "\"C:\\a a\"", "C:\\a", "C:\\ ", "/c/a ", "'/c/a a' ", "/c/d/a", "/cygdrive/c/a ", "'/cygdrive/c/a a' ",
		"/cygdrive/c/d/a", "C:\\a\"", "C:\\e ", "D:\\a ", "C:\\aa", "\"C:\\a\"", "\"", "'", " ", "/c/", "/cygdrive/c/", "C:\\", "/c/a", "'/c/a'", "\x1b[200~", "a", "\\", ":", "/"},
}

func x02Random(rng *rand.Rand, osn string, root string) []byte {
	lib := x02Lib[osn]
	var s string
	n := 1 + rng.Intn(4)
	for i := 0; i < n; i++ {
		s += lib[rng.Intn(len(lib))]
	}
	b := []byte(strings.ReplaceAll(s, "@", root))
	if rng.Intn(10) < 3 && len(b) > 0 {
		// damage outside the root prefix only (the model's root is opaque)
		for try := 0; try < 5; try++ {
			i := rng.Intn(len(b))
			inRoot := false
			j0 := i - len(root)
			if j0 < 0 {
				j0 = 0
			}
			for j := j0; j <= i && j+len(root) <= len(b); j++ {
				if string(b[j:j+len(root)]) == root {
					inRoot = true
				}
			}
			if inRoot {
				continue
			}
			if rng.Intn(2) == 0 {
				b = append(b[:i:i], b[i+1:]...)
			} else {
				c := []byte(" \\'\"/:a#")[rng.Intn(8)]
				b = append(b[:i:i], append([]byte{c}, b[i:]...)...)
			}
			break
		}
	}
	return b
}

func x02Scan(d *vCtx) error {
	tr, err := vNewTrace(d.path("trace.ndjson"))
	if err != nil {
		return err
	}
	defer tr.Close()
	w, err := x02Setup(d)
	if err != nil {
		return err
	}
	defer w.close()
	n := 0
	if p := d.pStr("cases", ""); p != "" {
		b, err := os.ReadFile(p)
		if err != nil {
			return err
		}
		var cases []map[string]any
		if err := json.Unmarshal(b, &cases); err != nil {
			return err
		}
		for _, c := range cases {
			osn, _ := c["os"].(string)
			fs, _ := c["fs"].(string)
			if _, _, err := w.scan(tr, osn, fs, x02Strs(c["input"])); err != nil {
				return err
			}
			n++
		}
	}
	d.set("cases", n)
	rng := d.rng(1)
	nr := d.pInt("random", 0)
	drags := 0
	for i := 0; i < nr; i++ {
		osn := []string{"linux", "macos", "win"}[i%3]
		fs := "L1"
		if osn == "win" {
			fs = "W1"
		}
		if rng.Intn(12) == 0 {
			fs = map[string]string{"L1": "L0", "W1": "W0"}[fs]
		}
		root := w.root
		if fs != "L1" {
			root = w.ghost
		}
		b := x02Random(rng, osn, root)
		ev, _, err := w.scan(tr, osn, fs, x02Abstract(b, []string{w.root, w.ghost}, false))
		if err != nil {
			return err
		}
		if ev["drag"].(bool) {
			drags++
		}
	}
	d.set("random", nr)
	d.set("random_drags", drags)
	if d.pBool("filter", false) {
		res, err := x02Filter(d, w, tr)
		if err != nil {
			return err
		}
		if err := vWriteJSON(d.path("filter.json"), res); err != nil {
			return err
		}
		d.set("filter_scenarios", len(res))
	}
	return nil
}

// ---------------------------------------------------------------- the filter's drag path

type x02Rec struct {
	mu sync.Mutex
	t0 time.Time
	w  []map[string]any
}

func (r *x02Rec) Write(p []byte) (int, error) {
	r.mu.Lock()
	defer r.mu.Unlock()
	r.w = append(r.w, map[string]any{"ms": time.Since(r.t0).Milliseconds(), "data": string(p)})
	return len(p), nil
}
func (r *x02Rec) Close() error { return nil }
func (r *x02Rec) count() int {
	r.mu.Lock()
	defer r.mu.Unlock()
	return len(r.w)
}

type x02Step struct {
	at    int    // ms after the start
	chunk string // "@" = root; "" = snapshot only
}

func x02Filter(d *vCtx, w *x02World, tr *vTrace) ([]map[string]any, error) {
	type scen struct {
		name, os string
		steps    []x02Step
	}
	scens := []scen{
		{"plain", "linux", []x02Step{{0, "ls -l\r"}, {50, "/nonexistent "}, {100, ""}}},
		{"drag", "linux", []x02Step{{0, "@/a "}, {100, ""}, {900, ""}, {3900, ""}}},
		{"drag-dir", "linux", []x02Step{{0, "@/a @/d "}, {100, ""}, {900, ""}, {3900, ""}}},
		{"split-list", "linux", []x02Step{{0, "@/a "}, {120, "'@/a a' "}, {200, ""}, {900, ""}, {3900, ""}}},
		{"drag-then-typed", "linux", []x02Step{{0, "@/a "}, {100, "x"}, {150, ""}, {900, ""}}},
		{"paste-marks", "linux", []x02Step{{0, "\x1b[200~"}, {30, "@/a "}, {60, "\x1b[201~"}, {100, ""}, {900, ""}, {3900, ""}}},
		{"late-chunk-after-command", "linux", []x02Step{{0, "@/a "}, {1200, "@/d "}, {1300, ""}, {3900, ""}}},
		{"win-partial", "win", []x02Step{{0, "\"C:\\a"}, {60, " a\""}, {100, ""}, {500, ""}, {1200, ""}}},
		{"win-partial-nodrag", "win", []x02Step{{0, "C:\\e"}, {60, "e"}, {100, ""}, {500, ""}}},
	}
	if d.pBool("long", false) {
		scens = append(scens, scen{"second-drag-after-reset", "linux", []x02Step{{0, "@/a "}, {3900, ""}, {3950, "@/d "}, {4000, ""}, {4800, ""}, {7900, ""}}})
	}
	var out []map[string]any
	for _, group := range []string{"linux", "win"} {
		fs := "L1"
		if group == "win" {
			fs = "W1"
		}
		var wg sync.WaitGroup
		var mu sync.Mutex
		// the chunk verdicts first (sequentially: scan switches platform and directory)
		verdicts := map[string]map[string]any{}
		for _, sc := range scens {
			if sc.os != group {
				continue
			}
			for _, st := range sc.steps {
				if st.chunk == "" {
					continue
				}
				b := []byte(strings.ReplaceAll(st.chunk, "@", w.root))
				ev, _, err := w.scan(tr, group, fs, x02Abstract(b, []string{w.root, w.ghost}, false))
				if err != nil {
					return nil, err
				}
				verdicts[st.chunk] = ev
			}
		}
		if _, err := w.enter(group, fs); err != nil {
			return nil, err
		}
		for _, sc := range scens {
			if sc.os != group {
				continue
			}
			wg.Add(1)
			go func(sc scen) {
				defer wg.Done()
				rec := &x02Rec{t0: time.Now()}
				f := &TrzszFilter{serverIn: rec, options: TrzszOptions{DetectDragFile: true}}
				var flag atomic.Bool
				flag.Store(true)
				var steps []map[string]any
				for _, st := range sc.steps {
					if dt := time.Until(rec.t0.Add(time.Duration(st.at) * time.Millisecond)); dt > 0 {
						time.Sleep(dt)
					}
					m := map[string]any{"ms": time.Since(rec.t0).Milliseconds()}
					if st.chunk != "" {
						b := []byte(strings.ReplaceAll(st.chunk, "@", w.root))
						before := rec.count()
						f.sendInput(b, &flag)
						m["chunk"] = string(b)
						m["writes_during"] = rec.count() - before
						m["drag"] = verdicts[st.chunk]["drag"]
						m["isWin"] = verdicts[st.chunk]["isWin"]
						m["ignore"] = verdicts[st.chunk]["ignore"]
						m["hasDir"] = verdicts[st.chunk]["hasDir"]
					}
					f.dragMutex.Lock()
					m["queue"] = append([]string{}, f.dragFiles...)
					f.dragMutex.Unlock()
					m["dragging"] = f.dragging.Load()
					m["writes_so_far"] = rec.count()
					steps = append(steps, m)
				}
				rec.mu.Lock()
				wr := append([]map[string]any{}, rec.w...)
				rec.mu.Unlock()
				mu.Lock()
				out = append(out, map[string]any{"name": sc.name, "os": sc.os, "root": w.root, "steps": steps, "writes": wr})
				mu.Unlock()
			}(sc)
		}
		wg.Wait()
		time.Sleep(300 * time.Millisecond)
	}
	return out, nil
}

// ---------------------------------------------------------------- the stop prompt

type x02Sink struct {
	mu  sync.Mutex
	buf []byte
	ch  chan struct{}
}

func x02Keys(d *vCtx) error {
	tr, err := vNewTrace(d.path("trace.ndjson"))
	if err != nil {
		return err
	}
	defer tr.Close()
	b, err := os.ReadFile(d.pStr("cases", ""))
	if err != nil {
		return err
	}
	var cases [][][]string
	if err := json.Unmarshal(b, &cases); err != nil {
		return err
	}
	f := &TrzszFilter{}
	pr, pw := io.Pipe()
	sink := &x02Sink{ch: make(chan struct{}, 1)}
	go func() {
		tmp := make([]byte, 256)
		for {
			n, err := pr.Read(tmp)
			sink.mu.Lock()
			for _, c := range tmp[:n] {
				if c == 0xff {
					sink.ch <- struct{}{}
				} else {
					sink.buf = append(sink.buf, c)
				}
			}
			sink.mu.Unlock()
			if err != nil {
				return
			}
		}
	}()
	nchunks := 0
	for _, cs := range cases {
		for _, names := range cs {
			in := x02Concrete(names, "")
			f.transformPromptInput(pw, in)
			_, _ = pw.Write([]byte{0xff}) // barrier: everything written before it has been consumed
			<-sink.ch
			sink.mu.Lock()
			got := x02Abstract(sink.buf, nil, true)
			sink.buf = nil
			sink.mu.Unlock()
			tr.Emit(map[string]any{"e": "keys", "chunk": x02Abstract(in, nil, true), "got": got}, nil)
			nchunks++
		}
	}
	pw.Close()
	d.set("streams", len(cases))
	d.set("chunks", nchunks)
	if d.pBool("prompt", false) {
		n, err := x02PromptRuns(d, tr)
		if err != nil {
			return err
		}
		d.set("prompt_runs", n)
	}
	return nil
}

type x02Out struct{ n atomic.Int64 }

func (o *x02Out) Write(p []byte) (int, error) { o.n.Add(int64(len(p))); return len(p), nil }
func (o *x02Out) Close() error                { return nil }

// real confirmStopTransfer (promptui reading the pipe) driven through sendInput
func x02PromptRuns(d *vCtx, tr *vTrace) (int, error) {
	seqs := [][]string{
		{"\r"}, {"j", "\r"}, {"j", "j", "\r"}, {"j", "j", "j", "\r"}, {"k", "\r"}, {"\x03"}, {"q"}, {"\x1b[B", "\r"}, {"\x1b[B", "\x1b[A", "\r"},
		{"j", "\x03"}, {"x", "y", "\r"}, {"jj", "\r"}, {"\x1b", "[B", "\r"}, {"send -t %1 0x6a\r", "\r"}, {"send -lt %1 j\r", "send -t %1 0xd\r"},
		{"send -t %1 0x6a", "\r"}, {"\t", "\t", "\r"}, {"END"}, {"j", "END"},
	}
	var flag atomic.Bool
	for _, seq := range seqs {
		srv := &x02Rec{t0: time.Now()}
		out := &x02Out{}
		f := &TrzszFilter{serverIn: srv, clientOut: out, options: TrzszOptions{TerminalColumns: 80}}
		f.trigger = &trzszTrigger{mode: 'R', version: &trzszVersion{1, 1, 8}}
		t := newTransfer(srv, nil, false, nil)
		f.transfer.Store(t)
		tr.Emit(map[string]any{"e": "reset"}, nil)
		xfer := func() string {
			if f.transfer.Load() == nil {
				return "none"
			}
			if t.stopAndDelete.Load() {
				return "stopdel"
			}
			if t.stopped.Load() {
				return "stopped"
			}
			if t.pausing.Load() {
				return "paused"
			}
			return "running"
		}
		send := func(s string) {
			before := srv.count()
			f.sendInput([]byte(s), &flag)
			fwd := []byte{}
			srv.mu.Lock()
			for _, w := range srv.w[before:] {
				fwd = append(fwd, w["data"].(string)...)
			}
			srv.mu.Unlock()
			tr.Emit(map[string]any{"e": "in", "chunk": x02Abstract([]byte(s), nil, true), "fwd": x02Abstract(fwd, nil, true)}, nil)
		}
		send("\x03")
		for i := 0; f.promptPipe.Load() == nil && i < 500; i++ {
			time.Sleep(2 * time.Millisecond)
		}
		time.Sleep(80 * time.Millisecond) // promptui starts reading
		for _, s := range seq {
			if s == "END" { // the transfer ends while the prompt is open: what handleTrzsz's defer does
				f.transfer.CompareAndSwap(t, nil)
				if pp := f.promptPipe.Load(); pp != nil {
					pp.Close()
					f.promptPipe.CompareAndSwap(pp, nil)
				}
				tr.Emit(map[string]any{"e": "ended"}, nil)
				continue
			}
			wasOpen := f.promptPipe.Load() != nil
			send(s)
			// let promptui consume; a choice shows as the pipe pointer going back to nil
			for i := 0; i < 150; i++ {
				time.Sleep(2 * time.Millisecond)
				if wasOpen && f.promptPipe.Load() == nil {
					break
				}
			}
			if wasOpen && f.promptPipe.Load() == nil {
				eff := map[string]string{"stopped": "stop", "stopdel": "stopdel", "running": "resume", "paused": "?"}[xfer()]
				tr.Emit(map[string]any{"e": "choice", "effect": eff}, nil)
			}
		}
		time.Sleep(50 * time.Millisecond)
		tr.Emit(map[string]any{"e": "state", "open": f.promptPipe.Load() != nil, "xfer": xfer()}, nil)
		if pp := f.promptPipe.Load(); pp != nil {
			pp.Close()
		}
		t.stopTransferringFiles(false)
	}
	return len(seqs), nil
}
