//go:build verif

package trzsz

// A chain of real TrzszRelay instances between the end-to-end harness's client and server:
//   client <-> relay[K-1] <-> ... <-> relay[0] <-> server
// The chain outlives single transfers (C14: a relay recovers after every transfer).

import (
	"bytes"
	"fmt"
	"io"
	"sync"
	"time"
)

type e2eChanReader struct {
	ch chan []byte
}

func (r *e2eChanReader) Read(p []byte) (int, error) {
	b, ok := <-r.ch
	if !ok {
		return 0, io.EOF
	}
	if len(b) > len(p) { // never happens with the relay's 32 KiB reads and our chunk sizes
		b = b[:len(p)]
	}
	return copy(p, b), nil
}

// e2eEOFReader closes eof when the wrapped reader reports its first error (end of stream).
type e2eEOFReader struct {
	r    io.Reader
	eof  chan struct{}
	once sync.Once
}

func (r *e2eEOFReader) Read(p []byte) (int, error) {
	n, err := r.r.Read(p)
	if err != nil {
		r.once.Do(func() { close(r.eof) })
	}
	return n, err
}

type e2eFuncWriter struct {
	fn func(b []byte)
}

func (w *e2eFuncWriter) Write(p []byte) (int, error) {
	w.fn(append([]byte(nil), p...))
	return len(p), nil
}
func (w *e2eFuncWriter) Close() error { return nil }

type e2eRelayChain struct {
	mu        sync.Mutex
	relays    []*TrzszRelay
	cin       []*e2eChanReader // cin[i]: relay i's clientIn
	sout      []*e2eChanReader // sout[i]: relay i's serverOut
	toClient  func(b []byte)   // current sink at the client end
	toServer  func(b []byte)   // current sink at the server end
	gotClient bytes.Buffer     // everything that came out at the client end since the last reset of the buffer
	gotServer bytes.Buffer
}

func newE2ERelayChain(k int) *e2eRelayChain {
	c := &e2eRelayChain{}
	for i := 0; i < k; i++ {
		c.cin = append(c.cin, &e2eChanReader{ch: make(chan []byte, 4096)})
		c.sout = append(c.sout, &e2eChanReader{ch: make(chan []byte, 4096)})
	}
	for i := 0; i < k; i++ {
		i := i
		// towards the server: relay i's serverIn feeds relay i-1's clientIn, relay 0 feeds the server end
		serverIn := &e2eFuncWriter{fn: func(b []byte) {
			if i == 0 {
				c.mu.Lock()
				c.gotServer.Write(b)
				sink := c.toServer
				c.mu.Unlock()
				if sink != nil {
					sink(b)
				}
			} else {
				c.cin[i-1].ch <- b
			}
		}}
		// towards the client: relay i's clientOut feeds relay i+1's serverOut, the last one the client end
		clientOut := &e2eFuncWriter{fn: func(b []byte) {
			if i == k-1 {
				c.mu.Lock()
				c.gotClient.Write(b)
				sink := c.toClient
				c.mu.Unlock()
				if sink != nil {
					sink(b)
				}
			} else {
				c.sout[i+1].ch <- b
			}
		}}
		c.relays = append(c.relays, NewTrzszRelay(c.cin[i], clientOut, serverIn, c.sout[i], TrzszOptions{}))
	}
	return c
}

func (c *e2eRelayChain) fromClient(b []byte) { c.cin[len(c.cin)-1].ch <- append([]byte(nil), b...) }
func (c *e2eRelayChain) fromServer(b []byte) { c.sout[0].ch <- append([]byte(nil), b...) }

func (c *e2eRelayChain) attach(toClient, toServer func(b []byte)) {
	c.mu.Lock()
	c.toClient, c.toServer = toClient, toServer
	c.gotClient.Reset()
	c.gotServer.Reset()
	c.mu.Unlock()
}

func (c *e2eRelayChain) waitClient(sub []byte, d time.Duration) bool {
	deadline := time.Now().Add(d)
	for {
		c.mu.Lock()
		ok := bytes.Contains(c.gotClient.Bytes(), sub)
		c.mu.Unlock()
		if ok {
			return true
		}
		if time.Now().After(deadline) {
			return false
		}
		time.Sleep(time.Millisecond)
	}
}

func (c *e2eRelayChain) waitServer(sub []byte, d time.Duration) bool {
	deadline := time.Now().Add(d)
	for {
		c.mu.Lock()
		ok := bytes.Contains(c.gotServer.Bytes(), sub)
		c.mu.Unlock()
		if ok {
			return true
		}
		if time.Now().After(deadline) {
			return false
		}
		time.Sleep(time.Millisecond)
	}
}

// statuses: the relayStatus of every relay (0 standby, 1 handshaking, 2 transferring)
func (c *e2eRelayChain) statuses() []int {
	var res []int
	for _, r := range c.relays {
		res = append(res, int(r.relayStatus.Load()))
	}
	return res
}

// probe sends unique plain bytes in both directions with no transfer attached and reports
// whether they came out unchanged, exactly once, at the other end.
func (c *e2eRelayChain) probe(tag int) (bool, bool) {
	c.attach(nil, nil)
	up := []byte(fmt.Sprintf("probe-up-%d \x1b[1m typed text\r", tag))
	down := []byte(fmt.Sprintf("probe-down-%d \x1b[0m output line\r\n", tag))
	c.fromClient(up)
	c.fromServer(down)
	okUp := c.waitServer(up, 3*time.Second)
	okDown := c.waitClient(down, 3*time.Second)
	time.Sleep(2 * time.Millisecond)
	c.mu.Lock()
	defer c.mu.Unlock()
	return okUp && bytes.Equal(c.gotServer.Bytes(), up), okDown && bytes.Equal(c.gotClient.Bytes(), down)
}

func (c *e2eRelayChain) close() {
	for i := range c.cin {
		close(c.cin[i].ch)
		close(c.sout[i].ch)
	}
}
