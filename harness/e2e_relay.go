//go:build verif

package trzsz

// A chain of real TrzszRelay instances between the end-to-end harness's client and server:
//   client <-> relay[K-1] <-> ... <-> relay[0] <-> server
// The chain outlives single transfers (C14: a relay recovers after every transfer).

import (
	"bytes"
	"fmt"
	"io"
	"strings"
	"sync"
	"time"
)

type e2eChanReader struct {
	ch chan []byte
}

func (r *e2eChanReader) Read(p []byte) (int, error) {
	b, ok := <-r.ch
	if !ok {
		return 0, io.EOF
	}
	if len(b) > len(p) { // never happens with the relay's 32 KiB reads and our chunk sizes
		b = b[:len(p)]
	}
	return copy(p, b), nil
}

// e2eEOFReader closes eof when the wrapped reader reports its first error (end of stream).
type e2eEOFReader struct {
	r    io.Reader
	eof  chan struct{}
	once sync.Once
}

func (r *e2eEOFReader) Read(p []byte) (int, error) {
	n, err := r.r.Read(p)
	if err != nil {
		r.once.Do(func() { close(r.eof) })
	}
	return n, err
}

type e2eFuncWriter struct {
	fn func(b []byte)
}

func (w *e2eFuncWriter) Write(p []byte) (int, error) {
	w.fn(append([]byte(nil), p...))
	return len(p), nil
}
func (w *e2eFuncWriter) Close() error { return nil }

type e2eRelayChain struct {
	mu        sync.Mutex
	relays    []*TrzszRelay
	cin       []*e2eChanReader // cin[i]: relay i's clientIn
	sout      []*e2eChanReader // sout[i]: relay i's serverOut
	toClient  func(b []byte)   // current sink at the client end
	toServer  func(b []byte)   // current sink at the server end
	gotClient bytes.Buffer     // everything that came out at the client end since the last reset of the buffer
	gotServer bytes.Buffer
	fedClient bytes.Buffer // everything fed in at the client end since the last attach
	fedServer bytes.Buffer
}

func newE2ERelayChain(k int) *e2eRelayChain {
	c := &e2eRelayChain{}
	for i := 0; i < k; i++ {
		c.cin = append(c.cin, &e2eChanReader{ch: make(chan []byte, 4096)})
		c.sout = append(c.sout, &e2eChanReader{ch: make(chan []byte, 4096)})
	}
	for i := 0; i < k; i++ {
		i := i
		// towards the server: relay i's serverIn feeds relay i-1's clientIn, relay 0 feeds the server end
		serverIn := &e2eFuncWriter{fn: func(b []byte) {
			if i == 0 {
				c.mu.Lock()
				c.gotServer.Write(b)
				sink := c.toServer
				c.mu.Unlock()
				if sink != nil {
					sink(b)
				}
			} else {
				c.cin[i-1].ch <- b
			}
		}}
		// towards the client: relay i's clientOut feeds relay i+1's serverOut, the last one the client end
		clientOut := &e2eFuncWriter{fn: func(b []byte) {
			if i == k-1 {
				c.mu.Lock()
				c.gotClient.Write(b)
				sink := c.toClient
				c.mu.Unlock()
				if sink != nil {
					sink(b)
				}
			} else {
				c.sout[i+1].ch <- b
			}
		}}
		c.relays = append(c.relays, NewTrzszRelay(c.cin[i], clientOut, serverIn, c.sout[i], TrzszOptions{}))
	}
	return c
}

func (c *e2eRelayChain) fromClient(b []byte) {
	c.mu.Lock()
	c.fedClient.Write(b)
	c.mu.Unlock()
	c.cin[len(c.cin)-1].ch <- append([]byte(nil), b...)
}
func (c *e2eRelayChain) fromServer(b []byte) {
	c.mu.Lock()
	c.fedServer.Write(b)
	c.mu.Unlock()
	c.sout[0].ch <- append([]byte(nil), b...)
}

// e2eChainLines: the complete lines of a stream without the lines a relay rewrites (ACT, CFG, the
// trigger) and without keep-alive / empty lines.
func e2eChainLines(b []byte) []string {
	var res []string
	for _, l := range bytes.Split(b, []byte("\n")) {
		s := string(bytes.TrimRight(l, "\r"))
		if s == "" || strings.HasPrefix(s, "#ACT:") || strings.HasPrefix(s, "#CFG:") || strings.Contains(s, "::TRZSZ") {
			continue
		}
		res = append(res, s)
	}
	return res
}

// conserved: every complete line fed in at one end since the last attach came out at the other end,
// once, in order (ACT / CFG / trigger lines are rewritten by a relay and are compared elsewhere).
// It waits up to d for lines still travelling through the chain.
func (c *e2eRelayChain) conserved(d time.Duration) (up, down bool, detail string) {
	deadline := time.Now().Add(d)
	for {
		c.mu.Lock()
		fc, gs := e2eChainLines(c.fedClient.Bytes()), e2eChainLines(c.gotServer.Bytes())
		fs, gc := e2eChainLines(c.fedServer.Bytes()), e2eChainLines(c.gotClient.Bytes())
		c.mu.Unlock()
		// the last fed line may be incomplete at either side: compare the common complete part
		cmp := func(fed, got []string) (bool, string) {
			if len(got) > len(fed) {
				return false, fmt.Sprintf("%d lines out for %d lines in", len(got), len(fed))
			}
			for i := range got {
				if got[i] != fed[i] {
					return false, fmt.Sprintf("line %d differs", i)
				}
			}
			if len(got) < len(fed)-1 {
				return false, fmt.Sprintf("%d of %d lines came out", len(got), len(fed))
			}
			return true, ""
		}
		var du, dd string
		up, du = cmp(fc, gs)
		down, dd = cmp(fs, gc)
		if (up && down) || time.Now().After(deadline) {
			return up, down, strings.TrimSpace(du + " " + dd)
		}
		time.Sleep(5 * time.Millisecond)
	}
}

func (c *e2eRelayChain) attach(toClient, toServer func(b []byte)) {
	c.mu.Lock()
	c.toClient, c.toServer = toClient, toServer
	c.gotClient.Reset()
	c.gotServer.Reset()
	c.fedClient.Reset()
	c.fedServer.Reset()
	c.mu.Unlock()
}

func (c *e2eRelayChain) waitClient(sub []byte, d time.Duration) bool {
	deadline := time.Now().Add(d)
	for {
		c.mu.Lock()
		ok := bytes.Contains(c.gotClient.Bytes(), sub)
		c.mu.Unlock()
		if ok {
			return true
		}
		if time.Now().After(deadline) {
			return false
		}
		time.Sleep(time.Millisecond)
	}
}

func (c *e2eRelayChain) waitServer(sub []byte, d time.Duration) bool {
	deadline := time.Now().Add(d)
	for {
		c.mu.Lock()
		ok := bytes.Contains(c.gotServer.Bytes(), sub)
		c.mu.Unlock()
		if ok {
			return true
		}
		if time.Now().After(deadline) {
			return false
		}
		time.Sleep(time.Millisecond)
	}
}

// statuses: the relayStatus of every relay (0 standby, 1 handshaking, 2 transferring)
func (c *e2eRelayChain) statuses() []int {
	var res []int
	for _, r := range c.relays {
		res = append(res, int(r.relayStatus.Load()))
	}
	return res
}

// probe sends unique plain bytes in both directions with no transfer attached and reports
// whether they came out unchanged, exactly once, at the other end.
func (c *e2eRelayChain) probe(tag int) (bool, bool) {
	c.attach(nil, nil)
	up := []byte(fmt.Sprintf("probe-up-%d \x1b[1m typed text\r", tag))
	down := []byte(fmt.Sprintf("probe-down-%d \x1b[0m output line\r\n", tag))
	c.fromClient(up)
	c.fromServer(down)
	okUp := c.waitServer(up, 20*time.Second)
	okDown := c.waitClient(down, 20*time.Second)
	time.Sleep(2 * time.Millisecond)
	c.mu.Lock()
	defer c.mu.Unlock()
	// exactly once; bytes of the transfer before that were still travelling through the chain may surround them
	return okUp && bytes.Count(c.gotServer.Bytes(), up) == 1, okDown && bytes.Count(c.gotClient.Bytes(), down) == 1
}

func (c *e2eRelayChain) close() {
	for i := range c.cin {
		close(c.cin[i].ch)
		close(c.sout[i].ch)
	}
}
