//go:build verif

package trzsz

// Point plans: a pipeline goroutine is held at one of its blocking operations (the vhook points of
// pipeline.go, one per action of spec/Pipeline.tla and spec/PipelineRecv.tla) while a fault, a stop or
// a pause happens, so that the cancellation reaches the pipeline in the configuration the model
// checker explores with capacity-1 channels: the stages in front of the held one blocked in their
// sends, the stages behind it waiting in their receives.  The verdict is still the observable one
// (TransferObs): results, time to return, what is left at the destination, goroutines left.

import (
	"os"
	"strconv"
	"strings"
	"sync"
	"syscall"
	"time"
)

var e2ePointWG sync.WaitGroup

// e2ePointStages: every hook point that a run passed, in first-seen order with counts (evidence:
// which model actions the real runs exercised).
var e2ePointSeen = map[string]int{}
var e2ePointMu sync.Mutex

func e2ePointWait() {
	done := make(chan struct{})
	go func() { e2ePointWG.Wait(); close(done) }()
	select {
	case <-done:
	case <-time.After(10 * time.Second):
	}
	verifHook = nil
}

func e2eInstallPoint(pt *e2ePoint, run int, tr *vTrace, w *e2eWire, client func() *trzszTransfer, server *trzszTransfer,
	f *TrzszFilter, dataDir string, emitLive func(map[string]any, func()) bool, stopAt *time.Time, addPause func(), setPaused func(bool),
	over <-chan struct{}) (didFire func() bool) {
	var mu sync.Mutex
	count, total := 0, 0
	fired := false
	happened := false
	didFire = func() bool {
		mu.Lock()
		defer mu.Unlock()
		return happened
	}
	verifHook = func(point string, args ...int) {
		if !strings.HasPrefix(point, "pipe") {
			return
		}
		e2ePointMu.Lock()
		e2ePointSeen[point]++
		e2ePointMu.Unlock()
		if point != pt.Name {
			return
		}
		mu.Lock()
		count++
		if len(args) > 0 {
			total += args[0]
		}
		hit := !fired && ((pt.Total == 0 && count == pt.Nth) || (pt.Total > 0 && total == pt.Total))
		if hit {
			fired = true
		}
		mu.Unlock()
		if !hit {
			return
		}
		e2ePointWG.Add(1)
		defer e2ePointWG.Done()
		sleepOr := func(ms int) bool { // false: the run is over
			select {
			case <-over:
				return false
			case <-time.After(time.Duration(ms) * time.Millisecond):
				return true
			}
		}
		if !sleepOr(pt.SettleMs) {
			return
		}
		mu.Lock()
		happened = true
		mu.Unlock()
		switch pt.Kind {
		case "silence":
			*stopAt = time.Now()
			emitLive(map[string]any{"e": "fault", "run": run, "at": pt.Name, "kind": "silence"}, func() {
				w.mu.Lock()
				w.c2s.silent, w.s2c.silent = true, true
				w.mu.Unlock()
			})
		case "writeerr":
			*stopAt = time.Now()
			emitLive(map[string]any{"e": "fault", "run": run, "at": pt.Name, "kind": "writeerr"}, func() {
				// the direction the file data flows in breaks; the other one still carries the fail line
				w.mu.Lock()
				if dataDir == "c2s" {
					w.c2s.writeErr = e2eErr("connection reset by verif harness")
				} else {
					w.s2c.writeErr = e2eErr("connection reset by verif harness")
				}
				w.mu.Unlock()
			})
		case "dstfull":
			// the destination runs full under the open file: its descriptor now refers to /dev/full, the next write fails
			*stopAt = time.Now()
			emitLive(map[string]any{"e": "fault", "run": run, "at": pt.Name, "kind": "dstfull"}, func() { e2eFillDestination(e2ePointDst) })
		case "stopC", "stopCdel", "stopV":
			*stopAt = time.Now()
			emitLive(map[string]any{"e": "stop", "run": run, "g": -1, "phase": "at:" + pt.Name, "role": pt.Kind[4:5], "del": pt.Kind == "stopCdel"}, func() {
				if pt.Kind == "stopV" {
					server.stopTransferringFiles(false)
				} else {
					f.StopTransferringFiles(pt.Kind == "stopCdel")
				}
			})
		case "pause":
			if t := client(); t != nil {
				addPause()
				*stopAt = time.Now()
				tr.Emit(map[string]any{"e": "pause", "run": run, "g": -1}, func() {
					t.pauseTransferringFiles()
					setPaused(true)
				})
				e2ePointWG.Add(1)
				go func() {
					defer e2ePointWG.Done()
					if !sleepOr(pt.ResumeMs) {
						return
					}
					setPaused(false)
					emitLive(map[string]any{"e": "resume", "run": run}, func() { t.resumeTransferringFiles() })
				}()
			}
		}
		if pt.HoldMs > 0 {
			sleepOr(pt.HoldMs)
			return
		}
		// the time the harness itself kept the goroutine is not time the code took to react
		if sleepOr(pt.ReleaseMs) && pt.Kind != "none" && pt.Kind != "pause" {
			*stopAt = time.Now()
		}
	}
	return didFire
}

// e2ePointNames: the hook points of the sending and of the receiving pipeline.
var e2ePointSender = []string{"pipeline.read", "pipe.rd.put", "pipe.md.got", "pipe.md.sum", "pipe.enc.got", "pipe.enc.deliver",
	"pipe.enc.wait", "pipe.snd.got", "pipe.snd.ack", "pipe.ack.got", "pipe.ack.final", "pipe.ack.succ", "pipe.main.select"}
var e2ePointReceiver = []string{"pipe.rcv.read", "pipe.rcv.ack", "pipe.rcv.put", "pipe.sack.got", "pipe.sack.final", "pipe.sack.succ",
	"pipe.dec.read", "pipe.dec.put", "pipe.md.got", "pipe.md.sum", "pipe.sav.got", "pipe.sav.done", "pipe.rmain.select"}

var e2ePointDst string

// e2eFillDestination: every regular file this process holds open under root gets the descriptor of /dev/full (dup2):
// what has been written stays, every further write fails with ENOSPC, as on a file system that has just run full.
func e2eFillDestination(root string) int {
	full, err := syscall.Open("/dev/full", syscall.O_WRONLY, 0)
	if err != nil {
		return 0
	}
	defer syscall.Close(full)
	ents, _ := os.ReadDir("/proc/self/fd")
	n := 0
	for _, e := range ents {
		fd, err := strconv.Atoi(e.Name())
		if err != nil || fd == full {
			continue
		}
		link, err := os.Readlink("/proc/self/fd/" + e.Name())
		if err != nil || !strings.HasPrefix(link, root+"/") {
			continue
		}
		if syscall.Dup2(full, fd) == nil {
			n++
		}
	}
	return n
}
