//go:build verif

package trzsz

import (
	"encoding/json"
	"fmt"
	"os"
	"os/exec"
	"path/filepath"
	"strconv"
	"strings"
	"sync"
)

// vShards runs `child(i, n)` in n child processes (the test binary re-executed with
// VERIF_SHARD=i/n, output dir <out>/shard-i) and sums the integer values of their summaries
// into the parent's.  In a child, it simply calls child(i, n).  Process isolation keeps global
// switches (os.Stdout, SetAffectedByWindows, rlimits) and panics local to one shard.
func vShards(d *vCtx, n int, child func(i, n int) error) error {
	if sh := os.Getenv("VERIF_SHARD"); sh != "" {
		parts := strings.Split(sh, "/")
		i, _ := strconv.Atoi(parts[0])
		k, _ := strconv.Atoi(parts[1])
		return child(i, k)
	}
	var wg sync.WaitGroup
	errs := make([]error, n)
	outs := make([]string, n)
	var crashMu sync.Mutex
	var crashes []map[string]any
	for i := 0; i < n; i++ {
		wg.Add(1)
		go func(i int) {
			defer wg.Done()
			resumeAfter := -1
			for attempt := 0; attempt < 40; attempt++ {
				name := fmt.Sprintf("shard-%02d", i)
				if attempt > 0 {
					name = fmt.Sprintf("shard-%02d-r%d", i, attempt)
				}
				dir := filepath.Join(d.out, name)
				_ = os.MkdirAll(dir, 0755)
				cmd := exec.Command(os.Args[0], "-test.run", "^TestVerifDriver$", "-test.timeout", "60m")
				cmd.Env = append(os.Environ(), fmt.Sprintf("VERIF_SHARD=%d/%d", i, n), "VERIF_OUT="+dir,
					fmt.Sprintf("VERIF_RESUME_AFTER=%d", resumeAfter))
				cmd.Dir = dir
				b, err := cmd.CombinedOutput()
				outs[i] = string(b)
				if err == nil {
					errs[i] = nil
					// the child asked to be replaced by a fresh process for the remaining jobs
					var m map[string]any
					if b, rerr := os.ReadFile(filepath.Join(dir, "restart.json")); rerr == nil && json.Unmarshal(b, &m) == nil {
						job, _ := m["job"].(float64)
						resumeAfter = int(job)
						continue
					}
					return
				}
				tail := outs[i]
				if len(tail) > 3000 {
					tail = tail[len(tail)-3000:]
				}
				errs[i] = fmt.Errorf("shard %d: %v\n%s", i, err, tail)
				// a child that marked its current job before dying is resumed after that job
				cur, rerr := os.ReadFile(filepath.Join(dir, "current.json"))
				if rerr != nil {
					return
				}
				var m map[string]any
				if json.Unmarshal(cur, &m) != nil {
					return
				}
				job, _ := m["job"].(float64)
				head := outs[i]
				if len(head) > 1500 {
					head = head[:1500]
				}
				crashMu.Lock()
				crashes = append(crashes, map[string]any{"shard": i, "job": int(job), "current": m, "error": err.Error(), "output_head": head})
				crashMu.Unlock()
				resumeAfter = int(job)
				errs[i] = nil
			}
		}(i)
	}
	wg.Wait()
	crashed := 0
	if len(crashes) > 0 {
		_ = vWriteJSON(filepath.Join(d.out, "crashes.json"), crashes)
	}
	d.set("job_crashes", len(crashes))
	for i := 0; i < n; i++ {
		if errs[i] != nil {
			crashed++
			_ = os.WriteFile(filepath.Join(d.out, fmt.Sprintf("shard-%02d.crash.txt", i)), []byte(errs[i].Error()+"\n"+outs[i]), 0644)
			continue
		}
		dirs, _ := filepath.Glob(filepath.Join(d.out, fmt.Sprintf("shard-%02d*", i)))
		for _, dir := range dirs {
			b, err := os.ReadFile(filepath.Join(dir, "summary.json"))
			if err != nil {
				continue // an attempt that died wrote no summary
			}
			var m map[string]any
			if err := json.Unmarshal(b, &m); err != nil {
				return err
			}
			for k, v := range m {
				if f, ok := v.(float64); ok {
					d.add(k, int(f))
				}
			}
		}
	}
	d.set("shards", n)
	d.set("shards_crashed", crashed)
	if crashed > 0 && os.Getenv("VERIF_SHARD_CRASH_OK") == "" {
		for _, e := range errs {
			if e != nil {
				return e
			}
		}
	}
	return nil
}

// vResumeAfter: jobs with an index <= this value were already attempted by an earlier
// incarnation of this shard (the last of them killed it).
func vResumeAfter() int {
	n, err := strconv.Atoi(os.Getenv("VERIF_RESUME_AFTER"))
	if err != nil {
		return -1
	}
	return n
}

// vMarkCurrent records the job about to run, so that a crash can be attributed to it.
func vMarkCurrent(d *vCtx, job int, v any) {
	_ = vWriteJSON(d.path("current.json"), map[string]any{"job": job, "case": v})
}

// vRequestRestart: the job just finished left goroutines of the code under test behind (a role did
// not return); they would write into the next run's terminal, files and captured stdout.  The
// child finishes normally after this job and the parent starts a fresh process for the rest.
func vRequestRestart(d *vCtx, job int) {
	_ = vWriteJSON(d.path("restart.json"), map[string]any{"job": job})
}
