//go:build verif

package trzsz

import (
	"encoding/json"
	"fmt"
	"os"
	"os/exec"
	"path/filepath"
	"strconv"
	"strings"
	"sync"
)

// vShards runs `child(i, n)` in n child processes (the test binary re-executed with
// VERIF_SHARD=i/n, output dir <out>/shard-i) and sums the integer values of their summaries
// into the parent's.  In a child, it simply calls child(i, n).  Process isolation keeps global
// switches (os.Stdout, SetAffectedByWindows, rlimits) and panics local to one shard.
func vShards(d *vCtx, n int, child func(i, n int) error) error {
	if sh := os.Getenv("VERIF_SHARD"); sh != "" {
		parts := strings.Split(sh, "/")
		i, _ := strconv.Atoi(parts[0])
		k, _ := strconv.Atoi(parts[1])
		return child(i, k)
	}
	var wg sync.WaitGroup
	errs := make([]error, n)
	outs := make([]string, n)
	for i := 0; i < n; i++ {
		wg.Add(1)
		go func(i int) {
			defer wg.Done()
			dir := filepath.Join(d.out, fmt.Sprintf("shard-%02d", i))
			_ = os.MkdirAll(dir, 0755)
			cmd := exec.Command(os.Args[0], "-test.run", "^TestVerifDriver$", "-test.timeout", "60m")
			cmd.Env = append(os.Environ(), fmt.Sprintf("VERIF_SHARD=%d/%d", i, n), "VERIF_OUT="+dir)
			cmd.Dir = dir
			b, err := cmd.CombinedOutput()
			outs[i] = string(b)
			if err != nil {
				tail := outs[i]
				if len(tail) > 3000 {
					tail = tail[len(tail)-3000:]
				}
				errs[i] = fmt.Errorf("shard %d: %v\n%s", i, err, tail)
			}
		}(i)
	}
	wg.Wait()
	crashed := 0
	for i := 0; i < n; i++ {
		if errs[i] != nil {
			crashed++
			_ = os.WriteFile(filepath.Join(d.out, fmt.Sprintf("shard-%02d.crash.txt", i)), []byte(errs[i].Error()+"\n"+outs[i]), 0644)
			continue
		}
		b, err := os.ReadFile(filepath.Join(d.out, fmt.Sprintf("shard-%02d", i), "summary.json"))
		if err != nil {
			return err
		}
		var m map[string]any
		if err := json.Unmarshal(b, &m); err != nil {
			return err
		}
		for k, v := range m {
			if f, ok := v.(float64); ok {
				d.add(k, int(f))
			}
		}
	}
	d.set("shards", n)
	d.set("shards_crashed", crashed)
	if crashed > 0 && os.Getenv("VERIF_SHARD_CRASH_OK") == "" {
		for _, e := range errs {
			if e != nil {
				return e
			}
		}
	}
	return nil
}
